(* Little/big-endian fixed-width integers over byte lists. A byte is an N below 256. *)
From Coq Require Import NArith List Lia ZArith.
From Coq Require Import ZifyN ZifyNat ZifyBool.
Import ListNotations.
Local Open Scope N_scope.

Ltac Zify.zify_post_hook ::= Z.div_mod_to_equations.

Definition byte_ok (b : N) : Prop := b < 256.
Definition bytes_ok (bs : list N) : Prop := Forall byte_ok bs.

(* k little-endian bytes of n (low byte first) *)
Fixpoint le_bytes (k : nat) (n : N) : list N :=
  match k with
  | O => []
  | S k' => n mod 256 :: le_bytes k' (n / 256)
  end.

(* value of a little-endian byte list *)
Fixpoint rd_le (bs : list N) : N :=
  match bs with
  | [] => 0
  | b :: r => b + 256 * rd_le r
  end.

Definition be_bytes (k : nat) (n : N) : list N := rev (le_bytes k n).
Definition rd_be (bs : list N) : N := rd_le (rev bs).

Inductive endian := BE | LE.

Definition put (e : endian) (k : nat) (n : N) : list N :=
  match e with LE => le_bytes k n | BE => be_bytes k n end.
Definition get (e : endian) (bs : list N) : N :=
  match e with LE => rd_le bs | BE => rd_be bs end.

(* split off exactly k bytes *)
Fixpoint take (k : nat) (bs : list N) : option (list N * list N) :=
  match k with
  | O => Some ([], bs)
  | S k' => match bs with
            | [] => None
            | b :: r => match take k' r with
                        | Some (h, t) => Some (b :: h, t)
                        | None => None
                        end
            end
  end.

Lemma le_bytes_length k n : length (le_bytes k n) = k.
Proof. revert n; induction k; simpl; intros; auto. Qed.

Lemma put_length e k n : length (put e k n) = k.
Proof. destruct e; unfold put, be_bytes; rewrite ?rev_length; apply le_bytes_length. Qed.

Lemma le_bytes_ok k n : bytes_ok (le_bytes k n).
Proof.
  revert n; induction k; simpl; intros; constructor.
  - unfold byte_ok. lia.
  - apply IHk.
Qed.

Lemma put_ok e k n : bytes_ok (put e k n).
Proof.
  destruct e; unfold put, be_bytes.
  - apply Forall_rev. apply le_bytes_ok.
  - apply le_bytes_ok.
Qed.

Lemma rd_le_bytes k n : n < 256 ^ (N.of_nat k) -> rd_le (le_bytes k n) = n.
Proof.
  revert n; induction k; intros n H.
  - simpl in *. lia.
  - cbn [le_bytes rd_le]. rewrite IHk.
    + lia.
    + rewrite Nat2N.inj_succ, N.pow_succ_r' in H. lia.
Qed.

Lemma get_put e k n : n < 256 ^ (N.of_nat k) -> get e (put e k n) = n.
Proof.
  intros H. destruct e; unfold get, put, rd_be, be_bytes; rewrite ?rev_involutive;
    apply rd_le_bytes; exact H.
Qed.

Lemma take_app k (a b : list N) : length a = k -> take k (a ++ b) = Some (a, b).
Proof.
  revert a; induction k; intros a H.
  - destruct a; simpl in *; [reflexivity|discriminate].
  - destruct a as [|x a]; simpl in *; [discriminate|].
    rewrite IHk by lia. reflexivity.
Qed.

Lemma take_spec k bs h t : take k bs = Some (h, t) -> bs = h ++ t /\ length h = k.
Proof.
  revert bs h t; induction k; intros bs h t H; simpl in H.
  - inversion H; subst. auto.
  - destruct bs as [|b r]; [discriminate|].
    destruct (take k r) as [[h' t']|] eqn:E; [|discriminate].
    inversion H; subst. apply IHk in E. destruct E as [-> <-]. auto.
Qed.

Lemma take_none k bs : take k bs = None <-> (length bs < k)%nat.
Proof.
  revert bs; induction k; intros bs; simpl.
  - split; [discriminate|lia].
  - destruct bs as [|b r]; simpl.
    + split; [lia|reflexivity].
    + specialize (IHk r). destruct (take k r) as [[h t]|].
      * split; [discriminate|]. intros H. assert (length r < k)%nat by lia.
        apply IHk in H0. discriminate.
      * split; [intros _|reflexivity]. assert (length r < k)%nat by (apply IHk; reflexivity). lia.
Qed.

(* value bound of rd_le *)
Lemma rd_le_bound bs : bytes_ok bs -> rd_le bs < 256 ^ (N.of_nat (length bs)).
Proof.
  induction 1 as [|b r Hb Hr IH].
  - simpl. lia.
  - cbn [rd_le length]. rewrite Nat2N.inj_succ, N.pow_succ_r'. unfold byte_ok in Hb. lia.
Qed.

Lemma le_bytes_rd bs : bytes_ok bs -> le_bytes (length bs) (rd_le bs) = bs.
Proof.
  induction 1 as [|b r Hb Hr IH].
  - reflexivity.
  - cbn [rd_le length le_bytes]. unfold byte_ok in Hb.
    replace ((b + 256 * rd_le r) mod 256) with b by lia.
    replace ((b + 256 * rd_le r) / 256) with (rd_le r) by lia.
    rewrite IH. reflexivity.
Qed.

Lemma put_get e bs : bytes_ok bs -> put e (length bs) (get e bs) = bs.
Proof.
  intros H. destruct e; unfold put, get, be_bytes, rd_be.
  - rewrite <- (rev_length bs). rewrite le_bytes_rd.
    + apply rev_involutive.
    + apply Forall_rev. exact H.
  - apply le_bytes_rd. exact H.
Qed.
