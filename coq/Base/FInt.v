(* The integer fragment of the translated function bodies (coq/Gen/FuncsInt.v, written by
   tools/gen_funcs from the Go source on every run; DESIGN.md A.8): fixed-width integers of Go as
   values of Z, with the wrap-around of Go's arithmetic written out.

   Go                                   Gallina
   a + b, a - b, a * b, -a  at type T   wrap_T (Z.add a b) .. : reduced into the range of T
   a / b, a % b                         wrap_T (Z.quot a b), wrap_T (Z.rem a b)  (truncated, as in Go)
   a & b, a | b, a ^ b, a &^ b, ^a      wrap_T (Z.land / Z.lor / Z.lxor / Z.ldiff a b), wrap_T (Z.lnot a)
                                        (Z's bit operations are those of infinite two's complement)
   a << s, a >> s  (s unsigned)         wrap_T (Z.shiftl a s), wrap_T (Z.shiftr a s)  (>> on a negative
                                        value is the arithmetic shift, as in Go)
   T(x) for integer x                   wrap_T x
   comparisons                          Z.ltb .. on the values (always inside the range of their type)
   uint8/byte, uint16, uint32, uint64   wrap_u8 .. wrap_u64 : z mod 2^n
   int8, int16, int32, int64            wrap_i8 .. wrap_i64 : two's complement, [-2^(n-1), 2^(n-1))
   int, uint                            64 bits wide (the platforms the library is tested on)
   for cond { body }                    [while_loop cond body fuel state]: structural recursion on a
                                        fuel derived from the loop (see tools/gen_funcs/int.go); the
                                        condition is translated literally and tested before every
                                        iteration; if the fuel runs out while it holds: LErr
   s[:hi], s[lo:], s[lo:hi]             slice_to / slice_from / slice_range: options, None when a bound
                                        is outside 0 .. len(s) ("slice bounds out of range")
   append(a, b...)                      app a b
   var buf [N]T                         repeat zero N *)
From Coq Require Import String ZArith List Bool.
From SF Require Import Base.FOps Base.FLoop.
Import ListNotations.
Open Scope Z_scope.

Definition wrap_u (n : Z) (z : Z) : Z := z mod 2 ^ n.
Definition wrap_i (n : Z) (z : Z) : Z := (z + 2 ^ (n - 1)) mod 2 ^ n - 2 ^ (n - 1).
Definition wrap_u8 := wrap_u 8.   Definition wrap_u16 := wrap_u 16.
Definition wrap_u32 := wrap_u 32. Definition wrap_u64 := wrap_u 64.
Definition wrap_i8 := wrap_i 8.   Definition wrap_i16 := wrap_i 16.
Definition wrap_i32 := wrap_i 32. Definition wrap_i64 := wrap_i 64.

Definition slice_to {A : Type} (l : list A) (hi : Z) : option (list A) :=
  if orb (hi <? 0) (Z.of_nat (length l) <? hi) then None else Some (firstn (Z.to_nat hi) l).
Definition slice_from {A : Type} (l : list A) (lo : Z) : option (list A) :=
  if orb (lo <? 0) (Z.of_nat (length l) <? lo) then None else Some (skipn (Z.to_nat lo) l).
Definition slice_range {A : Type} (l : list A) (lo hi : Z) : option (list A) :=
  if orb (orb (lo <? 0) (hi <? lo)) (Z.of_nat (length l) <? hi) then None
  else Some (firstn (Z.to_nat (hi - lo)) (skipn (Z.to_nat lo) l)).

Fixpoint while_loop {S R : Type} (cond : S -> bool) (body : S -> step S R) (fuel : nat) (s : S)
  : loop_res S R :=
  match fuel with
  | O => if cond s then LErr "loop bound of the translation exceeded"%string else LDone s
  | Datatypes.S k =>
      if cond s then
        match body s with
        | SNext s' => while_loop cond body k s'
        | SBreak s' => LDone s'
        | SReturn r => LRet r
        | SFail m => LErr m
        end
      else LDone s
  end.
