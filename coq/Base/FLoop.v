(* The loop fragment of the translated function bodies (coq/Gen/FuncsLoop.v, written by
   tools/gen_funcs from the Go source on every run; DESIGN.md A.8): what the generator writes for
   sequences, indexing and loops.

   Go                                   Gallina
   geom.Sequence, []T, [N]T, ...T       list T   (a Sequence is the list of its Coordinates)
   seq.Length(), len(s)                 Z.of_nat (length l)
   seq.Get(i), s[i]                     [lookup l i]: an option; the translated statement is
                                        wrapped in  match lookup l i with Some e => .. | None =>
                                        Unknown "index out of range" end  - an access outside the
                                        range is an explicit outcome, never a default element
   seq.GetXY(i)                         the XY field of the element obtained in the same way
   s[i] = v                             [list_set l i v]: an option, None outside the range
   make([]T, n)                         [make_list n zero]: an option, None for a negative n
   f(x) for a func-typed argument f     f is an option (None is Go's nil func); calling None is
                                        the outcome Unknown "call of a nil func"
   panic(..)                            the outcome Unknown "panic: <message>"
   seq.CoordinatesType(),               f_seq_ctype l, f_seq_new floats ctype: operations supplied by
   geom.NewSequence(floats, ctype)      the instantiation (they depend on the flat representation of a
                                        Sequence, which is not translated), like math.Inf / Ceil /
                                        Floor / Ilogb / Ldexp and int(x) of a float (f_inf, f_ceil, ..)
   for i := a; i+c < b; i += k {body}   [for_loop cond body k fuel a state]: structural recursion on
                                        [fuel] = (b - (a+c)) (+1 for <=), an upper bound of the
                                        number of iterations computed from the loop header; the
                                        condition itself is translated literally and tested before
                                        every iteration; should the fuel run out while the condition
                                        still holds the outcome is LErr (never a silent stop)
   for i, x := range s {body}           [range_loop body s 0 state]: structural recursion on s
   the variables the body assigns       the state (a tuple) threaded through the iterations
   continue / end of the body           SNext state
   break                                SBreak state
   return v                             SReturn v
   an outcome Unknown inside the body   SFail reason

   A function of the fragment that contains one of these constructs (or calls one that does)
   returns [partial T] (Base/FOps.v): [Known v] for a normal return, [Unknown reason] for a run-time
   panic of the Go code. *)
From Coq Require Import ZArith List String.
From SF Require Import Base.FOps.
Import ListNotations.
Open Scope Z_scope.

Definition lookup {A : Type} (l : list A) (i : Z) : option A :=
  if i <? 0 then None else nth_error l (Z.to_nat i).

Fixpoint list_set_nat {A : Type} (l : list A) (n : nat) (v : A) : option (list A) :=
  match l, n with
  | [], _ => None
  | _ :: r, O => Some (v :: r)
  | x :: r, S k => match list_set_nat r k v with Some r' => Some (x :: r') | None => None end
  end.
Definition list_set {A : Type} (l : list A) (i : Z) (v : A) : option (list A) :=
  if i <? 0 then None else list_set_nat l (Z.to_nat i) v.

Definition make_list {A : Type} (n : Z) (zero : A) : option (list A) :=
  if n <? 0 then None else Some (repeat zero (Z.to_nat n)).

Definition is_nil_func {A : Type} (f : option A) : bool :=
  match f with Some _ => false | None => true end.

(* the outcome of one execution of a loop body / of a whole loop; S is the type of the state (the
   variables assigned by the body), R the result type of the enclosing function *)
Inductive step (S R : Type) : Type :=
| SNext (s : S) | SBreak (s : S) | SReturn (r : R) | SFail (reason : string).
Arguments SNext {S R} _. Arguments SBreak {S R} _. Arguments SReturn {S R} _. Arguments SFail {S R} _.

Inductive loop_res (S R : Type) : Type :=
| LDone (s : S) | LRet (r : R) | LErr (reason : string).
Arguments LDone {S R} _. Arguments LRet {S R} _. Arguments LErr {S R} _.

Fixpoint for_loop {S R : Type} (cond : Z -> bool) (body : Z -> S -> step S R) (incr : Z)
         (fuel : nat) (i : Z) (s : S) : loop_res S R :=
  match fuel with
  | O => if cond i then LErr "loop bound of the translation exceeded"%string else LDone s
  | Datatypes.S k =>
      if cond i then
        match body i s with
        | SNext s' => for_loop cond body incr k (i + incr) s'
        | SBreak s' => LDone s'
        | SReturn r => LRet r
        | SFail m => LErr m
        end
      else LDone s
  end.

Fixpoint range_loop {A S R : Type} (body : Z -> A -> S -> step S R) (l : list A) (i : Z) (s : S)
  : loop_res S R :=
  match l with
  | [] => LDone s
  | x :: r =>
      match body i x s with
      | SNext s' => range_loop body r (i + 1) s'
      | SBreak s' => LDone s'
      | SReturn r' => LRet r'
      | SFail m => LErr m
      end
  end.
