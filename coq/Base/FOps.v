(* The abstract ordinate carrier of the translated function bodies (coq/Gen/Funcs.v, written by
   tools/gen_funcs from the Go source on every run; DESIGN.md A.8).  A Go function over float64 is
   translated operator by operator into a Gallina definition over a type F with a record [fops F]
   of the operations float64 offers; nothing is simplified or reordered by the translator.  The
   tie files coq/Proofs/Funcs_tie_*.v instantiate the record with the carrier of the hand-written
   model (Z, Q) and prove that the translated body and the model function agree on all arguments.

   Go                      Gallina
   a + b, a - b, a * b     f_add, f_sub, f_mul
   a / b                   f_div      (exact in Q; floor division in Z: only division-free
                                       functions are meaningful over Z)
   -a                      f_neg
   literal 3 / 0.5         f_of_Z 3 / f_div (f_of_Z 1) (f_of_Z 2)   (lowest terms)
   a < b, a <= b           f_ltb, f_leb
   a > b, a >= b           f_gtb, f_geb   (kept apart from < and <=: the translation is literal)
   a == b, a != b          f_eqb, negb (f_eqb ..)
   math.Min/Max/Abs        f_min, f_max, f_abs
   math.Sqrt, math.Hypot   f_sqrt, f_hypot
   math.IsNaN(a)           f_is_nan
   math.IsInf(a, 0)        f_is_inf
   Comparisons are booleans (equality of Q is a setoid equality; Qeq_bool decides it). *)
From Coq Require Import ZArith QArith Qabs Qminmax Bool String.

Record fops (F : Type) := MkFOps {
  f_add : F -> F -> F;
  f_sub : F -> F -> F;
  f_mul : F -> F -> F;
  f_div : F -> F -> F;
  f_neg : F -> F;
  f_of_Z : Z -> F;
  f_ltb : F -> F -> bool;
  f_leb : F -> F -> bool;
  f_gtb : F -> F -> bool;
  f_geb : F -> F -> bool;
  f_eqb : F -> F -> bool;
  f_min : F -> F -> F;
  f_max : F -> F -> F;
  f_abs : F -> F;
  f_sqrt : F -> F;
  f_hypot : F -> F -> F;
  f_is_nan : F -> bool;
  f_is_inf : F -> bool
}.
Arguments MkFOps {F}.
Arguments f_add {F} _ _ _. Arguments f_sub {F} _ _ _. Arguments f_mul {F} _ _ _.
Arguments f_div {F} _ _ _. Arguments f_neg {F} _ _. Arguments f_of_Z {F} _ _.
Arguments f_ltb {F} _ _ _. Arguments f_leb {F} _ _ _. Arguments f_gtb {F} _ _ _.
Arguments f_geb {F} _ _ _. Arguments f_eqb {F} _ _ _.
Arguments f_min {F} _ _ _. Arguments f_max {F} _ _ _. Arguments f_abs {F} _ _.
Arguments f_sqrt {F} _ _. Arguments f_hypot {F} _ _ _.
Arguments f_is_nan {F} _ _. Arguments f_is_inf {F} _ _.

(* What the generator writes for a function it cannot find or cannot translate: a value of a
   type no model function has, so that every tie lemma mentioning the function fails to
   type-check (the obligation fails, not the tool). *)
Inductive untranslatable_t : Set := untranslatable (reason : string).

(* Partial translation (only for functions the generator is told to translate partially): the
   result of the paths that lie inside the fragment is [Known v]; a path that runs into a
   statement outside the fragment yields [Unknown reason]. *)
Inductive partial (A : Type) : Type := Known (v : A) | Unknown (reason : string).
Arguments Known {A} _. Arguments Unknown {A} _.

(* ---------------------------------------------------------------- Z: the integer lattice *)
Definition zops : fops Z :=
  MkFOps Z.add Z.sub Z.mul Z.div Z.opp (fun z => z)
         Z.ltb Z.leb Z.gtb Z.geb Z.eqb
         Z.min Z.max Z.abs Z.sqrt (fun a b => Z.sqrt (a * a + b * b))
         (fun _ => false) (fun _ => false).

(* ---------------------------------------------------------------- Q: exact rationals
   The comparisons are the ones the hand-written models use (Base/QKernel.v): a <= b is
   [Qle_bool a b], a < b is [negb (Qle_bool b a)] (QKernel.qltb), a == b is [Qeq_bool a b];
   a > b and a >= b are b < a and b <= a.  There is no square root in Q: [qops_with sq hy] takes
   the two root operations as arguments (a tie about a function that calls math.Sqrt/math.Hypot
   quantifies over them); [qops] puts the constant 0 there and is meant for root-free functions. *)
Definition q_ltb (a b : Q) : bool := negb (Qle_bool b a).
Definition qops_with (sq : Q -> Q) (hy : Q -> Q -> Q) : fops Q :=
  MkFOps Qplus Qminus Qmult Qdiv Qopp inject_Z
         q_ltb Qle_bool (fun a b => q_ltb b a) (fun a b => Qle_bool b a) Qeq_bool
         Qmin Qmax Qabs sq hy
         (fun _ => false) (fun _ => false).
Definition qops : fops Q := qops_with (fun _ => 0%Q) (fun _ _ => 0%Q).
