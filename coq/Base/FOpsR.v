(* The real-number instance of the ordinate carrier of coq/Base/FOps.v, kept in a file of its own:
   Coq's Reals rest on the axioms of the standard library (ClassicalDedekindReals.sig_forall_dec,
   sig_not_dec, functional_extensionality_dep), which only a property that needs R - square roots,
   hypot (C19, lengths in C14) - should load and list in its trusted base.  The comparisons are
   the booleans of the decidable total order ([Rlt_dec], [Rle_dec], [Req_EM_T]). *)
From Coq Require Import Reals ZArith Bool.
From SF Require Import Base.FOps.
Open Scope R_scope.

Definition r_ltb (a b : R) : bool := if Rlt_dec a b then true else false.
Definition r_leb (a b : R) : bool := if Rle_dec a b then true else false.
Definition r_eqb (a b : R) : bool := if Req_EM_T a b then true else false.

Definition rops : fops R :=
  MkFOps Rplus Rminus Rmult Rdiv Ropp IZR
         r_ltb r_leb (fun a b => r_ltb b a) (fun a b => r_leb b a) r_eqb
         Rmin Rmax Rabs sqrt (fun a b => sqrt (a * a + b * b))
         (fun _ => false) (fun _ => false).

Lemma r_ltb_iff a b : r_ltb a b = true <-> a < b.
Proof. unfold r_ltb. destruct (Rlt_dec a b); split; intro; auto; try discriminate; contradiction. Qed.
Lemma r_leb_iff a b : r_leb a b = true <-> a <= b.
Proof. unfold r_leb. destruct (Rle_dec a b); split; intro; auto; try discriminate; contradiction. Qed.
Lemma r_eqb_iff a b : r_eqb a b = true <-> a = b.
Proof. unfold r_eqb. destruct (Req_EM_T a b); split; intro; auto; try discriminate; contradiction. Qed.
