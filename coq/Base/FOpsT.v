(* The carrier of the translated bodies of package carto (coq/Gen/FuncsCarto.v, written by
   tools/gen_funcs from the Go source on every run; DESIGN.md A.8): the operation record of
   coq/Base/FOps.v extended with pi and the elementary functions of Go's package math.  The
   translator writes every call literally:

   Go                       Gallina
   (everything of FOps.v)   f_add (t_base T) .. etc., written [ops] in the generated file
   math.Pi                  t_pi T        (an operand, never folded into a constant expression:
                                           `π/4` becomes f_div (t_pi T) (f_of_Z 4))
   math.Sin/Cos/Tan         t_sin, t_cos, t_tan
   math.Asin/Acos/Atan      t_asin, t_acos, t_atan
   math.Atan2(y, x)         t_atan2 T y x
   math.Exp, math.Log       t_exp, t_log
   math.Pow(x, y)           t_pow T x y
   math.Copysign(a, b)      t_copysign T a b
   math.Sqrt, math.Hypot    f_sqrt, f_hypot of the base record

   The real-number instance [rops_t] uses the functions of Coq's Reals that coq/Model/Carto.v uses
   (sin cos tan atan asin acos exp ln Rpower sqrt PI), so that the tie lemmas
   (coq/Proofs/Funcs_tie_Carto.v) are equalities of terms.  It loads the axioms of Coq.Reals (see
   Base/FOpsR.v); only C19 uses it.  What the instance does NOT say: anything about IEEE-754
   rounding, signed zeros (Copysign(1, -0) is -1 in Go, +1 here), NaN or infinities. *)
From Coq Require Import Reals ZArith Bool.
From SF Require Import Base.FOps Base.FOpsR.
Open Scope R_scope.

Record fops_t (F : Type) := MkFOpsT {
  t_base : fops F;
  t_pi : F;
  t_sin : F -> F;
  t_cos : F -> F;
  t_tan : F -> F;
  t_asin : F -> F;
  t_acos : F -> F;
  t_atan : F -> F;
  t_atan2 : F -> F -> F;
  t_exp : F -> F;
  t_log : F -> F;
  t_pow : F -> F -> F;
  t_copysign : F -> F -> F
}.
Arguments MkFOpsT {F}.
Arguments t_base {F} _. Arguments t_pi {F} _.
Arguments t_sin {F} _ _. Arguments t_cos {F} _ _. Arguments t_tan {F} _ _.
Arguments t_asin {F} _ _. Arguments t_acos {F} _ _. Arguments t_atan {F} _ _.
Arguments t_atan2 {F} _ _ _. Arguments t_exp {F} _ _. Arguments t_log {F} _ _.
Arguments t_pow {F} _ _ _. Arguments t_copysign {F} _ _ _.

(* ---------------------------------------------------------------- R *)

(* math.Atan2 on finite arguments, by cases from atan (the value at (0, 0) is 0, as in Go for +0, +0) *)
Definition r_atan2 (y x : R) : R :=
  if Rlt_dec 0 x then atan (y / x)
  else if Rlt_dec x 0 then (if Rle_dec 0 y then atan (y / x) + PI else atan (y / x) - PI)
  else if Rlt_dec 0 y then PI / 2
  else if Rlt_dec y 0 then - (PI / 2)
  else 0.

(* math.Copysign(a, b): |a| with the sign of b; a zero b counts as positive (no signed zeros in R) *)
Definition r_copysign (a b : R) : R := if Rle_dec 0 b then Rabs a else - Rabs a.

(* math.Pow(x, y) for a positive base x: exp (y * ln x).  (For x <= 0 Coq's [ln] is 0, so the value
   is 1, which is not what Go computes: statements about [t_pow rops_t] are meaningful for positive
   bases only, exactly as for [Carto.pow].) *)
Definition rops_t : fops_t R :=
  MkFOpsT rops PI sin cos tan asin acos atan r_atan2 exp ln Rpower r_copysign.
