(* The geometry value as the Go library stores it, parametric in the ordinate carrier F.
   Anchors: geom/type_point.go (Point{coords,full}), geom/type_sequence.go (Sequence{ctype,floats}),
   geom/type_line_string.go, type_polygon.go (Polygon{rings,ctype}), type_multi_*.go,
   type_geometry_collection.go (GeometryCollection{geoms,ctype}), coordinate_type.go.
   The coordinates type is stored at every node, as in Go, so that "all nodes agree" is a
   provable invariant (Consistent) and not true by construction. *)
From Coq Require Import NArith List Bool Lia.
Import ListNotations.

Inductive ctype := XY | XYZ | XYM | XYZM.

Definition has_z (c : ctype) : bool := match c with XYZ | XYZM => true | _ => false end.
Definition has_m (c : ctype) : bool := match c with XYM | XYZM => true | _ => false end.
Definition mk_ct (z m : bool) : ctype :=
  match z, m with
  | false, false => XY | true, false => XYZ | false, true => XYM | true, true => XYZM
  end.
(* geom/coordinate_type.go: Dimension = [4]int{2,3,3,4}[t] *)
Definition dim (c : ctype) : nat := match c with XY => 2 | XYZ => 3 | XYM => 3 | XYZM => 4 end.
(* bitwise AND of the two-bit codes: DimXY=0b00 DimXYZ=0b01 DimXYM=0b10 DimXYZM=0b11 *)
Definition ct_and (a b : ctype) : ctype := mk_ct (has_z a && has_z b) (has_m a && has_m b).
Definition ct_code (c : ctype) : N := match c with XY => 0 | XYZ => 1 | XYM => 2 | XYZM => 3 end%N.
Definition ct_of_code (n : N) : option ctype :=
  match n with
  | 0 => Some XY | 1 => Some XYZ | 2 => Some XYM | 3 => Some XYZM | _ => None
  end%N.
Definition ct_eqb (a b : ctype) : bool :=
  match a, b with
  | XY, XY | XYZ, XYZ | XYM, XYM | XYZM, XYZM => true
  | _, _ => false
  end.

Lemma ct_eqb_eq a b : ct_eqb a b = true <-> a = b.
Proof. destruct a, b; simpl; split; intros; try reflexivity; discriminate. Qed.
Lemma ct_eqb_refl a : ct_eqb a a = true.
Proof. destruct a; reflexivity. Qed.
Lemma ct_of_code_code c : ct_of_code (ct_code c) = Some c.
Proof. destruct c; reflexivity. Qed.
Lemma mk_ct_eta c : mk_ct (has_z c) (has_m c) = c.
Proof. destruct c; reflexivity. Qed.
Lemma ct_and_idem c : ct_and c c = c.
Proof. destruct c; reflexivity. Qed.
Lemma ct_and_comm a b : ct_and a b = ct_and b a.
Proof. destruct a, b; reflexivity. Qed.
Lemma ct_and_assoc a b c : ct_and a (ct_and b c) = ct_and (ct_and a b) c.
Proof. destruct a, b, c; reflexivity. Qed.
Lemma ct_and_xyzm_l c : ct_and XYZM c = c.
Proof. destruct c; reflexivity. Qed.

Inductive gtype := TColl | TPoint | TLine | TPoly | TMPoint | TMLine | TMPoly.
Definition gtype_eqb (a b : gtype) : bool :=
  match a, b with
  | TColl, TColl | TPoint, TPoint | TLine, TLine | TPoly, TPoly
  | TMPoint, TMPoint | TMLine, TMLine | TMPoly, TMPoly => true
  | _, _ => false
  end.

Section AST.
  Variable F : Type.
  Variable zero : F.

  (* geom.Coordinates: all four fields always exist; unused ones are zero *)
  Record vtx := { vx : F; vy : F; vz : F; vm : F }.

  Inductive pointT := MkPoint (ct : ctype) (c : option vtx).
  Inductive lineT := MkLine (ct : ctype) (vs : list vtx).
  Inductive polyT := MkPoly (ct : ctype) (rings : list lineT).

  Inductive geomT :=
  | GPoint (p : pointT)
  | GLine (l : lineT)
  | GPoly (p : polyT)
  | GMPoint (ct : ctype) (ps : list pointT)
  | GMLine (ct : ctype) (ls : list lineT)
  | GMPoly (ct : ctype) (ps : list polyT)
  | GColl (ct : ctype) (gs : list geomT).

  (* nested induction principle *)
  Section Ind.
    Variable P : geomT -> Prop.
    Hypothesis Hpt : forall p, P (GPoint p).
    Hypothesis Hln : forall l, P (GLine l).
    Hypothesis Hpl : forall p, P (GPoly p).
    Hypothesis Hmp : forall ct ps, P (GMPoint ct ps).
    Hypothesis Hml : forall ct ls, P (GMLine ct ls).
    Hypothesis Hmy : forall ct ps, P (GMPoly ct ps).
    Hypothesis Hgc : forall ct gs, Forall P gs -> P (GColl ct gs).
    Fixpoint geomT_ind' (g : geomT) : P g :=
      match g with
      | GPoint p => Hpt p
      | GLine l => Hln l
      | GPoly p => Hpl p
      | GMPoint ct ps => Hmp ct ps
      | GMLine ct ls => Hml ct ls
      | GMPoly ct ps => Hmy ct ps
      | GColl ct gs =>
          Hgc ct gs ((fix go (l : list geomT) : Forall P l :=
                        match l with
                        | [] => Forall_nil P
                        | x :: r => Forall_cons x (geomT_ind' x) (go r)
                        end) gs)
      end.
  End Ind.

  Definition point_ct (p : pointT) := let 'MkPoint ct _ := p in ct.
  Definition line_ct (l : lineT) := let 'MkLine ct _ := l in ct.
  Definition poly_ct (p : polyT) := let 'MkPoly ct _ := p in ct.
  Definition line_vs (l : lineT) := let 'MkLine _ vs := l in vs.
  Definition poly_rings (p : polyT) := let 'MkPoly _ rs := p in rs.
  Definition point_c (p : pointT) := let 'MkPoint _ c := p in c.

  Definition geom_ct (g : geomT) : ctype :=
    match g with
    | GPoint p => point_ct p
    | GLine l => line_ct l
    | GPoly p => poly_ct p
    | GMPoint ct _ | GMLine ct _ | GMPoly ct _ | GColl ct _ => ct
    end.

  Definition geom_type (g : geomT) : gtype :=
    match g with
    | GPoint _ => TPoint | GLine _ => TLine | GPoly _ => TPoly
    | GMPoint _ _ => TMPoint | GMLine _ _ => TMLine | GMPoly _ _ => TMPoly
    | GColl _ _ => TColl
    end.

  (* ---- ForceCoordinatesType (type_point.go, type_sequence.go, ...) ---- *)
  Definition force_vtx (old new : ctype) (v : vtx) : vtx :=
    {| vx := vx v; vy := vy v;
       vz := if has_z new then (if has_z old then vz v else zero) else zero;
       vm := if has_m new then (if has_m old then vm v else zero) else zero |}.

  Definition force_point (new : ctype) (p : pointT) : pointT :=
    match p with
    | MkPoint _ None => MkPoint new None
    | MkPoint old (Some v) => MkPoint new (Some (force_vtx old new v))
    end.
  Definition force_line (new : ctype) (l : lineT) : lineT :=
    let 'MkLine old vs := l in MkLine new (map (force_vtx old new) vs).
  Definition force_poly (new : ctype) (p : polyT) : polyT :=
    let 'MkPoly _ rs := p in MkPoly new (map (force_line new) rs).
  Fixpoint force_geom (new : ctype) (g : geomT) : geomT :=
    match g with
    | GPoint p => GPoint (force_point new p)
    | GLine l => GLine (force_line new l)
    | GPoly p => GPoly (force_poly new p)
    | GMPoint _ ps => GMPoint new (map (force_point new) ps)
    | GMLine _ ls => GMLine new (map (force_line new) ls)
    | GMPoly _ ps => GMPoly new (map (force_poly new) ps)
    | GColl _ gs => GColl new (map (force_geom new) gs)
    end.

  (* ---- constructors (NewPolygon, NewMultiPoint, ...): AND of member types, members forced ---- *)
  Definition and_all {A} (f : A -> ctype) (l : list A) : ctype :=
    fold_left (fun acc a => ct_and acc (f a)) l XYZM.

  (* type_polygon.go:NewPolygon *)
  Definition new_polygon (rings : list lineT) : polyT :=
    let ct := match rings with [] => XY | _ => and_all line_ct rings end in
    MkPoly ct (map (force_line ct) rings).
  (* type_multi_point.go:NewMultiPoint: empty list -> MultiPoint{} (XY) *)
  Definition new_multipoint (ps : list pointT) : geomT :=
    match ps with
    | [] => GMPoint XY []
    | _ => let ct := and_all point_ct ps in GMPoint ct (map (force_point ct) ps)
    end.
  Definition new_multiline (ls : list lineT) : geomT :=
    match ls with
    | [] => GMLine XY []
    | _ => let ct := and_all line_ct ls in GMLine ct (map (force_line ct) ls)
    end.
  Definition new_multipoly (ps : list polyT) : geomT :=
    match ps with
    | [] => GMPoly XY []
    | _ => let ct := and_all poly_ct ps in GMPoly ct (map (force_poly ct) ps)
    end.
  Definition new_collection (gs : list geomT) : geomT :=
    match gs with
    | [] => GColl XY []
    | _ => let ct := and_all geom_ct gs in GColl ct (map (force_geom ct) gs)
    end.

  (* ---- consistency: every node carries the same coordinates type; unused fields are zero ---- *)
  Variable is_zero : F -> bool.

  Definition vtx_ok (ct : ctype) (v : vtx) : bool :=
    (has_z ct || is_zero (vz v)) && (has_m ct || is_zero (vm v)).
  Definition point_ok (ct : ctype) (p : pointT) : bool :=
    let 'MkPoint c o := p in
    ct_eqb c ct && match o with None => true | Some v => vtx_ok ct v end.
  Definition line_ok (ct : ctype) (l : lineT) : bool :=
    let 'MkLine c vs := l in ct_eqb c ct && forallb (vtx_ok ct) vs.
  Definition poly_ok (ct : ctype) (p : polyT) : bool :=
    let 'MkPoly c rs := p in ct_eqb c ct && forallb (line_ok ct) rs.
  Fixpoint geom_ok (ct : ctype) (g : geomT) : bool :=
    match g with
    | GPoint p => point_ok ct p
    | GLine l => line_ok ct l
    | GPoly p => poly_ok ct p
    | GMPoint c ps => ct_eqb c ct && forallb (point_ok ct) ps
    | GMLine c ls => ct_eqb c ct && forallb (line_ok ct) ls
    | GMPoly c ps => ct_eqb c ct && forallb (poly_ok ct) ps
    | GColl c gs => ct_eqb c ct && forallb (geom_ok ct) gs
    end.
  Definition consistent (g : geomT) : bool := geom_ok (geom_ct g) g.

  (* ---- emptiness and dimension (type_geometry.go: IsEmpty, Dimension) ---- *)
  Definition point_empty (p : pointT) := match point_c p with None => true | Some _ => false end.
  Definition line_empty (l : lineT) := match line_vs l with [] => true | _ => false end.
  Definition poly_empty (p : polyT) := match poly_rings p with [] => true | _ => false end.
  Fixpoint is_empty (g : geomT) : bool :=
    match g with
    | GPoint p => point_empty p
    | GLine l => line_empty l
    | GPoly p => poly_empty p
    | GMPoint _ ps => forallb point_empty ps
    | GMLine _ ls => forallb line_empty ls
    | GMPoly _ ps => forallb poly_empty ps
    | GColl _ gs => forallb is_empty gs
    end.

  (* all control points in storage order *)
  Definition point_vs (p : pointT) : list vtx := match point_c p with None => [] | Some v => [v] end.
  Definition poly_vs (p : polyT) : list vtx := flat_map line_vs (poly_rings p).
  Fixpoint geom_vs (g : geomT) : list vtx :=
    match g with
    | GPoint p => point_vs p
    | GLine l => line_vs l
    | GPoly p => poly_vs p
    | GMPoint _ ps => flat_map point_vs ps
    | GMLine _ ls => flat_map line_vs ls
    | GMPoly _ ps => flat_map poly_vs ps
    | GColl _ gs => flat_map geom_vs gs
    end.

  (* nesting depth: 1 for non-collections *)
  Fixpoint depth (g : geomT) : nat :=
    match g with
    | GColl _ gs => S (fold_right (fun x acc => Nat.max (depth x) acc) 0 gs)
    | GMPoint _ _ | GMLine _ _ | GMPoly _ _ => 2
    | _ => 1
    end.
End AST.

Arguments vx {F} _. Arguments vy {F} _. Arguments vz {F} _. Arguments vm {F} _.
Arguments Build_vtx {F} _ _ _ _.
Arguments MkPoint {F} _ _. Arguments MkLine {F} _ _. Arguments MkPoly {F} _ _.
Arguments GPoint {F} _. Arguments GLine {F} _. Arguments GPoly {F} _.
Arguments GMPoint {F} _ _. Arguments GMLine {F} _ _. Arguments GMPoly {F} _ _.
Arguments GColl {F} _ _.
Arguments point_ct {F} _. Arguments line_ct {F} _. Arguments poly_ct {F} _.
Arguments line_vs {F} _. Arguments poly_rings {F} _. Arguments point_c {F} _.
Arguments geom_ct {F} _. Arguments geom_type {F} _.
Arguments force_vtx {F} _ _ _ _. Arguments force_point {F} _ _ _.
Arguments force_line {F} _ _ _. Arguments force_poly {F} _ _ _. Arguments force_geom {F} _ _ _.
Arguments and_all {A} _ _.
Arguments new_polygon {F} _ _. Arguments new_multipoint {F} _ _. Arguments new_multiline {F} _ _.
Arguments new_multipoly {F} _ _. Arguments new_collection {F} _ _.
Arguments vtx_ok {F} _ _ _. Arguments point_ok {F} _ _ _. Arguments line_ok {F} _ _ _.
Arguments poly_ok {F} _ _ _. Arguments geom_ok {F} _ _ _. Arguments consistent {F} _ _.
Arguments point_empty {F} _. Arguments line_empty {F} _. Arguments poly_empty {F} _.
Arguments is_empty {F} _. Arguments point_vs {F} _. Arguments poly_vs {F} _. Arguments geom_vs {F} _.
Arguments depth {F} _.
Arguments geomT_ind' {F} _ _ _ _ _ _ _ _ _.
