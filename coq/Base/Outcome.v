(* Outcome of a modelled Go function: a value, an error return, or a panic.
   Error and panic classes are small tags; the correspondence compares classes only. *)
From Coq Require Import NArith List.
Import ListNotations.

Inductive errc :=
| EEOF            (* unexpected end of input *)
| EByteOrder      (* invalid byte-order mark *)
| EGeomType       (* unknown geometry type code *)
| ECoordType      (* unknown coordinates type code *)
| EMixedNaN       (* point with exactly one NaN among X,Y *)
| EMemberType     (* Multi* member of a different type *)
| ECollDims       (* collection member with a different coordinates type *)
| EFuel           (* model ran out of fuel: unreachable, excluded by lemma *)
| ESyntax         (* generic syntax error *)
| EValidate       (* geometry failed validation *)
| EOther.

Inductive panicc :=
| PIndex          (* index out of range *)
| PMakeSlice      (* makeslice: len out of range *)
| PNilDeref
| PSeqLen         (* NewSequence length not a multiple of the dimension *)
| POther.

Inductive outcome (A : Type) :=
| Ok (a : A)
| Err (e : errc)
| Panic (p : panicc).
Arguments Ok {A} a.
Arguments Err {A} e.
Arguments Panic {A} p.

Definition bind {A B} (x : outcome A) (f : A -> outcome B) : outcome B :=
  match x with
  | Ok a => f a
  | Err e => Err e
  | Panic p => Panic p
  end.

Definition omap {A B} (f : A -> B) (x : outcome A) : outcome B :=
  bind x (fun a => Ok (f a)).

Notation "'do' x <- m ; k" := (bind m (fun x => k))
  (at level 200, x pattern, m at level 100, k at level 200, right associativity).

Definition is_ok {A} (x : outcome A) : bool := match x with Ok _ => true | _ => false end.
Definition is_panic {A} (x : outcome A) : bool := match x with Panic _ => true | _ => false end.
Definition is_err {A} (x : outcome A) : bool := match x with Err _ => true | _ => false end.

Lemma bind_ok {A B} (x : outcome A) (f : A -> outcome B) b :
  bind x f = Ok b -> exists a, x = Ok a /\ f a = Ok b.
Proof. destruct x; simpl; intros H; try discriminate. eauto. Qed.
