(* Definitional point-set semantics of geometries over Q and the slab-witness arrangement
   (DESIGN.md 2.2 and 2.2a).  Executable definitions; lemmas are in Proofs/Planar_proofs.v.

   inG g p     : p belongs to the point set of g (closed sets; definition, not a topological claim)
   locate g p  : Interior / Boundary / Exterior of g at p under the OGC rules:
                 - points have no boundary;
                 - lineal: p is on the boundary iff it is an end point of an odd number of the
                   non-closed line strings of g (mod-2 rule), interior iff on some line otherwise;
                 - areal: boundary = rings; interior = strictly inside the shell and strictly
                   outside every hole;
                 - collections (RULE CHOSEN, the one geom/dcel_input.go + dcel_extract_intersection_
                   matrix.go implement on their overlay): a collection is flattened to the triple
                   (all polygons, all line strings, all points) of its leaves, whatever the nesting,
                   and the higher-dimensional part wins: strictly inside some polygon -> Interior;
                   else on a ring of some polygon -> Boundary; else on some line string -> mod-2 rule
                   over the end points of ALL line strings of the collection; else equal to some
                   point -> Interior; else Exterior.  For collections whose members are pairwise
                   disjoint (the domain of property C02) this is the union of the members'
                   interiors/boundaries; for overlapping members the standard defines nothing and
                   this rule is a convention (Go differs from it at a vertex of one member lying in
                   the interior of another: Go reports Boundary there).
   The same flattening gives MultiPoint / MultiLineString / MultiPolygon their OGC meaning. *)
From Coq Require Import QArith Qreduction List Bool ZArith Lia.
From SF Require Import Base.GeomAST Base.QKernel.
Import ListNotations.
Open Scope Q_scope.

Definition geom := geomT Q.
Definition vpt (v : vtx Q) : pt := (vx v, vy v).

Inductive loc := Interior | Boundary | Exterior.
Definition loc_eqb (a b : loc) : bool :=
  match a, b with
  | Interior, Interior | Boundary, Boundary | Exterior, Exterior => true
  | _, _ => false
  end.

(* ---------------------------------------------------------------- pieces of a geometry *)
Definition line_pts (l : lineT Q) : list pt := map vpt (line_vs l).
(* consecutive vertex pairs; a one-vertex list is the degenerate segment at that vertex *)
Definition segs_of_pts (ps : list pt) : list seg :=
  match ps with
  | [p] => [(p, p)]
  | _ => ring_edges ps
  end.
Definition line_segs (l : lineT Q) : list seg := segs_of_pts (line_pts l).
(* geom/type_line_string.go:IsClosed (first = last); the empty line counts as closed: no end points *)
Definition pts_closed (ps : list pt) : bool :=
  match ps with
  | [] => true
  | a :: r => pt_eqb a (last r a)
  end.
Definition line_ends (l : lineT Q) : list pt :=
  let ps := line_pts l in
  if pts_closed ps then [] else
  match ps with
  | [] => []
  | a :: r => [a; last r a]
  end.
Definition point_pts (q : pointT Q) : list pt :=
  match point_c q with None => [] | Some v => [vpt v] end.
Definition poly_ring_segs (y : polyT Q) : list (list seg) := map line_segs (poly_rings y).

(* flattening to leaves *)
Fixpoint g_points (g : geom) : list pt :=
  match g with
  | GPoint q => point_pts q
  | GMPoint _ qs => flat_map point_pts qs
  | GColl _ gs => flat_map g_points gs
  | _ => []
  end.
Fixpoint g_lines (g : geom) : list (lineT Q) :=
  match g with
  | GLine l => [l]
  | GMLine _ ls => ls
  | GColl _ gs => flat_map g_lines gs
  | _ => []
  end.
Fixpoint g_polys (g : geom) : list (polyT Q) :=
  match g with
  | GPoly y => [y]
  | GMPoly _ ys => ys
  | GColl _ gs => flat_map g_polys gs
  | _ => []
  end.

(* ---------------------------------------------------------------- membership, definitional *)
Definition in_point (q : pointT Q) (p : pt) : bool := existsb (pt_eqb p) (point_pts q).
Definition on_line (l : lineT Q) (p : pt) : bool := on_edges (line_segs l) p.

(* rings as edge lists: shell first *)
Definition rings_boundary (rs : list (list seg)) (p : pt) : bool :=
  existsb (fun r => on_edges r p) rs.
Definition ring_strict_in (r : list seg) (p : pt) : bool := negb (on_edges r p) && edges_parity r p.
Definition ring_strict_out (r : list seg) (p : pt) : bool := negb (on_edges r p) && negb (edges_parity r p).
Definition rings_interior (rs : list (list seg)) (p : pt) : bool :=
  match rs with
  | [] => false
  | shell :: holes => ring_strict_in shell p && forallb (fun h => ring_strict_out h p) holes
  end.
Definition poly_boundary (y : polyT Q) (p : pt) : bool := rings_boundary (poly_ring_segs y) p.
Definition poly_interior (y : polyT Q) (p : pt) : bool := rings_interior (poly_ring_segs y) p.
(* closed region: on a ring, or inside the shell and not inside-or-on a hole *)
Definition in_poly (y : polyT Q) (p : pt) : bool := poly_boundary y p || poly_interior y p.

Fixpoint inG (g : geom) (p : pt) : bool :=
  match g with
  | GPoint q => in_point q p
  | GLine l => on_line l p
  | GPoly y => in_poly y p
  | GMPoint _ qs => existsb (fun q => in_point q p) qs
  | GMLine _ ls => existsb (fun l => on_line l p) ls
  | GMPoly _ ys => existsb (fun y => in_poly y p) ys
  | GColl _ gs => existsb (fun g' => inG g' p) gs
  end.

(* ---------------------------------------------------------------- locate, via a prepared form *)
Record pgeom := MkPG {
  pg_polys : list (list (list seg));   (* per polygon: rings as edge lists, shell first *)
  pg_lines : list (list seg);          (* per line string: its segments *)
  pg_ends : list pt;                   (* end points of the non-closed line strings, with repetition *)
  pg_points : list pt }.

Definition prep (g : geom) : pgeom :=
  MkPG (map poly_ring_segs (g_polys g)) (map line_segs (g_lines g))
       (flat_map line_ends (g_lines g)) (g_points g).

(* parity of the number of listed end points equal to p *)
Definition odd_ends (ends : list pt) (p : pt) : bool :=
  fold_left (fun acc e => xorb acc (pt_eqb p e)) ends false.

Definition locate_p (pg : pgeom) (p : pt) : loc :=
  if existsb (fun rs => rings_interior rs p) (pg_polys pg) then Interior
  else if existsb (fun rs => rings_boundary rs p) (pg_polys pg) then Boundary
  else if existsb (fun es => on_edges es p) (pg_lines pg) then
         (if odd_ends (pg_ends pg) p then Boundary else Interior)
  else if existsb (pt_eqb p) (pg_points pg) then Interior
  else Exterior.

Definition locate (g : geom) (p : pt) : loc := locate_p (prep g) p.

(* ---------------------------------------------------------------- arrangement input *)
(* all segments of g (rings and lines; degenerate ones included) and its isolated points *)
Definition arr_segments (g : geom) : list seg :=
  flat_map (fun y => concat (poly_ring_segs y)) (g_polys g) ++ flat_map line_segs (g_lines g).
Definition arr_points (g : geom) : list pt := g_points g.

(* ---------------------------------------------------------------- sorting rationals *)
(* insertion into a strictly increasing list, dropping values already present (up to ==) *)
Fixpoint qinsert (x : Q) (l : list Q) : list Q :=
  match l with
  | [] => [x]
  | y :: r => match x ?= y with
              | Lt => x :: l
              | Eq => l
              | Gt => y :: qinsert x r
              end
  end.
Definition qsort (l : list Q) : list Q := fold_right qinsert [] l.

(* ---------------------------------------------------------------- the arrangement *)
Inductive dimv := DF | D0 | D1 | D2.

Definition seg_ends (s : seg) : list pt := [fst s; snd s].
(* intersection points (and overlap ends) of all unordered pairs *)
Fixpoint pair_points (L : list seg) : list pt :=
  match L with
  | [] => []
  | s :: r => flat_map (fun t => ssr_points (seg_seg s t)) r ++ pair_points r
  end.
(* the vertices of the arrangement: segment ends, pairwise intersection points, isolated points *)
Definition vertex_set (L : list seg) (P : list pt) : list pt :=
  flat_map seg_ends L ++ pair_points L ++ P.
Definition events (V : list pt) : list Q := qsort (map fst V).

Definition seg_vertical (s : seg) : bool := Qeq_bool (fst (fst s)) (fst (snd s)).
(* height of the supporting line of a non-vertical segment at abscissa x *)
Definition seg_y_at (s : seg) (x : Q) : Q :=
  let '(a, b) := s in
  Qred (snd a + (x - fst a) * (snd b - snd a) / (fst b - fst a)).
(* non-vertical segments whose open x-range contains x: heights at x *)
Definition slab_heights (L : list seg) (xm : Q) : list Q :=
  qsort (flat_map (fun s =>
    if seg_vertical s then []
    else if (qltb (fst (fst s)) xm && qltb xm (fst (snd s))) || (qltb (fst (snd s)) xm && qltb xm (fst (fst s)))
         then [seg_y_at s xm] else []) L).

(* witnesses on the vertical line x = xm through an open slab: edge pieces at the heights,
   faces between, below and above them *)
Fixpoint gaps_between (x : Q) (ys : list Q) (mid : Q -> Q -> dimv) : list (pt * dimv) :=
  match ys with
  | y1 :: ((y2 :: _) as r) => let m := qmid y1 y2 in ((x, m), mid y1 y2) :: gaps_between x r mid
  | _ => []
  end.
Definition column (x : Q) (ys : list Q) (at_y : Q -> dimv) (mid : Q -> Q -> dimv) : list (pt * dimv) :=
  match ys with
  | [] => [((x, 0), D2)]
  | y1 :: _ =>
      ((x, Qred (y1 - 1)), D2) :: ((x, Qred (last ys y1 + 1)), D2)
      :: map (fun y => ((x, y), at_y y)) ys ++ gaps_between x ys mid
  end.
Definition slab_witnesses (L : list seg) (x0 x1 : Q) : list (pt * dimv) :=
  let xm := qmid x0 x1 in
  column xm (slab_heights L xm) (fun _ => D1) (fun _ _ => D2).

(* ordinates of the vertices lying on the event line x *)
Definition vertex_ordinates (V : list pt) (x : Q) : list Q :=
  flat_map (fun v => if Qeq_bool (fst v) x then [snd v] else []) V.
(* ordinates on the event line x: vertices on it, and crossings of non-vertical segments *)
Definition line_ordinates (L : list seg) (V : list pt) (x : Q) : list Q :=
  qsort (vertex_ordinates V x ++
         flat_map (fun s =>
           if seg_vertical s then []
           else if qbetween (fst (fst s)) (fst (snd s)) x then [seg_y_at s x] else []) L).
(* is the open interval (y1,y2) of the line x covered by a vertical segment of L *)
Definition vertical_covers (L : list seg) (x y1 y2 : Q) : bool :=
  let m := qmid y1 y2 in
  existsb (fun s => seg_vertical s && Qeq_bool (fst (fst s)) x &&
                    ((qltb (snd (fst s)) m && qltb m (snd (snd s))) || (qltb (snd (snd s)) m && qltb m (snd (fst s))))) L.
Definition event_witnesses (L : list seg) (V : list pt) (x : Q) : list (pt * dimv) :=
  let vy := vertex_ordinates V x in
  column x (line_ordinates L V x)
         (fun y => if existsb (Qeq_bool y) vy then D0 else D1)
         (fun y1 y2 => if vertical_covers L x y1 y2 then D1 else D2).

Fixpoint slabs_between (L : list seg) (xs : list Q) : list (pt * dimv) :=
  match xs with
  | x0 :: ((x1 :: _) as r) => slab_witnesses L x0 x1 ++ slabs_between L r
  | _ => []
  end.

(* all witnesses of the arrangement of the segments L and the isolated points P:
   every vertex (dimension 0), one point in the relative interior of every edge piece
   (dimension 1) and one point in every trapezoid of the slab decomposition (dimension 2) *)
Definition witnesses (L : list seg) (P : list pt) : list (pt * dimv) :=
  let V := vertex_set L P in
  let xs := events V in
  match xs with
  | [] => [((0, 0), D2)]
  | x0 :: _ =>
      ((Qred (x0 - 1), 0), D2) :: ((Qred (last xs x0 + 1), 0), D2)
      :: flat_map (event_witnesses L V) xs ++ slabs_between L xs
  end.

(* ---------------------------------------------------------------- canonical order of the input *)
(* a structural total order on segments (on the representation of the rationals, not their value):
   only used to make the witness list independent of the order of the operands *)
Definition q_key (q : Q) : list Z := [Qnum q; Zpos (Qden q)].
Definition pt_key (p : pt) : list Z := q_key (fst p) ++ q_key (snd p).
Definition seg_key (s : seg) : list Z := pt_key (fst s) ++ pt_key (snd s).
Fixpoint lex_leb (a b : list Z) : bool :=
  match a, b with
  | [], _ => true
  | _ :: _, [] => false
  | x :: a', y :: b' => match (x ?= y)%Z with Lt => true | Gt => false | Eq => lex_leb a' b' end
  end.
Section ISort.
  Variable A : Type.
  Variable key : A -> list Z.
  Fixpoint kinsert (x : A) (l : list A) : list A :=
    match l with
    | [] => [x]
    | y :: r => if lex_leb (key x) (key y) then x :: l else y :: kinsert x r
    end.
  Definition ksort (l : list A) : list A := fold_right kinsert [] l.
End ISort.
Arguments kinsert {A} _ _ _. Arguments ksort {A} _ _.
Definition canon_segs (L : list seg) : list seg := ksort seg_key L.
Definition canon_pts (P : list pt) : list pt := ksort pt_key P.

(* ---------------------------------------------------------------- DE-9IM reference *)
Record matrix := MkM { mII : dimv; mIB : dimv; mIE : dimv;
                       mBI : dimv; mBB : dimv; mBE : dimv;
                       mEI : dimv; mEB : dimv; mEE : dimv }.
Definition mget (m : matrix) (a b : loc) : dimv :=
  match a, b with
  | Interior, Interior => mII m | Interior, Boundary => mIB m | Interior, Exterior => mIE m
  | Boundary, Interior => mBI m | Boundary, Boundary => mBB m | Boundary, Exterior => mBE m
  | Exterior, Interior => mEI m | Exterior, Boundary => mEB m | Exterior, Exterior => mEE m
  end.
Definition transpose (m : matrix) : matrix :=
  MkM (mII m) (mBI m) (mEI m) (mIB m) (mBB m) (mEB m) (mIE m) (mBE m) (mEE m).
Definition dim_rank (d : dimv) : nat := match d with DF => 0 | D0 => 1 | D1 => 2 | D2 => 3 end.
Definition dmax (a b : dimv) : dimv := if Nat.leb (dim_rank a) (dim_rank b) then b else a.

(* maximum cell dimension among the classified witnesses with the given pair of locations *)
Definition entry (T : list (loc * loc * dimv)) (la lb : loc) : dimv :=
  fold_right dmax DF
    (map snd (filter (fun t => loc_eqb (fst (fst t)) la && loc_eqb (snd (fst t)) lb) T)).
Definition de9im_of (T : list (loc * loc * dimv)) : matrix :=
  MkM (entry T Interior Interior) (entry T Interior Boundary) (entry T Interior Exterior)
      (entry T Boundary Interior) (entry T Boundary Boundary) (entry T Boundary Exterior)
      (entry T Exterior Interior) (entry T Exterior Boundary) (entry T Exterior Exterior).

Definition pair_witnesses (a b : geom) : list (pt * dimv) :=
  witnesses (canon_segs (arr_segments a ++ arr_segments b))
            (canon_pts (arr_points a ++ arr_points b)).
Definition classify (a b : geom) (W : list (pt * dimv)) : list (loc * loc * dimv) :=
  let pa := prep a in
  let pb := prep b in
  map (fun w => (locate_p pa (fst w), locate_p pb (fst w), snd w)) W.
(* the reference DE-9IM matrix of two geometries (both non-empty or not: for an empty operand
   every witness is Exterior of it) *)
Definition de9im_ref (a b : geom) : matrix := de9im_of (classify a b (pair_witnesses a b)).

(* ---------------------------------------------------------------- helpers for users *)
Definition q_of_Z (z : Z) : Q := inject_Z z.
Definition dimv_char (d : dimv) : nat := match d with DF => 0 | D0 => 1 | D1 => 2 | D2 => 3 end.
Definition matrix_list (m : matrix) : list dimv :=
  [mII m; mIB m; mIE m; mBI m; mBB m; mBE m; mEI m; mEB m; mEE m].
