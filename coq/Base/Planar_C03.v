(* Additions to the exact planar library for property C03 (validation): the face structure of
   the slab decomposition of a set of ring edges, used to decide by exact arithmetic whether the
   interior of a polygon is connected, and the "open sets meet" test for two polygons.
   Definitions only (executable); built on Base/QKernel.v and Base/Planar.v, which are not edited.

   Slab decomposition (DESIGN.md 2.2a): between two consecutive event abscissae x0 < x1 the
   non-vertical segments spanning the slab are linearly ordered and do not meet; they cut the
   slab into cells 0..k (cell j lies between level j and level j+1; cells 0 and k are unbounded).
   Two cells of neighbouring slabs belong to the same face iff they share a piece of the event
   line between them that is not covered by a segment: for every gap between consecutive
   ordinates of the event line that is not covered by a vertical segment, the cell of the left
   slab and the cell of the right slab containing the gap are glued.  Cells of one slab are never
   glued directly (a spanning segment separates them).  Faces = connected components. *)
From Coq Require Import QArith Qreduction List Bool ZArith Lia Arith.
From SF Require Import Base.GeomAST Base.QKernel Base.Planar.
Import ListNotations.
Open Scope Q_scope.

(* non-vertical segments whose open x-range contains xm, with their height there *)
Definition spanning_levels (L : list seg) (xm : Q) : list (Q * seg) :=
  flat_map (fun s =>
    if seg_vertical s then []
    else if (qltb (fst (fst s)) xm && qltb xm (fst (snd s))) || (qltb (fst (snd s)) xm && qltb xm (fst (fst s)))
         then [(seg_y_at s xm, s)] else []) L.

(* insertion into a list sorted by strictly increasing height; equal heights (collinear
   overlapping segments) keep the first representative *)
Fixpoint level_insert (x : Q * seg) (l : list (Q * seg)) : list (Q * seg) :=
  match l with
  | [] => [x]
  | y :: r => match fst x ?= fst y with
              | Lt => x :: l
              | Eq => l
              | Gt => y :: level_insert x r
              end
  end.
Definition slab_levels (L : list seg) (xm : Q) : list (Q * seg) :=
  fold_right level_insert [] (spanning_levels L xm).

(* witness point of every cell of a slab: below the first level, between consecutive levels,
   above the last one; cell indices 0..k in this order *)
Fixpoint between_levels (xm : Q) (ls : list (Q * seg)) : list pt :=
  match ls with
  | a :: ((b :: _) as r) => (xm, qmid (fst a) (fst b)) :: between_levels xm r
  | [a] => [(xm, Qred (fst a + 1))]
  | [] => []
  end.
Definition cell_points (xm : Q) (ls : list (Q * seg)) : list pt :=
  match ls with
  | [] => [(xm, 0)]
  | a :: _ => (xm, Qred (fst a - 1)) :: between_levels xm ls
  end.

(* the cell of the slab (given by its levels) whose closure contains the point (x, m) of a
   bounding event line, m not on any segment: number of levels passing strictly below *)
Definition cell_index (ls : list (Q * seg)) (x m : Q) : nat :=
  length (filter (fun l => qltb (seg_y_at (snd l) x) m) ls).

Record slab := MkSlab { sl_x0 : Q; sl_x1 : Q; sl_levels : list (Q * seg); sl_cells : list pt }.
Fixpoint make_slabs (L : list seg) (xs : list Q) : list slab :=
  match xs with
  | x0 :: ((x1 :: _) as r) =>
      let xm := qmid x0 x1 in
      let ls := slab_levels L xm in
      MkSlab x0 x1 ls (cell_points xm ls) :: make_slabs L r
  | _ => []
  end.

(* gaps of an event line: midpoints of consecutive ordinates not covered by a vertical segment *)
Fixpoint open_gaps (L : list seg) (x : Q) (ys : list Q) : list Q :=
  match ys with
  | y1 :: ((y2 :: _) as r) =>
      if vertical_covers L x y1 y2 then open_gaps L x r else qmid y1 y2 :: open_gaps L x r
  | _ => []
  end.

(* face graph restricted to the cells selected by [sel] (a point predicate, evaluated at cell
   witnesses and at gap midpoints).  Nodes are (slab number, cell number). *)
Definition node := (nat * nat)%type.
Definition node_eqb (a b : node) : bool := Nat.eqb (fst a) (fst b) && Nat.eqb (snd a) (snd b).

Fixpoint glue_edges (L : list seg) (V : list pt) (sel : pt -> bool) (i : nat) (sl : list slab)
  : list (node * node) :=
  match sl with
  | a :: ((b :: _) as r) =>
      let x := sl_x1 a in
      let ys := line_ordinates L V x in
      map (fun m => ((i, cell_index (sl_levels a) x m), (S i, cell_index (sl_levels b) x m)))
          (filter (fun m => sel (x, m)) (open_gaps L x ys))
      ++ glue_edges L V sel (S i) r
  | _ => []
  end.

Fixpoint index_from {A} (i : nat) (l : list A) : list (nat * A) :=
  match l with [] => [] | x :: r => (i, x) :: index_from (S i) r end.

Definition selected_nodes (sel : pt -> bool) (sl : list slab) : list node :=
  flat_map (fun ia => map (fun jc => (fst ia, fst jc))
                          (filter (fun jc => sel (snd jc)) (index_from 0 (sl_cells (snd ia)))))
           (index_from 0 sl).

Definition node_mem (x : node) (l : list node) : bool := existsb (node_eqb x) l.

(* nodes reachable from the frontier by the undirected edges, by exhaustion with fuel *)
Fixpoint reach (fuel : nat) (E : list (node * node)) (seen : list node) : list node :=
  match fuel with
  | O => seen
  | S f =>
      let add := flat_map (fun e =>
                   (if node_mem (fst e) seen && negb (node_mem (snd e) seen) then [snd e] else [])
                   ++ (if node_mem (snd e) seen && negb (node_mem (fst e) seen) then [fst e] else [])) E in
      match add with
      | [] => seen
      | _ => reach f E (add ++ seen)
      end
  end.

(* the cells selected by [sel] form at most one face-connected family *)
Definition selected_connected (L : list seg) (sel : pt -> bool) : bool :=
  let V := vertex_set L [] in
  let xs := events V in
  let sl := make_slabs L xs in
  let nodes := selected_nodes sel sl in
  match nodes with
  | [] => true
  | n0 :: _ =>
      let E := glue_edges L V sel 0 sl in
      let R := reach (S (length nodes)) E [n0] in
      forallb (fun n => node_mem n R) nodes
  end.

(* the open region of a polygon given by its rings as edge lists (shell first) is connected *)
Definition interior_connected (rs : list (list seg)) : bool :=
  selected_connected (concat rs) (rings_interior rs).

(* two open regions have a common point: some witness of the common arrangement is in both *)
Definition interiors_meet (ra rb : list (list seg)) : bool :=
  existsb (fun w => rings_interior ra (fst w) && rings_interior rb (fst w))
          (witnesses (concat ra ++ concat rb) []).
