(* Exact planar kernel over Q (DESIGN.md 2.2).  Executable definitions first, lemmas below.
   Conventions:
   - a point is a pair of rationals; equality of points is [pt_eq] (Qeq on both ordinates), never
     Leibniz equality; every boolean test below is invariant under Qeq on its arguments;
   - predicates are computed with the raw field operations (no normalisation: on lattice inputs the
     denominators stay 1); every point that is *constructed* (intersection point, midpoint) is
     normalised with [Qred], so stored values stay small;
   - segments are closed and may be degenerate (both ends equal).
   Anchors (the Go code computes the same notions in float64; this file is the exact reference):
   geom/xy.go:Cross, geom/util.go:orientation, geom/line.go:intersectLine / hasCrossing /
   relativePointRingLocation (crossing parity). *)
From Coq Require Import QArith Qreduction List Bool ZArith Lia Lqa Setoid Morphisms.
Import ListNotations.
Open Scope Q_scope.

Definition pt := (Q * Q)%type.
Definition seg := (pt * pt)%type.

Definition pt_eq (p q : pt) : Prop := fst p == fst q /\ snd p == snd q.
Definition pt_eqb (p q : pt) : bool := Qeq_bool (fst p) (fst q) && Qeq_bool (snd p) (snd q).
Definition pt_red (p : pt) : pt := (Qred (fst p), Qred (snd p)).
Definition pt_add (p v : pt) : pt := (fst p + fst v, snd p + snd v).
Definition qmid (a b : Q) : Q := Qred ((a + b) / 2).

(* twice the signed area of the triangle o a b; > 0 iff o,a,b make a left turn (counter-clockwise) *)
Definition cross (o a b : pt) : Q :=
  (fst a - fst o) * (snd b - snd o) - (snd a - snd o) * (fst b - fst o).

Definition qsgn (q : Q) : comparison := q ?= 0.
(* Gt: counter-clockwise (left turn); Eq: collinear; Lt: clockwise *)
Definition orient (o a b : pt) : comparison := qsgn (cross o a b).

Definition qltb (a b : Q) : bool := negb (Qle_bool b a).

Definition qbetween (a b x : Q) : bool :=
  (Qle_bool a x && Qle_bool x b) || (Qle_bool b x && Qle_bool x a).

(* closed segment, degenerate segment allowed *)
Definition on_seg (s : seg) (p : pt) : bool :=
  let '(a, b) := s in
  qbetween (fst a) (fst b) (fst p) && qbetween (snd a) (snd b) (snd p) && Qeq_bool (cross a b p) 0.

(* lexicographic order on points (x first); on a common line it is the order along the line *)
Definition pt_leb (p q : pt) : bool :=
  match fst p ?= fst q with
  | Lt => true
  | Gt => false
  | Eq => Qle_bool (snd p) (snd q)
  end.
Definition pt_min (p q : pt) : pt := if pt_leb p q then p else q.
Definition pt_max (p q : pt) : pt := if pt_leb p q then q else p.

Inductive ssr :=
| SSEmpty
| SSPoint (p : pt)
| SSOverlap (p q : pt).    (* collinear overlap of positive length, p lexicographically before q *)

(* the point a + t (b - a), normalised *)
Definition lerp (a b : pt) (t : Q) : pt :=
  (Qred (fst a + t * (fst b - fst a)), Qred (snd a + t * (snd b - snd a))).

(* classification of the intersection of two closed segments *)
Definition seg_seg (s t : seg) : ssr :=
  let '(a, b) := s in
  let '(c, d) := t in
  if pt_eqb a b then (if on_seg t a then SSPoint a else SSEmpty)
  else if pt_eqb c d then (if on_seg s c then SSPoint c else SSEmpty)
  else
    let d1 := cross a b c in
    let d3 := cross c d a in
    let d4 := cross c d b in
    let den := d3 - d4 in                   (* = (b - a) x (d - c) *)
    if Qeq_bool den 0 then
      (* parallel *)
      if Qeq_bool d3 0 then
        (* collinear: intersect the two lexicographic intervals *)
        let lo := pt_max (pt_min a b) (pt_min c d) in
        let hi := pt_min (pt_max a b) (pt_max c d) in
        if pt_eqb lo hi then SSPoint lo
        else if pt_leb lo hi then SSOverlap lo hi
        else SSEmpty
      else SSEmpty
    else
      let tt := d3 / den in                 (* parameter on s *)
      let uu := - d1 / den in               (* parameter on t *)
      if Qle_bool 0 tt && Qle_bool tt 1 && Qle_bool 0 uu && Qle_bool uu 1
      then SSPoint (lerp a b tt)
      else SSEmpty.

(* the points reported by a classification *)
Definition ssr_points (r : ssr) : list pt :=
  match r with SSEmpty => [] | SSPoint p => [p] | SSOverlap p q => [p; q] end.

(* ---- crossing parity (half-open rule) ----
   The horizontal ray from p towards +x crosses the edge (a,b) iff exactly one end is strictly
   above p (so an end at the height of p counts as below: each vertex on the ray is counted for
   the edges going up from it only) and p is strictly to the left of the edge. *)
Definition edge_cross (a b p : pt) : bool :=
  let ya := Qle_bool (snd a) (snd p) in      (* a not above p *)
  let yb := Qle_bool (snd b) (snd p) in
  if Bool.eqb ya yb then false
  else
    (* lo is the lower end *)
    if ya then qltb 0 (cross a b p) else qltb 0 (cross b a p).

Fixpoint ring_edges (vs : list pt) : list seg :=
  match vs with
  | a :: ((b :: _) as r) => (a, b) :: ring_edges r
  | _ => []
  end.

(* parity of the number of crossings over a list of edges *)
Definition edges_parity (es : list seg) (p : pt) : bool :=
  fold_left (fun acc e => xorb acc (edge_cross (fst e) (snd e) p)) es false.
Definition on_edges (es : list seg) (p : pt) : bool := existsb (fun e => on_seg e p) es.

(* the vertex list is closed (first = last); meaningful (inside/outside) when p is not on the ring *)
Definition pt_in_ring (vs : list pt) (p : pt) : bool := edges_parity (ring_edges vs) p.
Definition on_ring (vs : list pt) (p : pt) : bool := on_edges (ring_edges vs) p.

(* ================================================================ lemmas ================= *)


Lemma cross_antisym o a b : cross o a b == - cross o b a.
Proof. unfold cross. ring. Qed.
Lemma cross_cyclic o a b : cross o a b == cross a b o.
Proof. unfold cross. ring. Qed.
Lemma cross_translate o a b v : cross (pt_add o v) (pt_add a v) (pt_add b v) == cross o a b.
Proof. unfold cross, pt_add; simpl. ring. Qed.

Lemma qsgn_opp q : qsgn (- q) = CompOpp (qsgn q).
Proof.
  unfold qsgn. rewrite <- Qcompare_antisym.
  destruct q as [n d]. unfold Qcompare, Qopp; simpl. destruct n; reflexivity.
Qed.
Global Instance qsgn_proper : Proper (Qeq ==> eq) qsgn.
Proof. intros x y H. unfold qsgn. rewrite H. reflexivity. Qed.

Lemma orient_antisym o a b : orient o b a = CompOpp (orient o a b).
Proof. unfold orient. rewrite (cross_antisym o b a). apply qsgn_opp. Qed.
Lemma orient_cyclic o a b : orient o a b = orient a b o.
Proof. unfold orient. rewrite (cross_cyclic o a b). reflexivity. Qed.
Lemma orient_translate o a b v : orient (pt_add o v) (pt_add a v) (pt_add b v) = orient o a b.
Proof. unfold orient. rewrite cross_translate. reflexivity. Qed.
Lemma orient_sign o a b :
  (orient o a b = Gt <-> 0 < cross o a b) /\ (orient o a b = Eq <-> cross o a b == 0) /\
  (orient o a b = Lt <-> cross o a b < 0).
Proof.
  unfold orient, qsgn. repeat split; intros H.
  - rewrite <- Qgt_alt in H. exact H.
  - rewrite <- Qgt_alt. exact H.
  - apply Qeq_alt; exact H.
  - apply Qeq_alt; exact H.
  - apply Qlt_alt; exact H.
  - apply Qlt_alt; exact H.
Qed.


Global Instance pt_eq_equiv : Equivalence pt_eq.
Proof.
  split.
  - intros p; split; reflexivity.
  - intros p q [H1 H2]; split; symmetry; assumption.
  - intros p q r [H1 H2] [H3 H4]; split; etransitivity; eassumption.
Qed.
Lemma pt_eqb_iff p q : pt_eqb p q = true <-> pt_eq p q.
Proof. unfold pt_eqb, pt_eq. rewrite andb_true_iff, !Qeq_bool_iff. tauto. Qed.
Lemma pt_red_eq p : pt_eq (pt_red p) p.
Proof. split; simpl; apply Qred_correct. Qed.

Global Instance cross_proper : Proper (pt_eq ==> pt_eq ==> pt_eq ==> Qeq) cross.
Proof.
  intros o o' [Ho1 Ho2] a a' [Ha1 Ha2] b b' [Hb1 Hb2]. unfold cross.
  rewrite Ho1, Ho2, Ha1, Ha2, Hb1, Hb2. reflexivity.
Qed.

Lemma Qle_bool_proper_l a a' b : a == a' -> Qle_bool a b = Qle_bool a' b.
Proof.
  intros H. apply eq_true_iff_eq. rewrite !Qle_bool_iff. rewrite H. tauto.
Qed.
Global Instance Qle_bool_proper : Proper (Qeq ==> Qeq ==> eq) Qle_bool.
Proof.
  intros a a' Ha b b' Hb. apply eq_true_iff_eq. rewrite !Qle_bool_iff. rewrite Ha, Hb. tauto.
Qed.
Global Instance Qeq_bool_proper : Proper (Qeq ==> Qeq ==> eq) Qeq_bool.
Proof.
  intros a a' Ha b b' Hb. apply eq_true_iff_eq. rewrite !Qeq_bool_iff. rewrite Ha, Hb. tauto.
Qed.
Global Instance qbetween_proper : Proper (Qeq ==> Qeq ==> Qeq ==> eq) qbetween.
Proof. intros a a' Ha b b' Hb x x' Hx. unfold qbetween. rewrite Ha, Hb, Hx. reflexivity. Qed.

Lemma qbetween_iff a b x : qbetween a b x = true <-> (a <= x <= b) \/ (b <= x <= a).
Proof. unfold qbetween. rewrite orb_true_iff, !andb_true_iff, !Qle_bool_iff. tauto. Qed.

Lemma on_seg_proper a b p a' b' p' :
  pt_eq a a' -> pt_eq b b' -> pt_eq p p' -> on_seg (a, b) p = on_seg (a', b') p'.
Proof.
  intros Ha Hb Hp. unfold on_seg.
  rewrite (cross_proper _ _ Ha _ _ Hb _ _ Hp).
  destruct Ha as [Ha1 Ha2], Hb as [Hb1 Hb2], Hp as [Hp1 Hp2].
  rewrite Ha1, Ha2, Hb1, Hb2, Hp1, Hp2. reflexivity.
Qed.

(* the closed segment as a parametrised set *)
Definition seg_param (a b p : pt) (t : Q) : Prop :=
  0 <= t <= 1 /\ fst p == fst a + t * (fst b - fst a) /\ snd p == snd a + t * (snd b - snd a).

Lemma on_seg_iff a b p : on_seg (a, b) p = true <-> exists t, seg_param a b p t.
Proof.
  unfold on_seg, seg_param, cross. destruct a as [ax ay], b as [bx by_], p as [px py]; simpl.
  rewrite !andb_true_iff, !qbetween_iff, Qeq_bool_iff.
  split.
  - intros [[Hx Hy] Hc].
    destruct (Qeq_dec ax bx) as [Ex | Nx].
    + destruct (Qeq_dec ay by_) as [Ey | Ny].
      * exists 0. split; [lra|]. split; nra.
      * exists ((py - ay) / (by_ - ay)).
        assert (Hd : ~ by_ - ay == 0) by lra.
        assert (Ht : (py - ay) / (by_ - ay) * (by_ - ay) == py - ay) by (field; exact Hd).
        set (t := (py - ay) / (by_ - ay)) in *.
        split; [|split].
        -- destruct (Qlt_le_dec ay by_); split; nra.
        -- nra.
        -- lra.
    + exists ((px - ax) / (bx - ax)).
      assert (Hd : ~ bx - ax == 0) by lra.
      assert (Ht : (px - ax) / (bx - ax) * (bx - ax) == px - ax) by (field; exact Hd).
      set (t := (px - ax) / (bx - ax)) in *.
      split; [|split].
      * destruct (Qlt_le_dec ax bx); split; nra.
      * lra.
      * assert (H2 : (py - ay) * (bx - ax) == t * (by_ - ay) * (bx - ax)) by nra.
        assert (H3 : (py - ay - t * (by_ - ay)) * (bx - ax) == 0) by lra.
        apply Qmult_integral in H3. destruct H3; [lra | contradiction].
  - intros [t [[Ht0 Ht1] [Hx Hy]]].
    split; [split|].
    + destruct (Qlt_le_dec ax bx); [left | right]; split; nra.
    + destruct (Qlt_le_dec ay by_); [left | right]; split; nra.
    + rewrite Hx, Hy. ring.
Qed.


Definition pt_le (p q : pt) : Prop := fst p < fst q \/ (fst p == fst q /\ snd p <= snd q).
Lemma pt_leb_iff p q : pt_leb p q = true <-> pt_le p q.
Proof.
  unfold pt_leb, pt_le. destruct (fst p ?= fst q) eqn:E.
  - apply Qeq_alt in E. rewrite Qle_bool_iff. split; [tauto|]. intros [H|[_ H]]; [lra|exact H].
  - apply Qlt_alt in E. split; [tauto | reflexivity].
  - apply Qgt_alt in E. split; [discriminate|]. intros [H|[H _]]; lra.
Qed.
Lemma pt_le_total p q : pt_le p q \/ pt_le q p.
Proof.
  unfold pt_le. destruct (Q_dec (fst p) (fst q)) as [[H|H]|H]; [tauto | tauto |].
  destruct (Qlt_le_dec (snd p) (snd q)).
  - left. right. split; [assumption | lra].
  - right. right. split; [symmetry; assumption | assumption].
Qed.
Lemma pt_le_trans p q r : pt_le p q -> pt_le q r -> pt_le p r.
Proof. unfold pt_le. intros [H1|[H1 H1']] [H2|[H2 H2']]; [left; lra | left; lra | left; lra | right; split; lra]. Qed.
Lemma pt_le_refl p q : pt_eq p q -> pt_le p q.
Proof. intros [H1 H2]. right. split; lra. Qed.
Lemma pt_le_antisym p q : pt_le p q -> pt_le q p -> pt_eq p q.
Proof. unfold pt_le, pt_eq. intros [H1|[H1 H1']] [H2|[H2 H2']]; first [lra | split; lra]. Qed.
Lemma pt_leb_false p q : pt_leb p q = false -> pt_le q p.
Proof.
  intros H. destruct (pt_le_total p q) as [H1|H1]; [|exact H1].
  apply pt_leb_iff in H1. congruence.
Qed.

Lemma pt_min_cases p q : (pt_min p q = p /\ pt_le p q) \/ (pt_min p q = q /\ pt_le q p).
Proof. unfold pt_min. destruct (pt_leb p q) eqn:E; [left | right]; split; auto. apply pt_leb_iff; auto. apply pt_leb_false; auto. Qed.
Lemma pt_max_cases p q : (pt_max p q = q /\ pt_le p q) \/ (pt_max p q = p /\ pt_le q p).
Proof. unfold pt_max. destruct (pt_leb p q) eqn:E; [left | right]; split; auto. apply pt_leb_iff; auto. apply pt_leb_false; auto. Qed.
Lemma pt_min_le_l p q : pt_le (pt_min p q) p.
Proof. destruct (pt_min_cases p q) as [[-> H]|[-> H]]; [apply pt_le_refl; reflexivity | exact H]. Qed.
Lemma pt_min_le_r p q : pt_le (pt_min p q) q.
Proof. destruct (pt_min_cases p q) as [[-> H]|[-> H]]; [exact H | apply pt_le_refl; reflexivity]. Qed.
Lemma pt_max_ge_l p q : pt_le p (pt_max p q).
Proof. destruct (pt_max_cases p q) as [[-> H]|[-> H]]; [exact H | apply pt_le_refl; reflexivity]. Qed.
Lemma pt_max_ge_r p q : pt_le q (pt_max p q).
Proof. destruct (pt_max_cases p q) as [[-> H]|[-> H]]; [apply pt_le_refl; reflexivity | exact H]. Qed.
Lemma pt_min_glb p q r : pt_le r p -> pt_le r q -> pt_le r (pt_min p q).
Proof. intros. destruct (pt_min_cases p q) as [[-> _]|[-> _]]; assumption. Qed.
Lemma pt_max_lub p q r : pt_le p r -> pt_le q r -> pt_le (pt_max p q) r.
Proof. intros. destruct (pt_max_cases p q) as [[-> _]|[-> _]]; assumption. Qed.

(* a point of the closed segment lies between its ends in the lexicographic order *)
Lemma on_seg_lex a b p : on_seg (a, b) p = true -> pt_le (pt_min a b) p /\ pt_le p (pt_max a b).
Proof.
  intros H. apply on_seg_iff in H. destruct H as [t [[Ht0 Ht1] [Hx Hy]]].
  assert (Hab : forall a b t, 0 <= t <= 1 -> pt_le a b ->
            forall p, fst p == fst a + t * (fst b - fst a) -> snd p == snd a + t * (snd b - snd a) ->
            pt_le a p /\ pt_le p b).
  { clear. intros a b t [Ht0 Ht1] Hab p Hx Hy. unfold pt_le in *.
    destruct Hab as [Hlt | [He Hle]].
    - destruct (Qeq_dec t 0) as [E0|N0].
      + split; [right; split; nra | left; nra].
      + destruct (Qeq_dec t 1) as [E1|N1].
        * split; [left; nra | right; split; nra].
        * split; left; nra.
    - split; right; split; nra. }
  destruct (pt_le_total a b) as [L|L].
  - destruct (pt_min_cases a b) as [[-> _]|[-> L2]]; destruct (pt_max_cases a b) as [[-> _]|[-> L3]];
      try (apply (Hab a b t); auto; fail).
    + pose proof (pt_le_antisym _ _ L L3) as E. destruct (Hab a b t (conj Ht0 Ht1) L p Hx Hy) as [H1 H2].
      split; auto. eapply pt_le_trans; [exact H2|]. apply pt_le_refl. symmetry; exact E.
    + pose proof (pt_le_antisym _ _ L L2) as E. destruct (Hab a b t (conj Ht0 Ht1) L p Hx Hy) as [H1 H2].
      split; auto. eapply pt_le_trans; [|exact H1]. apply pt_le_refl. symmetry; exact E.
    + pose proof (pt_le_antisym _ _ L L2) as E. destruct (Hab a b t (conj Ht0 Ht1) L p Hx Hy) as [H1 H2].
      split.
      * eapply pt_le_trans; [|exact H1]. apply pt_le_refl. symmetry; exact E.
      * eapply pt_le_trans; [exact H2|]. apply pt_le_refl. symmetry; exact E.
  - assert (Hx' : fst p == fst b + (1 - t) * (fst a - fst b)) by lra.
    assert (Hy' : snd p == snd b + (1 - t) * (snd a - snd b)) by lra.
    assert (Ht' : 0 <= 1 - t <= 1) by lra.
    destruct (Hab b a (1 - t) Ht' L p Hx' Hy') as [H1 H2].
    split.
    + eapply pt_le_trans; [apply pt_min_le_r | exact H1].
    + eapply pt_le_trans; [exact H2 | apply pt_max_ge_l].
Qed.


Lemma pt_eqb_false_iff p q : pt_eqb p q = false <-> ~ pt_eq p q.
Proof. rewrite <- pt_eqb_iff. destruct (pt_eqb p q); split; congruence. Qed.

(* collinear with a,b and lexicographically between them -> on the closed segment *)
Lemma collinear_between_on_seg a b p :
  cross a b p == 0 -> pt_le (pt_min a b) p -> pt_le p (pt_max a b) -> on_seg (a, b) p = true.
Proof.
  intros Hc H1 H2.
  assert (Hord : forall a b p, cross a b p == 0 -> pt_le a p -> pt_le p b -> on_seg (a, b) p = true).
  { clear. intros [ax ay] [bx by_] [px py]. unfold cross, pt_le, on_seg; simpl. intros Hc H1 H2.
    rewrite !andb_true_iff, !qbetween_iff, Qeq_bool_iff. split; [split|].
    - left. destruct H1 as [H1|[H1 _]], H2 as [H2|[H2 _]]; lra.
    - destruct H1 as [H1|[H1 H1']], H2 as [H2|[H2 H2']].
      + assert (Hd : 0 < bx - ax) by lra.
        destruct (Qlt_le_dec ay by_); [left | right]; split; nra.
      + destruct (Qlt_le_dec ay by_); [left | right].
        * assert (by_ == py) by nra. lra.
        * assert (by_ == py) by nra. lra.
      + destruct (Qlt_le_dec ay by_); [left | right].
        * assert (ay == py) by nra. lra.
        * assert (ay == py) by nra. lra.
      + left. lra.
    - exact Hc. }
  destruct (pt_min_cases a b) as [[Em L]|[Em L]]; destruct (pt_max_cases a b) as [[EM L']|[EM L']];
    rewrite Em in H1; rewrite EM in H2.
  - apply Hord; assumption.
  - (* min = a, max = a: a == b *)
    pose proof (pt_le_antisym _ _ L L') as E.
    apply Hord; try assumption. eapply pt_le_trans; [exact H2 | apply pt_le_refl; exact E].
  - pose proof (pt_le_antisym _ _ L' L) as E.
    apply Hord; try assumption. eapply pt_le_trans; [apply pt_le_refl; exact E | exact H1].
  - assert (Hc' : cross b a p == 0).
    { unfold cross in *. lra. }
    assert (Hs : on_seg (b, a) p = true) by (apply Hord; assumption).
    apply on_seg_iff in Hs. apply on_seg_iff. destruct Hs as [t [Ht [Hx Hy]]].
    exists (1 - t). unfold seg_param. destruct Ht as [Ht0 Ht1]. split; [split; lra|]. split; [rewrite Hx | rewrite Hy]; ring.
Qed.

(* Cramer: if a and b are on the line through c,d (c<>d) then c (and d) are on the line a b *)
Lemma collinear_swap a b c d :
  ~ pt_eq c d -> cross c d a == 0 -> cross c d b == 0 -> cross a b c == 0 /\ cross a b d == 0.
Proof.
  destruct a as [ax ay], b as [bx by_], c as [cx cy], d as [dx dy].
  unfold pt_eq, cross; simpl. intros Hne H1 H2.
  assert (K1 : ((bx - ax) * (cy - ay) - (by_ - ay) * (cx - ax)) * (dx - cx) == 0).
  { transitivity (((dx - cx) * (by_ - cy) - (dy - cy) * (bx - cx)) * (ax - cx)
                  - ((dx - cx) * (ay - cy) - (dy - cy) * (ax - cx)) * (bx - cx)); [ring|].
    rewrite H1, H2. ring. }
  assert (K2 : ((bx - ax) * (cy - ay) - (by_ - ay) * (cx - ax)) * (dy - cy) == 0).
  { transitivity (((dx - cx) * (by_ - cy) - (dy - cy) * (bx - cx)) * (ay - cy)
                  - ((dx - cx) * (ay - cy) - (dy - cy) * (ax - cx)) * (by_ - cy)); [ring|].
    rewrite H1, H2. ring. }
  assert (K : (bx - ax) * (cy - ay) - (by_ - ay) * (cx - ax) == 0).
  { apply Qmult_integral in K1. apply Qmult_integral in K2.
    destruct K1 as [K1|K1]; [exact K1|]. destruct K2 as [K2|K2]; [exact K2|].
    exfalso. apply Hne. split; lra. }
  split; [exact K|].
  (* cross a b d = cross a b c + (b-a) x (d-c), and (b-a) x (d-c) = cross c d b - cross c d a *)
  transitivity (((bx - ax) * (cy - ay) - (by_ - ay) * (cx - ax))
                + (((dx - cx) * (ay - cy) - (dy - cy) * (ax - cx)) - ((dx - cx) * (by_ - cy) - (dy - cy) * (bx - cx)))); [ring|].
  rewrite K, H1, H2. ring.
Qed.


Lemma on_seg_left a b : on_seg (a, b) a = true.
Proof. apply on_seg_iff. exists 0. unfold seg_param. split; [lra|]. split; ring. Qed.
Lemma on_seg_right a b : on_seg (a, b) b = true.
Proof. apply on_seg_iff. exists 1. unfold seg_param. split; [lra|]. split; ring. Qed.
Lemma on_seg_sym a b p : on_seg (b, a) p = on_seg (a, b) p.
Proof.
  apply eq_true_iff_eq. rewrite !on_seg_iff. unfold seg_param.
  split; intros [t [[H0 H1] [Hx Hy]]]; exists (1 - t); (split; [lra|]); split;
    first [rewrite Hx | rewrite Hy]; ring.
Qed.
Lemma Qeq_bool_false_iff a b : Qeq_bool a b = false <-> ~ a == b.
Proof. rewrite <- Qeq_bool_iff. destruct (Qeq_bool a b); split; congruence. Qed.

Lemma lerp_param a b t : 0 <= t <= 1 -> seg_param a b (lerp a b t) t.
Proof. intros H. unfold seg_param, lerp; cbn [fst snd]. split; [exact H|]. split; apply Qred_correct. Qed.

Lemma seg_seg_sound s t p :
  In p (ssr_points (seg_seg s t)) -> on_seg s p = true /\ on_seg t p = true.
Proof.
  destruct s as [a b], t as [c d]. unfold seg_seg.
  destruct (pt_eqb a b) eqn:Eab.
  { destruct (on_seg (c, d) a) eqn:E; simpl; [|tauto]. intros [<-|[]]. split; [apply on_seg_left | exact E]. }
  destruct (pt_eqb c d) eqn:Ecd.
  { destruct (on_seg (a, b) c) eqn:E; simpl; [|tauto]. intros [<-|[]]. split; [exact E | apply on_seg_left]. }
  cbv zeta.
  apply pt_eqb_false_iff in Eab. apply pt_eqb_false_iff in Ecd.
  destruct (Qeq_bool (cross c d a - cross c d b) 0) eqn:Eden.
  - (* parallel *)
    apply Qeq_bool_iff in Eden.
    destruct (Qeq_bool (cross c d a) 0) eqn:E3; [|simpl; tauto].
    apply Qeq_bool_iff in E3.
    assert (E4 : cross c d b == 0) by lra.
    destruct (collinear_swap a b c d Ecd E3 E4) as [C1 C2].
    assert (Ca : cross a b a == 0) by (unfold cross; ring).
    assert (Cb : cross a b b == 0) by (unfold cross; ring).
    assert (Cc : cross c d c == 0) by (unfold cross; ring).
    assert (Cd : cross c d d == 0) by (unfold cross; ring).
    set (lo := pt_max (pt_min a b) (pt_min c d)).
    set (hi := pt_min (pt_max a b) (pt_max c d)).
    assert (Hlo : (cross a b lo == 0 /\ cross c d lo == 0)).
    { unfold lo. destruct (pt_max_cases (pt_min a b) (pt_min c d)) as [[-> _]|[-> _]].
      - destruct (pt_min_cases c d) as [[-> _]|[-> _]]; auto.
      - destruct (pt_min_cases a b) as [[-> _]|[-> _]]; auto. }
    assert (Hhi : (cross a b hi == 0 /\ cross c d hi == 0)).
    { unfold hi. destruct (pt_min_cases (pt_max a b) (pt_max c d)) as [[-> _]|[-> _]].
      - destruct (pt_max_cases a b) as [[-> _]|[-> _]]; auto.
      - destruct (pt_max_cases c d) as [[-> _]|[-> _]]; auto. }
    assert (L1 : pt_le (pt_min a b) lo) by apply pt_max_ge_l.
    assert (L2 : pt_le (pt_min c d) lo) by apply pt_max_ge_r.
    assert (L3 : pt_le hi (pt_max a b)) by apply pt_min_le_l.
    assert (L4 : pt_le hi (pt_max c d)) by apply pt_min_le_r.
    assert (Main : pt_le lo hi -> forall q, q = lo \/ q = hi -> on_seg (a, b) q = true /\ on_seg (c, d) q = true).
    { intros L q [-> | ->].
      - split; apply collinear_between_on_seg; try tauto; eapply pt_le_trans; eauto.
      - split; apply collinear_between_on_seg; try tauto; eapply pt_le_trans; eauto. }
    destruct (pt_eqb lo hi) eqn:Elh.
    + apply pt_eqb_iff in Elh. simpl. intros [<-|[]]. apply Main; [apply pt_le_refl; exact Elh | auto].
    + destruct (pt_leb lo hi) eqn:Ele; [|simpl; tauto].
      apply pt_leb_iff in Ele. simpl. intros [<-|[<-|[]]]; apply Main; auto.
  - (* not parallel *)
    apply Qeq_bool_false_iff in Eden.
    set (tt := cross c d a / (cross c d a - cross c d b)).
    set (uu := - cross a b c / (cross c d a - cross c d b)).
    destruct (Qle_bool 0 tt && Qle_bool tt 1 && Qle_bool 0 uu && Qle_bool uu 1) eqn:Econd; [|simpl; tauto].
    rewrite !andb_true_iff, !Qle_bool_iff in Econd. destruct Econd as [[[T0 T1] U0] U1].
    simpl. intros [<-|[]]. split.
    + apply on_seg_iff. exists tt. apply lerp_param. split; assumption.
    + apply on_seg_iff. exists uu. unfold seg_param. split; [split; assumption|].
      unfold lerp; cbn [fst snd]. rewrite !Qred_correct. unfold tt, uu.
      destruct a as [ax ay], b as [bx by_], c as [cx cy], d as [dx dy]. unfold cross in *; simpl in *.
      split; field; intros H; apply Eden; rewrite <- H; ring.
Qed.


Lemma on_seg_degenerate a b p : pt_eq a b -> on_seg (a, b) p = true -> pt_eq p a.
Proof.
  intros [E1 E2] H. apply on_seg_iff in H. destruct H as [t [_ [Hx Hy]]].
  split; [rewrite Hx | rewrite Hy]; [rewrite E1 | rewrite E2]; ring.
Qed.

(* the value of cross c d along the segment a b is the affine interpolation of the end values *)
Lemma cross_along c d a b p t :
  fst p == fst a + t * (fst b - fst a) -> snd p == snd a + t * (snd b - snd a) ->
  cross c d p == (1 - t) * cross c d a + t * cross c d b.
Proof. intros Hx Hy. unfold cross. rewrite Hx, Hy. ring. Qed.

Lemma Qdiv_mult_eq n d t : ~ d == 0 -> t * d == n -> n / d == t.
Proof. intros Hd H. rewrite <- H. field. exact Hd. Qed.

Lemma seg_seg_complete s t p :
  on_seg s p = true -> on_seg t p = true -> seg_seg s t <> SSEmpty.
Proof.
  destruct s as [a b], t as [c d]. intros Hs Ht. unfold seg_seg.
  destruct (pt_eqb a b) eqn:Eab.
  { apply pt_eqb_iff in Eab. pose proof (on_seg_degenerate a b p Eab Hs) as Ep.
    rewrite <- (on_seg_proper c d p c d a) by (try reflexivity; exact Ep). rewrite Ht. discriminate. }
  destruct (pt_eqb c d) eqn:Ecd.
  { apply pt_eqb_iff in Ecd. pose proof (on_seg_degenerate c d p Ecd Ht) as Ep.
    rewrite <- (on_seg_proper a b p a b c) by (try reflexivity; exact Ep). rewrite Hs. discriminate. }
  cbv zeta.
  apply pt_eqb_false_iff in Eab. apply pt_eqb_false_iff in Ecd.
  pose proof Hs as Hs'. pose proof Ht as Ht'.
  apply on_seg_iff in Hs'. destruct Hs' as [t' [[T0 T1] [Hx Hy]]].
  apply on_seg_iff in Ht'. destruct Ht' as [u' [[U0 U1] [Hx' Hy']]].
  assert (Cp : cross c d p == 0).
  { rewrite (cross_along c d c d p u' Hx' Hy'). unfold cross. ring. }
  assert (Cp' : cross a b p == 0).
  { rewrite (cross_along a b a b p t' Hx Hy). unfold cross. ring. }
  pose proof (cross_along c d a b p t' Hx Hy) as A1.
  pose proof (cross_along a b c d p u' Hx' Hy') as A2.
  destruct (Qeq_bool (cross c d a - cross c d b) 0) eqn:Eden.
  - apply Qeq_bool_iff in Eden.
    assert (E3 : cross c d a == 0) by nra.
    apply Qeq_bool_iff in E3. rewrite E3.
    set (lo := pt_max (pt_min a b) (pt_min c d)).
    set (hi := pt_min (pt_max a b) (pt_max c d)).
    destruct (on_seg_lex a b p Hs) as [L1 L2]. destruct (on_seg_lex c d p Ht) as [L3 L4].
    assert (L : pt_le lo hi).
    { apply pt_le_trans with p; [apply pt_max_lub | apply pt_min_glb]; assumption. }
    destruct (pt_eqb lo hi); [discriminate|].
    apply pt_leb_iff in L. rewrite L. discriminate.
  - apply Qeq_bool_false_iff in Eden.
    set (den := cross c d a - cross c d b) in *.
    assert (Et : cross c d a / den == t').
    { apply Qdiv_mult_eq; [exact Eden|]. unfold den. nra. }
    assert (Eu : - cross a b c / den == u').
    { apply Qdiv_mult_eq; [exact Eden|].
      (* den = cross a b d - cross a b c *)
      assert (Hden : den == cross a b d - cross a b c) by (unfold den, cross; ring).
      rewrite Hden. nra. }
    rewrite Et, Eu.
    apply Qle_bool_iff in T0, T1, U0, U1. rewrite T0, T1, U0, U1. simpl. discriminate.
Qed.

Lemma seg_seg_nonempty_iff s t :
  seg_seg s t <> SSEmpty <-> exists p, on_seg s p = true /\ on_seg t p = true.
Proof.
  split.
  - intros H. destruct (seg_seg s t) eqn:E; [congruence| |].
    + exists p. apply seg_seg_sound. rewrite E. simpl. auto.
    + exists p. apply seg_seg_sound. rewrite E. simpl. auto.
  - intros [p [H1 H2]]. eapply seg_seg_complete; eauto.
Qed.

Lemma on_seg_translate a b p v :
  on_seg (pt_add a v, pt_add b v) (pt_add p v) = on_seg (a, b) p.
Proof.
  apply eq_true_iff_eq. rewrite !on_seg_iff. unfold seg_param, pt_add; cbn [fst snd].
  split; intros [t [Ht [Hx Hy]]]; exists t; (split; [exact Ht|]); split; lra.
Qed.
