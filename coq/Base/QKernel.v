(* Exact planar kernel over Q (DESIGN.md 2.2).  Executable definitions first, lemmas below.
   Conventions:
   - a point is a pair of rationals; equality of points is [pt_eq] (Qeq on both ordinates), never
     Leibniz equality; every boolean test below is invariant under Qeq on its arguments;
   - predicates are computed with the raw field operations (no normalisation: on lattice inputs the
     denominators stay 1); every point that is *constructed* (intersection point, midpoint) is
     normalised with [Qred], so stored values stay small;
   - segments are closed and may be degenerate (both ends equal).
   Anchors (the Go code computes the same notions in float64; this file is the exact reference):
   geom/xy.go:Cross, geom/util.go:orientation, geom/line.go:intersectLine / hasCrossing /
   relativePointRingLocation (crossing parity). *)
From Coq Require Import QArith Qreduction List Bool ZArith Lia Lqa.
Import ListNotations.
Open Scope Q_scope.

Definition pt := (Q * Q)%type.
Definition seg := (pt * pt)%type.

Definition pt_eq (p q : pt) : Prop := fst p == fst q /\ snd p == snd q.
Definition pt_eqb (p q : pt) : bool := Qeq_bool (fst p) (fst q) && Qeq_bool (snd p) (snd q).
Definition pt_red (p : pt) : pt := (Qred (fst p), Qred (snd p)).
Definition pt_add (p v : pt) : pt := (fst p + fst v, snd p + snd v).
Definition qmid (a b : Q) : Q := Qred ((a + b) / 2).

(* twice the signed area of the triangle o a b; > 0 iff o,a,b make a left turn (counter-clockwise) *)
Definition cross (o a b : pt) : Q :=
  (fst a - fst o) * (snd b - snd o) - (snd a - snd o) * (fst b - fst o).

Definition qsgn (q : Q) : comparison := q ?= 0.
(* Gt: counter-clockwise (left turn); Eq: collinear; Lt: clockwise *)
Definition orient (o a b : pt) : comparison := qsgn (cross o a b).

Definition qbetween (a b x : Q) : bool :=
  (Qle_bool a x && Qle_bool x b) || (Qle_bool b x && Qle_bool x a).

(* closed segment, degenerate segment allowed *)
Definition on_seg (s : seg) (p : pt) : bool :=
  let '(a, b) := s in
  qbetween (fst a) (fst b) (fst p) && qbetween (snd a) (snd b) (snd p) && Qeq_bool (cross a b p) 0.

(* lexicographic order on points (x first); on a common line it is the order along the line *)
Definition pt_leb (p q : pt) : bool :=
  match fst p ?= fst q with
  | Lt => true
  | Gt => false
  | Eq => Qle_bool (snd p) (snd q)
  end.
Definition pt_min (p q : pt) : pt := if pt_leb p q then p else q.
Definition pt_max (p q : pt) : pt := if pt_leb p q then q else p.

Inductive ssr :=
| SSEmpty
| SSPoint (p : pt)
| SSOverlap (p q : pt).    (* collinear overlap of positive length, p lexicographically before q *)

(* the point a + t (b - a), normalised *)
Definition lerp (a b : pt) (t : Q) : pt :=
  (Qred (fst a + t * (fst b - fst a)), Qred (snd a + t * (snd b - snd a))).

(* classification of the intersection of two closed segments *)
Definition seg_seg (s t : seg) : ssr :=
  let '(a, b) := s in
  let '(c, d) := t in
  if pt_eqb a b then (if on_seg t a then SSPoint a else SSEmpty)
  else if pt_eqb c d then (if on_seg s c then SSPoint c else SSEmpty)
  else
    let d1 := cross a b c in
    let d3 := cross c d a in
    let d4 := cross c d b in
    let den := d3 - d4 in                   (* = (b - a) x (d - c) *)
    if Qeq_bool den 0 then
      (* parallel *)
      if Qeq_bool d3 0 then
        (* collinear: intersect the two lexicographic intervals *)
        let lo := pt_max (pt_min a b) (pt_min c d) in
        let hi := pt_min (pt_max a b) (pt_max c d) in
        if pt_eqb lo hi then SSPoint lo
        else if pt_leb lo hi then SSOverlap lo hi
        else SSEmpty
      else SSEmpty
    else
      let tt := d3 / den in                 (* parameter on s *)
      let uu := - d1 / den in               (* parameter on t *)
      if Qle_bool 0 tt && Qle_bool tt 1 && Qle_bool 0 uu && Qle_bool uu 1
      then SSPoint (lerp a b tt)
      else SSEmpty.

(* the points reported by a classification *)
Definition ssr_points (r : ssr) : list pt :=
  match r with SSEmpty => [] | SSPoint p => [p] | SSOverlap p q => [p; q] end.

(* ---- crossing parity (half-open rule) ----
   The horizontal ray from p towards +x crosses the edge (a,b) iff exactly one end is strictly
   above p (so an end at the height of p counts as below: each vertex on the ray is counted for
   the edges going up from it only) and p is strictly to the left of the edge. *)
Definition edge_cross (a b p : pt) : bool :=
  let ya := Qle_bool (snd a) (snd p) in      (* a not above p *)
  let yb := Qle_bool (snd b) (snd p) in
  if Bool.eqb ya yb then false
  else
    (* lo is the lower end *)
    if ya then Qlt_le_dec 0 (cross a b p) && true
    else Qlt_le_dec 0 (cross b a p) && true.

Fixpoint ring_edges (vs : list pt) : list seg :=
  match vs with
  | a :: ((b :: _) as r) => (a, b) :: ring_edges r
  | _ => []
  end.

(* parity of the number of crossings; the vertex list is closed (first = last) *)
Definition pt_in_ring (vs : list pt) (p : pt) : bool :=
  fold_left (fun acc e => xorb acc (edge_cross (fst e) (snd e) p)) (ring_edges vs) false.

Definition on_ring (vs : list pt) (p : pt) : bool :=
  existsb (fun e => on_seg e p) (ring_edges vs).
