(* Unsigned LEB128 varints and zig-zag signed varints, as Go's encoding/binary reads and writes
   them (binary.PutUvarint / Uvarint / PutVarint / Varint, Go 1.23), over byte lists (N < 256).
   Round trips are proved for every uint64 / int64 value, with arbitrary trailing bytes. *)
From Coq Require Import NArith ZArith List Bool Lia.
From Coq Require Import ZifyN ZifyNat ZifyBool.
Import ListNotations.

Ltac Zify.zify_post_hook ::= Z.div_mod_to_equations.

Definition two63 : Z := 9223372036854775808%Z.
Definition two64 : Z := 18446744073709551616%Z.
Definition two64N : N := 18446744073709551616%N.

Definition in_i64 (z : Z) : Prop := (- two63 <= z < two63)%Z.
Definition in_i64b (z : Z) : bool := ((- two63 <=? z) && (z <? two63))%Z.
Lemma in_i64b_iff z : in_i64b z = true <-> in_i64 z.
Proof. unfold in_i64b, in_i64. lia. Qed.

(* two's-complement reinterpretation of an integer as int64 (Go's wrapping arithmetic and
   the uint64 -> int conversion) *)
Definition wrap64 (z : Z) : Z := ((z + two63) mod two64 - two63)%Z.

Lemma wrap64_id z : in_i64 z -> wrap64 z = z.
Proof. unfold wrap64, in_i64, two63, two64. lia. Qed.
Lemma wrap64_range z : in_i64 (wrap64 z).
Proof. unfold wrap64, in_i64, two63, two64. lia. Qed.
(* delta coding survives the wrap: ref + (v - ref) = v in int64 arithmetic *)
Lemma wrap64_delta v r : in_i64 v -> wrap64 (r + wrap64 (v - r)) = v.
Proof. unfold wrap64, in_i64, two63, two64. lia. Qed.

(* ------------------------------------------------------------------ unsigned *)
Local Open Scope N_scope.

(* binary.PutUvarint: for x >= 0x80 { emit byte(x)|0x80; x >>= 7 }; emit byte(x).
   Nine continuation bytes exhaust every x < 2^64, so the fuel 9 is never the reason to stop. *)
Fixpoint uv_enc_f (fuel : nat) (x : N) : list N :=
  match fuel with
  | O => [x]
  | S f => if x <? 128 then [x] else (x mod 128 + 128) :: uv_enc_f f (x / 128)
  end.
Definition uv_enc (x : N) : list N := uv_enc_f 9 x.

Inductive vres :=
| VOk (v : N) (rest : list N)
| VShort          (* Uvarint returned n = 0: buffer too small *)
| VOverflow.      (* Uvarint returned n < 0: more than 10 bytes, or 10th byte > 1 *)

(* binary.Uvarint: byte i contributes (b & 0x7f) << 7i; index 10 is an overflow, and so is a
   final byte > 1 at index 9. The accumulation x |= b<<s is written as the equivalent
   b + 128 * (value of the following bytes); the bits never overlap. *)
Definition uv_acc (b v : N) : N := b mod 128 + 128 * v.
Arguments uv_acc : simpl never.
Fixpoint uv_dec_at (i : nat) (bs : list N) : vres :=
  match bs with
  | [] => VShort
  | b :: r =>
      if Nat.eqb i 10 then VOverflow
      else if b <? 128 then
        (if Nat.eqb i 9 && (1 <? b) then VOverflow else VOk b r)
      else match uv_dec_at (S i) r with
           | VOk v rest => VOk (uv_acc b v) rest
           | e => e
           end
  end.
Definition uv_dec (bs : list N) : vres := uv_dec_at 0 bs.

Lemma uv_enc_f_roundtrip fuel : forall i x rest,
  (i + fuel = 9)%nat -> x < 2 ^ (64 - 7 * N.of_nat i) ->
  uv_dec_at i (uv_enc_f fuel x ++ rest) = VOk x rest.
Proof.
  induction fuel as [|f IH]; intros i x rest Hi Hx.
  - assert (i = 9%nat) by lia. subst i. cbn [uv_enc_f app uv_dec_at Nat.eqb andb].
    change (2 ^ (64 - 7 * N.of_nat 9)) with 2 in Hx.
    destruct (N.ltb_spec x 128); [|lia]. destruct (N.ltb_spec 1 x); [lia|]. reflexivity.
  - cbn [uv_enc_f]. destruct (N.ltb_spec x 128) as [Hlt|Hge].
    + cbn [app uv_dec_at]. destruct (Nat.eqb_spec i 10); [lia|].
      destruct (N.ltb_spec x 128); [|lia]. destruct (Nat.eqb_spec i 9); [lia|]. reflexivity.
    + cbn [app uv_dec_at]. destruct (Nat.eqb_spec i 10); [lia|].
      destruct (N.ltb_spec (x mod 128 + 128) 128); [lia|].
      rewrite IH.
      * f_equal. unfold uv_acc. lia.
      * lia.
      * assert (E : 2 ^ (64 - 7 * N.of_nat i) = 128 * 2 ^ (64 - 7 * N.of_nat (S i))).
        { replace (64 - 7 * N.of_nat i) with (7 + (64 - 7 * N.of_nat (S i))) by lia.
          rewrite N.pow_add_r. reflexivity. }
        rewrite E in Hx. remember (2 ^ (64 - 7 * N.of_nat (S i))) as P. clear HeqP E. lia.
Qed.

Theorem uvarint_roundtrip_lemma x rest : x < two64N -> uv_dec (uv_enc x ++ rest) = VOk x rest.
Proof. intros H. apply uv_enc_f_roundtrip; [reflexivity|exact H]. Qed.

(* a successful read consumes at least one byte and returns a suffix of its input *)
Lemma uv_dec_at_suffix : forall bs i v rest,
  uv_dec_at i bs = VOk v rest -> exists pre, bs = pre ++ rest /\ (1 <= length pre)%nat.
Proof.
  induction bs as [|b r IH]; intros i v rest H; cbn [uv_dec_at] in H; [discriminate|].
  destruct (Nat.eqb i 10); [discriminate|].
  destruct (b <? 128).
  - destruct (Nat.eqb i 9 && (1 <? b)); [discriminate|]. inversion H; subst.
    exists [v]. split; [reflexivity|cbn; lia].
  - destruct (uv_dec_at (S i) r) as [v' rest'| |] eqn:E; try discriminate.
    injection H as Hv Hr. subst v rest. apply IH in E. destruct E as [pre [-> Hl]].
    exists (b :: pre). split; [reflexivity|cbn; lia].
Qed.

Lemma uv_dec_length bs v rest : uv_dec bs = VOk v rest -> (length rest < length bs)%nat.
Proof.
  intros H. apply uv_dec_at_suffix in H. destruct H as [pre [-> Hl]]. rewrite app_length. lia.
Qed.

(* the decoded value fits a uint64 *)
Lemma uv_dec_at_bound : forall bs i v rest,
  (i <= 9)%nat -> uv_dec_at i bs = VOk v rest -> v < 2 ^ (64 - 7 * N.of_nat i).
Proof.
  induction bs as [|b r IH]; intros i v rest Hi H; cbn [uv_dec_at] in H; [discriminate|].
  destruct (Nat.eqb_spec i 10); [discriminate|].
  destruct (N.ltb_spec b 128).
  - destruct (Nat.eqb_spec i 9) as [->|Hn].
    + cbn [andb] in H. destruct (N.ltb_spec 1 b); [discriminate|]. inversion H; subst.
      change (2 ^ (64 - 7 * N.of_nat 9)) with 2. lia.
    + cbn [andb] in H. inversion H; subst.
      assert (2 ^ 7 <= 2 ^ (64 - 7 * N.of_nat i)) by (apply N.pow_le_mono_r; lia).
      change (2 ^ 7) with 128 in *. lia.
  - destruct (uv_dec_at (S i) r) as [v' rest'| |] eqn:E; try discriminate.
    injection H as Hv Hr. subst v rest.
    destruct (Nat.eqb_spec i 9) as [->|Hn].
    + (* the 10th byte is a continuation byte: index 10 follows and is an overflow (or the
         buffer ends) *)
      destruct r as [|b' r']; cbn [uv_dec_at Nat.eqb] in E; discriminate.
    + apply IH in E; [|lia].
      assert (Ep : 2 ^ (64 - 7 * N.of_nat i) = 128 * 2 ^ (64 - 7 * N.of_nat (S i))).
      { replace (64 - 7 * N.of_nat i) with (7 + (64 - 7 * N.of_nat (S i))) by lia.
        rewrite N.pow_add_r. reflexivity. }
      rewrite Ep. remember (2 ^ (64 - 7 * N.of_nat (S i))) as P. clear HeqP Ep. unfold uv_acc. lia.
Qed.

Lemma uv_dec_bound bs v rest : uv_dec bs = VOk v rest -> v < two64N.
Proof. intros H. apply uv_dec_at_bound in H; [exact H|lia]. Qed.

Lemma uv_enc_nonempty x : (1 <= length (uv_enc x))%nat.
Proof. unfold uv_enc. cbn [uv_enc_f]. destruct (x <? 128); cbn [length]; lia. Qed.

(* ------------------------------------------------------------------ zig-zag *)
(* binary.PutVarint: ux := uint64(x) << 1; if x < 0 { ux = ^ux }
   binary.Varint:    x := int64(ux >> 1); if ux&1 != 0 { x = ^x }
   (geom/twkb.go:encodeZigZagInt64/decodeZigZagInt64 are the same maps) *)
Definition zz_enc (x : Z) : N := Z.to_N (if (x <? 0)%Z then (- 2 * x - 1)%Z else (2 * x)%Z).
Definition zz_dec (u : N) : Z :=
  if u mod 2 =? 0 then Z.of_N (u / 2) else (- Z.of_N (u / 2) - 1)%Z.

Lemma zz_enc_bound x : in_i64 x -> zz_enc x < two64N.
Proof. unfold zz_enc, in_i64, two63, two64N. destruct (Z.ltb_spec x 0); lia. Qed.

Lemma zigzag_roundtrip_lemma x : in_i64 x -> zz_dec (zz_enc x) = x /\ zz_enc x < two64N.
Proof.
  intros H. split; [|apply zz_enc_bound; exact H].
  unfold zz_dec, zz_enc, in_i64, two63 in *.
  destruct (Z.ltb_spec x 0) as [Hx|Hx].
  - remember (Z.to_N (-2 * x - 1)) as u eqn:Eu.
    destruct (N.eqb_spec (u mod 2) 0) as [E|E]; lia.
  - remember (Z.to_N (2 * x)) as u eqn:Eu.
    destruct (N.eqb_spec (u mod 2) 0) as [E|E]; lia.
Qed.

Lemma zz_dec_range u : u < two64N -> in_i64 (zz_dec u).
Proof. unfold zz_dec, in_i64, two63, two64N. destruct (u mod 2 =? 0); lia. Qed.

Definition sv_enc (x : Z) : list N := uv_enc (zz_enc x).

Inductive sres :=
| SOk (v : Z) (rest : list N)
| SShort
| SOverflow.
Definition sv_dec (bs : list N) : sres :=
  match uv_dec bs with
  | VOk u rest => SOk (zz_dec u) rest
  | VShort => SShort
  | VOverflow => SOverflow
  end.

Theorem svarint_roundtrip_lemma x rest : in_i64 x -> sv_dec (sv_enc x ++ rest) = SOk x rest.
Proof.
  intros H. unfold sv_dec, sv_enc. destruct (zigzag_roundtrip_lemma x H) as [E B].
  rewrite uvarint_roundtrip_lemma by exact B. rewrite E. reflexivity.
Qed.

Lemma sv_dec_length bs v rest : sv_dec bs = SOk v rest -> (length rest < length bs)%nat.
Proof.
  unfold sv_dec. destruct (uv_dec bs) eqn:E; try discriminate. intros H. inversion H; subst.
  eapply uv_dec_length; eauto.
Qed.
Lemma sv_dec_range bs v rest : sv_dec bs = SOk v rest -> in_i64 v.
Proof.
  unfold sv_dec. destruct (uv_dec bs) eqn:E; try discriminate. intros H. inversion H; subst.
  apply zz_dec_range. eapply uv_dec_bound; eauto.
Qed.
Lemma sv_enc_nonempty x : (1 <= length (sv_enc x))%nat.
Proof. apply uv_enc_nonempty. Qed.
