From Coq Require Import Extraction ExtrOcamlBasic QArith Qabs Qreduction ZArith NArith.
From SF Require Import Base.GeomAST Base.QKernel Base.Planar Model.SetOpSpec Model.OverlayComplex Model.OverlayRings Model.OverlayRenode.
From SF Require Import Model.OverlayFixup Model.OverlayPipeline.
Extraction Language OCaml.
Extraction "model.ml"
  geom_of_bits xy_finite is_empty
  op_bool dispatch assemble reassemble shape_ok
  raw raw_f expected expected_f expected_many many_f in_closure inG prep mem_p areal_p lineal_p arrange ar_wits arr_area
  ctx_witnesses ctx_segs ctx_pts witnesses_nb wpt wdim wnb
  rings_closed_b judge_with judge judge_many verdict_ok disagreements agrees same_set
  ctx_area result_area isolated_count nonredundant
  same_operand_hole_meets_sibling_interior in_covered_hole same_operand_areal_members_overlap raw_absent in_areal
  clearance_ok snap_geom snap_pt dist2 seg_closest geom_mapxy pt_red operand_vertices operand_segs magnitude moved_count bbox
  g_polys g_lines g_points g_pointTs geom_vs
  dcel_ok ranges_ok twin_ok next_prev_ok faces_ok euler_ok labels_ok
  extract_polygons polygon_groups group_rings f64_or0
  faces_selected boundary_edges lines_selected points_selected
  overlay_skeleton_of rn_all g_elems component_pts spanning_tree_tie half_edges lines_of meet_ok_b isect_agree_b noded_b points_noded_b chain_ok_b pt_eqb
  Qplus Qminus Qmult Qdiv Qopp Qabs.Qabs Qred Qle_bool Qeq_bool inject_Z Qcompare
  Z.add Z.mul Z.sub Z.of_N Z.opp Z.pow_pos
  fixVertices assignFaces faces_of populateInSetLabels fixup pre_wf pre_dirs_ok pre_src_sym pre_srcface_le
  radialLess sorted_incidents incidents l_next l_prev fo_cycles fo_incident fo_in
  overlay_dcel_of_skel overlay_dcel_full extract_geometry overlay_result face_witness face_label_ok face_labels_bad
  keys_consistent chain_shape_ok chains_wf pipeline_chains pipeline_chains_of_skel ov_vertices all_pieces seq_less.
