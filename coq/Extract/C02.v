From Coq Require Import Extraction ExtrOcamlBasic QArith ZArith NArith.
From SF Require Import Model.SetOpSpec Model.OverlayComplex.
From SF Require Import Base.GeomAST Base.QKernel Base.Planar Model.RelatePatterns Model.Relate Model.RelateComplex.
From SF Require Import Model.Intersects Proofs.Intersects_polypoly.
Extraction Language OCaml.
Extraction "model.ml" relate relate_unfixed preds preds_unfixed go_preds relate_matches enc_matrix
  matrix_list de9im_ref dimension dimension_ie is_empty strip_empty_members members_disjoint
  inG locate pair_witnesses transpose inject_Z Qred Z.add Z.mul Z.opp Z.to_pos
  N.add N.mul N.of_nat N.to_nat geom_type cF c0 c1 c2
  matrix_of_complex incidents_agree vertex_loc edge_loc face_loc swap_x dcel_ok
  witnesses prep locate_p on_seg pt_eqb arr_segments arr_points Qcompare Qle_bool Qeq_bool Qplus Qminus Qmult Qdiv cross
  intersects operand_okb.
