From Coq Require Import Extraction ExtrOcamlBasic ZArith NArith QArith.
From SF Require Import Base.GeomAST Base.QKernel Base.Planar Base.Planar_C03 Model.Validate Model.ValidateSpec.
Extraction Language OCaml.
(* is_empty / N.add only pull in the types the shared OCaml glue (sfio.ml) is written against *)
Extraction "model.ml" validate validate_v0 ogc_valid is_simple is_simple_idx is_ring is_closed
  simple_def closed_def ring_def fin_pts rotate_ring reverse_ring
  is_empty N.add N.of_nat N.to_nat Z.of_nat Z.add Z.mul Z.opp.
