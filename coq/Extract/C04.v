From Coq Require Import Extraction ExtrOcamlBasic NArith.
From SF Require Import Base.Outcome Base.Bytes Base.GeomAST Model.WKB Model.Build.
Extraction Language OCaml.
Extraction "model.ml" enc enc_bo dec dec_alloc scan wf_wkb build is_empty N.add N.mul N.of_nat N.to_nat.
