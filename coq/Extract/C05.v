From Coq Require Import Extraction ExtrOcamlBasic NArith.
From SF Require Import Base.Outcome Base.GeomAST Model.WKT.
Extraction Language OCaml.
Extraction "model.ml" as_text append_wkt append_wkt_any append_wkt_any_unfixed as_text_any unmarshal_wkt lex parse
  wkt_dom geom_fin consistent is_empty toks sp_default N.add N.mul N.of_nat N.to_nat N.eqb.
