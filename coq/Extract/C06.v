From Coq Require Import Extraction ExtrOcamlBasic NArith.
From SF Require Import Base.Outcome Base.GeomAST Model.GeoJSON.
Extraction Language OCaml.
Extraction "model.ml" to_json gj_print json_print gj_unmarshal unmarshal_as gj_lossy same_ct
  positions_ok rfc_geometry pos_lens decode_node decode_geojson detect decide_ct doc_type
  json_strings_plain is_empty geom_ct geom_type geom_vs
  jnorm norm_kvs canon feat_to_json feat_unmarshal feat_lossy feat_ok fc_to_json fc_unmarshal splice
  N.add N.mul N.of_nat N.to_nat.
