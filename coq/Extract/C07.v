From Coq Require Import Extraction ExtrOcamlBasic NArith ZArith.
From SF Require Import Base.Outcome Base.Bytes Base.GeomAST Base.Varint Model.TWKB Model.TWKBQuant.
Extraction Language OCaml.
Extraction "model.ml" tmarshal tdec tdec_full tdec_alloc tread_size tread_env tread_ids twkb_ok wf_twkb wf_twkb_noring wf_twkb_xyring must_reject
  tolerated expected_info geom_eqb info_eqb
  quant dequant quant_geom marshal_f unmarshal_f expected_geom rounding_ok has_tie ideal_dequant eff_prec
  run parse_headers is_empty geom_type geom_ct uv_enc sv_enc uv_dec sv_dec wrap64
  N.add N.mul N.of_nat N.to_nat Z.of_N Z.to_N Z.add Z.mul Z.opp Z.of_nat Z.to_nat.
