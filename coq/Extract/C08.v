From Coq Require Import Extraction ExtrOcamlBasic NArith ZArith.
From SF Require Import Base.Outcome Base.Bytes Base.GeomAST Model.WKB.
From SF Require Model.WKT Model.GeoJSON Model.TWKB Model.TWKBQuant.
Extraction Language OCaml.
(* one flat file: identifiers that several models define (dec_full, tok, ...) are renamed by the
   extraction with a numeric suffix; the driver refers to the entry points below only *)
Definition c08_wkb_dec_full := WKB.dec_full.
Definition c08_wkb_scan := WKB.scan.
Definition c08_twkb_unmarshal := TWKBQuant.unmarshal_f.
Definition c08_wkt_unmarshal := WKT.unmarshal_wkt.
Definition c08_gj_unmarshal := GeoJSON.gj_unmarshal.
Extraction "model.ml" c08_wkb_dec_full c08_wkb_scan c08_twkb_unmarshal c08_wkt_unmarshal c08_gj_unmarshal
  geom_type N.of_nat N.to_nat.
