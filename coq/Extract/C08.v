From Coq Require Import Extraction ExtrOcamlBasic NArith.
From SF Require Import Base.Outcome Base.Bytes Base.GeomAST Model.WKB.
Extraction Language OCaml.
Extraction "model.ml" dec_full dec dec_alloc scan geom_type N.of_nat N.to_nat.
