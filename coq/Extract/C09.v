From Coq Require Import Extraction ExtrOcamlBasic ZArith NArith QArith.
From SF Require Import Base.GeomAST Base.QKernel Base.Planar Model.Intersects Model.Distance Proofs.Intersects_areal Proofs.Intersects_polypoly.
Extraction Language OCaml.
Extraction "model.ml"
  intersects intersects_panics share_witness leaves ix_flat_o rings_closed lines_wf no_polys
  share_simple dist2 dist2_ref dist2_ref_with part_pts magnitude sqrt_close q_of_dyadic parts_box box_d2 part_xys part_lines
  zq_geom is_empty inG g_polys f20_class clearance_ok operand_okb
  Qle_bool Qeq_bool Qplus Qmult Qminus Qred inject_Z
  N.of_nat N.to_nat Z.of_nat Z.add Z.mul Z.opp.
