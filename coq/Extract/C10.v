From Coq Require Import Extraction ExtrOcamlBasic NArith ZArith.
From SF Require Import Base.GeomAST Model.Canon.
Extraction Language OCaml.
Extraction "model.ml" history_ok_N first_bad_N api_poly_ok api_polys_ok api_lines_ok api_points_ok
  strictly_sortedb sq_ltb xy_ltb ord_key orient_edge is_empty N.of_nat N.to_nat.
