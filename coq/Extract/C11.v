From Coq Require Import Extraction ExtrOcamlBasic ZArith NArith.
From SF Require Import Base.Outcome Base.GeomAST Model.RTree Model.RTreeHeap Model.RTreeScale.
Extraction Language OCaml.
(* is_empty only pulls in the geometry types the shared OCaml glue (sfio.ml) is written against *)
Extraction "model.ml" bulk_load range_search range_search_today priority_search pop_min nearest
  count extent tree_inv tree_leaves range_ok prio_ok nearest_ok extent_ok count_ok qp_split_ok
  script sqdist overlap split2 prio_ok_rel nearest_ok_rel le_or le_dist priority_search_heap nearest_heap is_empty N.add N.of_nat N.to_nat.
