From Coq Require Import Extraction ExtrOcamlBasic ZArith NArith QArith.
From SF Require Import Base.GeomAST Model.Envelope.
Extraction Language OCaml.
Extraction "model.ml"
  ZO KO key_of_bits key_same kenv_same scaled_int_of_bits int_of_bits sqrt_within_ulp sqrt_within_ulps
  map_geom int_or_zero all_int zfn
  env_of new_envelope expand_xy join env_valid env_is_empty env_is_point env_is_line env_is_rectangle
  contains intersects covers env_min env_max min_max_xys as_box transform_xy as_geometry
  bounding_diagonal width height area dist2 center
  reverse_geom orient_geom visited_xys ctrl_xys holes_in_shell_box shells_nonempty tight_spec env_eqb
  is_empty geom_vs force_geom env_points intersects_spec covers_spec dist2_spec
  dy_of_bits box_dy width_close height_close area_close mid_close mid_sum_overflows dist_sq_exact sqrt_close
  dist_squares_out_of_range close_to dy_sub dy_mul dy_le dy_lt dy_zero
  N.add N.of_nat N.to_nat Z.add Z.of_N Z.to_N Z.opp Z.mul Z.eqb Z.of_nat.
