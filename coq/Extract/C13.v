From Coq Require Import Extraction ExtrOcamlBasic NArith ZArith QArith.
From SF Require Import Base.GeomAST Model.Hull Model.Calipers.
Extraction Language OCaml.
Extraction "model.ml" convex_hull hull_geom_ok point_set hull_pts hull_ok result_geom result_of_geom
  sort pt_eqb is_empty mbr_pts candidates cand_rect rect_corners cand_metric rect_out_ok rect_contains
  q_of_pt geom_vs xy_of float_hull_ok float_rect_ok walk_candidates N.of_nat N.to_nat Z.of_nat Qred.
