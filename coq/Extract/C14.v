From Coq Require Import Extraction ExtrOcamlBasic QArith Qabs Qround ZArith NArith.
From SF Require Import Base.GeomAST Model.Measure Model.MeasureScale Model.MeasureOracle Proofs.Measure_slab.
From SF Require Import Model.MeasureMoments Proofs.Measure_moments.
Extraction Language OCaml.
Extraction "model.ml"
  geom_area geom_length geom_centroid centroid_outcome geom_rev geom_force geom_tr geom_2d translate scale
  slab_hypotheses slab_area
  poly_moments rings_nonzero mpoly_moments mpoly_hypotheses
  is_empty hdim geom_closed geom_map xy_add xy_scale Qinv
  f64_to_Q f64_or0 xy_finite geom_of_bits sqrt_lo sqrt_hi sqrt_lo_scaled sqrt_hi_scaled unscale q_close q_between xy_close xy_red magnitude affine nonlinear
  poly_lattice pick_ring2 pick_poly2 pick_set2 rings_disjoint ring_B_gcd ring_B_count ring_I
  rectilinear cells_poly ring_ccw_extreme bbox_size leaves
  Qplus Qminus Qmult Qdiv Qopp Qabs.Qabs Qred Qle_bool Qeq_bool inject_Z Qcompare
  Z.add Z.mul Z.sub Z.of_N Z.opp Z.pow_pos.
