From Coq Require Import Extraction ExtrOcamlBasic QArith Qabs ZArith NArith.
From SF Require Import Base.GeomAST Base.QKernel Base.Planar Model.Boundary Model.PointOnSurface Model.PosJudge Model.PosNesting Model.BoundaryExact Model.PosNesting2 Model.BoundaryMod2.
Extraction Language OCaml.
Extraction "model.ml"
  boundary boundary_concrete dimension dim_ie is_empty geom_wf leaves
  dim_clause probes_on_boundary boundary_exact boundary_exact_ok n_segments members_overlap mod2_exact mod2_complete puntalb
  pos leaf_pos point_on_area mpoly_pos poly_row pos_ok pos_intersects
  geom_q point_q all_finite f64_to_Q magnitude
  near_ok leaf_cands area_cands poly_pos_ok mpoly_pos_ok point_eqb point_xy point_empty row_shifted row_fragile max_dim_nonempty row_hyps row_regular nesting_atb poly_empty nest_okb nest_okb2 ogc_nest_okb
  locate inG
  Qplus Qminus Qmult Qdiv Qopp Qabs.Qabs Qred Qle_bool Qeq_bool inject_Z Qcompare.
