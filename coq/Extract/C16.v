From Coq Require Import Extraction ExtrOcamlBasic NArith.
From SF Require Import Base.Outcome Base.Bytes Base.GeomAST Model.WKB Model.Build Model.CType.
Extraction Language OCaml.
Extraction "model.ml" new_point_n apply_n spec_n consistent_n xyfam_fun enc dec wf_wkb build is_empty geom_vs geom_seqs
  geom_ct geom_type N.add N.mul N.of_nat N.to_nat.
