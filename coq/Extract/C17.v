From Coq Require Import Extraction ExtrOcamlBasic NArith ZArith QArith.
From SF Require Import Base.Outcome Base.GeomAST Model.TrCommon Model.TrReverse Model.TrSnap Model.TrForce
  Model.TrSimplify Model.TrDensify Model.TrInterp Model.TrJudge.
Extraction Language OCaml.
Extraction "model.ml" f64_to_Q geom_to_Q rev_geom rev_spec_b snap_judge snapQ is_empty geom_vs
  force_judge dens_judge simp_judge interp_judge even_judge snapg_judge
  Z.of_N Z.opp N.of_nat Qred.
