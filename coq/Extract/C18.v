From Coq Require Import Extraction ExtrOcamlBasic NArith.
From SF Require Import Base.Outcome Base.Bytes Base.GeomAST Model.WKB Model.ExactEq.
Extraction Language OCaml.
Extraction "model.ml" exact_equals wkb_equal tol_spec nan_free cts_agree nzg same_structure is_closed ends_eq feq_bits xy_eq_bits
  is_empty enc N.add N.mul N.of_nat N.to_nat.
