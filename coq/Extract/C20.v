From Coq Require Import Extraction ExtrOcamlBasic QArith ZArith NArith.
From SF Require Import Base.GeomAST Model.Empty Model.EmptyObs.
Extraction Language OCaml.
Extraction "model.ml" insert_empties strip_empties no_empty_members emp_geom is_empty Empty.dimension
  Empty.dimension_ie num_members neutral force_geom geom_type geom_ct relate_empty_codes
  relate_empty_codes_unfixed env_z area2_q twkb_bbox_z twkb_refuses payload N.of_nat N.to_nat.
