(* GENERATED FILE - do not edit.  Written by tools/gen_consts (tools/gen_consts.sh) from the Go
   source of the library under test, on every run of tools/check.py.  Each definition is a literal
   table of the implementation, taken from the syntax tree.  The obligations that the hand-written
   models use the same values are in coq/Proofs/Consts_tie_*.v.  A table that could not be located
   is set to a sentinel ([] or None), which breaks its obligation. *)
From Coq Require Import NArith ZArith List String.
Import ListNotations.
Open Scope string_scope.

(* conditions of a tagless switch over local variables (CVar i) and integer literals *)
Inductive cexp :=
| CVar (i : nat) | CLit (z : Z) | CTrue
| CLt (a b : cexp) | CGt (a b : cexp) | CLe (a b : cexp) | CGe (a b : cexp)
| CEq (a b : cexp) | CNe (a b : cexp) | CAnd (a b : cexp) | COr (a b : cexp) | CNot (a : cexp)
| CUnknown (s : string).
(* what a case of such a switch does: return relateMatchesAnyPattern(a, b, pats...), return a
   literal boolean, or something else *)
Inductive cbody := BMatch (pats : list string) | BConst (b : bool) | BUnknown.

(* ==================== geometry type and coordinates type (coq/Base/GeomAST.v) *)

(* geom/type_geometry.go: constants of type GeometryType, declaration order *)
Definition geom_gtype_consts : list (string * Z) :=
  [
    ("TypeGeometryCollection", 0%Z);
    ("TypePoint", 1%Z);
    ("TypeLineString", 2%Z);
    ("TypePolygon", 3%Z);
    ("TypeMultiPoint", 4%Z);
    ("TypeMultiLineString", 5%Z);
    ("TypeMultiPolygon", 6%Z)
  ].

(* geom/coordinate_type.go: constants of type CoordinatesType, declaration order *)
Definition geom_ctype_consts : list (string * Z) :=
  [("DimXY", 0%Z); ("DimXYZ", 1%Z); ("DimXYM", 2%Z); ("DimXYZM", 3%Z)].

(* geom/coordinate_type.go:CoordinatesType.Dimension: []int table indexed by the coordinates type *)
Definition geom_ctype_dimension : list (Z) :=
  [2%Z; 3%Z; 3%Z; 4%Z].

(* geom/coordinate_type.go:CoordinatesType.String *)
Definition geom_ctype_strings : list (string) :=
  ["XY"; "XYZ"; "XYM"; "XYZM"].

(* geom/coordinate_type.go:CoordinatesType.Is3D: the bit tested *)
Definition geom_ctype_is3d_mask : option (string * Z) :=
  Some ("DimXYZ", 1%Z).

(* geom/coordinate_type.go:CoordinatesType.IsMeasured: the bit tested *)
Definition geom_ctype_ismeasured_mask : option (string * Z) :=
  Some ("DimXYM", 2%Z).

(* geom/type_geometry.go:GeometryType.String: switch recv *)
Definition geom_gtype_strings : list (string * string) :=
  [
    ("TypeGeometryCollection", "GeometryCollection");
    ("TypePoint", "Point");
    ("TypeLineString", "LineString");
    ("TypePolygon", "Polygon");
    ("TypeMultiPoint", "MultiPoint");
    ("TypeMultiLineString", "MultiLineString");
    ("TypeMultiPolygon", "MultiPolygon")
  ].

(* ==================== WKB (coq/Model/WKB.v) *)

(* geom/wkb_marshal.go:wkbMarshaler.writeGeomType: []uint32 table indexed by GeometryType *)
Definition wkb_type_codes : list (N) :=
  [7%N; 1%N; 2%N; 3%N; 4%N; 5%N; 6%N].

(* geom/wkb_marshal.go:wkbMarshaler.writeGeomType: uint32(ctype)*K + gt *)
Definition wkb_ctype_multiplier : option Z :=
  Some 1000%Z.

(* geom/wkb_parser.go:wkbParser.parseGeomAndCoordType: switch geomCode%1000 *)
Definition wkb_parse_type_modulus : option Z :=
  Some 1000%Z.

(* geom/wkb_parser.go:wkbParser.parseGeomAndCoordType: switch geomCode%1000 *)
Definition wkb_parse_type_cases : list (Z * string) :=
  [
    (1%Z, "TypePoint");
    (2%Z, "TypeLineString");
    (3%Z, "TypePolygon");
    (4%Z, "TypeMultiPoint");
    (5%Z, "TypeMultiLineString");
    (6%Z, "TypeMultiPolygon");
    (7%Z, "TypeGeometryCollection")
  ].

(* geom/wkb_parser.go:wkbParser.parseGeomAndCoordType: switch geomCode/1000 *)
Definition wkb_parse_ctype_divisor : option Z :=
  Some 1000%Z.

(* geom/wkb_parser.go:wkbParser.parseGeomAndCoordType: switch geomCode/1000 *)
Definition wkb_parse_ctype_cases : list (Z * string) :=
  [(0%Z, "DimXY"); (1%Z, "DimXYZ"); (2%Z, "DimXYM"); (3%Z, "DimXYZM")].

(* geom/wkb_parser.go:wkbParser.parseByteOrder: switch b *)
Definition wkb_parse_byte_order_cases : list (Z * string) :=
  [(0%Z, "BigEndian"); (1%Z, "LittleEndian")].

(* geom/wkb_marshal.go:wkbMarshaler.writeByteOrder: byte written when nativeOrder == <name>, and otherwise *)
Definition wkb_write_byte_order : list (string * Z) :=
  [("LittleEndian", 1%Z); ("else", 0%Z)].

(* ==================== WKT (coq/Model/WKT.v) *)

(* geom/wkt_write.go:appendWKTHeader: []string table indexed by the coordinates type *)
Definition wkt_ctype_tags : list (string) :=
  [""; " Z "; " M "; " ZM "].

(* geom/type_*.go: (receiver type, keyword passed to appendWKTHeader), sorted by receiver *)
Definition wkt_write_keywords : list (string * string) :=
  [
    ("GeometryCollection", "GEOMETRYCOLLECTION");
    ("LineString", "LINESTRING");
    ("MultiLineString", "MULTILINESTRING");
    ("MultiPoint", "MULTIPOINT");
    ("MultiPolygon", "MULTIPOLYGON");
    ("Point", "POINT");
    ("Polygon", "POLYGON")
  ].

(* geom/wkt_parser.go:parser.nextGeometryTaggedText: switch geomType *)
Definition wkt_parse_keywords : list (string * string) :=
  [
    ("POINT", "nextPointText");
    ("LINESTRING", "nextLineStringText");
    ("POLYGON", "nextPolygonText");
    ("MULTIPOINT", "nextMultiPointText");
    ("MULTILINESTRING", "nextMultiLineString");
    ("MULTIPOLYGON", "nextMultiPolygonText");
    ("GEOMETRYCOLLECTION", "nextGeometryCollectionText")
  ].

(* geom/wkt_parser.go:parser.nextGeomTag: switch tok *)
Definition wkt_parse_dim_cases : list (string * string) :=
  [("Z", "DimXYZ"); ("M", "DimXYM"); ("ZM", "DimXYZM")].

(* geom/wkt_write.go:appendWKTEmpty: string literals *)
Definition wkt_empty_literals : list (string) :=
  ["EMPTY"].

(* geom/wkt_write.go:appendWKTEmpty: last bytes after which no blank is inserted *)
Definition wkt_empty_no_space_after : list (Z) :=
  [40%Z; 44%Z; 32%Z].

(* ==================== GeoJSON (coq/Model/GeoJSON.v) *)

(* geom/geojson_unmarshal.go:decodeGeoJSON: switch p0.Type *)
Definition geojson_decode_cases : list (string * string) :=
  [
    ("Point", "extract1DimFloat64s");
    ("LineString", "extract2DimFloat64s");
    ("Polygon", "extract3DimFloat64s");
    ("MultiPoint", "extract2DimFloat64s");
    ("MultiLineString", "extract3DimFloat64s");
    ("MultiPolygon", "extract4DimFloat64s");
    ("GeometryCollection", "decodeGeoJSON")
  ].

(* geom: struct geojsonNode, (field, json member name) *)
Definition geojson_node_tags : list (string * string) :=
  [("Type", "type"); ("Coords", "coordinates"); ("Geoms", "geometries")].

(* geom/type_*.go: MarshalJSON, (receiver type, opening literal), sorted by receiver *)
Definition geojson_marshal_heads : list (string * string) :=
  [
    ("GeometryCollection", "{""type"":""GeometryCollection"",""geometries"":");
    ("LineString", "{""type"":""LineString"",""coordinates"":");
    ("MultiLineString", "{""type"":""MultiLineString"",""coordinates"":");
    ("MultiPoint", "{""type"":""MultiPoint"",""coordinates"":[");
    ("MultiPolygon", "{""type"":""MultiPolygon"",""coordinates"":");
    ("Point", "{""type"":""Point"",""coordinates"":");
    ("Polygon", "{""type"":""Polygon"",""coordinates"":")
  ].

(* geom/geojson_feature_collection.go:GeoJSONFeature.UnmarshalJSON: members that are not foreign members *)
Definition geojson_feature_known_members : list (string) :=
  ["type"; "geometry"; "id"; "properties"].

(* geom/geojson_feature_collection.go:GeoJSONFeature.UnmarshalJSON: strings the type member is compared with (!=) *)
Definition geojson_feature_type : list (string) :=
  ["Feature"].

(* geom/geojson_feature_collection.go:GeoJSONFeatureCollection.UnmarshalJSON: strings the type member is compared with (!=) *)
Definition geojson_feature_collection_type : list (string) :=
  ["FeatureCollection"].

(* ==================== TWKB (coq/Model/TWKB.v) *)

(* geom/twkb.go: constants of type twkbGeometryType, declaration order *)
Definition twkb_type_consts : list (string * Z) :=
  [
    ("twkbTypePoint", 1%Z);
    ("twkbTypeLineString", 2%Z);
    ("twkbTypePolygon", 3%Z);
    ("twkbTypeMultiPoint", 4%Z);
    ("twkbTypeMultiLineString", 5%Z);
    ("twkbTypeMultiPolygon", 6%Z);
    ("twkbTypeGeometryCollection", 7%Z)
  ].

(* geom/twkb.go: constants of type twkbMetadataHeader, declaration order *)
Definition twkb_meta_consts : list (string * Z) :=
  [
    ("twkbHasBBox", 1%Z);
    ("twkbHasSize", 2%Z);
    ("twkbHasIDs", 4%Z);
    ("twkbHasExtPrec", 8%Z);
    ("twkbIsEmpty", 16%Z)
  ].

(* geom/twkb.go: const twkbMaxDimensions *)
Definition twkb_max_dimensions : option Z :=
  Some 4%Z.

(* geom/twkb_write.go:MarshalTWKB *)
Definition twkb_prec_checks : list (string * string * Z) :=
  [
    ("p1", "<", (-8)%Z);
    ("p1", ">", 7%Z);
    ("precZ", "<", 0%Z);
    ("precZ", ">", 7%Z);
    ("precM", "<", 0%Z);
    ("precM", ">", 7%Z)
  ].

(* geom/twkb_write.go:MarshalTWKB: geometry types for which an ID list is refused *)
Definition twkb_write_idlist_refused : list (string) :=
  ["TypePoint"; "TypeLineString"; "TypePolygon"].

(* geom/twkb_write.go: (method, constant passed to writeTypeAndPrecision), source order *)
Definition twkb_write_kinds : list (string * string) :=
  [
    ("writePoint", "twkbTypePoint");
    ("writeLineString", "twkbTypeLineString");
    ("writePolygon", "twkbTypePolygon");
    ("writeMultiPoint", "twkbTypeMultiPoint");
    ("writeMultiLineString", "twkbTypeMultiLineString");
    ("writeMultiPolygon", "twkbTypeMultiPolygon");
    ("writeGeometryCollection", "twkbTypeGeometryCollection")
  ].

(* geom/twkb_write.go:twkbWriter.writeTypeAndPrecision *)
Definition twkb_write_typeprec_ops : list (string * Z) :=
  [("<<", 4%Z)].

(* geom/twkb_write.go:twkbWriter.writeInitialHeaders: if w.<field> { metaheader |= <constant> } *)
Definition twkb_write_meta_flags : list (string * string) :=
  [
    ("hasExt", "twkbHasExtPrec");
    ("hasSize", "twkbHasSize");
    ("hasBBox", "twkbHasBBox");
    ("hasIDs", "twkbHasIDs")
  ].

(* geom/twkb_write.go:twkbWriter.writeIsEmptyHeader: constant passed to writeMetadataHeader *)
Definition twkb_write_empty_flag : list (string) :=
  ["twkbIsEmpty"].

(* geom/twkb_write.go:twkbWriter.writeExtendedPrecision *)
Definition twkb_write_extprec_ops : list (string * Z) :=
  [("|=", 1%Z); ("<<", 2%Z); ("|=", 2%Z); ("<<", 5%Z)].

(* geom/twkb_parser.go:twkbParser.nextGeometry: switch recv.kind *)
Definition twkb_parse_kind_cases : list (string * string) :=
  [
    ("twkbTypePoint", "parsePoint");
    ("twkbTypeLineString", "parseLineString");
    ("twkbTypePolygon", "parsePolygon");
    ("twkbTypeMultiPoint", "parseMultiPoint");
    ("twkbTypeMultiLineString", "parseMultiLineString");
    ("twkbTypeMultiPolygon", "parseMultiPolygon");
    ("twkbTypeGeometryCollection", "parseGeometryCollection")
  ].

(* geom/twkb_parser.go:twkbParser.parseTypeAndPrecision *)
Definition twkb_parse_typeprec_ops : list (string * Z) :=
  [("&", 15%Z); (">>", 4%Z)].

(* geom/twkb_parser.go:twkbParser.parseMetadataHeader: p.<field> = (metaheader & <constant>) != 0 *)
Definition twkb_parse_meta_flags : list (string * string) :=
  [
    ("hasBBox", "twkbHasBBox");
    ("hasSize", "twkbHasSize");
    ("hasIDs", "twkbHasIDs");
    ("hasExt", "twkbHasExtPrec");
    ("isEmpty", "twkbIsEmpty")
  ].

(* geom/twkb_parser.go:twkbParser.parseMetadataHeader: kinds for which the ID-list flag is refused *)
Definition twkb_parse_idlist_refused : list (string) :=
  ["twkbTypePoint"; "twkbTypeLineString"; "twkbTypePolygon"].

(* geom/twkb_parser.go:twkbParser.parseExtendedPrecision *)
Definition twkb_parse_extprec_ops : list (string * Z) :=
  [("&", 1%Z); (">>", 2%Z); ("&", 7%Z); ("&", 2%Z); (">>", 5%Z); ("&", 7%Z)].

(* geom: methods of twkbParser, every call recv.checkCount(_, E): (method, the field E mentions or the empty string, the integer E adds), source order *)
Definition twkb_parse_count_guards : list (string * string * Z) :=
  [
    ("nextMultiPoint", "dimensions", 0%Z);
    ("nextMultiLineString", "", 1%Z);
    ("nextMultiPolygon", "", 1%Z);
    ("nextGeometryCollection", "", 2%Z);
    ("parsePointCountAndArray", "dimensions", 0%Z);
    ("parseIDList", "", 1%Z)
  ].

(* geom/twkb_parser.go:twkbParser.checkCount: parameter types; locals v0.. := expr; if lhs op rhs { return then }; return else *)
Definition twkb_parse_check_count_shape : list (string * string) :=
  [
    ("params", "uint64,int");
    ("v0", "uint64(len(recv.twkb)-recv.pos)");
    ("lhs", "p0");
    ("op", ">");
    ("rhs", "v0/uint64(p1)");
    ("then", "error");
    ("else", "nil")
  ].

(* geom/twkb_parser.go:newTWKBParser (literal) and geom/twkb_parser.go:twkbParser.parseExtendedPrecision (tagless switch): (condition, ctype, dimensions) *)
Definition twkb_parse_dimensions : list (string * string * Z) :=
  [
    ("", "DimXY", 2%Z);
    ("recv.hasZ&&recv.hasM", "DimXYZM", 4%Z);
    ("recv.hasZ", "DimXYZ", 3%Z);
    ("recv.hasM", "DimXYM", 3%Z)
  ].

(* ==================== DE-9IM (coq/Model/RelatePatterns.v, coq/Model/Relate.v) *)

(* geom/alg_relate.go: every function calling relateMatchesAnyPattern, with its pattern literals, source order *)
Definition relate_patterns : list (string * list string) :=
  [
    ("Equals", ["T*F**FFF*"]);
    ("Disjoint", ["FF*FF****"]);
    ("Touches", ["FT*******"; "F**T*****"; "F***T****"]);
    ("Contains", ["T*****FF*"]);
    ("Covers", ["T*****FF*"; "*T****FF*"; "***T**FF*"; "****T*FF*"]);
    ("Within", ["T*F**F***"]);
    ("CoveredBy", ["T*F**F***"; "*TF**F***"; "**FT*F***"; "**F*TF***"]);
    ("Crosses", ["T*T******"; "T*****T**"; "0********"]);
    ("Overlaps", ["T*T***T**"; "1*T***T**"])
  ].

(* geom/alg_relate.go: early `if cond { return <bool>, nil }` of each predicate (function arguments renamed p0, p1) *)
Definition relate_guards : list (string * list (string * bool)) :=
  [
    ("Equals", [("p0.IsEmpty()&&p1.IsEmpty()", true)]);
    ("Disjoint", []);
    ("Touches", []);
    ("Contains", []);
    ("Covers", []);
    ("Within", []);
    ("CoveredBy", []);
    ("Crosses", []);
    ("Overlaps", [])
  ].

(* geom/alg_relate.go:Crosses: local variables CVar 0, CVar 1, ... (function arguments renamed p0, p1) *)
Definition relate_crosses_vars : list (string) :=
  ["highestDimensionIgnoreEmpties(p0)"; "highestDimensionIgnoreEmpties(p1)"].

(* geom/alg_relate.go:Crosses: the tagless switch, one entry per case, source order *)
Definition relate_crosses_cases : list (cexp * cbody) :=
  [
    (CLt (CVar 0) (CVar 1), BMatch ["T*T******"]);
    (CGt (CVar 0) (CVar 1), BMatch ["T*****T**"]);
    (CAnd (CEq (CVar 0) (CLit 1%Z)) (CEq (CVar 1) (CLit 1%Z)), BMatch ["0********"]);
    (CTrue, BConst false)
  ].

(* geom/alg_relate.go:Overlaps: local variables CVar 0, CVar 1, ... (function arguments renamed p0, p1) *)
Definition relate_overlaps_vars : list (string) :=
  ["highestDimensionIgnoreEmpties(p0)"; "highestDimensionIgnoreEmpties(p1)"].

(* geom/alg_relate.go:Overlaps: the tagless switch, one entry per case, source order *)
Definition relate_overlaps_cases : list (cexp * cbody) :=
  [
    (COr (CAnd (CEq (CVar 0) (CLit 0%Z)) (CEq (CVar 1) (CLit 0%Z))) (CAnd (CEq (CVar 0) (CLit 2%Z)) (CEq (CVar 1) (CLit 2%Z))), BMatch ["T*T***T**"]);
    (CAnd (CEq (CVar 0) (CLit 1%Z)) (CEq (CVar 1) (CLit 1%Z)), BMatch ["1*T***T**"]);
    (CTrue, BConst false)
  ].

(* geom/alg_relate.go:Relate: function whose result selects the matrix of an empty operand *)
Definition relate_empty_dimfun : option string :=
  Some "highestDimensionIgnoreEmpties".

(* geom/alg_relate.go:Relate: im.set(row, col, entry) calls: (switch case or -1, row, col, entry, number of enclosing ifs) *)
Definition relate_empty_sets : list (Z * string * string * Z * Z) :=
  [
    ((-1)%Z, "imExterior", "imExterior", 50%Z, 1%Z);
    (0%Z, "imExterior", "imInterior", 48%Z, 1%Z);
    (0%Z, "imExterior", "imBoundary", 70%Z, 1%Z);
    (1%Z, "imExterior", "imInterior", 49%Z, 1%Z);
    (1%Z, "imExterior", "imBoundary", 48%Z, 2%Z);
    (2%Z, "imExterior", "imInterior", 50%Z, 1%Z);
    (2%Z, "imExterior", "imBoundary", 49%Z, 1%Z)
  ].

(* geom/de9im.go: constants of type imLocation, declaration order *)
Definition de9im_loc_consts : list (string * Z) :=
  [("imInterior", 0%Z); ("imBoundary", 1%Z); ("imExterior", 2%Z)].

(* geom/de9im.go:matrix.index: K*locA + locB *)
Definition de9im_index_stride : option Z :=
  Some 3%Z.

(* geom/de9im.go:newMatrix *)
Definition de9im_new_matrix : list (Z) :=
  [70%Z; 70%Z; 70%Z; 70%Z; 70%Z; 70%Z; 70%Z; 70%Z; 70%Z].

(* geom/de9im.go:RelateMatches: characters accepted in a pattern *)
Definition de9im_pattern_chars : list (Z) :=
  [70%Z; 48%Z; 49%Z; 50%Z; 84%Z; 42%Z].

(* geom/de9im.go:RelateMatches: matrix character -> pattern characters it matches *)
Definition de9im_match_cases : list (Z * list Z) :=
  [
    (70%Z, [70%Z; 42%Z]);
    (48%Z, [48%Z; 84%Z; 42%Z]);
    (49%Z, [49%Z; 84%Z; 42%Z]);
    (50%Z, [50%Z; 84%Z; 42%Z])
  ].

(* geom/de9im.go:RelateMatches: length tests *)
Definition de9im_length_checks : list (string * string * Z) :=
  [("len", "!=", 9%Z); ("len", "!=", 9%Z)].

(* ==================== R-tree (coq/Model/RTree.v) *)

(* rtree/rtree.go: const minEntries *)
Definition rtree_min_entries : option Z :=
  Some 2%Z.

(* rtree/rtree.go: const maxEntries *)
Definition rtree_max_entries : option Z :=
  Some 4%Z.

(* rtree/rtree.go: length of node.entries *)
Definition rtree_node_entries_len : option string :=
  Some "maxEntries".

(* rtree/bulk.go:bulkInsert *)
Definition rtree_bulk_thresholds : list (string * Z) :=
  [("==", 0%Z); ("<=", 4%Z); ("<=", 8%Z)].

(* rtree/bulk.go:quickPartition: state = A*state + C, [A; C] *)
Definition rtree_lcg : list (Z) :=
  [1664525%Z; 1013904223%Z].

(* rtree/bulk.go:quickPartition: type of the generator state *)
Definition rtree_lcg_state_type : option string :=
  Some "uint32".

(* rtree/bulk.go:quickPartition: rnd(n) = (state*n) >> K *)
Definition rtree_lcg_shift : option Z :=
  Some 32%Z.

(* rtree/bulk.go:quickPartition: switch right - left, special-cased sizes *)
Definition rtree_qp_small_cases : list (Z) :=
  [1%Z; 2%Z].

(* 67 tables, 0 not found *)
