(* GENERATED FILE - do not edit.  Written by tools/gen_funcs (tools/gen_funcs.sh) from the Go
   source of the library under test, on every run of tools/check.py.  Each definition is the body of
   one Go function, translated operator by operator from the syntax tree into Gallina over the
   abstract ordinate carrier of coq/Base/FOps.v (nothing is simplified).  The obligations that the
   hand-written models compute the same functions are in coq/Proofs/Funcs_tie_*.v.  A function that
   could not be located or that leaves the translated fragment is set to [untranslatable "reason"],
   which breaks its obligation. *)
From Coq Require Import ZArith Bool String.
From SF Require Import Base.FOps.
Open Scope bool_scope.

(* ==================== struct types (one record per Go struct, fields in declaration order) *)

(* rtree/box.go: type Box struct *)
Record rtree_Box (F : Type) := Mk_rtree_Box {
  rtree_Box_MinX : F;
  rtree_Box_MinY : F;
  rtree_Box_MaxX : F;
  rtree_Box_MaxY : F
}.
Arguments Mk_rtree_Box {F}.
Arguments rtree_Box_MinX {F} _.
Arguments rtree_Box_MinY {F} _.
Arguments rtree_Box_MaxX {F} _.
Arguments rtree_Box_MaxY {F} _.

(* geom/xy.go: type XY struct *)
Record geom_XY (F : Type) := Mk_geom_XY {
  geom_XY_X : F;
  geom_XY_Y : F
}.
Arguments Mk_geom_XY {F}.
Arguments geom_XY_X {F} _.
Arguments geom_XY_Y {F} _.

(* geom/type_envelope.go: type Envelope struct *)
Record geom_Envelope (F : Type) := Mk_geom_Envelope {
  geom_Envelope_min : (geom_XY F);
  geom_Envelope_max : (geom_XY F);
  geom_Envelope_nonEmpty : bool
}.
Arguments Mk_geom_Envelope {F}.
Arguments geom_Envelope_min {F} _.
Arguments geom_Envelope_max {F} _.
Arguments geom_Envelope_nonEmpty {F} _.

(* geom/line.go: type line struct *)
Record geom_line (F : Type) := Mk_geom_line {
  geom_line_a : (geom_XY F);
  geom_line_b : (geom_XY F)
}.
Arguments Mk_geom_line {F}.
Arguments geom_line_a {F} _.
Arguments geom_line_b {F} _.

(* geom/line.go: type lineWithLineIntersection struct *)
Record geom_lineWithLineIntersection (F : Type) := Mk_geom_lineWithLineIntersection {
  geom_lineWithLineIntersection_empty : bool;
  geom_lineWithLineIntersection_ptA : (geom_XY F);
  geom_lineWithLineIntersection_ptB : (geom_XY F)
}.
Arguments Mk_geom_lineWithLineIntersection {F}.
Arguments geom_lineWithLineIntersection_empty {F} _.
Arguments geom_lineWithLineIntersection_ptA {F} _.
Arguments geom_lineWithLineIntersection_ptB {F} _.

(* ==================== typed integer constants *)

(* geom/alg_orientation.go: const leftTurn threePointOrientation *)
Definition geom_leftTurn : Z := 3%Z.

(* geom/alg_orientation.go: const rightTurn threePointOrientation *)
Definition geom_rightTurn : Z := 1%Z.

(* geom/alg_orientation.go: const collinear threePointOrientation *)
Definition geom_collinear : Z := 2%Z.

(* ==================== function bodies *)
Section Funcs.
Context {F : Type} (ops : fops F).

(* rtree/bulk.go:fastMin *)
Definition rtree_fastMin (a : F) (b : F) : F :=
  if (f_ltb ops a b) then
    a
  else
    b.

(* rtree/bulk.go:fastMax *)
Definition rtree_fastMax (a : F) (b : F) : F :=
  if (f_gtb ops a b) then
    a
  else
    b.

(* rtree/box.go:combine *)
Definition rtree_combine (box1 : (rtree_Box F)) (box2 : (rtree_Box F)) : (rtree_Box F) :=
  (Mk_rtree_Box (rtree_fastMin (rtree_Box_MinX box1) (rtree_Box_MinX box2)) (rtree_fastMin (rtree_Box_MinY box1) (rtree_Box_MinY box2)) (rtree_fastMax (rtree_Box_MaxX box1) (rtree_Box_MaxX box2)) (rtree_fastMax (rtree_Box_MaxY box1) (rtree_Box_MaxY box2))).

(* rtree/box.go:overlap *)
Definition rtree_overlap (box1 : (rtree_Box F)) (box2 : (rtree_Box F)) : bool :=
  ((((true && (f_leb ops (rtree_Box_MinX box1) (rtree_Box_MaxX box2))) && (f_geb ops (rtree_Box_MaxX box1) (rtree_Box_MinX box2))) && (f_leb ops (rtree_Box_MinY box1) (rtree_Box_MaxY box2))) && (f_geb ops (rtree_Box_MaxY box1) (rtree_Box_MinY box2))).

(* rtree/box.go:squaredEuclideanDistance *)
Definition rtree_squaredEuclideanDistance (b1 : (rtree_Box F)) (b2 : (rtree_Box F)) : F :=
  let dx := (rtree_fastMax (f_of_Z ops 0%Z) (rtree_fastMax (f_sub ops (rtree_Box_MinX b1) (rtree_Box_MaxX b2)) (f_sub ops (rtree_Box_MinX b2) (rtree_Box_MaxX b1)))) in
  let dy := (rtree_fastMax (f_of_Z ops 0%Z) (rtree_fastMax (f_sub ops (rtree_Box_MinY b1) (rtree_Box_MaxY b2)) (f_sub ops (rtree_Box_MinY b2) (rtree_Box_MaxY b1)))) in
  (f_add ops (f_mul ops dx dx) (f_mul ops dy dy)).

(* geom/util.go:fastMin *)
Definition geom_fastMin (a : F) (b : F) : F :=
  if ((f_is_nan ops a) || (f_ltb ops a b)) then
    a
  else
    b.

(* geom/util.go:fastMax *)
Definition geom_fastMax (a : F) (b : F) : F :=
  if ((f_is_nan ops a) || (f_gtb ops a b)) then
    a
  else
    b.

(* geom/util.go:sortFloat64Pair *)
Definition geom_sortFloat64Pair (a : F) (b : F) : (F * F)%type :=
  if (f_gtb ops a b) then
    (b, a)
  else
    (a, b).

(* geom/errors.go:ruleViolation.errAtXY *)
Definition geom_ruleViolation_errAtXY (location : (geom_XY F)) : bool :=
  false.

(* geom/xy.go:XY.validate *)
Definition geom_XY_validate (w : (geom_XY F)) : bool :=
  if ((f_is_nan ops (geom_XY_X w)) || (f_is_nan ops (geom_XY_Y w))) then
    (geom_ruleViolation_errAtXY w)
  else
    if ((f_is_inf ops (geom_XY_X w)) || (f_is_inf ops (geom_XY_Y w))) then
      (geom_ruleViolation_errAtXY w)
    else
      true.

(* geom/xy.go:XY.Sub *)
Definition geom_XY_Sub (w : (geom_XY F)) (o : (geom_XY F)) : (geom_XY F) :=
  (Mk_geom_XY (f_sub ops (geom_XY_X w) (geom_XY_X o)) (f_sub ops (geom_XY_Y w) (geom_XY_Y o))).

(* geom/xy.go:XY.Add *)
Definition geom_XY_Add (w : (geom_XY F)) (o : (geom_XY F)) : (geom_XY F) :=
  (Mk_geom_XY (f_add ops (geom_XY_X w) (geom_XY_X o)) (f_add ops (geom_XY_Y w) (geom_XY_Y o))).

(* geom/xy.go:XY.Scale *)
Definition geom_XY_Scale (w : (geom_XY F)) (s : F) : (geom_XY F) :=
  (Mk_geom_XY (f_mul ops (geom_XY_X w) s) (f_mul ops (geom_XY_Y w) s)).

(* geom/xy.go:XY.Cross *)
Definition geom_XY_Cross (w : (geom_XY F)) (o : (geom_XY F)) : F :=
  (f_sub ops (f_mul ops (geom_XY_X w) (geom_XY_Y o)) (f_mul ops (geom_XY_Y w) (geom_XY_X o))).

(* geom/xy.go:XY.Dot *)
Definition geom_XY_Dot (w : (geom_XY F)) (o : (geom_XY F)) : F :=
  (f_add ops (f_mul ops (geom_XY_X w) (geom_XY_X o)) (f_mul ops (geom_XY_Y w) (geom_XY_Y o))).

(* geom/xy.go:XY.Midpoint *)
Definition geom_XY_Midpoint (w : (geom_XY F)) (o : (geom_XY F)) : (geom_XY F) :=
  (geom_XY_Scale (geom_XY_Add w o) (f_div ops (f_of_Z ops 1%Z) (f_of_Z ops 2%Z))).

(* geom/xy.go:XY.Length *)
Definition geom_XY_Length (w : (geom_XY F)) : F :=
  (f_hypot ops (geom_XY_X w) (geom_XY_Y w)).

(* geom/xy.go:XY.lengthSq *)
Definition geom_XY_lengthSq (w : (geom_XY F)) : F :=
  (geom_XY_Dot w w).

(* geom/xy.go:XY.Unit *)
Definition geom_XY_Unit (w : (geom_XY F)) : (geom_XY F) :=
  (geom_XY_Scale w (f_div ops (f_of_Z ops 1%Z) (geom_XY_Length w))).

(* geom/xy.go:XY.Less *)
Definition geom_XY_Less (w : (geom_XY F)) (o : (geom_XY F)) : bool :=
  if (negb (f_eqb ops (geom_XY_X w) (geom_XY_X o))) then
    (f_ltb ops (geom_XY_X w) (geom_XY_X o))
  else
    (f_ltb ops (geom_XY_Y w) (geom_XY_Y o)).

(* geom/xy.go:XY.distanceTo *)
Definition geom_XY_distanceTo (w : (geom_XY F)) (o : (geom_XY F)) : F :=
  (geom_XY_Length (geom_XY_Sub o w)).

(* geom/xy.go:XY.distanceSquaredTo *)
Definition geom_XY_distanceSquaredTo (w : (geom_XY F)) (o : (geom_XY F)) : F :=
  let delta := (geom_XY_Sub o w) in
  (geom_XY_Dot delta delta).

(* geom/xy.go:XY.box *)
Definition geom_XY_box (w : (geom_XY F)) : (rtree_Box F) :=
  (Mk_rtree_Box (geom_XY_X w) (geom_XY_Y w) (geom_XY_X w) (geom_XY_Y w)).

(* geom/xy.go:XY.rotateCCW90 *)
Definition geom_XY_rotateCCW90 (w : (geom_XY F)) : (geom_XY F) :=
  (Mk_geom_XY (f_neg ops (geom_XY_Y w)) (geom_XY_X w)).

(* geom/xy.go:XY.rotate180 *)
Definition geom_XY_rotate180 (w : (geom_XY F)) : (geom_XY F) :=
  (Mk_geom_XY (f_neg ops (geom_XY_X w)) (f_neg ops (geom_XY_Y w))).

(* geom/xy.go:XY.identity *)
Definition geom_XY_identity (w : (geom_XY F)) : (geom_XY F) :=
  w.

(* geom/xy.go:XY.proj *)
Definition geom_XY_proj (w : (geom_XY F)) (o : (geom_XY F)) : (geom_XY F) :=
  (geom_XY_Scale o (f_div ops (geom_XY_Dot w o) (geom_XY_Dot o o))).

(* geom/type_envelope.go:newUncheckedEnvelope *)
Definition geom_newUncheckedEnvelope (minXY : (geom_XY F)) (maxXY : (geom_XY F)) : (geom_Envelope F) :=
  (Mk_geom_Envelope minXY maxXY true).

(* geom/xy.go:XY.uncheckedEnvelope *)
Definition geom_XY_uncheckedEnvelope (w : (geom_XY F)) : (geom_Envelope F) :=
  (geom_newUncheckedEnvelope w w).

(* geom/alg_orientation.go:orientation *)
Definition geom_orientation (p : (geom_XY F)) (q : (geom_XY F)) (s : (geom_XY F)) : Z :=
  let cp := (geom_XY_Cross (geom_XY_Sub q p) (geom_XY_Sub s q)) in
  if (f_gtb ops cp (f_of_Z ops 0%Z)) then
    geom_leftTurn
  else
    if (f_ltb ops cp (f_of_Z ops 0%Z)) then
      geom_rightTurn
    else
      geom_collinear.

(* geom/line.go:onSegment *)
Definition geom_onSegment (p : (geom_XY F)) (q : (geom_XY F)) (r : (geom_XY F)) : bool :=
  ((((f_leb ops (geom_XY_X r) (geom_fastMax (geom_XY_X p) (geom_XY_X q))) && (f_geb ops (geom_XY_X r) (geom_fastMin (geom_XY_X p) (geom_XY_X q)))) && (f_leb ops (geom_XY_Y r) (geom_fastMax (geom_XY_Y p) (geom_XY_Y q)))) && (f_geb ops (geom_XY_Y r) (geom_fastMin (geom_XY_Y p) (geom_XY_Y q)))).

(* geom/xy.go: the operator == on values of type XY (all fields, declaration order) *)
Definition geom_XY_eqb (a b : geom_XY F) : bool :=
  ((f_eqb ops (geom_XY_X a) (geom_XY_X b)) && (f_eqb ops (geom_XY_Y a) (geom_XY_Y b))).

(* geom/line.go:line.less *)
Definition geom_line_less (ln : (geom_line F)) (ot : (geom_line F)) : bool :=
  if (negb (geom_XY_eqb (geom_line_a ln) (geom_line_a ot))) then
    (geom_XY_Less (geom_line_a ln) (geom_line_a ot))
  else
    (geom_XY_Less (geom_line_b ln) (geom_line_b ot)).

(* geom/line.go:line.uncheckedEnvelope *)
Definition geom_line_uncheckedEnvelope (ln : (geom_line F)) : (geom_Envelope F) :=
  let '(r1, r2) := (geom_sortFloat64Pair (geom_XY_X (geom_line_a ln)) (geom_XY_X (geom_line_b ln))) in
  let ln := (Mk_geom_line (Mk_geom_XY r1 (geom_XY_Y (geom_line_a ln))) (geom_line_b ln)) in
  let ln := (Mk_geom_line (geom_line_a ln) (Mk_geom_XY r2 (geom_XY_Y (geom_line_b ln)))) in
  let '(r3, r4) := (geom_sortFloat64Pair (geom_XY_Y (geom_line_a ln)) (geom_XY_Y (geom_line_b ln))) in
  let ln := (Mk_geom_line (Mk_geom_XY (geom_XY_X (geom_line_a ln)) r3) (geom_line_b ln)) in
  let ln := (Mk_geom_line (geom_line_a ln) (Mk_geom_XY (geom_XY_X (geom_line_b ln)) r4)) in
  (geom_newUncheckedEnvelope (geom_line_a ln) (geom_line_b ln)).

(* geom/line.go:line.box *)
Definition geom_line_box (ln : (geom_line F)) : (rtree_Box F) :=
  let '(r1, r2) := (geom_sortFloat64Pair (geom_XY_X (geom_line_a ln)) (geom_XY_X (geom_line_b ln))) in
  let ln := (Mk_geom_line (Mk_geom_XY r1 (geom_XY_Y (geom_line_a ln))) (geom_line_b ln)) in
  let ln := (Mk_geom_line (geom_line_a ln) (Mk_geom_XY r2 (geom_XY_Y (geom_line_b ln)))) in
  let '(r3, r4) := (geom_sortFloat64Pair (geom_XY_Y (geom_line_a ln)) (geom_XY_Y (geom_line_b ln))) in
  let ln := (Mk_geom_line (Mk_geom_XY (geom_XY_X (geom_line_a ln)) r3) (geom_line_b ln)) in
  let ln := (Mk_geom_line (geom_line_a ln) (Mk_geom_XY (geom_XY_X (geom_line_b ln)) r4)) in
  (Mk_rtree_Box (geom_XY_X (geom_line_a ln)) (geom_XY_Y (geom_line_a ln)) (geom_XY_X (geom_line_b ln)) (geom_XY_Y (geom_line_b ln))).

(* geom/line.go:line.length *)
Definition geom_line_length (ln : (geom_line F)) : F :=
  (geom_XY_distanceTo (geom_line_a ln) (geom_line_b ln)).

(* geom/line.go:line.centroid *)
Definition geom_line_centroid (ln : (geom_line F)) : (geom_XY F) :=
  (Mk_geom_XY (f_mul ops (f_div ops (f_of_Z ops 1%Z) (f_of_Z ops 2%Z)) (f_add ops (geom_XY_X (geom_line_a ln)) (geom_XY_X (geom_line_b ln)))) (f_mul ops (f_div ops (f_of_Z ops 1%Z) (f_of_Z ops 2%Z)) (f_add ops (geom_XY_Y (geom_line_a ln)) (geom_XY_Y (geom_line_b ln))))).

(* geom/line.go:line.hasEndpoint *)
Definition geom_line_hasEndpoint (ln : (geom_line F)) (xy : (geom_XY F)) : bool :=
  ((geom_XY_eqb (geom_line_a ln) xy) || (geom_XY_eqb (geom_line_b ln) xy)).

(* geom/type_envelope.go:Envelope.IsEmpty *)
Definition geom_Envelope_IsEmpty (e : (geom_Envelope F)) : bool :=
  (negb (geom_Envelope_nonEmpty e)).

(* geom/type_envelope.go:Envelope.Contains *)
Definition geom_Envelope_Contains (e : (geom_Envelope F)) (p : (geom_XY F)) : bool :=
  ((((((negb (geom_Envelope_IsEmpty e)) && (geom_XY_validate p)) && (f_geb ops (geom_XY_X p) (geom_XY_X (geom_Envelope_min e)))) && (f_leb ops (geom_XY_X p) (geom_XY_X (geom_Envelope_max e)))) && (f_geb ops (geom_XY_Y p) (geom_XY_Y (geom_Envelope_min e)))) && (f_leb ops (geom_XY_Y p) (geom_XY_Y (geom_Envelope_max e)))).

(* geom/line.go:line.intersectsXY *)
Definition geom_line_intersectsXY (ln : (geom_line F)) (xy : (geom_XY F)) : bool :=
  let env := (geom_line_uncheckedEnvelope ln) in
  if (negb (geom_Envelope_Contains env xy)) then
    false
  else
    let lhs := (f_mul ops (f_sub ops (geom_XY_X xy) (geom_XY_X (geom_line_a ln))) (f_sub ops (geom_XY_Y (geom_line_b ln)) (geom_XY_Y (geom_line_a ln)))) in
    let rhs := (f_mul ops (f_sub ops (geom_XY_Y xy) (geom_XY_Y (geom_line_a ln))) (f_sub ops (geom_XY_X (geom_line_b ln)) (geom_XY_X (geom_line_a ln)))) in
    (f_eqb ops lhs rhs).

(* geom/line.go:line.canonicalise *)
Definition geom_line_canonicalise (ln : (geom_line F)) : (geom_line F) :=
  let ln :=
    if (geom_XY_Less (geom_line_b ln) (geom_line_a ln)) then
      let '(r1, r2) := ((geom_line_b ln), (geom_line_a ln)) in
      let ln := (Mk_geom_line r1 (geom_line_b ln)) in
      let ln := (Mk_geom_line (geom_line_a ln) r2) in
      ln
    else
      ln in
  ln.

(* geom/line.go:canonicaliseLinePair *)
Definition geom_canonicaliseLinePair (lnA : (geom_line F)) (lnB : (geom_line F)) : ((geom_line F) * (geom_line F))%type :=
  let lnA := (geom_line_canonicalise lnA) in
  let lnB := (geom_line_canonicalise lnB) in
  if (negb (geom_line_less lnA lnB)) then
    (lnB, lnA)
  else
    (lnA, lnB).

(* geom/line.go:line.intersectLine  (partial: paths outside the fragment yield Unknown) *)
Definition geom_line_intersectLine (ln : (geom_line F)) (other : (geom_line F)) : partial (geom_lineWithLineIntersection F) :=
  let a := (geom_line_a ln) in
  let b := (geom_line_b ln) in
  let c := (geom_line_a other) in
  let d := (geom_line_b other) in
  let o1 := (geom_orientation a b c) in
  let o2 := (geom_orientation a b d) in
  let o3 := (geom_orientation c d a) in
  let o4 := (geom_orientation c d b) in
  if ((negb (Z.eqb o1 o2)) && (negb (Z.eqb o3 o4))) then
    if (Z.eqb o1 geom_collinear) then
      (Known (Mk_geom_lineWithLineIntersection false c c))
    else
      if (Z.eqb o2 geom_collinear) then
        (Known (Mk_geom_lineWithLineIntersection false d d))
      else
        if (Z.eqb o3 geom_collinear) then
          (Known (Mk_geom_lineWithLineIntersection false a a))
        else
          if (Z.eqb o4 geom_collinear) then
            (Known (Mk_geom_lineWithLineIntersection false b b))
          else
            let e := (f_add ops (f_mul ops (f_sub ops (geom_XY_Y c) (geom_XY_Y d)) (f_sub ops (geom_XY_X a) (geom_XY_X c))) (f_mul ops (f_sub ops (geom_XY_X d) (geom_XY_X c)) (f_sub ops (geom_XY_Y a) (geom_XY_Y c)))) in
            let f := (f_sub ops (f_mul ops (f_sub ops (geom_XY_X d) (geom_XY_X c)) (f_sub ops (geom_XY_Y a) (geom_XY_Y b))) (f_mul ops (f_sub ops (geom_XY_X a) (geom_XY_X b)) (f_sub ops (geom_XY_Y d) (geom_XY_Y c)))) in
            let p := (f_div ops e f) in
            let pt := (geom_XY_Add (geom_XY_Scale (geom_XY_Sub b a) p) a) in
            (Known (Mk_geom_lineWithLineIntersection false pt pt))
  else
    if ((Z.eqb o1 geom_collinear) && (Z.eqb o2 geom_collinear)) then
      if (((negb (geom_onSegment a b c)) && (negb (geom_onSegment a b d))) && ((negb (geom_onSegment c d a)) && (negb (geom_onSegment c d b)))) then
        (Known (Mk_geom_lineWithLineIntersection true (Mk_geom_XY (f_of_Z ops 0%Z) (f_of_Z ops 0%Z)) (Mk_geom_XY (f_of_Z ops 0%Z) (f_of_Z ops 0%Z))))
      else
        (Unknown "call of make: no such function in package geom"%string)
    else
      (Known (Mk_geom_lineWithLineIntersection true (Mk_geom_XY (f_of_Z ops 0%Z) (f_of_Z ops 0%Z)) (Mk_geom_XY (f_of_Z ops 0%Z) (f_of_Z ops 0%Z)))).

(* geom/alg_point_in_ring.go:hasCrossing *)
Definition geom_hasCrossing (pt : (geom_XY F)) (ln : (geom_line F)) : (bool * bool)%type :=
  let crossing := false in
  let onLine := false in
  let '(lower, upper) := ((geom_line_a ln), (geom_line_b ln)) in
  let '(lower, upper) :=
    if (f_gtb ops (geom_XY_Y lower) (geom_XY_Y upper)) then
      let '(lower, upper) := (upper, lower) in
      (lower, upper)
    else
      (lower, upper) in
  let o := (geom_orientation lower upper pt) in
  let crossing := (((f_geb ops (geom_XY_Y pt) (geom_XY_Y lower)) && (f_ltb ops (geom_XY_Y pt) (geom_XY_Y upper))) && (Z.eqb o geom_rightTurn)) in
  let onLine := ((geom_Envelope_Contains (geom_line_uncheckedEnvelope ln) pt) && (Z.eqb o geom_collinear)) in
  (crossing, onLine).

(* geom/type_envelope.go:Envelope.IsPoint *)
Definition geom_Envelope_IsPoint (e : (geom_Envelope F)) : bool :=
  ((negb (geom_Envelope_IsEmpty e)) && (geom_XY_eqb (geom_Envelope_min e) (geom_Envelope_max e))).

(* geom/type_envelope.go:Envelope.IsLine *)
Definition geom_Envelope_IsLine (e : (geom_Envelope F)) : bool :=
  ((negb (geom_Envelope_IsEmpty e)) && (negb (Bool.eqb (f_eqb ops (geom_XY_X (geom_Envelope_min e)) (geom_XY_X (geom_Envelope_max e))) (f_eqb ops (geom_XY_Y (geom_Envelope_min e)) (geom_XY_Y (geom_Envelope_max e)))))).

(* geom/type_envelope.go:Envelope.IsRectangle *)
Definition geom_Envelope_IsRectangle (e : (geom_Envelope F)) : bool :=
  (((negb (geom_Envelope_IsEmpty e)) && (negb (f_eqb ops (geom_XY_X (geom_Envelope_min e)) (geom_XY_X (geom_Envelope_max e))))) && (negb (f_eqb ops (geom_XY_Y (geom_Envelope_min e)) (geom_XY_Y (geom_Envelope_max e))))).

(* geom/errors.go:wrap *)
Definition geom_wrap (err : bool) : bool :=
  if err then
    true
  else
    false.

(* geom/type_envelope.go:Envelope.Validate *)
Definition geom_Envelope_Validate (e : (geom_Envelope F)) : bool :=
  if (geom_Envelope_IsEmpty e) then
    true
  else
    let err := (geom_XY_validate (geom_Envelope_min e)) in
    if (negb err) then
      (geom_wrap err)
    else
      let err_1 := (geom_XY_validate (geom_Envelope_max e)) in
      if (negb err_1) then
        (geom_wrap err_1)
      else
        true.

(* geom/type_envelope.go:Envelope.MinMaxXYs *)
Definition geom_Envelope_MinMaxXYs (e : (geom_Envelope F)) : ((geom_XY F) * (geom_XY F) * bool)%type :=
  if (geom_Envelope_IsEmpty e) then
    ((Mk_geom_XY (f_of_Z ops 0%Z) (f_of_Z ops 0%Z)), (Mk_geom_XY (f_of_Z ops 0%Z) (f_of_Z ops 0%Z)), false)
  else
    ((geom_Envelope_min e), (geom_Envelope_max e), true).

(* geom/type_envelope.go:Envelope.ExpandToIncludeXY *)
Definition geom_Envelope_ExpandToIncludeXY (e : (geom_Envelope F)) (xy : (geom_XY F)) : (geom_Envelope F) :=
  if (geom_Envelope_IsEmpty e) then
    (geom_newUncheckedEnvelope xy xy)
  else
    (geom_newUncheckedEnvelope (Mk_geom_XY (geom_fastMin (geom_XY_X (geom_Envelope_min e)) (geom_XY_X xy)) (geom_fastMin (geom_XY_Y (geom_Envelope_min e)) (geom_XY_Y xy))) (Mk_geom_XY (geom_fastMax (geom_XY_X (geom_Envelope_max e)) (geom_XY_X xy)) (geom_fastMax (geom_XY_Y (geom_Envelope_max e)) (geom_XY_Y xy)))).

(* geom/type_envelope.go:Envelope.ExpandToIncludeEnvelope *)
Definition geom_Envelope_ExpandToIncludeEnvelope (e : (geom_Envelope F)) (o : (geom_Envelope F)) : (geom_Envelope F) :=
  if (geom_Envelope_IsEmpty e) then
    o
  else
    if (geom_Envelope_IsEmpty o) then
      e
    else
      (geom_newUncheckedEnvelope (Mk_geom_XY (geom_fastMin (geom_XY_X (geom_Envelope_min e)) (geom_XY_X (geom_Envelope_min o))) (geom_fastMin (geom_XY_Y (geom_Envelope_min e)) (geom_XY_Y (geom_Envelope_min o)))) (Mk_geom_XY (geom_fastMax (geom_XY_X (geom_Envelope_max e)) (geom_XY_X (geom_Envelope_max o))) (geom_fastMax (geom_XY_Y (geom_Envelope_max e)) (geom_XY_Y (geom_Envelope_max o))))).

(* geom/type_envelope.go:Envelope.Intersects *)
Definition geom_Envelope_Intersects (e : (geom_Envelope F)) (o : (geom_Envelope F)) : bool :=
  ((((((negb (geom_Envelope_IsEmpty e)) && (negb (geom_Envelope_IsEmpty o))) && (f_leb ops (geom_XY_X (geom_Envelope_min e)) (geom_XY_X (geom_Envelope_max o)))) && (f_geb ops (geom_XY_X (geom_Envelope_max e)) (geom_XY_X (geom_Envelope_min o)))) && (f_leb ops (geom_XY_Y (geom_Envelope_min e)) (geom_XY_Y (geom_Envelope_max o)))) && (f_geb ops (geom_XY_Y (geom_Envelope_max e)) (geom_XY_Y (geom_Envelope_min o)))).

(* geom/type_envelope.go:Envelope.Covers *)
Definition geom_Envelope_Covers (e : (geom_Envelope F)) (o : (geom_Envelope F)) : bool :=
  ((((((negb (geom_Envelope_IsEmpty e)) && (negb (geom_Envelope_IsEmpty o))) && (f_leb ops (geom_XY_X (geom_Envelope_min e)) (geom_XY_X (geom_Envelope_min o)))) && (f_leb ops (geom_XY_Y (geom_Envelope_min e)) (geom_XY_Y (geom_Envelope_min o)))) && (f_geb ops (geom_XY_X (geom_Envelope_max e)) (geom_XY_X (geom_Envelope_max o)))) && (f_geb ops (geom_XY_Y (geom_Envelope_max e)) (geom_XY_Y (geom_Envelope_max o)))).

(* geom/type_envelope.go:Envelope.Width *)
Definition geom_Envelope_Width (e : (geom_Envelope F)) : F :=
  if (geom_Envelope_IsEmpty e) then
    (f_of_Z ops 0%Z)
  else
    (f_sub ops (geom_XY_X (geom_Envelope_max e)) (geom_XY_X (geom_Envelope_min e))).

(* geom/type_envelope.go:Envelope.Height *)
Definition geom_Envelope_Height (e : (geom_Envelope F)) : F :=
  if (geom_Envelope_IsEmpty e) then
    (f_of_Z ops 0%Z)
  else
    (f_sub ops (geom_XY_Y (geom_Envelope_max e)) (geom_XY_Y (geom_Envelope_min e))).

(* geom/type_envelope.go:Envelope.Area *)
Definition geom_Envelope_Area (e : (geom_Envelope F)) : F :=
  if (geom_Envelope_IsEmpty e) then
    (f_of_Z ops 0%Z)
  else
    (f_mul ops (f_sub ops (geom_XY_X (geom_Envelope_max e)) (geom_XY_X (geom_Envelope_min e))) (f_sub ops (geom_XY_Y (geom_Envelope_max e)) (geom_XY_Y (geom_Envelope_min e)))).

(* geom/type_envelope.go:Envelope.Distance *)
Definition geom_Envelope_Distance (e : (geom_Envelope F)) (o : (geom_Envelope F)) : (F * bool)%type :=
  if ((geom_Envelope_IsEmpty e) || (geom_Envelope_IsEmpty o)) then
    ((f_of_Z ops 0%Z), false)
  else
    let dx := (geom_fastMax (f_of_Z ops 0%Z) (geom_fastMax (f_sub ops (geom_XY_X (geom_Envelope_min o)) (geom_XY_X (geom_Envelope_max e))) (f_sub ops (geom_XY_X (geom_Envelope_min e)) (geom_XY_X (geom_Envelope_max o))))) in
    let dy := (geom_fastMax (f_of_Z ops 0%Z) (geom_fastMax (f_sub ops (geom_XY_Y (geom_Envelope_min o)) (geom_XY_Y (geom_Envelope_max e))) (f_sub ops (geom_XY_Y (geom_Envelope_min e)) (geom_XY_Y (geom_Envelope_max o))))) in
    ((f_hypot ops dx dy), true).

(* geom/type_envelope.go:Envelope.AsBox *)
Definition geom_Envelope_AsBox (e : (geom_Envelope F)) : ((rtree_Box F) * bool)%type :=
  ((Mk_rtree_Box (geom_XY_X (geom_Envelope_min e)) (geom_XY_Y (geom_Envelope_min e)) (geom_XY_X (geom_Envelope_max e)) (geom_XY_Y (geom_Envelope_max e))), (negb (geom_Envelope_IsEmpty e))).

End Funcs.

(* translated: 59 functions; not translated: 0 *)
