(* GENERATED FILE - do not edit.  Written by tools/gen_funcs (tools/gen_funcs.sh, second output) from
   the Go source of the library under test, on every run of tools/check.py: the package carto (nine
   map projections: constructor, setters, Forward, Reverse; the helpers of carto/util.go; the radius
   constants).  Each definition is the body of one Go function, translated operator by operator from
   the syntax tree into Gallina over the carrier of coq/Base/FOpsT.v (record fops_t: the operations
   of coq/Base/FOps.v, written [ops] below, plus pi and the elementary functions of package math);
   nothing is simplified.  A pointer to a struct is translated as the struct value: a method with a
   pointer receiver takes the receiver value, a method without results returns the receiver value
   as updated by its body, &T{..} is the value T{..}.  An array [N]T is an N-tuple.  The obligations
   that the model coq/Model/Carto.v computes the same functions over the real numbers are in
   coq/Proofs/Funcs_tie_Carto.v.  A function that could not be located or that leaves the
   translated fragment is set to [untranslatable "reason"], which breaks its obligation. *)
From Coq Require Import ZArith Bool String.
From SF Require Import Base.FOps Base.FOpsT.
Open Scope bool_scope.

(* ==================== struct types (one record per Go struct, fields in declaration order) *)

(* geom/xy.go: type XY struct *)
Record geom_XY (F : Type) := Mk_geom_XY {
  geom_XY_X : F;
  geom_XY_Y : F
}.
Arguments Mk_geom_XY {F}.
Arguments geom_XY_X {F} _.
Arguments geom_XY_Y {F} _.

(* carto/proj_equirectangular.go: type Equirectangular struct *)
Record carto_Equirectangular (F : Type) := Mk_carto_Equirectangular {
  carto_Equirectangular_u03bb0 : F;
  carto_Equirectangular_cosu03c61 : F;
  carto_Equirectangular_radius : F
}.
Arguments Mk_carto_Equirectangular {F}.
Arguments carto_Equirectangular_u03bb0 {F} _.
Arguments carto_Equirectangular_cosu03c61 {F} _.
Arguments carto_Equirectangular_radius {F} _.

(* carto/proj_sinusoidal.go: type Sinusoidal struct *)
Record carto_Sinusoidal (F : Type) := Mk_carto_Sinusoidal {
  carto_Sinusoidal_radius : F;
  carto_Sinusoidal_u03bb0 : F
}.
Arguments Mk_carto_Sinusoidal {F}.
Arguments carto_Sinusoidal_radius {F} _.
Arguments carto_Sinusoidal_u03bb0 {F} _.

(* carto/proj_web_mercator.go: type WebMercator struct *)
Record carto_WebMercator (F : Type) := Mk_carto_WebMercator {
  carto_WebMercator_zoom : Z
}.
Arguments Mk_carto_WebMercator {F}.
Arguments carto_WebMercator_zoom {F} _.

(* carto/proj_lambert_cylindrical_equal_area.go: type LambertCylindricalEqualArea struct *)
Record carto_LambertCylindricalEqualArea (F : Type) := Mk_carto_LambertCylindricalEqualArea {
  carto_LambertCylindricalEqualArea_radius : F;
  carto_LambertCylindricalEqualArea_u03bb0 : F
}.
Arguments Mk_carto_LambertCylindricalEqualArea {F}.
Arguments carto_LambertCylindricalEqualArea_radius {F} _.
Arguments carto_LambertCylindricalEqualArea_u03bb0 {F} _.

(* carto/proj_orthographic.go: type Orthographic struct *)
Record carto_Orthographic (F : Type) := Mk_carto_Orthographic {
  carto_Orthographic_radius : F;
  carto_Orthographic_u03bb0 : F;
  carto_Orthographic_cosu03c60 : F;
  carto_Orthographic_sinu03c60 : F
}.
Arguments Mk_carto_Orthographic {F}.
Arguments carto_Orthographic_radius {F} _.
Arguments carto_Orthographic_u03bb0 {F} _.
Arguments carto_Orthographic_cosu03c60 {F} _.
Arguments carto_Orthographic_sinu03c60 {F} _.

(* carto/proj_azimuthal_equidistant.go: type AzimuthalEquidistant struct *)
Record carto_AzimuthalEquidistant (F : Type) := Mk_carto_AzimuthalEquidistant {
  carto_AzimuthalEquidistant_radius : F;
  carto_AzimuthalEquidistant_centerLonLat : (geom_XY F)
}.
Arguments Mk_carto_AzimuthalEquidistant {F}.
Arguments carto_AzimuthalEquidistant_radius {F} _.
Arguments carto_AzimuthalEquidistant_centerLonLat {F} _.

(* carto/proj_lambert_conformal_conic.go: type LambertConformalConic struct *)
Record carto_LambertConformalConic (F : Type) := Mk_carto_LambertConformalConic {
  carto_LambertConformalConic_radius : F;
  carto_LambertConformalConic_origin : (geom_XY F);
  carto_LambertConformalConic_stdParallels : (F * F)%type
}.
Arguments Mk_carto_LambertConformalConic {F}.
Arguments carto_LambertConformalConic_radius {F} _.
Arguments carto_LambertConformalConic_origin {F} _.
Arguments carto_LambertConformalConic_stdParallels {F} _.

(* carto/proj_albers_equal_area_conic.go: type AlbersEqualAreaConic struct *)
Record carto_AlbersEqualAreaConic (F : Type) := Mk_carto_AlbersEqualAreaConic {
  carto_AlbersEqualAreaConic_radius : F;
  carto_AlbersEqualAreaConic_origin : (geom_XY F);
  carto_AlbersEqualAreaConic_stdParallels : (F * F)%type
}.
Arguments Mk_carto_AlbersEqualAreaConic {F}.
Arguments carto_AlbersEqualAreaConic_radius {F} _.
Arguments carto_AlbersEqualAreaConic_origin {F} _.
Arguments carto_AlbersEqualAreaConic_stdParallels {F} _.

(* carto/proj_equidistant_conic.go: type EquidistantConic struct *)
Record carto_EquidistantConic (F : Type) := Mk_carto_EquidistantConic {
  carto_EquidistantConic_earthRadius : F;
  carto_EquidistantConic_stdParallels : (F * F)%type;
  carto_EquidistantConic_origin : (geom_XY F)
}.
Arguments Mk_carto_EquidistantConic {F}.
Arguments carto_EquidistantConic_earthRadius {F} _.
Arguments carto_EquidistantConic_stdParallels {F} _.
Arguments carto_EquidistantConic_origin {F} _.

(* ==================== typed integer constants *)

(* ==================== function bodies *)
Section Funcs.
Context {F : Type} (T : fops_t F).
Local Notation ops := (t_base T).

(* ---- float constants (exact value of the constant expression, lowest terms) *)

(* carto/radius.go: const WGS84EllipsoidEquatorialRadiusM *)
Definition carto_WGS84EllipsoidEquatorialRadiusM : F := (f_of_Z ops 6378137%Z).

(* carto/radius.go: const WGS84EllipsoidPolarRadiusM *)
Definition carto_WGS84EllipsoidPolarRadiusM : F := (f_div ops (f_of_Z ops 1271350462849%Z) (f_of_Z ops 200000%Z)).

(* carto/radius.go: const WGS84EllipsoidMeanRadiusM *)
Definition carto_WGS84EllipsoidMeanRadiusM : F := (f_div ops (f_of_Z ops 1274201754283%Z) (f_of_Z ops 200000%Z)).

(* ---- functions *)

(* carto/util.go:dtor *)
Definition carto_dtor (d : F) : F :=
  (f_div ops (f_mul ops d (t_pi T)) (f_of_Z ops 180%Z)).

(* carto/util.go:rtod *)
Definition carto_rtod (r : F) : F :=
  (f_div ops (f_mul ops r (f_of_Z ops 180%Z)) (t_pi T)).

(* carto/util.go:rtodxy *)
Definition carto_rtodxy (u03bb : F) (u03c6 : F) : (geom_XY F) :=
  (Mk_geom_XY (carto_rtod u03bb) (carto_rtod u03c6)).

(* carto/util.go:sq *)
Definition carto_sq (x : F) : F :=
  (f_mul ops x x).

(* carto/util.go:cos *)
Definition carto_cos (x : F) : F :=
  (t_cos T x).

(* carto/util.go:sec *)
Definition carto_sec (x : F) : F :=
  (f_div ops (f_of_Z ops 1%Z) (carto_cos x)).

(* carto/util.go:tan *)
Definition carto_tan (x : F) : F :=
  (t_tan T x).

(* carto/util.go:cot *)
Definition carto_cot (x : F) : F :=
  (f_div ops (f_of_Z ops 1%Z) (carto_tan x)).

(* carto/util.go:sign *)
Definition carto_sign (x : F) : F :=
  (t_copysign T (f_of_Z ops 1%Z) x).

(* carto/util.go:pow *)
Definition carto_pow (x : F) (y : F) : F :=
  (t_pow T x y).

(* carto/util.go:atan2 *)
Definition carto_atan2 (y : F) (x : F) : F :=
  (t_atan2 T y x).

(* carto/proj_equirectangular.go:NewEquirectangular *)
Definition carto_NewEquirectangular (earthRadius : F) : (carto_Equirectangular F) :=
  (Mk_carto_Equirectangular (f_of_Z ops 0%Z) (f_of_Z ops 1%Z) earthRadius).

(* carto/proj_equirectangular.go:Equirectangular.SetCentralMeridian *)
Definition carto_Equirectangular_SetCentralMeridian (e : (carto_Equirectangular F)) (lon : F) : (carto_Equirectangular F) :=
  let r1 := (carto_dtor lon) in
  let e := (Mk_carto_Equirectangular r1 (carto_Equirectangular_cosu03c61 e) (carto_Equirectangular_radius e)) in
  e.

(* carto/proj_equirectangular.go:Equirectangular.SetStandardParallels *)
Definition carto_Equirectangular_SetStandardParallels (e : (carto_Equirectangular F)) (lat : F) : (carto_Equirectangular F) :=
  let u03c61 := (carto_dtor lat) in
  let r1 := (carto_cos u03c61) in
  let e := (Mk_carto_Equirectangular (carto_Equirectangular_u03bb0 e) r1 (carto_Equirectangular_radius e)) in
  e.

(* carto/proj_equirectangular.go:Equirectangular.Forward *)
Definition carto_Equirectangular_Forward (e : (carto_Equirectangular F)) (lonLat : (geom_XY F)) : (geom_XY F) :=
  let R := (carto_Equirectangular_radius e) in
  let u03bb := (carto_dtor (geom_XY_X lonLat)) in
  let u03c6 := (carto_dtor (geom_XY_Y lonLat)) in
  let u03bb0 := (carto_Equirectangular_u03bb0 e) in
  let cosu03c61 := (carto_Equirectangular_cosu03c61 e) in
  (Mk_geom_XY (f_mul ops (f_mul ops R (f_sub ops u03bb u03bb0)) cosu03c61) (f_mul ops R u03c6)).

(* carto/proj_equirectangular.go:Equirectangular.Reverse *)
Definition carto_Equirectangular_Reverse (e : (carto_Equirectangular F)) (xy : (geom_XY F)) : (geom_XY F) :=
  let R := (carto_Equirectangular_radius e) in
  let x := (geom_XY_X xy) in
  let y := (geom_XY_Y xy) in
  let u03bb0 := (carto_Equirectangular_u03bb0 e) in
  let cosu03c61 := (carto_Equirectangular_cosu03c61 e) in
  let u03bb := (f_add ops (f_div ops x (f_mul ops R cosu03c61)) u03bb0) in
  let u03c6 := (f_div ops y R) in
  (carto_rtodxy u03bb u03c6).

(* carto/proj_sinusoidal.go:NewSinusoidal *)
Definition carto_NewSinusoidal (earthRadius : F) : (carto_Sinusoidal F) :=
  (Mk_carto_Sinusoidal earthRadius (f_of_Z ops 0%Z)).

(* carto/proj_sinusoidal.go:Sinusoidal.SetCentralMeridian *)
Definition carto_Sinusoidal_SetCentralMeridian (c : (carto_Sinusoidal F)) (lon : F) : (carto_Sinusoidal F) :=
  let r1 := (carto_dtor lon) in
  let c := (Mk_carto_Sinusoidal (carto_Sinusoidal_radius c) r1) in
  c.

(* carto/proj_sinusoidal.go:Sinusoidal.Forward *)
Definition carto_Sinusoidal_Forward (c : (carto_Sinusoidal F)) (lonLat : (geom_XY F)) : (geom_XY F) :=
  let R := (carto_Sinusoidal_radius c) in
  let u03bb0 := (carto_Sinusoidal_u03bb0 c) in
  let u03bb := (carto_dtor (geom_XY_X lonLat)) in
  let u03c6 := (carto_dtor (geom_XY_Y lonLat)) in
  (Mk_geom_XY (f_mul ops (f_mul ops R (carto_cos u03c6)) (f_sub ops u03bb u03bb0)) (f_mul ops R u03c6)).

(* carto/proj_sinusoidal.go:Sinusoidal.Reverse *)
Definition carto_Sinusoidal_Reverse (c : (carto_Sinusoidal F)) (xy : (geom_XY F)) : (geom_XY F) :=
  let R := (carto_Sinusoidal_radius c) in
  let u03bb0 := (carto_Sinusoidal_u03bb0 c) in
  let x := (geom_XY_X xy) in
  let y := (geom_XY_Y xy) in
  let u03bb := (f_add ops (f_div ops x (f_mul ops R (carto_cos (f_div ops y R)))) u03bb0) in
  let u03c6 := (f_div ops y R) in
  (carto_rtodxy u03bb u03c6).

(* carto/proj_web_mercator.go:NewWebMercator *)
Definition carto_NewWebMercator (zoom : Z) : (carto_WebMercator F) :=
  (Mk_carto_WebMercator zoom).

(* carto/util.go:ln *)
Definition carto_ln (x : F) : F :=
  (t_log T x).

(* carto/proj_web_mercator.go:WebMercator.Forward *)
Definition carto_WebMercator_Forward (m : (carto_WebMercator F)) (lonlat : (geom_XY F)) : (geom_XY F) :=
  let u03bbd := (geom_XY_X lonlat) in
  let u03c6 := (carto_dtor (geom_XY_Y lonlat)) in
  let P := (f_of_Z ops (Z.shiftl 1%Z (carto_WebMercator_zoom m))) in
  (Mk_geom_XY (f_mul ops (f_div ops (f_add ops u03bbd (f_of_Z ops 180%Z)) (f_of_Z ops 360%Z)) P) (f_div ops (f_mul ops (f_sub ops (t_pi T) (carto_ln (carto_tan (f_add ops (f_div ops (t_pi T) (f_of_Z ops 4%Z)) (f_div ops u03c6 (f_of_Z ops 2%Z)))))) P) (f_mul ops (f_of_Z ops 2%Z) (t_pi T)))).

(* carto/util.go:atan *)
Definition carto_atan (x : F) : F :=
  (t_atan T x).

(* carto/util.go:exp *)
Definition carto_exp (x : F) : F :=
  (t_exp T x).

(* carto/proj_web_mercator.go:WebMercator.Reverse *)
Definition carto_WebMercator_Reverse (m : (carto_WebMercator F)) (xy : (geom_XY F)) : (geom_XY F) :=
  let x := (geom_XY_X xy) in
  let y := (geom_XY_Y xy) in
  let P := (f_of_Z ops (Z.shiftl 1%Z (carto_WebMercator_zoom m))) in
  let u03bbd := (f_sub ops (f_mul ops (f_div ops x P) (f_of_Z ops 360%Z)) (f_of_Z ops 180%Z)) in
  let u03c6r := (f_mul ops (f_of_Z ops 2%Z) (f_sub ops (carto_atan (carto_exp (f_sub ops (t_pi T) (f_div ops (f_mul ops (f_mul ops (f_of_Z ops 2%Z) (t_pi T)) y) P)))) (f_div ops (t_pi T) (f_of_Z ops 4%Z)))) in
  (Mk_geom_XY u03bbd (carto_rtod u03c6r)).

(* carto/proj_lambert_cylindrical_equal_area.go:NewLambertCylindricalEqualArea *)
Definition carto_NewLambertCylindricalEqualArea (radius : F) : (carto_LambertCylindricalEqualArea F) :=
  (Mk_carto_LambertCylindricalEqualArea radius (f_of_Z ops 0%Z)).

(* carto/proj_lambert_cylindrical_equal_area.go:LambertCylindricalEqualArea.SetCentralMeridian *)
Definition carto_LambertCylindricalEqualArea_SetCentralMeridian (c : (carto_LambertCylindricalEqualArea F)) (lon : F) : (carto_LambertCylindricalEqualArea F) :=
  let r1 := (carto_dtor lon) in
  let c := (Mk_carto_LambertCylindricalEqualArea (carto_LambertCylindricalEqualArea_radius c) r1) in
  c.

(* carto/util.go:sin *)
Definition carto_sin (x : F) : F :=
  (t_sin T x).

(* carto/proj_lambert_cylindrical_equal_area.go:LambertCylindricalEqualArea.Forward *)
Definition carto_LambertCylindricalEqualArea_Forward (c : (carto_LambertCylindricalEqualArea F)) (lonLat : (geom_XY F)) : (geom_XY F) :=
  let R := (carto_LambertCylindricalEqualArea_radius c) in
  let u03bb := (carto_dtor (geom_XY_X lonLat)) in
  let u03bb0 := (carto_LambertCylindricalEqualArea_u03bb0 c) in
  let u03c6 := (carto_dtor (geom_XY_Y lonLat)) in
  (Mk_geom_XY (f_mul ops R (f_sub ops u03bb u03bb0)) (f_mul ops R (carto_sin u03c6))).

(* carto/util.go:asin *)
Definition carto_asin (x : F) : F :=
  (t_asin T x).

(* carto/proj_lambert_cylindrical_equal_area.go:LambertCylindricalEqualArea.Reverse *)
Definition carto_LambertCylindricalEqualArea_Reverse (c : (carto_LambertCylindricalEqualArea F)) (xy : (geom_XY F)) : (geom_XY F) :=
  let R := (carto_LambertCylindricalEqualArea_radius c) in
  let x := (geom_XY_X xy) in
  let y := (geom_XY_Y xy) in
  let u03bb0 := (carto_LambertCylindricalEqualArea_u03bb0 c) in
  let u03bb := (f_add ops (f_div ops x R) u03bb0) in
  let u03c6 := (carto_asin (f_div ops y R)) in
  (carto_rtodxy u03bb u03c6).

(* carto/proj_orthographic.go:NewOrthographic *)
Definition carto_NewOrthographic (radius : F) : (carto_Orthographic F) :=
  (Mk_carto_Orthographic radius (f_of_Z ops 0%Z) (f_of_Z ops 1%Z) (f_of_Z ops 0%Z)).

(* carto/proj_orthographic.go:Orthographic.SetCenter *)
Definition carto_Orthographic_SetCenter (m : (carto_Orthographic F)) (centerLonLat : (geom_XY F)) : (carto_Orthographic F) :=
  let r1 := (carto_dtor (geom_XY_X centerLonLat)) in
  let m := (Mk_carto_Orthographic (carto_Orthographic_radius m) r1 (carto_Orthographic_cosu03c60 m) (carto_Orthographic_sinu03c60 m)) in
  let u03c60 := (carto_dtor (geom_XY_Y centerLonLat)) in
  let r2 := (carto_sin u03c60) in
  let m := (Mk_carto_Orthographic (carto_Orthographic_radius m) (carto_Orthographic_u03bb0 m) (carto_Orthographic_cosu03c60 m) r2) in
  let r3 := (carto_cos u03c60) in
  let m := (Mk_carto_Orthographic (carto_Orthographic_radius m) (carto_Orthographic_u03bb0 m) r3 (carto_Orthographic_sinu03c60 m)) in
  m.

(* carto/proj_orthographic.go:Orthographic.Forward *)
Definition carto_Orthographic_Forward (m : (carto_Orthographic F)) (lonLat : (geom_XY F)) : (geom_XY F) :=
  let R := (carto_Orthographic_radius m) in
  let u03bb := (carto_dtor (geom_XY_X lonLat)) in
  let u03c6 := (carto_dtor (geom_XY_Y lonLat)) in
  let u03bb0 := (carto_Orthographic_u03bb0 m) in
  let cosu03c60 := (carto_Orthographic_cosu03c60 m) in
  let sinu03c60 := (carto_Orthographic_sinu03c60 m) in
  (Mk_geom_XY (f_mul ops (f_mul ops R (carto_cos u03c6)) (carto_sin (f_sub ops u03bb u03bb0))) (f_mul ops R (f_sub ops (f_mul ops cosu03c60 (carto_sin u03c6)) (f_mul ops (f_mul ops sinu03c60 (carto_cos u03c6)) (carto_cos (f_sub ops u03bb u03bb0)))))).

(* geom/xy.go:XY.Length *)
Definition geom_XY_Length (w : (geom_XY F)) : F :=
  (f_hypot ops (geom_XY_X w) (geom_XY_Y w)).

(* carto/proj_orthographic.go:Orthographic.Reverse *)
Definition carto_Orthographic_Reverse (m : (carto_Orthographic F)) (xy : (geom_XY F)) : (geom_XY F) :=
  let R := (carto_Orthographic_radius m) in
  let x := (geom_XY_X xy) in
  let y := (geom_XY_Y xy) in
  let u03bb0 := (carto_Orthographic_u03bb0 m) in
  let cosu03c60 := (carto_Orthographic_cosu03c60 m) in
  let sinu03c60 := (carto_Orthographic_sinu03c60 m) in
  let u03c1 := (geom_XY_Length xy) in
  if (f_eqb ops u03c1 (f_of_Z ops 0%Z)) then
    (carto_rtodxy u03bb0 (carto_atan2 sinu03c60 cosu03c60))
  else
    let c := (carto_asin (f_div ops u03c1 R)) in
    let u03c6 := (carto_asin (f_add ops (f_mul ops (carto_cos c) sinu03c60) (f_div ops (f_mul ops (f_mul ops y (carto_sin c)) cosu03c60) u03c1))) in
    let u03bb := (f_add ops u03bb0 (carto_atan2 (f_mul ops x (carto_sin c)) (f_sub ops (f_mul ops (f_mul ops u03c1 (carto_cos c)) cosu03c60) (f_mul ops (f_mul ops y (carto_sin c)) sinu03c60)))) in
    (carto_rtodxy u03bb u03c6).

(* carto/proj_azimuthal_equidistant.go:NewAzimuthalEquidistant *)
Definition carto_NewAzimuthalEquidistant (earthRadius : F) : (carto_AzimuthalEquidistant F) :=
  (Mk_carto_AzimuthalEquidistant earthRadius (Mk_geom_XY (f_of_Z ops 0%Z) (f_of_Z ops 0%Z))).

(* carto/proj_azimuthal_equidistant.go:AzimuthalEquidistant.SetCenter *)
Definition carto_AzimuthalEquidistant_SetCenter (a : (carto_AzimuthalEquidistant F)) (centerLonLat : (geom_XY F)) : (carto_AzimuthalEquidistant F) :=
  let r1 := centerLonLat in
  let a := (Mk_carto_AzimuthalEquidistant (carto_AzimuthalEquidistant_radius a) r1) in
  a.

(* carto/util.go:sqrt *)
Definition carto_sqrt (x : F) : F :=
  (f_sqrt ops x).

(* carto/proj_azimuthal_equidistant.go:AzimuthalEquidistant.Forward *)
Definition carto_AzimuthalEquidistant_Forward (a : (carto_AzimuthalEquidistant F)) (lonLat : (geom_XY F)) : (geom_XY F) :=
  let R := (carto_AzimuthalEquidistant_radius a) in
  let u03bbd := (geom_XY_X lonLat) in
  let u03c6d := (geom_XY_Y lonLat) in
  let u03bbr := (carto_dtor u03bbd) in
  let u03c6r := (carto_dtor u03c6d) in
  let u03bb0r := (carto_dtor (geom_XY_X (carto_AzimuthalEquidistant_centerLonLat a))) in
  let u03c60r := (carto_dtor (geom_XY_Y (carto_AzimuthalEquidistant_centerLonLat a))) in
  let sinc := (carto_sqrt (f_add ops (carto_sq (f_mul ops (carto_cos u03c6r) (carto_sin (f_sub ops u03bbr u03bb0r)))) (carto_sq (f_sub ops (f_mul ops (carto_cos u03c60r) (carto_sin u03c6r)) (f_mul ops (f_mul ops (carto_sin u03c60r) (carto_cos u03c6r)) (carto_cos (f_sub ops u03bbr u03bb0r))))))) in
  let cosc := (f_add ops (f_mul ops (carto_sin u03c60r) (carto_sin u03c6r)) (f_mul ops (f_mul ops (carto_cos u03c60r) (carto_cos u03c6r)) (carto_cos (f_sub ops u03bbr u03bb0r)))) in
  let u03c1 := (f_mul ops R (carto_atan2 sinc cosc)) in
  let u03b8 := (carto_atan2 (f_mul ops (carto_cos u03c6r) (carto_sin (f_sub ops u03bbr u03bb0r))) (f_sub ops (f_mul ops (carto_cos u03c60r) (carto_sin u03c6r)) (f_mul ops (f_mul ops (carto_sin u03c60r) (carto_cos u03c6r)) (carto_cos (f_sub ops u03bbr u03bb0r))))) in
  (Mk_geom_XY (f_mul ops u03c1 (carto_sin u03b8)) (f_mul ops u03c1 (carto_cos u03b8))).

(* carto/proj_azimuthal_equidistant.go:AzimuthalEquidistant.Reverse *)
Definition carto_AzimuthalEquidistant_Reverse (a : (carto_AzimuthalEquidistant F)) (xy : (geom_XY F)) : (geom_XY F) :=
  let R := (carto_AzimuthalEquidistant_radius a) in
  let x := (geom_XY_X xy) in
  let y := (geom_XY_Y xy) in
  let u03bb0r := (carto_dtor (geom_XY_X (carto_AzimuthalEquidistant_centerLonLat a))) in
  let u03c60r := (carto_dtor (geom_XY_Y (carto_AzimuthalEquidistant_centerLonLat a))) in
  let u03c1 := (carto_sqrt (f_add ops (f_mul ops x x) (f_mul ops y y))) in
  if (f_eqb ops u03c1 (f_of_Z ops 0%Z)) then
    (carto_AzimuthalEquidistant_centerLonLat a)
  else
    let u03c6r := (carto_asin (f_add ops (f_mul ops (carto_cos (f_div ops u03c1 R)) (carto_sin u03c60r)) (f_div ops (f_mul ops (f_mul ops y (carto_sin (f_div ops u03c1 R))) (carto_cos u03c60r)) u03c1))) in
    let u03bbr := (f_add ops u03bb0r (carto_atan2 (f_mul ops x (carto_sin (f_div ops u03c1 R))) (f_sub ops (f_mul ops (f_mul ops u03c1 (carto_cos u03c60r)) (carto_cos (f_div ops u03c1 R))) (f_mul ops (f_mul ops y (carto_sin u03c60r)) (carto_sin (f_div ops u03c1 R)))))) in
    let u03bbd := (carto_rtod u03bbr) in
    let u03c6d := (carto_rtod u03c6r) in
    (Mk_geom_XY u03bbd u03c6d).

(* carto/proj_lambert_conformal_conic.go:NewLambertConformalConic *)
Definition carto_NewLambertConformalConic (earthRadius : F) : (carto_LambertConformalConic F) :=
  (Mk_carto_LambertConformalConic earthRadius (Mk_geom_XY (f_of_Z ops 0%Z) (f_of_Z ops 0%Z)) ((f_of_Z ops 0%Z), (f_of_Z ops 0%Z))).

(* carto/proj_lambert_conformal_conic.go:LambertConformalConic.SetOrigin *)
Definition carto_LambertConformalConic_SetOrigin (c : (carto_LambertConformalConic F)) (origin : (geom_XY F)) : (carto_LambertConformalConic F) :=
  let r1 := origin in
  let c := (Mk_carto_LambertConformalConic (carto_LambertConformalConic_radius c) r1 (carto_LambertConformalConic_stdParallels c)) in
  c.

(* carto/proj_lambert_conformal_conic.go:LambertConformalConic.SetStandardParallels *)
Definition carto_LambertConformalConic_SetStandardParallels (c : (carto_LambertConformalConic F)) (lat1 : F) (lat2 : F) : (carto_LambertConformalConic F) :=
  let r1 := lat1 in
  let c := (Mk_carto_LambertConformalConic (carto_LambertConformalConic_radius c) (carto_LambertConformalConic_origin c) (r1, (snd (carto_LambertConformalConic_stdParallels c)))) in
  let r2 := lat2 in
  let c := (Mk_carto_LambertConformalConic (carto_LambertConformalConic_radius c) (carto_LambertConformalConic_origin c) ((fst (carto_LambertConformalConic_stdParallels c)), r2)) in
  c.

(* carto/proj_lambert_conformal_conic.go:LambertConformalConic.Forward *)
Definition carto_LambertConformalConic_Forward (c : (carto_LambertConformalConic F)) (lonlat : (geom_XY F)) : (geom_XY F) :=
  let R := (carto_LambertConformalConic_radius c) in
  let u03c6 := (carto_dtor (geom_XY_Y lonlat)) in
  let u03bb := (carto_dtor (geom_XY_X lonlat)) in
  let u03c60 := (carto_dtor (geom_XY_Y (carto_LambertConformalConic_origin c))) in
  let u03bb0 := (carto_dtor (geom_XY_X (carto_LambertConformalConic_origin c))) in
  let u03c61 := (carto_dtor (fst (carto_LambertConformalConic_stdParallels c))) in
  let u03c62 := (carto_dtor (snd (carto_LambertConformalConic_stdParallels c))) in
  let n := (f_div ops (carto_ln (f_mul ops (carto_cos u03c61) (carto_sec u03c62))) (carto_ln (f_mul ops (carto_tan (f_add ops (f_div ops (t_pi T) (f_of_Z ops 4%Z)) (f_div ops u03c62 (f_of_Z ops 2%Z)))) (carto_cot (f_add ops (f_div ops (t_pi T) (f_of_Z ops 4%Z)) (f_div ops u03c61 (f_of_Z ops 2%Z))))))) in
  let F_1 := (f_div ops (f_mul ops (carto_cos u03c61) (carto_pow (carto_tan (f_add ops (f_div ops (t_pi T) (f_of_Z ops 4%Z)) (f_div ops u03c61 (f_of_Z ops 2%Z)))) n)) n) in
  let u03c1 := (f_mul ops (f_mul ops R F_1) (carto_pow (carto_cot (f_add ops (f_div ops (t_pi T) (f_of_Z ops 4%Z)) (f_div ops u03c6 (f_of_Z ops 2%Z)))) n)) in
  let u03c10 := (f_mul ops (f_mul ops R F_1) (carto_pow (carto_cot (f_add ops (f_div ops (t_pi T) (f_of_Z ops 4%Z)) (f_div ops u03c60 (f_of_Z ops 2%Z)))) n)) in
  (Mk_geom_XY (f_mul ops u03c1 (carto_sin (f_mul ops n (f_sub ops u03bb u03bb0)))) (f_sub ops u03c10 (f_mul ops u03c1 (carto_cos (f_mul ops n (f_sub ops u03bb u03bb0)))))).

(* carto/proj_lambert_conformal_conic.go:LambertConformalConic.Reverse *)
Definition carto_LambertConformalConic_Reverse (c : (carto_LambertConformalConic F)) (xy : (geom_XY F)) : (geom_XY F) :=
  let R := (carto_LambertConformalConic_radius c) in
  let x := (geom_XY_X xy) in
  let y := (geom_XY_Y xy) in
  let u03c60 := (carto_dtor (geom_XY_Y (carto_LambertConformalConic_origin c))) in
  let u03bb0 := (carto_dtor (geom_XY_X (carto_LambertConformalConic_origin c))) in
  let u03c61 := (carto_dtor (fst (carto_LambertConformalConic_stdParallels c))) in
  let u03c62 := (carto_dtor (snd (carto_LambertConformalConic_stdParallels c))) in
  let n := (f_div ops (carto_ln (f_mul ops (carto_cos u03c61) (carto_sec u03c62))) (carto_ln (f_mul ops (carto_tan (f_add ops (f_div ops (t_pi T) (f_of_Z ops 4%Z)) (f_div ops u03c62 (f_of_Z ops 2%Z)))) (carto_cot (f_add ops (f_div ops (t_pi T) (f_of_Z ops 4%Z)) (f_div ops u03c61 (f_of_Z ops 2%Z))))))) in
  let F_1 := (f_div ops (f_mul ops (carto_cos u03c61) (carto_pow (carto_tan (f_add ops (f_div ops (t_pi T) (f_of_Z ops 4%Z)) (f_div ops u03c61 (f_of_Z ops 2%Z)))) n)) n) in
  let u03c10 := (f_mul ops (f_mul ops R F_1) (carto_pow (carto_cot (f_add ops (f_div ops (t_pi T) (f_of_Z ops 4%Z)) (f_div ops u03c60 (f_of_Z ops 2%Z)))) n)) in
  let u03c1 := (f_mul ops (carto_sign n) (carto_sqrt (f_add ops (carto_sq x) (carto_sq (f_sub ops u03c10 y))))) in
  let u03b8 := (carto_atan (f_div ops x (f_sub ops u03c10 y))) in
  let u03c6 := (f_sub ops (f_mul ops (f_of_Z ops 2%Z) (carto_atan (carto_pow (f_div ops (f_mul ops R F_1) u03c1) (f_div ops (f_of_Z ops 1%Z) n)))) (f_div ops (t_pi T) (f_of_Z ops 2%Z))) in
  let u03bb := (f_add ops u03bb0 (f_div ops u03b8 n)) in
  (Mk_geom_XY (carto_rtod u03bb) (carto_rtod u03c6)).

(* carto/proj_albers_equal_area_conic.go:NewAlbersEqualAreaConic *)
Definition carto_NewAlbersEqualAreaConic (earthRadius : F) : (carto_AlbersEqualAreaConic F) :=
  (Mk_carto_AlbersEqualAreaConic earthRadius (Mk_geom_XY (f_of_Z ops 0%Z) (f_of_Z ops 0%Z)) ((f_of_Z ops 30%Z), (f_of_Z ops 60%Z))).

(* carto/proj_albers_equal_area_conic.go:AlbersEqualAreaConic.SetOrigin *)
Definition carto_AlbersEqualAreaConic_SetOrigin (c : (carto_AlbersEqualAreaConic F)) (origin : (geom_XY F)) : (carto_AlbersEqualAreaConic F) :=
  let r1 := origin in
  let c := (Mk_carto_AlbersEqualAreaConic (carto_AlbersEqualAreaConic_radius c) r1 (carto_AlbersEqualAreaConic_stdParallels c)) in
  c.

(* carto/proj_albers_equal_area_conic.go:AlbersEqualAreaConic.SetStandardParallels *)
Definition carto_AlbersEqualAreaConic_SetStandardParallels (c : (carto_AlbersEqualAreaConic F)) (lat1 : F) (lat2 : F) : (carto_AlbersEqualAreaConic F) :=
  let r1 := lat1 in
  let c := (Mk_carto_AlbersEqualAreaConic (carto_AlbersEqualAreaConic_radius c) (carto_AlbersEqualAreaConic_origin c) (r1, (snd (carto_AlbersEqualAreaConic_stdParallels c)))) in
  let r2 := lat2 in
  let c := (Mk_carto_AlbersEqualAreaConic (carto_AlbersEqualAreaConic_radius c) (carto_AlbersEqualAreaConic_origin c) ((fst (carto_AlbersEqualAreaConic_stdParallels c)), r2)) in
  c.

(* carto/proj_albers_equal_area_conic.go:AlbersEqualAreaConic.Forward *)
Definition carto_AlbersEqualAreaConic_Forward (c : (carto_AlbersEqualAreaConic F)) (lonlat : (geom_XY F)) : (geom_XY F) :=
  let R := (carto_AlbersEqualAreaConic_radius c) in
  let u03c6 := (carto_dtor (geom_XY_Y lonlat)) in
  let u03c60 := (carto_dtor (geom_XY_Y (carto_AlbersEqualAreaConic_origin c))) in
  let u03c61 := (carto_dtor (fst (carto_AlbersEqualAreaConic_stdParallels c))) in
  let u03c62 := (carto_dtor (snd (carto_AlbersEqualAreaConic_stdParallels c))) in
  let u03bb := (carto_dtor (geom_XY_X lonlat)) in
  let u03bb0 := (carto_dtor (geom_XY_X (carto_AlbersEqualAreaConic_origin c))) in
  let n := (f_div ops (f_add ops (carto_sin u03c61) (carto_sin u03c62)) (f_of_Z ops 2%Z)) in
  let u03b8 := (f_mul ops n (f_sub ops u03bb u03bb0)) in
  let C := (f_add ops (carto_sq (carto_cos u03c61)) (f_mul ops (f_mul ops (f_of_Z ops 2%Z) n) (carto_sin u03c61))) in
  let u03c1 := (f_div ops (f_mul ops R (carto_sqrt (f_sub ops C (f_mul ops (f_mul ops (f_of_Z ops 2%Z) n) (carto_sin u03c6))))) n) in
  let u03c10 := (f_div ops (f_mul ops R (carto_sqrt (f_sub ops C (f_mul ops (f_mul ops (f_of_Z ops 2%Z) n) (carto_sin u03c60))))) n) in
  let x := (f_mul ops u03c1 (carto_sin u03b8)) in
  let y := (f_sub ops u03c10 (f_mul ops u03c1 (carto_cos u03b8))) in
  (Mk_geom_XY x y).

(* carto/proj_albers_equal_area_conic.go:AlbersEqualAreaConic.Reverse *)
Definition carto_AlbersEqualAreaConic_Reverse (c : (carto_AlbersEqualAreaConic F)) (xy : (geom_XY F)) : (geom_XY F) :=
  let R := (carto_AlbersEqualAreaConic_radius c) in
  let x := (geom_XY_X xy) in
  let y := (geom_XY_Y xy) in
  let u03c60 := (carto_dtor (geom_XY_Y (carto_AlbersEqualAreaConic_origin c))) in
  let u03c61 := (carto_dtor (fst (carto_AlbersEqualAreaConic_stdParallels c))) in
  let u03c62 := (carto_dtor (snd (carto_AlbersEqualAreaConic_stdParallels c))) in
  let u03bb0 := (carto_dtor (geom_XY_X (carto_AlbersEqualAreaConic_origin c))) in
  let n := (f_div ops (f_add ops (carto_sin u03c61) (carto_sin u03c62)) (f_of_Z ops 2%Z)) in
  let C := (f_add ops (carto_sq (carto_cos u03c61)) (f_mul ops (f_mul ops (f_of_Z ops 2%Z) n) (carto_sin u03c61))) in
  let u03c10 := (f_div ops (f_mul ops R (carto_sqrt (f_sub ops C (f_mul ops (f_mul ops (f_of_Z ops 2%Z) n) (carto_sin u03c60))))) n) in
  let u03c1 := (f_div ops (carto_sqrt (f_add ops (carto_sq x) (carto_sq (f_sub ops u03c10 y)))) R) in
  let u03b8 := (carto_atan (f_div ops x (f_sub ops u03c10 y))) in
  let u03c6 := (carto_asin (f_div ops (f_sub ops C (f_mul ops (f_mul ops (f_mul ops u03c1 u03c1) n) n)) (f_mul ops (f_of_Z ops 2%Z) n))) in
  let u03bb := (f_add ops u03bb0 (f_div ops u03b8 n)) in
  (Mk_geom_XY (carto_rtod u03bb) (carto_rtod u03c6)).

(* carto/proj_equidistant_conic.go:NewEquidistantConic *)
Definition carto_NewEquidistantConic (earthRadius : F) : (carto_EquidistantConic F) :=
  (Mk_carto_EquidistantConic earthRadius ((f_of_Z ops 0%Z), (f_of_Z ops 45%Z)) (Mk_geom_XY (f_of_Z ops 0%Z) (f_of_Z ops 0%Z))).

(* carto/proj_equidistant_conic.go:EquidistantConic.SetOrigin *)
Definition carto_EquidistantConic_SetOrigin (c : (carto_EquidistantConic F)) (lonLat : (geom_XY F)) : (carto_EquidistantConic F) :=
  let r1 := lonLat in
  let c := (Mk_carto_EquidistantConic (carto_EquidistantConic_earthRadius c) (carto_EquidistantConic_stdParallels c) r1) in
  c.

(* carto/proj_equidistant_conic.go:EquidistantConic.SetStandardParallels *)
Definition carto_EquidistantConic_SetStandardParallels (c : (carto_EquidistantConic F)) (lat1 : F) (lat2 : F) : (carto_EquidistantConic F) :=
  let r1 := lat1 in
  let c := (Mk_carto_EquidistantConic (carto_EquidistantConic_earthRadius c) (r1, (snd (carto_EquidistantConic_stdParallels c))) (carto_EquidistantConic_origin c)) in
  let r2 := lat2 in
  let c := (Mk_carto_EquidistantConic (carto_EquidistantConic_earthRadius c) ((fst (carto_EquidistantConic_stdParallels c)), r2) (carto_EquidistantConic_origin c)) in
  c.

(* carto/proj_equidistant_conic.go:EquidistantConic.Forward *)
Definition carto_EquidistantConic_Forward (c : (carto_EquidistantConic F)) (lonlat : (geom_XY F)) : (geom_XY F) :=
  let R := (carto_EquidistantConic_earthRadius c) in
  let u03c6d := (geom_XY_Y lonlat) in
  let u03c60d := (geom_XY_Y (carto_EquidistantConic_origin c)) in
  let u03c61d := (fst (carto_EquidistantConic_stdParallels c)) in
  let u03c62d := (snd (carto_EquidistantConic_stdParallels c)) in
  let u03c6r := (carto_dtor u03c6d) in
  let u03c60r := (carto_dtor u03c60d) in
  let u03c61r := (carto_dtor u03c61d) in
  let u03c62r := (carto_dtor u03c62d) in
  let u03bbd := (geom_XY_X lonlat) in
  let u03bb0d := (geom_XY_X (carto_EquidistantConic_origin c)) in
  let u03bbr := (carto_dtor u03bbd) in
  let u03bb0r := (carto_dtor u03bb0d) in
  let n := (f_div ops (f_sub ops (carto_cos u03c61r) (carto_cos u03c62r)) (f_sub ops u03c62r u03c61r)) in
  let G := (f_add ops (f_div ops (carto_cos u03c61r) n) u03c61r) in
  let u03c10 := (f_sub ops G u03c60r) in
  let u03c1 := (f_sub ops G u03c6r) in
  let x := (f_mul ops u03c1 (carto_sin (f_mul ops n (f_sub ops u03bbr u03bb0r)))) in
  let y := (f_sub ops u03c10 (f_mul ops u03c1 (carto_cos (f_mul ops n (f_sub ops u03bbr u03bb0r))))) in
  (Mk_geom_XY (f_mul ops R x) (f_mul ops R y)).

(* carto/proj_equidistant_conic.go:EquidistantConic.Reverse *)
Definition carto_EquidistantConic_Reverse (c : (carto_EquidistantConic F)) (xy : (geom_XY F)) : (geom_XY F) :=
  let R := (carto_EquidistantConic_earthRadius c) in
  let x := (f_div ops (geom_XY_X xy) R) in
  let y := (f_div ops (geom_XY_Y xy) R) in
  let u03c60d := (geom_XY_Y (carto_EquidistantConic_origin c)) in
  let u03c61d := (fst (carto_EquidistantConic_stdParallels c)) in
  let u03c62d := (snd (carto_EquidistantConic_stdParallels c)) in
  let u03bb0d := (geom_XY_X (carto_EquidistantConic_origin c)) in
  let u03bb0r := (carto_dtor u03bb0d) in
  let u03c60r := (carto_dtor u03c60d) in
  let u03c61r := (carto_dtor u03c61d) in
  let u03c62r := (carto_dtor u03c62d) in
  let n := (f_div ops (f_sub ops (carto_cos u03c61r) (carto_cos u03c62r)) (f_sub ops u03c62r u03c61r)) in
  let G := (f_add ops (f_div ops (carto_cos u03c61r) n) u03c61r) in
  let u03c10 := (f_sub ops G u03c60r) in
  let u03c1 := (f_mul ops (carto_sign n) (carto_sqrt (f_add ops (f_mul ops x x) (f_mul ops (f_sub ops u03c10 y) (f_sub ops u03c10 y))))) in
  let u03b8 := (carto_atan (f_div ops x (f_sub ops u03c10 y))) in
  let u03c6r := (f_sub ops G u03c1) in
  let u03bbr := (f_add ops u03bb0r (f_div ops u03b8 n)) in
  (Mk_geom_XY (carto_rtod u03bbr) (carto_rtod u03c6r)).

End Funcs.

(* translated: 57 functions; not translated: 0 *)
