(* GENERATED FILE - do not edit.  Written by tools/gen_funcs (tools/gen_funcs.sh, fourth output) from
   the Go source of the library under test - and, for the varint functions TWKB uses, from
   encoding/binary of the Go toolchain in use - on every run of tools/check.py: integer and bit
   level functions.  Each definition is the body of one Go function, translated operator by operator,
   statement by statement from the syntax tree into Gallina; nothing is simplified.  Integers of
   every fixed-width type are values of Z; wherever Go wraps around the translation says so: the
   result of every arithmetic or bit operation and of every conversion is reduced into the range of
   its type by wrap_u8 .. wrap_u64 (modulo 2^n) / wrap_i8 .. wrap_i64 (two's complement) of
   coq/Base/FInt.v (int and uint are 64 bits wide).  Slices, indexing and loops are translated as in
   coq/Base/FLoop.v; a condition-only for loop is [while_loop] with a fuel derived from the loop.
   A function that writes through an argument (elements of a slice argument, fields of a pointer
   receiver) returns the final value of that argument after its results.  The obligations that the
   hand-written models compute the same functions on all arguments are in
   coq/Proofs/Funcs_tie_Int_*.v.  A function that could not be located or that leaves the
   translated fragment is set to [untranslatable "reason"], which breaks its obligation. *)
From Coq Require Import ZArith Bool String List.
From SF Require Import Base.FOps Base.FLoop Base.FInt.
Import ListNotations.
Open Scope bool_scope.

(* ==================== struct types (one record per Go struct, fields in declaration order) *)

(* geom/twkb_write.go: type twkbWriter struct *)
Record geom_twkbWriter (F : Type) := Mk_geom_twkbWriter {
  geom_twkbWriter_twkbHeaders : (list Z);
  geom_twkbWriter_twkbBBox : (list Z);
  geom_twkbWriter_twkbContents : (list Z);
  geom_twkbWriter_kind : Z;
  geom_twkbWriter_ctype : Z;
  geom_twkbWriter_dimensions : Z;
  geom_twkbWriter_precXY : Z;
  geom_twkbWriter_hasZ : bool;
  geom_twkbWriter_hasM : bool;
  geom_twkbWriter_precZ : Z;
  geom_twkbWriter_precM : Z;
  geom_twkbWriter_scalings : (list F);
  geom_twkbWriter_hasBBox : bool;
  geom_twkbWriter_hasSize : bool;
  geom_twkbWriter_hasIDs : bool;
  geom_twkbWriter_hasExt : bool;
  geom_twkbWriter_isEmpty : bool;
  geom_twkbWriter_refpoint : (list Z);
  geom_twkbWriter_bboxValid : bool;
  geom_twkbWriter_bboxMin : (list Z);
  geom_twkbWriter_bboxMax : (list Z);
  geom_twkbWriter_idList : (list Z);
  geom_twkbWriter_closeRings : bool;
  geom_twkbWriter_err : bool
}.
Arguments Mk_geom_twkbWriter {F}.
Arguments geom_twkbWriter_twkbHeaders {F} _.
Arguments geom_twkbWriter_twkbBBox {F} _.
Arguments geom_twkbWriter_twkbContents {F} _.
Arguments geom_twkbWriter_kind {F} _.
Arguments geom_twkbWriter_ctype {F} _.
Arguments geom_twkbWriter_dimensions {F} _.
Arguments geom_twkbWriter_precXY {F} _.
Arguments geom_twkbWriter_hasZ {F} _.
Arguments geom_twkbWriter_hasM {F} _.
Arguments geom_twkbWriter_precZ {F} _.
Arguments geom_twkbWriter_precM {F} _.
Arguments geom_twkbWriter_scalings {F} _.
Arguments geom_twkbWriter_hasBBox {F} _.
Arguments geom_twkbWriter_hasSize {F} _.
Arguments geom_twkbWriter_hasIDs {F} _.
Arguments geom_twkbWriter_hasExt {F} _.
Arguments geom_twkbWriter_isEmpty {F} _.
Arguments geom_twkbWriter_refpoint {F} _.
Arguments geom_twkbWriter_bboxValid {F} _.
Arguments geom_twkbWriter_bboxMin {F} _.
Arguments geom_twkbWriter_bboxMax {F} _.
Arguments geom_twkbWriter_idList {F} _.
Arguments geom_twkbWriter_closeRings {F} _.
Arguments geom_twkbWriter_err {F} _.

(* geom/twkb_parser.go: type twkbParser struct *)
Record geom_twkbParser (F : Type) := Mk_geom_twkbParser {
  geom_twkbParser_twkb : (list Z);
  geom_twkbParser_pos : Z;
  geom_twkbParser_kind : Z;
  geom_twkbParser_ctype : Z;
  geom_twkbParser_dimensions : Z;
  geom_twkbParser_precXY : Z;
  geom_twkbParser_hasZ : bool;
  geom_twkbParser_hasM : bool;
  geom_twkbParser_precZ : Z;
  geom_twkbParser_precM : Z;
  geom_twkbParser_scalings : (list F);
  geom_twkbParser_hasBBox : bool;
  geom_twkbParser_hasSize : bool;
  geom_twkbParser_hasIDs : bool;
  geom_twkbParser_hasExt : bool;
  geom_twkbParser_isEmpty : bool;
  geom_twkbParser_bbox : (list Z);
  geom_twkbParser_idList : (list Z);
  geom_twkbParser_size : Z;
  geom_twkbParser_refpoint : (list Z)
}.
Arguments Mk_geom_twkbParser {F}.
Arguments geom_twkbParser_twkb {F} _.
Arguments geom_twkbParser_pos {F} _.
Arguments geom_twkbParser_kind {F} _.
Arguments geom_twkbParser_ctype {F} _.
Arguments geom_twkbParser_dimensions {F} _.
Arguments geom_twkbParser_precXY {F} _.
Arguments geom_twkbParser_hasZ {F} _.
Arguments geom_twkbParser_hasM {F} _.
Arguments geom_twkbParser_precZ {F} _.
Arguments geom_twkbParser_precM {F} _.
Arguments geom_twkbParser_scalings {F} _.
Arguments geom_twkbParser_hasBBox {F} _.
Arguments geom_twkbParser_hasSize {F} _.
Arguments geom_twkbParser_hasIDs {F} _.
Arguments geom_twkbParser_hasExt {F} _.
Arguments geom_twkbParser_isEmpty {F} _.
Arguments geom_twkbParser_bbox {F} _.
Arguments geom_twkbParser_idList {F} _.
Arguments geom_twkbParser_size {F} _.
Arguments geom_twkbParser_refpoint {F} _.

(* rtree/box.go: type Box struct *)
Record rtree_Box (F : Type) := Mk_rtree_Box {
  rtree_Box_MinX : F;
  rtree_Box_MinY : F;
  rtree_Box_MaxX : F;
  rtree_Box_MaxY : F
}.
Arguments Mk_rtree_Box {F}.
Arguments rtree_Box_MinX {F} _.
Arguments rtree_Box_MinY {F} _.
Arguments rtree_Box_MaxX {F} _.
Arguments rtree_Box_MaxY {F} _.

(* rtree/rtree.go: type entry struct (recursive: a pointer field is an option) *)
Inductive rtree_entry (F : Type) : Type := Mk_rtree_entry (fld_box : (rtree_Box F)) (fld_child : (option (rtree_node F))) (fld_recordID : Z)
(* rtree/rtree.go: type node struct (recursive: a pointer field is an option) *)
with rtree_node (F : Type) : Type := Mk_rtree_node (fld_entries : (list (rtree_entry F))) (fld_numEntries : Z).
Arguments Mk_rtree_entry {F}.
Definition rtree_entry_box {F : Type} (x : rtree_entry F) : (rtree_Box F) := match x with Mk_rtree_entry v _ _ => v end.
Definition rtree_entry_child {F : Type} (x : rtree_entry F) : (option (rtree_node F)) := match x with Mk_rtree_entry _ v _ => v end.
Definition rtree_entry_recordID {F : Type} (x : rtree_entry F) : Z := match x with Mk_rtree_entry _ _ v => v end.
Arguments Mk_rtree_node {F}.
Definition rtree_node_entries {F : Type} (x : rtree_node F) : (list (rtree_entry F)) := match x with Mk_rtree_node v _ => v end.
Definition rtree_node_numEntries {F : Type} (x : rtree_node F) : Z := match x with Mk_rtree_node _ v => v end.

(* rtree/bulk.go: type BulkItem struct *)
Record rtree_BulkItem (F : Type) := Mk_rtree_BulkItem {
  rtree_BulkItem_Box : (rtree_Box F);
  rtree_BulkItem_RecordID : Z
}.
Arguments Mk_rtree_BulkItem {F}.
Arguments rtree_BulkItem_Box {F} _.
Arguments rtree_BulkItem_RecordID {F} _.

(* rtree/rtree.go: type RTree struct *)
Record rtree_RTree (F : Type) := Mk_rtree_RTree {
  rtree_RTree_root : (option (rtree_node F));
  rtree_RTree_count : Z
}.
Arguments Mk_rtree_RTree {F}.
Arguments rtree_RTree_root {F} _.
Arguments rtree_RTree_count {F} _.

(* geom/wkb_parser.go: type wkbParser struct *)
Record geom_wkbParser (F : Type) := Mk_geom_wkbParser {
  geom_wkbParser_body : (list Z);
  geom_wkbParser_bo : Z;
  geom_wkbParser_no : bool
}.
Arguments Mk_geom_wkbParser {F}.
Arguments geom_wkbParser_body {F} _.
Arguments geom_wkbParser_bo {F} _.
Arguments geom_wkbParser_no {F} _.

(* ==================== typed integer constants *)

(* ==================== function bodies *)
Section Funcs.
Context {F : Type} (ops : fops F).
(* operations of package math outside the record fops: a definition that uses one takes it as an
   additional argument (after ops, in this order) *)
Context (f_inf : Z -> F) (f_ceil : F -> F) (f_floor : F -> F) (f_to_int : F -> Z) (f_ilogb : F -> Z) (f_ldexp : F -> Z -> F).

(* geom/twkb.go:encodeZigZagInt64 *)
Definition geom_encodeZigZagInt64 (n : Z) : Z :=
  (wrap_u64 (wrap_i64 (Z.lxor (wrap_i64 (Z.shiftl n 1%Z)) (wrap_i64 (Z.shiftr n 63%Z))))).

(* geom/twkb.go:decodeZigZagInt64 *)
Definition geom_decodeZigZagInt64 (z : Z) : Z :=
  (wrap_i64 (Z.lxor (wrap_i64 (wrap_u64 (Z.shiftr z 1%Z))) (wrap_i64 (Z.opp (wrap_i64 (wrap_u64 (Z.land z 1%Z))))))).

(* encoding/binary/varint.go:PutUvarint  (Unknown: the Go code panics at run time) *)
Definition binary_PutUvarint (buf : (list Z)) (x : Z) : partial (Z * (list Z))%type :=
  let i := 0%Z in
  match while_loop (S:=((list Z) * Z * Z)%type) (R:=(Z * (list Z))%type)
      (fun '(buf, x, i) => (Z.geb x 128%Z))
      (fun '(buf, x, i) =>
        match (list_set buf i (wrap_u8 (Z.lor (wrap_u8 x) 128%Z))) with
        | Some upd1 =>
        let buf := upd1 in
        let x := (wrap_u64 (Z.shiftr x 7%Z)) in
        let i := (wrap_i64 (Z.add i 1%Z)) in
        (SNext (buf, x, i))
        | None => (SFail "index out of range"%string)
        end)
      10%nat (buf, x, i) with
  | LDone (buf, x, i) =>
    match (list_set buf i (wrap_u8 x)) with
    | Some upd2 =>
    let buf := upd2 in
    (Known ((wrap_i64 (Z.add i 1%Z)), buf))
    | None => (Unknown "index out of range"%string)
    end
  | LRet ret => (Known ret)
  | LErr msg => (Unknown msg)
  end.

(* encoding/binary/varint.go:Uvarint  (Unknown: the Go code panics at run time) *)
Definition binary_Uvarint (buf : (list Z)) : partial (Z * Z)%type :=
  let x := 0%Z in
  let s := 0%Z in
  match range_loop (A:=Z) (S:=(Z * Z)%type) (R:=(Z * Z)%type)
      (fun i b '(x, s) =>
        if (Z.eqb i 10%Z) then
          (SReturn (0%Z, (wrap_i64 (Z.opp (wrap_i64 (Z.add i 1%Z))))))
        else
          if (Z.ltb b 128%Z) then
            if ((Z.eqb i 9%Z) && (Z.gtb b 1%Z)) then
              (SReturn (0%Z, (wrap_i64 (Z.opp (wrap_i64 (Z.add i 1%Z))))))
            else
              (SReturn ((wrap_u64 (Z.lor x (wrap_u64 (Z.shiftl (wrap_u64 b) s)))), (wrap_i64 (Z.add i 1%Z))))
          else
            let x := (wrap_u64 (Z.lor x (wrap_u64 (Z.shiftl (wrap_u64 (wrap_u8 (Z.land b 127%Z))) s)))) in
            let s := (wrap_u64 (Z.add s 7%Z)) in
            (SNext (x, s)))
      buf 0%Z (x, s) with
  | LDone (x, s) =>
    (Known (0%Z, 0%Z))
  | LRet ret => (Known ret)
  | LErr msg => (Unknown msg)
  end.

(* encoding/binary/varint.go:PutVarint  (Unknown: the Go code panics at run time) *)
Definition binary_PutVarint (buf : (list Z)) (x : Z) : partial (Z * (list Z))%type :=
  let ux := (wrap_u64 (Z.shiftl (wrap_u64 x) 1%Z)) in
  let ux :=
    if (Z.ltb x 0%Z) then
      let ux := (wrap_u64 (Z.lnot ux)) in
      ux
    else
      ux in
  match (binary_PutUvarint buf ux) with
  | Known (r1, buf) =>
  (Known (r1, buf))
  | Unknown msg => (Unknown msg)
  end.

(* encoding/binary/varint.go:Varint  (Unknown: the Go code panics at run time) *)
Definition binary_Varint (buf : (list Z)) : partial (Z * Z)%type :=
  match (binary_Uvarint buf) with
  | Known r1 =>
  let '(ux, n) := r1 in
  let x := (wrap_i64 (wrap_u64 (Z.shiftr ux 1%Z))) in
  let x :=
    if (negb (Z.eqb (wrap_u64 (Z.land ux 1%Z)) 0%Z)) then
      let x := (wrap_i64 (Z.lnot x)) in
      x
    else
      x in
  (Known (x, n))
  | Unknown msg => (Unknown msg)
  end.

(* geom/twkb_write.go:twkbWriter.writeUnsignedVarint  (Unknown: the Go code panics at run time) *)
Definition geom_twkbWriter_writeUnsignedVarint (w : (geom_twkbWriter F)) (val : Z) : partial (geom_twkbWriter F) :=
  let buf := (repeat 0%Z 10) in
  match (binary_PutUvarint buf val) with
  | Known (r1, buf) =>
  let n := r1 in
  match (slice_to buf n) with
  | Some sl2 =>
  let r3 := (app (geom_twkbWriter_twkbContents w) sl2) in
  let w := (Mk_geom_twkbWriter (geom_twkbWriter_twkbHeaders w) (geom_twkbWriter_twkbBBox w) r3 (geom_twkbWriter_kind w) (geom_twkbWriter_ctype w) (geom_twkbWriter_dimensions w) (geom_twkbWriter_precXY w) (geom_twkbWriter_hasZ w) (geom_twkbWriter_hasM w) (geom_twkbWriter_precZ w) (geom_twkbWriter_precM w) (geom_twkbWriter_scalings w) (geom_twkbWriter_hasBBox w) (geom_twkbWriter_hasSize w) (geom_twkbWriter_hasIDs w) (geom_twkbWriter_hasExt w) (geom_twkbWriter_isEmpty w) (geom_twkbWriter_refpoint w) (geom_twkbWriter_bboxValid w) (geom_twkbWriter_bboxMin w) (geom_twkbWriter_bboxMax w) (geom_twkbWriter_idList w) (geom_twkbWriter_closeRings w) (geom_twkbWriter_err w)) in
  (Known w)
  | None => (Unknown "slice bounds out of range"%string)
  end
  | Unknown msg => (Unknown msg)
  end.

(* geom/twkb_write.go:twkbWriter.writeSignedVarint  (Unknown: the Go code panics at run time) *)
Definition geom_twkbWriter_writeSignedVarint (w : (geom_twkbWriter F)) (val : Z) : partial (geom_twkbWriter F) :=
  let buf := (repeat 0%Z 10) in
  match (binary_PutVarint buf val) with
  | Known (r1, buf) =>
  let n := r1 in
  match (slice_to buf n) with
  | Some sl2 =>
  let r3 := (app (geom_twkbWriter_twkbContents w) sl2) in
  let w := (Mk_geom_twkbWriter (geom_twkbWriter_twkbHeaders w) (geom_twkbWriter_twkbBBox w) r3 (geom_twkbWriter_kind w) (geom_twkbWriter_ctype w) (geom_twkbWriter_dimensions w) (geom_twkbWriter_precXY w) (geom_twkbWriter_hasZ w) (geom_twkbWriter_hasM w) (geom_twkbWriter_precZ w) (geom_twkbWriter_precM w) (geom_twkbWriter_scalings w) (geom_twkbWriter_hasBBox w) (geom_twkbWriter_hasSize w) (geom_twkbWriter_hasIDs w) (geom_twkbWriter_hasExt w) (geom_twkbWriter_isEmpty w) (geom_twkbWriter_refpoint w) (geom_twkbWriter_bboxValid w) (geom_twkbWriter_bboxMin w) (geom_twkbWriter_bboxMax w) (geom_twkbWriter_idList w) (geom_twkbWriter_closeRings w) (geom_twkbWriter_err w)) in
  (Known w)
  | None => (Unknown "slice bounds out of range"%string)
  end
  | Unknown msg => (Unknown msg)
  end.

(* geom/twkb_parser.go:twkbParser.parseUnsignedVarint  (Unknown: the Go code panics at run time) *)
Definition geom_twkbParser_parseUnsignedVarint (p : (geom_twkbParser F)) : partial (Z * bool * (geom_twkbParser F))%type :=
  match (slice_from (geom_twkbParser_twkb p) (geom_twkbParser_pos p)) with
  | Some sl1 =>
  match (binary_Uvarint sl1) with
  | Known r2 =>
  let '(val, n) := r2 in
  if (Z.eqb n 0%Z) then
    (Known (0%Z, false, p))
  else
    if (Z.ltb n 0%Z) then
      (Known (0%Z, false, p))
    else
      let r3 := (wrap_i64 (Z.add (geom_twkbParser_pos p) n)) in
      let p := (Mk_geom_twkbParser (geom_twkbParser_twkb p) r3 (geom_twkbParser_kind p) (geom_twkbParser_ctype p) (geom_twkbParser_dimensions p) (geom_twkbParser_precXY p) (geom_twkbParser_hasZ p) (geom_twkbParser_hasM p) (geom_twkbParser_precZ p) (geom_twkbParser_precM p) (geom_twkbParser_scalings p) (geom_twkbParser_hasBBox p) (geom_twkbParser_hasSize p) (geom_twkbParser_hasIDs p) (geom_twkbParser_hasExt p) (geom_twkbParser_isEmpty p) (geom_twkbParser_bbox p) (geom_twkbParser_idList p) (geom_twkbParser_size p) (geom_twkbParser_refpoint p)) in
      (Known (val, true, p))
  | Unknown msg => (Unknown msg)
  end
  | None => (Unknown "slice bounds out of range"%string)
  end.

(* geom/twkb_parser.go:twkbParser.parseSignedVarint  (Unknown: the Go code panics at run time) *)
Definition geom_twkbParser_parseSignedVarint (p : (geom_twkbParser F)) : partial (Z * bool * (geom_twkbParser F))%type :=
  match (slice_from (geom_twkbParser_twkb p) (geom_twkbParser_pos p)) with
  | Some sl1 =>
  match (binary_Varint sl1) with
  | Known r2 =>
  let '(val, n) := r2 in
  if (Z.eqb n 0%Z) then
    (Known (0%Z, false, p))
  else
    if (Z.ltb n 0%Z) then
      (Known (0%Z, false, p))
    else
      let r3 := (wrap_i64 (Z.add (geom_twkbParser_pos p) n)) in
      let p := (Mk_geom_twkbParser (geom_twkbParser_twkb p) r3 (geom_twkbParser_kind p) (geom_twkbParser_ctype p) (geom_twkbParser_dimensions p) (geom_twkbParser_precXY p) (geom_twkbParser_hasZ p) (geom_twkbParser_hasM p) (geom_twkbParser_precZ p) (geom_twkbParser_precM p) (geom_twkbParser_scalings p) (geom_twkbParser_hasBBox p) (geom_twkbParser_hasSize p) (geom_twkbParser_hasIDs p) (geom_twkbParser_hasExt p) (geom_twkbParser_isEmpty p) (geom_twkbParser_bbox p) (geom_twkbParser_idList p) (geom_twkbParser_size p) (geom_twkbParser_refpoint p)) in
      (Known (val, true, p))
  | Unknown msg => (Unknown msg)
  end
  | None => (Unknown "slice bounds out of range"%string)
  end.

(* rtree/bulk.go:fastMin *)
Definition rtree_fastMin (a : F) (b : F) : F :=
  if (f_ltb ops a b) then
    a
  else
    b.

(* rtree/bulk.go:fastMax *)
Definition rtree_fastMax (a : F) (b : F) : F :=
  if (f_gtb ops a b) then
    a
  else
    b.

(* rtree/box.go:combine *)
Definition rtree_combine (box1 : (rtree_Box F)) (box2 : (rtree_Box F)) : (rtree_Box F) :=
  (Mk_rtree_Box (rtree_fastMin (rtree_Box_MinX box1) (rtree_Box_MinX box2)) (rtree_fastMin (rtree_Box_MinY box1) (rtree_Box_MinY box2)) (rtree_fastMax (rtree_Box_MaxX box1) (rtree_Box_MaxX box2)) (rtree_fastMax (rtree_Box_MaxY box1) (rtree_Box_MaxY box2))).

(* rtree/box.go:calculateBound  (Unknown: the Go code panics at run time) *)
Definition rtree_calculateBound (n : (rtree_node F)) : partial (rtree_Box F) :=
  match (lookup (rtree_node_entries n) 0%Z) with
  | Some e1 =>
  let box := (rtree_entry_box e1) in
  match for_loop (S:=(rtree_Box F)) (R:=(rtree_Box F))
      (fun i => (Z.ltb i (rtree_node_numEntries n)))
      (fun i box =>
        match (lookup (rtree_node_entries n) i) with
        | Some e2 =>
        let box := (rtree_combine box (rtree_entry_box e2)) in
        (SNext box)
        | None => (SFail "index out of range"%string)
        end)
      1%Z (Z.to_nat (let i := 1%Z in (Z.sub (rtree_node_numEntries n) i))) 1%Z box with
  | LDone box =>
    (Known box)
  | LRet ret => (Known ret)
  | LErr msg => (Unknown msg)
  end
  | None => (Unknown "index out of range"%string)
  end.

(* rtree/bulk.go:itemsAreHorizontal  (Unknown: the Go code panics at run time) *)
Definition rtree_itemsAreHorizontal (items : (list (rtree_BulkItem F))) : partial bool :=
  match (lookup items 0%Z) with
  | Some e1 =>
  let box := (rtree_BulkItem_Box e1) in
  match (slice_from items 1%Z) with
  | Some sl2 =>
  match range_loop (A:=(rtree_BulkItem F)) (S:=(rtree_Box F)) (R:=bool)
      (fun idx item box =>
        let box := (rtree_combine box (rtree_BulkItem_Box item)) in
        (SNext box))
      sl2 0%Z box with
  | LDone box =>
    (Known (f_gtb ops (f_sub ops (rtree_Box_MaxX box) (rtree_Box_MinX box)) (f_sub ops (rtree_Box_MaxY box) (rtree_Box_MinY box))))
  | LRet ret => (Known ret)
  | LErr msg => (Unknown msg)
  end
  | None => (Unknown "slice bounds out of range"%string)
  end
  | None => (Unknown "index out of range"%string)
  end.

(* rtree/rtree.go:RTree.Count *)
Definition rtree_RTree_Count (t : (rtree_RTree F)) : Z :=
  (rtree_RTree_count t).

(* rtree/rtree.go:RTree.Extent  (Unknown: the Go code panics at run time) *)
Definition rtree_RTree_Extent (t : (rtree_RTree F)) : partial ((rtree_Box F) * bool)%type :=
  if (is_nil_func (rtree_RTree_root t)) then
    (Known ((Mk_rtree_Box (f_of_Z ops 0%Z) (f_of_Z ops 0%Z) (f_of_Z ops 0%Z) (f_of_Z ops 0%Z)), false))
  else
    match (rtree_RTree_root t) with
    | Some pt1_1 =>
    if (Z.eqb (rtree_node_numEntries pt1_1) 0%Z) then
      (Known ((Mk_rtree_Box (f_of_Z ops 0%Z) (f_of_Z ops 0%Z) (f_of_Z ops 0%Z) (f_of_Z ops 0%Z)), false))
    else
      match (rtree_RTree_root t) with
      | Some pt2 =>
      match (rtree_calculateBound pt2) with
      | Known r3 =>
      (Known (r3, true))
      | Unknown msg => (Unknown msg)
      end
      | None => (Unknown "nil pointer dereference"%string)
      end
    | None => (Unknown "nil pointer dereference"%string)
    end.

(* geom/twkb_parser.go:twkbParser.checkCount *)
Definition geom_twkbParser_checkCount (p : (geom_twkbParser F)) (count : Z) (minBytesPerElement : Z) : bool :=
  let remaining := (wrap_u64 (wrap_i64 (Z.sub (Z.of_nat (length (geom_twkbParser_twkb p))) (geom_twkbParser_pos p)))) in
  if (Z.gtb count (wrap_u64 (Z.quot remaining (wrap_u64 minBytesPerElement)))) then
    false
  else
    true.

(* geom/wkb_parser.go:wkbParser.readByte  (Unknown: the Go code panics at run time) *)
Definition geom_wkbParser_readByte (p : (geom_wkbParser F)) : partial (Z * bool * (geom_wkbParser F))%type :=
  if (Z.eqb (Z.of_nat (length (geom_wkbParser_body p))) 0%Z) then
    (Known (0%Z, false, p))
  else
    match (lookup (geom_wkbParser_body p) 0%Z) with
    | Some e1 =>
    let b := e1 in
    match (slice_from (geom_wkbParser_body p) 1%Z) with
    | Some sl2 =>
    let r3 := sl2 in
    let p := (Mk_geom_wkbParser r3 (geom_wkbParser_bo p) (geom_wkbParser_no p)) in
    (Known (b, true, p))
    | None => (Unknown "slice bounds out of range"%string)
    end
    | None => (Unknown "index out of range"%string)
    end.

End Funcs.

(* translated: 19 functions; not translated: 0 *)
