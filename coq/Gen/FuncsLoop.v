(* GENERATED FILE - do not edit.  Written by tools/gen_funcs (tools/gen_funcs.sh, third output) from
   the Go source of the library under test, on every run of tools/check.py: functions with loops
   over sequences, and the loop-free functions they call.  Each definition is the body of one Go
   function, translated operator by operator, statement by statement from the syntax tree into
   Gallina over the abstract ordinate carrier of coq/Base/FOps.v; nothing is simplified.  The
   translation of sequences, indexing and loops is described in coq/Base/FLoop.v: a Sequence is the
   list of its Coordinates, an index outside the range is the explicit outcome
   [Unknown "index out of range"], a loop is a structural recursion carrying the assigned variables,
   with continue / break / return as explicit outcomes of one iteration.  The obligations that the
   hand-written models compute the same functions on all arguments (lists of any length) are in
   coq/Proofs/Funcs_tie_Loop_*.v.  A function that could not be located or that leaves the
   translated fragment is set to [untranslatable "reason"], which breaks its obligation. *)
From Coq Require Import ZArith Bool String List.
From SF Require Import Base.FOps Base.FLoop.
Import ListNotations.
Open Scope bool_scope.

(* ==================== struct types (one record per Go struct, fields in declaration order) *)

(* geom/xy.go: type XY struct *)
Record geom_XY (F : Type) := Mk_geom_XY {
  geom_XY_X : F;
  geom_XY_Y : F
}.
Arguments Mk_geom_XY {F}.
Arguments geom_XY_X {F} _.
Arguments geom_XY_Y {F} _.

(* geom/type_coordinates.go: type Coordinates struct *)
Record geom_Coordinates (F : Type) := Mk_geom_Coordinates {
  geom_Coordinates_XY : (geom_XY F);
  geom_Coordinates_Z : F;
  geom_Coordinates_M : F;
  geom_Coordinates_Type : Z
}.
Arguments Mk_geom_Coordinates {F}.
Arguments geom_Coordinates_XY {F} _.
Arguments geom_Coordinates_Z {F} _.
Arguments geom_Coordinates_M {F} _.
Arguments geom_Coordinates_Type {F} _.

(* geom/type_line_string.go: type LineString struct *)
Record geom_LineString (F : Type) := Mk_geom_LineString {
  geom_LineString_seq : (list (geom_Coordinates F))
}.
Arguments Mk_geom_LineString {F}.
Arguments geom_LineString_seq {F} _.

(* geom/line.go: type line struct *)
Record geom_line (F : Type) := Mk_geom_line {
  geom_line_a : (geom_XY F);
  geom_line_b : (geom_XY F)
}.
Arguments Mk_geom_line {F}.
Arguments geom_line_a {F} _.
Arguments geom_line_b {F} _.

(* geom/type_envelope.go: type Envelope struct *)
Record geom_Envelope (F : Type) := Mk_geom_Envelope {
  geom_Envelope_min : (geom_XY F);
  geom_Envelope_max : (geom_XY F);
  geom_Envelope_nonEmpty : bool
}.
Arguments Mk_geom_Envelope {F}.
Arguments geom_Envelope_min {F} _.
Arguments geom_Envelope_max {F} _.
Arguments geom_Envelope_nonEmpty {F} _.

(* geom/alg_exact_equals.go: type exactEqualsComparator struct *)
Record geom_exactEqualsComparator (F : Type) := Mk_geom_exactEqualsComparator {
  geom_exactEqualsComparator_tolerance : F;
  geom_exactEqualsComparator_ignoreOrder : bool
}.
Arguments Mk_geom_exactEqualsComparator {F}.
Arguments geom_exactEqualsComparator_tolerance {F} _.
Arguments geom_exactEqualsComparator_ignoreOrder {F} _.

(* geom/alg_linear_interpolation.go: type linearInterpolator struct *)
Record geom_linearInterpolator (F : Type) := Mk_geom_linearInterpolator {
  geom_linearInterpolator_seq : (list (geom_Coordinates F));
  geom_linearInterpolator_cumulative : (list F);
  geom_linearInterpolator_total : F
}.
Arguments Mk_geom_linearInterpolator {F}.
Arguments geom_linearInterpolator_seq {F} _.
Arguments geom_linearInterpolator_cumulative {F} _.
Arguments geom_linearInterpolator_total {F} _.

(* geom/type_polygon.go: type Polygon struct *)
Record geom_Polygon (F : Type) := Mk_geom_Polygon {
  geom_Polygon_rings : (list (geom_LineString F));
  geom_Polygon_ctype : Z
}.
Arguments Mk_geom_Polygon {F}.
Arguments geom_Polygon_rings {F} _.
Arguments geom_Polygon_ctype {F} _.

(* geom/type_multi_line_string.go: type MultiLineString struct *)
Record geom_MultiLineString (F : Type) := Mk_geom_MultiLineString {
  geom_MultiLineString_lines : (list (geom_LineString F));
  geom_MultiLineString_ctype : Z
}.
Arguments Mk_geom_MultiLineString {F}.
Arguments geom_MultiLineString_lines {F} _.
Arguments geom_MultiLineString_ctype {F} _.

(* geom/type_point.go: type Point struct *)
Record geom_Point (F : Type) := Mk_geom_Point {
  geom_Point_coords : (geom_Coordinates F);
  geom_Point_full : bool
}.
Arguments Mk_geom_Point {F}.
Arguments geom_Point_coords {F} _.
Arguments geom_Point_full {F} _.

(* geom/type_multi_point.go: type MultiPoint struct *)
Record geom_MultiPoint (F : Type) := Mk_geom_MultiPoint {
  geom_MultiPoint_points : (list (geom_Point F));
  geom_MultiPoint_ctype : Z
}.
Arguments Mk_geom_MultiPoint {F}.
Arguments geom_MultiPoint_points {F} _.
Arguments geom_MultiPoint_ctype {F} _.

(* ==================== typed integer constants *)

(* geom/alg_orientation.go: const leftTurn threePointOrientation *)
Definition geom_leftTurn : Z := 3%Z.

(* geom/alg_orientation.go: const rightTurn threePointOrientation *)
Definition geom_rightTurn : Z := 1%Z.

(* geom/alg_orientation.go: const collinear threePointOrientation *)
Definition geom_collinear : Z := 2%Z.

(* geom/alg_point_in_ring.go: const boundary side *)
Definition geom_boundary : Z := 0%Z.

(* geom/alg_point_in_ring.go: const exterior side *)
Definition geom_exterior : Z := 1%Z.

(* geom/alg_point_in_ring.go: const interior side *)
Definition geom_interior : Z := (-1)%Z.

(* geom/coordinate_type.go: const DimXYZ CoordinatesType *)
Definition geom_DimXYZ : Z := 1%Z.

(* geom/coordinate_type.go: const DimXYM CoordinatesType *)
Definition geom_DimXYM : Z := 2%Z.

(* geom/coordinate_type.go: const DimXY CoordinatesType *)
Definition geom_DimXY : Z := 0%Z.

(* geom/coordinate_type.go: const DimXYZM CoordinatesType *)
Definition geom_DimXYZM : Z := 3%Z.

(* ==================== function bodies *)
Section Funcs.
Context {F : Type} (ops : fops F).
(* operations of package math outside the record fops: a definition that uses one takes it as an
   additional argument (after ops, in this order) *)
Context (f_inf : Z -> F) (f_ceil : F -> F) (f_floor : F -> F) (f_to_int : F -> Z) (f_ilogb : F -> Z) (f_ldexp : F -> Z -> F).
(* geom.Sequence is translated as the list of its Coordinates; its flat representation is not: the
   coordinates type of a sequence and the constructor geom.NewSequence(floats, ctype) are operations *)
Context (f_seq_ctype : list (geom_Coordinates F) -> Z) (f_seq_new : list F -> Z -> list (geom_Coordinates F)).

(* geom/type_line_string.go:LineString.Coordinates *)
Definition geom_LineString_Coordinates (s : (geom_LineString F)) : (list (geom_Coordinates F)) :=
  (geom_LineString_seq s).

(* geom/type_polygon.go:signedAreaOfLinearRing  (Unknown: the Go code panics at run time) *)
Definition geom_signedAreaOfLinearRing (lr : (geom_LineString F)) (transform : (option ((geom_XY F) -> (geom_XY F)))) : partial F :=
  let sum_1 := (f_of_Z ops 0%Z) in
  let seq := (geom_LineString_Coordinates lr) in
  let n := (Z.of_nat (length seq)) in
  if (Z.eqb n 0%Z) then
    (Known (f_of_Z ops 0%Z))
  else
    let nthPt := fun (i : Z) =>
        match (lookup seq i) with
        | Some e1 =>
        let pt := (geom_Coordinates_XY e1) in
        if (negb (is_nil_func transform)) then
          match transform with
          | Some fn2 =>
          let pt := (fn2 pt) in
          (Known pt)
          | None => (Unknown "call of a nil func"%string)
          end
        else
          (Known pt)
        | None => (Unknown "index out of range"%string)
        end in
    match (nthPt 0%Z) with
    | Known r3 =>
    let pt1 := r3 in
    match for_loop (S:=((geom_XY F) * F)%type) (R:=F)
        (fun i_1 => (Z.ltb i_1 (Z.sub n 1%Z)))
        (fun i_1 '(pt1, sum_1) =>
          let pt0 := pt1 in
          match (nthPt (Z.add i_1 1%Z)) with
          | Known r4 =>
          let pt1 := r4 in
          let sum_1 := (f_add ops sum_1 (f_mul ops (f_add ops (geom_XY_X pt1) (geom_XY_X pt0)) (f_sub ops (geom_XY_Y pt1) (geom_XY_Y pt0)))) in
          (SNext (pt1, sum_1))
          | Unknown msg => (SFail msg)
          end)
        1%Z (Z.to_nat (let i_1 := 0%Z in (Z.sub (Z.sub n 1%Z) i_1))) 0%Z (pt1, sum_1) with
    | LDone (pt1, sum_1) =>
      (Known (f_div ops sum_1 (f_of_Z ops 2%Z)))
    | LRet ret => (Known ret)
    | LErr msg_1 => (Unknown msg_1)
    end
    | Unknown msg_2 => (Unknown msg_2)
    end.

(* geom/type_polygon.go:triangleArea2 *)
Definition geom_triangleArea2 (pt1 : (geom_XY F)) (pt2 : (geom_XY F)) (pt3 : (geom_XY F)) : F :=
  (f_sub ops (f_mul ops (f_sub ops (geom_XY_X pt2) (geom_XY_X pt1)) (f_sub ops (geom_XY_Y pt3) (geom_XY_Y pt1))) (f_mul ops (f_sub ops (geom_XY_X pt3) (geom_XY_X pt1)) (f_sub ops (geom_XY_Y pt2) (geom_XY_Y pt1)))).

(* geom/xy.go:XY.Add *)
Definition geom_XY_Add (w : (geom_XY F)) (o : (geom_XY F)) : (geom_XY F) :=
  (Mk_geom_XY (f_add ops (geom_XY_X w) (geom_XY_X o)) (f_add ops (geom_XY_Y w) (geom_XY_Y o))).

(* geom/type_polygon.go:centroid3 *)
Definition geom_centroid3 (pt1 : (geom_XY F)) (pt2 : (geom_XY F)) (pt3 : (geom_XY F)) : (geom_XY F) :=
  (geom_XY_Add (geom_XY_Add pt1 pt2) pt3).

(* geom/xy.go:XY.Scale *)
Definition geom_XY_Scale (w : (geom_XY F)) (s : F) : (geom_XY F) :=
  (Mk_geom_XY (f_mul ops (geom_XY_X w) s) (f_mul ops (geom_XY_Y w) s)).

(* geom/type_polygon.go:centroidOfRing  (Unknown: the Go code panics at run time) *)
Definition geom_centroidOfRing (ring : (geom_LineString F)) : partial (geom_XY F) :=
  let areaSum2 := (f_of_Z ops 0%Z) in
  let cent6 := (Mk_geom_XY (f_of_Z ops 0%Z) (f_of_Z ops 0%Z)) in
  let seq := (geom_LineString_Coordinates ring) in
  let n := (Z.of_nat (length seq)) in
  match (lookup seq 0%Z) with
  | Some e1 =>
  let base := (geom_Coordinates_XY e1) in
  match for_loop (S:=((geom_XY F) * F)%type) (R:=(geom_XY F))
      (fun i => (Z.ltb (Z.add i 1%Z) n))
      (fun i '(cent6, areaSum2) =>
        match (lookup seq i) with
        | Some e2 =>
        match (lookup seq (Z.add i 1%Z)) with
        | Some e3 =>
        let cent3 := (geom_centroid3 base (geom_Coordinates_XY e2) (geom_Coordinates_XY e3)) in
        match (lookup seq i) with
        | Some e4 =>
        match (lookup seq (Z.add i 1%Z)) with
        | Some e5 =>
        let area2 := (geom_triangleArea2 base (geom_Coordinates_XY e4) (geom_Coordinates_XY e5)) in
        let cent6 := (geom_XY_Add cent6 (geom_XY_Scale cent3 area2)) in
        let areaSum2 := (f_add ops areaSum2 area2) in
        (SNext (cent6, areaSum2))
        | None => (SFail "index out of range"%string)
        end
        | None => (SFail "index out of range"%string)
        end
        | None => (SFail "index out of range"%string)
        end
        | None => (SFail "index out of range"%string)
        end)
      1%Z (Z.to_nat (let i := 1%Z in (Z.sub n (Z.add i 1%Z)))) 1%Z (cent6, areaSum2) with
  | LDone (cent6, areaSum2) =>
    (Known (geom_XY_Scale cent6 (f_div ops (f_div ops (f_of_Z ops 1%Z) (f_of_Z ops 3%Z)) areaSum2)))
  | LRet ret => (Known ret)
  | LErr msg => (Unknown msg)
  end
  | None => (Unknown "index out of range"%string)
  end.

(* geom/type_polygon.go:weightedCentroid  (Unknown: the Go code panics at run time) *)
Definition geom_weightedCentroid (ring : (geom_LineString F)) (ringArea : F) (totalArea : F) : partial (geom_XY F) :=
  match (geom_centroidOfRing ring) with
  | Known r1 =>
  let centroid := r1 in
  (Known (geom_XY_Scale centroid (f_div ops ringArea totalArea)))
  | Unknown msg => (Unknown msg)
  end.

(* geom/xy.go:XY.Sub *)
Definition geom_XY_Sub (w : (geom_XY F)) (o : (geom_XY F)) : (geom_XY F) :=
  (Mk_geom_XY (f_sub ops (geom_XY_X w) (geom_XY_X o)) (f_sub ops (geom_XY_Y w) (geom_XY_Y o))).

(* geom/xy.go:XY.Length *)
Definition geom_XY_Length (w : (geom_XY F)) : F :=
  (f_hypot ops (geom_XY_X w) (geom_XY_Y w)).

(* geom/type_line_string.go:LineString.Length  (Unknown: the Go code panics at run time) *)
Definition geom_LineString_Length (s : (geom_LineString F)) : partial F :=
  let sum_1 := (f_of_Z ops 0%Z) in
  let n := (Z.of_nat (length (geom_LineString_seq s))) in
  match for_loop (S:=F) (R:=F)
      (fun i => (Z.ltb (Z.add i 1%Z) n))
      (fun i sum_1 =>
        match (lookup (geom_LineString_seq s) i) with
        | Some e1 =>
        let xyA := (geom_Coordinates_XY e1) in
        match (lookup (geom_LineString_seq s) (Z.add i 1%Z)) with
        | Some e2 =>
        let xyB := (geom_Coordinates_XY e2) in
        let delta := (geom_XY_Sub xyA xyB) in
        let sum_1 := (f_add ops sum_1 (geom_XY_Length delta)) in
        (SNext sum_1)
        | None => (SFail "index out of range"%string)
        end
        | None => (SFail "index out of range"%string)
        end)
      1%Z (Z.to_nat (let i := 0%Z in (Z.sub n (Z.add i 1%Z)))) 0%Z sum_1 with
  | LDone sum_1 =>
    (Known sum_1)
  | LRet ret => (Known ret)
  | LErr msg => (Unknown msg)
  end.

(* geom/xy.go: the operator == on values of type XY (all fields, declaration order) *)
Definition geom_XY_eqb (a b : geom_XY F) : bool :=
  ((f_eqb ops (geom_XY_X a) (geom_XY_X b)) && (f_eqb ops (geom_XY_Y a) (geom_XY_Y b))).

(* geom/type_sequence.go:getLine  (Unknown: the Go code panics at run time) *)
Definition geom_getLine (seq : (list (geom_Coordinates F))) (i : Z) : partial ((geom_line F) * bool)%type :=
  if (Z.eqb i 0%Z) then
    (Known ((Mk_geom_line (Mk_geom_XY (f_of_Z ops 0%Z) (f_of_Z ops 0%Z)) (Mk_geom_XY (f_of_Z ops 0%Z) (f_of_Z ops 0%Z))), false))
  else
    match (lookup seq (Z.sub i 1%Z)) with
    | Some e1 =>
    match (lookup seq i) with
    | Some e2 =>
    let ln := (Mk_geom_line (geom_Coordinates_XY e1) (geom_Coordinates_XY e2)) in
    (Known (ln, (negb (geom_XY_eqb (geom_line_a ln) (geom_line_b ln)))))
    | None => (Unknown "index out of range"%string)
    end
    | None => (Unknown "index out of range"%string)
    end.

(* geom/xy.go:XY.distanceTo *)
Definition geom_XY_distanceTo (w : (geom_XY F)) (o : (geom_XY F)) : F :=
  (geom_XY_Length (geom_XY_Sub o w)).

(* geom/line.go:line.length *)
Definition geom_line_length (ln : (geom_line F)) : F :=
  (geom_XY_distanceTo (geom_line_a ln) (geom_line_b ln)).

(* geom/line.go:line.centroid *)
Definition geom_line_centroid (ln : (geom_line F)) : (geom_XY F) :=
  (Mk_geom_XY (f_mul ops (f_div ops (f_of_Z ops 1%Z) (f_of_Z ops 2%Z)) (f_add ops (geom_XY_X (geom_line_a ln)) (geom_XY_X (geom_line_b ln)))) (f_mul ops (f_div ops (f_of_Z ops 1%Z) (f_of_Z ops 2%Z)) (f_add ops (geom_XY_Y (geom_line_a ln)) (geom_XY_Y (geom_line_b ln))))).

(* geom/type_line_string.go:sumCentroidAndLengthOfLineString  (Unknown: the Go code panics at run time) *)
Definition geom_sumCentroidAndLengthOfLineString (s : (geom_LineString F)) : partial ((geom_XY F) * F)%type :=
  let sumXY := (Mk_geom_XY (f_of_Z ops 0%Z) (f_of_Z ops 0%Z)) in
  let sumLength := (f_of_Z ops 0%Z) in
  let seq := (geom_LineString_Coordinates s) in
  match for_loop (S:=((geom_XY F) * F)%type) (R:=((geom_XY F) * F)%type)
      (fun i => (Z.ltb i (Z.of_nat (length seq))))
      (fun i '(sumXY, sumLength) =>
        match (geom_getLine seq i) with
        | Known r1 =>
        let '(ln, ok) := r1 in
        if (negb ok) then
          (SNext (sumXY, sumLength))
        else
          let length_1 := (geom_line_length ln) in
          let cent := (geom_line_centroid ln) in
          let sumXY := (geom_XY_Add sumXY (geom_XY_Scale cent length_1)) in
          let sumLength := (f_add ops sumLength length_1) in
          (SNext (sumXY, sumLength))
        | Unknown msg => (SFail msg)
        end)
      1%Z (Z.to_nat (let i := 0%Z in (Z.sub (Z.of_nat (length seq)) i))) 0%Z (sumXY, sumLength) with
  | LDone (sumXY, sumLength) =>
    (Known (sumXY, sumLength))
  | LRet ret => (Known ret)
  | LErr msg_1 => (Unknown msg_1)
  end.

(* geom/xy.go:XY.Cross *)
Definition geom_XY_Cross (w : (geom_XY F)) (o : (geom_XY F)) : F :=
  (f_sub ops (f_mul ops (geom_XY_X w) (geom_XY_Y o)) (f_mul ops (geom_XY_Y w) (geom_XY_X o))).

(* geom/alg_orientation.go:orientation *)
Definition geom_orientation (p : (geom_XY F)) (q : (geom_XY F)) (s : (geom_XY F)) : Z :=
  let cp := (geom_XY_Cross (geom_XY_Sub q p) (geom_XY_Sub s q)) in
  if (f_gtb ops cp (f_of_Z ops 0%Z)) then
    geom_leftTurn
  else
    if (f_ltb ops cp (f_of_Z ops 0%Z)) then
      geom_rightTurn
    else
      geom_collinear.

(* geom/util.go:sortFloat64Pair *)
Definition geom_sortFloat64Pair (a : F) (b : F) : (F * F)%type :=
  if (f_gtb ops a b) then
    (b, a)
  else
    (a, b).

(* geom/type_envelope.go:newUncheckedEnvelope *)
Definition geom_newUncheckedEnvelope (minXY : (geom_XY F)) (maxXY : (geom_XY F)) : (geom_Envelope F) :=
  (Mk_geom_Envelope minXY maxXY true).

(* geom/line.go:line.uncheckedEnvelope *)
Definition geom_line_uncheckedEnvelope (ln : (geom_line F)) : (geom_Envelope F) :=
  let '(r1, r2) := (geom_sortFloat64Pair (geom_XY_X (geom_line_a ln)) (geom_XY_X (geom_line_b ln))) in
  let ln := (Mk_geom_line (Mk_geom_XY r1 (geom_XY_Y (geom_line_a ln))) (geom_line_b ln)) in
  let ln := (Mk_geom_line (geom_line_a ln) (Mk_geom_XY r2 (geom_XY_Y (geom_line_b ln)))) in
  let '(r3, r4) := (geom_sortFloat64Pair (geom_XY_Y (geom_line_a ln)) (geom_XY_Y (geom_line_b ln))) in
  let ln := (Mk_geom_line (Mk_geom_XY (geom_XY_X (geom_line_a ln)) r3) (geom_line_b ln)) in
  let ln := (Mk_geom_line (geom_line_a ln) (Mk_geom_XY (geom_XY_X (geom_line_b ln)) r4)) in
  (geom_newUncheckedEnvelope (geom_line_a ln) (geom_line_b ln)).

(* geom/type_envelope.go:Envelope.IsEmpty *)
Definition geom_Envelope_IsEmpty (e : (geom_Envelope F)) : bool :=
  (negb (geom_Envelope_nonEmpty e)).

(* geom/errors.go:ruleViolation.errAtXY *)
Definition geom_ruleViolation_errAtXY (location : (geom_XY F)) : bool :=
  false.

(* geom/xy.go:XY.validate *)
Definition geom_XY_validate (w : (geom_XY F)) : bool :=
  if ((f_is_nan ops (geom_XY_X w)) || (f_is_nan ops (geom_XY_Y w))) then
    (geom_ruleViolation_errAtXY w)
  else
    if ((f_is_inf ops (geom_XY_X w)) || (f_is_inf ops (geom_XY_Y w))) then
      (geom_ruleViolation_errAtXY w)
    else
      true.

(* geom/type_envelope.go:Envelope.Contains *)
Definition geom_Envelope_Contains (e : (geom_Envelope F)) (p : (geom_XY F)) : bool :=
  ((((((negb (geom_Envelope_IsEmpty e)) && (geom_XY_validate p)) && (f_geb ops (geom_XY_X p) (geom_XY_X (geom_Envelope_min e)))) && (f_leb ops (geom_XY_X p) (geom_XY_X (geom_Envelope_max e)))) && (f_geb ops (geom_XY_Y p) (geom_XY_Y (geom_Envelope_min e)))) && (f_leb ops (geom_XY_Y p) (geom_XY_Y (geom_Envelope_max e)))).

(* geom/alg_point_in_ring.go:hasCrossing *)
Definition geom_hasCrossing (pt : (geom_XY F)) (ln : (geom_line F)) : (bool * bool)%type :=
  let crossing := false in
  let onLine := false in
  let '(lower, upper) := ((geom_line_a ln), (geom_line_b ln)) in
  let '(lower, upper) :=
    if (f_gtb ops (geom_XY_Y lower) (geom_XY_Y upper)) then
      let '(lower, upper) := (upper, lower) in
      (lower, upper)
    else
      (lower, upper) in
  let o := (geom_orientation lower upper pt) in
  let crossing := (((f_geb ops (geom_XY_Y pt) (geom_XY_Y lower)) && (f_ltb ops (geom_XY_Y pt) (geom_XY_Y upper))) && (Z.eqb o geom_rightTurn)) in
  let onLine := ((geom_Envelope_Contains (geom_line_uncheckedEnvelope ln) pt) && (Z.eqb o geom_collinear)) in
  (crossing, onLine).

(* geom/alg_point_in_ring.go:relatePointToRing  (Unknown: the Go code panics at run time) *)
Definition geom_relatePointToRing (pt : (geom_XY F)) (ring : (geom_LineString F)) : partial Z :=
  let seq := (geom_LineString_Coordinates ring) in
  let n := (Z.of_nat (length seq)) in
  let count := 0%Z in
  match for_loop (S:=Z) (R:=Z)
      (fun i => (Z.ltb i n))
      (fun i count =>
        match (geom_getLine seq i) with
        | Known r1 =>
        let '(ln, ok) := r1 in
        if (negb ok) then
          (SNext count)
        else
          let '(crossing, onLine) := (geom_hasCrossing pt ln) in
          if onLine then
            (SReturn geom_boundary)
          else
            let count :=
              if crossing then
                let count := (Z.add count 1%Z) in
                count
              else
                count in
            (SNext count)
        | Unknown msg => (SFail msg)
        end)
      1%Z (Z.to_nat (let i := 0%Z in (Z.sub n i))) 0%Z count with
  | LDone count =>
    if (Z.eqb (Z.rem count 2%Z) 0%Z) then
      (Known geom_exterior)
    else
      (Known geom_interior)
  | LRet ret => (Known ret)
  | LErr msg_1 => (Unknown msg_1)
  end.

(* geom/alg_distance.go:distBetweenXYs *)
Definition geom_distBetweenXYs (xy1 : (geom_XY F)) (xy2 : (geom_XY F)) : F :=
  (geom_XY_Length (geom_XY_Sub xy1 xy2)).

(* geom/xy.go:XY.Dot *)
Definition geom_XY_Dot (w : (geom_XY F)) (o : (geom_XY F)) : F :=
  (f_add ops (f_mul ops (geom_XY_X w) (geom_XY_X o)) (f_mul ops (geom_XY_Y w) (geom_XY_Y o))).

(* geom/alg_distance.go:distBetweenXYAndLine *)
Definition geom_distBetweenXYAndLine (xy : (geom_XY F)) (ln : (geom_line F)) : F :=
  let ab := (geom_XY_Sub (geom_line_b ln) (geom_line_a ln)) in
  let abLen := (geom_XY_Length ab) in
  let ap := (geom_XY_Sub xy (geom_line_a ln)) in
  let proj := (f_div ops (geom_XY_Dot ap ab) abLen) in
  if (f_ltb ops proj (f_of_Z ops 0%Z)) then
    (geom_distBetweenXYs xy (geom_line_a ln))
  else
    if (f_gtb ops proj abLen) then
      (geom_distBetweenXYs xy (geom_line_b ln))
    else
      (f_div ops (f_abs ops (geom_XY_Cross ab ap)) abLen).

(* geom/util.go:fastMin *)
Definition geom_fastMin (a : F) (b : F) : F :=
  if ((f_is_nan ops a) || (f_ltb ops a b)) then
    a
  else
    b.

(* geom/alg_distance.go:distBetweenLineAndLine  (Unknown: the Go code panics at run time) *)
Definition geom_distBetweenLineAndLine (ln1 : (geom_line F)) (ln2 : (geom_line F)) : partial F :=
  let minDist := (f_inf 1%Z) in
  match range_loop (A:=F) (S:=F) (R:=F)
      (fun idx dist minDist =>
        let minDist := (geom_fastMin minDist dist) in
        (SNext minDist))
      ((geom_distBetweenXYAndLine (geom_line_a ln1) ln2) :: ((geom_distBetweenXYAndLine (geom_line_b ln1) ln2) :: ((geom_distBetweenXYAndLine (geom_line_a ln2) ln1) :: ((geom_distBetweenXYAndLine (geom_line_b ln2) ln1) :: (@nil F))))) 0%Z minDist with
  | LDone minDist =>
    (Known minDist)
  | LRet ret => (Known ret)
  | LErr msg => (Unknown msg)
  end.

(* geom/alg_exact_equals.go:exactEqualsComparator.exceedsTolerance *)
Definition geom_exactEqualsComparator_exceedsTolerance (c : (geom_exactEqualsComparator F)) (a : (geom_XY F)) (b : (geom_XY F)) : bool :=
  let dx := (f_abs ops (f_sub ops (geom_XY_X a) (geom_XY_X b))) in
  let dy := (f_abs ops (f_sub ops (geom_XY_Y a) (geom_XY_Y b))) in
  let tol := (geom_exactEqualsComparator_tolerance c) in
  let largest := (f_max ops tol (f_max ops dx dy)) in
  if (negb (f_is_nan ops largest)) then
    let exp := (f_ilogb (f_min ops largest (f_of_Z ops 179769313486231570814527423731704356798070567525844996598917476803157260780028538760589558632766878171540458953514382464234321326889464182768467546703537516986049910576551282076245490090389328944075868508455133942304583236903222948165808559332123348274797826204144723168738177180919299881250404026184124858368%Z))) in
    let dx := (f_ldexp dx (Z.opp exp)) in
    let dy := (f_ldexp dy (Z.opp exp)) in
    let tol := (f_ldexp tol (Z.opp exp)) in
    (f_gtb ops (f_add ops (f_mul ops dx dx) (f_mul ops dy dy)) (f_mul ops tol tol))
  else
    (f_gtb ops (f_add ops (f_mul ops dx dx) (f_mul ops dy dy)) (f_mul ops tol tol)).

(* geom/coordinate_type.go:CoordinatesType.Is3D *)
Definition geom_CoordinatesType_Is3D (t : Z) : bool :=
  (negb (Z.eqb (Z.land t geom_DimXYZ) 0%Z)).

(* geom/coordinate_type.go:CoordinatesType.IsMeasured *)
Definition geom_CoordinatesType_IsMeasured (t : Z) : bool :=
  (negb (Z.eqb (Z.land t geom_DimXYM) 0%Z)).

(* geom/alg_exact_equals.go:exactEqualsComparator.eq *)
Definition geom_exactEqualsComparator_eq (c : (geom_exactEqualsComparator F)) (a : (geom_Coordinates F)) (b : (geom_Coordinates F)) : bool :=
  if (negb (Z.eqb (geom_Coordinates_Type a) (geom_Coordinates_Type b))) then
    false
  else
    if (f_eqb ops (geom_exactEqualsComparator_tolerance c) (f_of_Z ops 0%Z)) then
      if (negb (geom_XY_eqb (geom_Coordinates_XY a) (geom_Coordinates_XY b))) then
        false
      else
        if ((geom_CoordinatesType_Is3D (geom_Coordinates_Type a)) && (negb (f_eqb ops (geom_Coordinates_Z a) (geom_Coordinates_Z b)))) then
          false
        else
          if ((geom_CoordinatesType_IsMeasured (geom_Coordinates_Type a)) && (negb (f_eqb ops (geom_Coordinates_M a) (geom_Coordinates_M b)))) then
            false
          else
            true
    else
      if (geom_exactEqualsComparator_exceedsTolerance c (geom_Coordinates_XY a) (geom_Coordinates_XY b)) then
        false
      else
        if ((geom_CoordinatesType_Is3D (geom_Coordinates_Type a)) && (negb (f_eqb ops (geom_Coordinates_Z a) (geom_Coordinates_Z b)))) then
          false
        else
          if ((geom_CoordinatesType_IsMeasured (geom_Coordinates_Type a)) && (negb (f_eqb ops (geom_Coordinates_M a) (geom_Coordinates_M b)))) then
            false
          else
            true.

(* geom/util.go:fastMax *)
Definition geom_fastMax (a : F) (b : F) : F :=
  if ((f_is_nan ops a) || (f_gtb ops a b)) then
    a
  else
    b.

(* geom/type_envelope.go:Envelope.ExpandToIncludeXY *)
Definition geom_Envelope_ExpandToIncludeXY (e : (geom_Envelope F)) (xy : (geom_XY F)) : (geom_Envelope F) :=
  if (geom_Envelope_IsEmpty e) then
    (geom_newUncheckedEnvelope xy xy)
  else
    (geom_newUncheckedEnvelope (Mk_geom_XY (geom_fastMin (geom_XY_X (geom_Envelope_min e)) (geom_XY_X xy)) (geom_fastMin (geom_XY_Y (geom_Envelope_min e)) (geom_XY_Y xy))) (Mk_geom_XY (geom_fastMax (geom_XY_X (geom_Envelope_max e)) (geom_XY_X xy)) (geom_fastMax (geom_XY_Y (geom_Envelope_max e)) (geom_XY_Y xy)))).

(* geom/type_envelope.go:NewEnvelope  (Unknown: the Go code panics at run time) *)
Definition geom_NewEnvelope (xys : (list (geom_XY F))) : partial (geom_Envelope F) :=
  let env := (Mk_geom_Envelope (Mk_geom_XY (f_of_Z ops 0%Z) (f_of_Z ops 0%Z)) (Mk_geom_XY (f_of_Z ops 0%Z) (f_of_Z ops 0%Z)) false) in
  match range_loop (A:=(geom_XY F)) (S:=(geom_Envelope F)) (R:=(geom_Envelope F))
      (fun idx xy env =>
        let env := (geom_Envelope_ExpandToIncludeXY env xy) in
        (SNext env))
      xys 0%Z env with
  | LDone env =>
    (Known env)
  | LRet ret => (Known ret)
  | LErr msg => (Unknown msg)
  end.

(* geom/alg_linear_interpolation.go:lerp *)
Definition geom_lerp (a : F) (b : F) (t : F) : F :=
  if (((f_leb ops a (f_of_Z ops 0%Z)) && (f_geb ops b (f_of_Z ops 0%Z))) || ((f_geb ops a (f_of_Z ops 0%Z)) && (f_leb ops b (f_of_Z ops 0%Z)))) then
    (f_add ops (f_mul ops t b) (f_mul ops (f_sub ops (f_of_Z ops 1%Z) t) a))
  else
    if (f_eqb ops t (f_of_Z ops 1%Z)) then
      b
    else
      let x := (f_add ops a (f_mul ops t (f_sub ops b a))) in
      if (Bool.eqb (f_gtb ops t (f_of_Z ops 1%Z)) (f_gtb ops b a)) then
        (f_max ops b x)
      else
        (f_min ops b x).

(* geom/alg_linear_interpolation.go:interpolateCoords *)
Definition geom_interpolateCoords (c0 : (geom_Coordinates F)) (c1 : (geom_Coordinates F)) (frac : F) : (geom_Coordinates F) :=
  (Mk_geom_Coordinates (Mk_geom_XY (geom_lerp (geom_XY_X (geom_Coordinates_XY c0)) (geom_XY_X (geom_Coordinates_XY c1)) frac) (geom_lerp (geom_XY_Y (geom_Coordinates_XY c0)) (geom_XY_Y (geom_Coordinates_XY c1)) frac)) (geom_lerp (geom_Coordinates_Z c0) (geom_Coordinates_Z c1) frac) (geom_lerp (geom_Coordinates_M c0) (geom_Coordinates_M c1) frac) (Z.land (geom_Coordinates_Type c0) (geom_Coordinates_Type c1))).

(* geom/alg_linear_interpolation.go:newLinearInterpolator  (Unknown: the Go code panics at run time) *)
Definition geom_newLinearInterpolator (seq : (list (geom_Coordinates F))) : partial (geom_linearInterpolator F) :=
  let n := (Z.of_nat (length seq)) in
  if (Z.eqb n 0%Z) then
    (Unknown "panic: empty seq in newLinearInterpolator"%string)
  else
    let total := (f_of_Z ops 0%Z) in
    match (make_list (Z.sub n 1%Z) (f_of_Z ops 0%Z)) with
    | Some mk1 =>
    let cumulative := mk1 in
    match for_loop (S:=(F * (list F))%type) (R:=(geom_linearInterpolator F))
        (fun i => (Z.ltb i (Z.sub n 1%Z)))
        (fun i '(total, cumulative) =>
          match (lookup seq i) with
          | Some e2_1 =>
          match (lookup seq (Z.add i 1%Z)) with
          | Some e3 =>
          let total := (f_add ops total (geom_XY_distanceTo (geom_Coordinates_XY e2_1) (geom_Coordinates_XY e3))) in
          match (list_set cumulative i total) with
          | Some upd4 =>
          let cumulative := upd4 in
          (SNext (total, cumulative))
          | None => (SFail "index out of range"%string)
          end
          | None => (SFail "index out of range"%string)
          end
          | None => (SFail "index out of range"%string)
          end)
        1%Z (Z.to_nat (let i := 0%Z in (Z.sub (Z.sub n 1%Z) i))) 0%Z (total, cumulative) with
    | LDone (total, cumulative) =>
      (Known (Mk_geom_linearInterpolator seq cumulative total))
    | LRet ret => (Known ret)
    | LErr msg => (Unknown msg)
    end
    | None => (Unknown "makeslice: len out of range"%string)
    end.

(* geom/type_coordinates.go:Coordinates.appendFloat64s  (Unknown: the Go code panics at run time) *)
Definition geom_Coordinates_appendFloat64s (c : (geom_Coordinates F)) (dst : (list F)) : partial (list F) :=
  if (Z.eqb (geom_Coordinates_Type c) geom_DimXY) then
    (Known (app dst ((geom_XY_X (geom_Coordinates_XY c)) :: ((geom_XY_Y (geom_Coordinates_XY c)) :: (@nil F)))))
  else
    if (Z.eqb (geom_Coordinates_Type c) geom_DimXYZ) then
      (Known (app dst ((geom_XY_X (geom_Coordinates_XY c)) :: ((geom_XY_Y (geom_Coordinates_XY c)) :: ((geom_Coordinates_Z c) :: (@nil F))))))
    else
      if (Z.eqb (geom_Coordinates_Type c) geom_DimXYM) then
        (Known (app dst ((geom_XY_X (geom_Coordinates_XY c)) :: ((geom_XY_Y (geom_Coordinates_XY c)) :: ((geom_Coordinates_M c) :: (@nil F))))))
      else
        if (Z.eqb (geom_Coordinates_Type c) geom_DimXYZM) then
          (Known (app dst ((geom_XY_X (geom_Coordinates_XY c)) :: ((geom_XY_Y (geom_Coordinates_XY c)) :: ((geom_Coordinates_Z c) :: ((geom_Coordinates_M c) :: (@nil F)))))))
        else
          (Unknown "panic"%string).

(* geom/alg_densify.go:densify  (Unknown: the Go code panics at run time) *)
Definition geom_densify (seq : (list (geom_Coordinates F))) (maxDist : F) : partial (list (geom_Coordinates F)) :=
  if (f_leb ops maxDist (f_of_Z ops 0%Z)) then
    (Unknown "panic: maxDist must be positive"%string)
  else
    if (Z.eqb (Z.of_nat (length seq)) 0%Z) then
      (Known seq)
    else
      let dense := (@nil F) in
      let n := (Z.of_nat (length seq)) in
      match for_loop (S:=(list F)) (R:=(list (geom_Coordinates F)))
          (fun i => (Z.ltb (Z.add i 1%Z) n))
          (fun i dense =>
            match (lookup seq (Z.add i 0%Z)) with
            | Some e1 =>
            let c0 := e1 in
            match (lookup seq (Z.add i 1%Z)) with
            | Some e2 =>
            let c1 := e2 in
            match (geom_Coordinates_appendFloat64s c0 dense) with
            | Known r3 =>
            let dense := r3 in
            let dist := (geom_XY_distanceTo (geom_Coordinates_XY c0) (geom_Coordinates_XY c1)) in
            let subsections := (f_to_int (f_ceil (f_div ops dist maxDist))) in
            match for_loop (S:=(list F)) (R:=(list (geom_Coordinates F)))
                (fun j => (Z.ltb j subsections))
                (fun j dense =>
                  let cj := (geom_interpolateCoords c0 c1 (f_div ops (f_of_Z ops j) (f_of_Z ops subsections))) in
                  match (geom_Coordinates_appendFloat64s cj dense) with
                  | Known r4 =>
                  let dense := r4 in
                  (SNext dense)
                  | Unknown msg => (SFail msg)
                  end)
                1%Z (Z.to_nat (let j := 1%Z in (Z.sub subsections j))) 1%Z dense with
            | LDone dense =>
              (SNext dense)
            | LRet ret => (SReturn ret)
            | LErr msg_1 => (SFail msg_1)
            end
            | Unknown msg_2 => (SFail msg_2)
            end
            | None => (SFail "index out of range"%string)
            end
            | None => (SFail "index out of range"%string)
            end)
          1%Z (Z.to_nat (let i := 0%Z in (Z.sub n (Z.add i 1%Z)))) 0%Z dense with
      | LDone dense =>
        match (lookup seq (Z.sub n 1%Z)) with
        | Some e5_1 =>
        match (geom_Coordinates_appendFloat64s e5_1 dense) with
        | Known r6 =>
        let dense := r6 in
        (Known (f_seq_new dense (f_seq_ctype seq)))
        | Unknown msg_4 => (Unknown msg_4)
        end
        | None => (Unknown "index out of range"%string)
        end
      | LRet ret_1 => (Known ret_1)
      | LErr msg_3 => (Unknown msg_3)
      end.

(* geom/type_polygon.go:Polygon.IsCW  (Unknown: the Go code panics at run time) *)
Definition geom_Polygon_IsCW (p : (geom_Polygon F)) : partial bool :=
  match range_loop (A:=(geom_LineString F)) (S:=unit) (R:=bool)
      (fun i ring _ =>
        match (geom_signedAreaOfLinearRing ring None) with
        | Known r1 =>
        let isCW := (f_ltb ops r1 (f_of_Z ops 0%Z)) in
        if (negb (Bool.eqb (Z.eqb i 0%Z) isCW)) then
          (SReturn false)
        else
          (SNext tt)
        | Unknown msg => (SFail msg)
        end)
      (geom_Polygon_rings p) 0%Z tt with
  | LDone _ =>
    (Known true)
  | LRet ret => (Known ret)
  | LErr msg_1 => (Unknown msg_1)
  end.

(* geom/type_polygon.go:Polygon.IsCCW  (Unknown: the Go code panics at run time) *)
Definition geom_Polygon_IsCCW (p : (geom_Polygon F)) : partial bool :=
  match range_loop (A:=(geom_LineString F)) (S:=unit) (R:=bool)
      (fun i ring _ =>
        match (geom_signedAreaOfLinearRing ring None) with
        | Known r1 =>
        let isCCW := (f_gtb ops r1 (f_of_Z ops 0%Z)) in
        if (negb (Bool.eqb (Z.eqb i 0%Z) isCCW)) then
          (SReturn false)
        else
          (SNext tt)
        | Unknown msg => (SFail msg)
        end)
      (geom_Polygon_rings p) 0%Z tt with
  | LDone _ =>
    (Known true)
  | LRet ret => (Known ret)
  | LErr msg_1 => (Unknown msg_1)
  end.

(* geom/type_multi_line_string.go:MultiLineString.Length  (Unknown: the Go code panics at run time) *)
Definition geom_MultiLineString_Length (m : (geom_MultiLineString F)) : partial F :=
  let sum_1 := (f_of_Z ops 0%Z) in
  match range_loop (A:=(geom_LineString F)) (S:=F) (R:=F)
      (fun idx ln sum_1 =>
        match (geom_LineString_Length ln) with
        | Known r1 =>
        let sum_1 := (f_add ops sum_1 r1) in
        (SNext sum_1)
        | Unknown msg => (SFail msg)
        end)
      (geom_MultiLineString_lines m) 0%Z sum_1 with
  | LDone sum_1 =>
    (Known sum_1)
  | LRet ret => (Known ret)
  | LErr msg_1 => (Unknown msg_1)
  end.

(* geom/type_point.go:NewEmptyPoint *)
Definition geom_NewEmptyPoint (ctype : Z) : (geom_Point F) :=
  (Mk_geom_Point (Mk_geom_Coordinates (Mk_geom_XY (f_of_Z ops 0%Z) (f_of_Z ops 0%Z)) (f_of_Z ops 0%Z) (f_of_Z ops 0%Z) ctype) false).

(* geom/type_point.go:NewPoint *)
Definition geom_NewPoint (c : (geom_Coordinates F)) : (geom_Point F) :=
  let c :=
    if (negb (geom_CoordinatesType_Is3D (geom_Coordinates_Type c))) then
      let r1 := (f_of_Z ops 0%Z) in
      let c := (Mk_geom_Coordinates (geom_Coordinates_XY c) r1 (geom_Coordinates_M c) (geom_Coordinates_Type c)) in
      c
    else
      c in
  let c :=
    if (negb (geom_CoordinatesType_IsMeasured (geom_Coordinates_Type c))) then
      let r2 := (f_of_Z ops 0%Z) in
      let c := (Mk_geom_Coordinates (geom_Coordinates_XY c) (geom_Coordinates_Z c) r2 (geom_Coordinates_Type c)) in
      c
    else
      c in
  (Mk_geom_Point c true).

(* geom/xy.go:XY.AsPoint *)
Definition geom_XY_AsPoint (w : (geom_XY F)) : (geom_Point F) :=
  let coords := (Mk_geom_Coordinates w (f_of_Z ops 0%Z) (f_of_Z ops 0%Z) geom_DimXY) in
  (geom_NewPoint coords).

(* geom/type_line_string.go:LineString.Centroid  (Unknown: the Go code panics at run time) *)
Definition geom_LineString_Centroid (s : (geom_LineString F)) : partial (geom_Point F) :=
  match (geom_sumCentroidAndLengthOfLineString s) with
  | Known r1 =>
  let '(sumXY, sumLength) := r1 in
  if (f_eqb ops sumLength (f_of_Z ops 0%Z)) then
    (Known (geom_NewEmptyPoint geom_DimXY))
  else
    (Known (geom_XY_AsPoint (geom_XY_Scale sumXY (f_div ops (f_of_Z ops 1%Z) sumLength))))
  | Unknown msg => (Unknown msg)
  end.

(* geom/type_multi_point.go:MultiPoint.NumPoints *)
Definition geom_MultiPoint_NumPoints (m : (geom_MultiPoint F)) : Z :=
  (Z.of_nat (length (geom_MultiPoint_points m))).

(* geom/type_multi_point.go:MultiPoint.PointN  (Unknown: the Go code panics at run time) *)
Definition geom_MultiPoint_PointN (m : (geom_MultiPoint F)) (n : Z) : partial (geom_Point F) :=
  match (lookup (geom_MultiPoint_points m) n) with
  | Some e1 =>
  (Known e1)
  | None => (Unknown "index out of range"%string)
  end.

(* geom/type_point.go:Point.XY *)
Definition geom_Point_XY (p : (geom_Point F)) : ((geom_XY F) * bool)%type :=
  ((geom_Coordinates_XY (geom_Point_coords p)), (geom_Point_full p)).

(* geom/type_multi_point.go:MultiPoint.Centroid  (Unknown: the Go code panics at run time) *)
Definition geom_MultiPoint_Centroid (m : (geom_MultiPoint F)) : partial (geom_Point F) :=
  let sum_1 := (Mk_geom_XY (f_of_Z ops 0%Z) (f_of_Z ops 0%Z)) in
  let n := 0%Z in
  match for_loop (S:=((geom_XY F) * Z)%type) (R:=(geom_Point F))
      (fun i => (Z.ltb i (geom_MultiPoint_NumPoints m)))
      (fun i '(sum_1, n) =>
        match (geom_MultiPoint_PointN m i) with
        | Known r1_1 =>
        let '(xy, ok) := (geom_Point_XY r1_1) in
        let '(sum_1, n) :=
          if ok then
            let sum_1 := (geom_XY_Add sum_1 xy) in
            let n := (Z.add n 1%Z) in
            (sum_1, n)
          else
            (sum_1, n) in
        (SNext (sum_1, n))
        | Unknown msg => (SFail msg)
        end)
      1%Z (Z.to_nat (let i := 0%Z in (Z.sub (geom_MultiPoint_NumPoints m) i))) 0%Z (sum_1, n) with
  | LDone (sum_1, n) =>
    if (Z.eqb n 0%Z) then
      (Known (geom_NewEmptyPoint geom_DimXY))
    else
      (Known (geom_XY_AsPoint (geom_XY_Scale sum_1 (f_div ops (f_of_Z ops 1%Z) (f_of_Z ops n)))))
  | LRet ret => (Known ret)
  | LErr msg_1 => (Unknown msg_1)
  end.

(* geom/type_envelope.go:Envelope.ExpandToIncludeEnvelope *)
Definition geom_Envelope_ExpandToIncludeEnvelope (e : (geom_Envelope F)) (o : (geom_Envelope F)) : (geom_Envelope F) :=
  if (geom_Envelope_IsEmpty e) then
    o
  else
    if (geom_Envelope_IsEmpty o) then
      e
    else
      (geom_newUncheckedEnvelope (Mk_geom_XY (geom_fastMin (geom_XY_X (geom_Envelope_min e)) (geom_XY_X (geom_Envelope_min o))) (geom_fastMin (geom_XY_Y (geom_Envelope_min e)) (geom_XY_Y (geom_Envelope_min o)))) (Mk_geom_XY (geom_fastMax (geom_XY_X (geom_Envelope_max e)) (geom_XY_X (geom_Envelope_max o))) (geom_fastMax (geom_XY_Y (geom_Envelope_max e)) (geom_XY_Y (geom_Envelope_max o))))).

(* geom/type_point.go:Point.Envelope *)
Definition geom_Point_Envelope (p : (geom_Point F)) : (geom_Envelope F) :=
  let '(xy, ok) := (geom_Point_XY p) in
  if ok then
    (geom_Envelope_ExpandToIncludeXY (Mk_geom_Envelope (Mk_geom_XY (f_of_Z ops 0%Z) (f_of_Z ops 0%Z)) (Mk_geom_XY (f_of_Z ops 0%Z) (f_of_Z ops 0%Z)) false) xy)
  else
    (Mk_geom_Envelope (Mk_geom_XY (f_of_Z ops 0%Z) (f_of_Z ops 0%Z)) (Mk_geom_XY (f_of_Z ops 0%Z) (f_of_Z ops 0%Z)) false).

(* geom/type_multi_point.go:MultiPoint.Envelope  (Unknown: the Go code panics at run time) *)
Definition geom_MultiPoint_Envelope (m : (geom_MultiPoint F)) : partial (geom_Envelope F) :=
  let env := (Mk_geom_Envelope (Mk_geom_XY (f_of_Z ops 0%Z) (f_of_Z ops 0%Z)) (Mk_geom_XY (f_of_Z ops 0%Z) (f_of_Z ops 0%Z)) false) in
  match range_loop (A:=(geom_Point F)) (S:=(geom_Envelope F)) (R:=(geom_Envelope F))
      (fun idx pt env =>
        let env := (geom_Envelope_ExpandToIncludeEnvelope env (geom_Point_Envelope pt)) in
        (SNext env))
      (geom_MultiPoint_points m) 0%Z env with
  | LDone env =>
    (Known env)
  | LRet ret => (Known ret)
  | LErr msg => (Unknown msg)
  end.

(* geom/alg_simplify.go:perpendicularDistance *)
Definition geom_perpendicularDistance (p : (geom_XY F)) (a : (geom_XY F)) (b : (geom_XY F)) : F :=
  if (geom_XY_eqb a b) then
    (geom_XY_Length (geom_XY_Sub p a))
  else
    let aSubP := (geom_XY_Sub a p) in
    let bSubA := (geom_XY_Sub b a) in
    let unit_1 := (geom_XY_Scale bSubA (f_div ops (f_of_Z ops 1%Z) (geom_XY_Length bSubA))) in
    let perpendicular := (geom_XY_Sub aSubP (geom_XY_Scale unit_1 (geom_XY_Dot aSubP unit_1))) in
    (geom_XY_Length perpendicular).

End Funcs.

(* translated: 59 functions; not translated: 0 *)
