(* Property C15 - model of Boundary, Dimension and IsEmpty over exact rationals.
   Transcribed from geom/type_point.go:Boundary, type_multi_point.go:Boundary,
   type_line_string.go:Boundary/IsClosed/StartPoint/EndPoint, type_multi_line_string.go:Boundary,
   type_polygon.go:Boundary, type_multi_polygon.go:Boundary, type_geometry_collection.go:Boundary,
   type_geometry.go:Boundary/Dimension/IsEmpty.  Ordinates are rationals (the exact values of the
   doubles); Z and M travel with the vertices exactly as in Go (LineString / MultiLineString
   boundaries keep them, areal and collection boundaries are forced to XY).
   Definitions only; lemmas are in Proofs/Boundary_proofs.v. *)
From Coq Require Import QArith Qreduction List Bool ZArith Lia.
From SF Require Import Base.GeomAST Base.QKernel Base.Planar.
Import ListNotations.
Open Scope Q_scope.

(* ------------------------------------------------------------------ Dimension / IsEmpty *)
(* IsEmpty of every type is GeomAST.is_empty (a transcription of the seven IsEmpty methods). *)

(* geom/type_geometry.go:Dimension, type_geometry_collection.go:Dimension - empty members count *)
Fixpoint dimension (g : geom) : nat :=
  match g with
  | GPoint _ | GMPoint _ _ => 0%nat
  | GLine _ | GMLine _ _ => 1%nat
  | GPoly _ | GMPoly _ _ => 2%nat
  | GColl _ gs => fold_left (fun d g' => Nat.max d (dimension g')) gs 0%nat
  end.

(* the dimension of the point set: empty parts do not count
   (geom/type_geometry_collection.go:highestDimensionIgnoreEmpties) *)
Fixpoint dim_ie (g : geom) : nat :=
  if is_empty g then 0%nat
  else match g with
       | GPoint _ | GMPoint _ _ => 0%nat
       | GLine _ | GMLine _ _ => 1%nat
       | GPoly _ | GMPoly _ _ => 2%nat
       | GColl _ gs => fold_left (fun d g' => Nat.max d (dim_ie g')) gs 0%nat
       end.

(* ------------------------------------------------------------------ pieces *)
Definition force2d (g : geom) : geom := force_geom 0 XY g.          (* Force2D *)
Definition line2d (l : lineT Q) : lineT Q := force_line 0 XY l.
Definition point2d (p : pointT Q) : pointT Q := force_point 0 XY p.

Definition point_xy (p : pointT Q) : option pt := option_map vpt (point_c p).   (* Point.XY() *)

(* type_line_string.go:StartPoint / EndPoint (the empty Point of the line's type when empty) *)
Definition start_point (l : lineT Q) : pointT Q := MkPoint (line_ct l) (hd_error (line_vs l)).
Definition end_point (l : lineT Q) : pointT Q :=
  MkPoint (line_ct l) (match line_vs l with [] => None | a :: r => Some (last r a) end).
(* type_line_string.go:IsClosed = !IsEmpty && GetXY(0) == GetXY(n-1) *)
Definition line_is_closed (l : lineT Q) : bool :=
  match line_vs l with
  | [] => false
  | a :: r => pt_eqb (vpt a) (vpt (last r a))
  end.

(* ------------------------------------------------------------------ LineString *)
(* type_line_string.go:Boundary *)
Definition line_boundary (l : lineT Q) : geom :=
  if line_empty l || line_is_closed l then GMPoint XY []
  else new_multipoint 0 [start_point l; end_point l].

(* ------------------------------------------------------------------ MultiLineString *)
(* the end points in the order the loop visits them: closed members skipped, empty points
   (of empty members) skipped by the XY() test *)
Definition mline_endpoints (ls : list (lineT Q)) : list (pointT Q) :=
  filter (fun p => negb (point_empty p))
         (flat_map (fun l => if line_is_closed l then [] else [start_point l; end_point l]) ls).

(* counts[xy] after the first loop *)
Definition count_xy (ps : list (pointT Q)) (xy : pt) : nat :=
  length (filter (fun p => match point_xy p with Some q => pt_eqb xy q | None => false end) ps).

(* uniqueEndpoints: a point is appended when counts[xy] == 0, i.e. at its first occurrence *)
Fixpoint first_occurrences (seen : list pt) (ps : list (pointT Q)) : list (pointT Q) :=
  match ps with
  | [] => []
  | p :: r =>
      match point_xy p with
      | None => first_occurrences seen r
      | Some xy => if existsb (pt_eqb xy) seen then first_occurrences seen r
                   else p :: first_occurrences (xy :: seen) r
      end
  end.

Definition mod2_points (ls : list (lineT Q)) : list (pointT Q) :=
  let eps := mline_endpoints ls in
  filter (fun p => match point_xy p with
                   | Some xy => Nat.odd (count_xy eps xy)
                   | None => false
                   end)
         (first_occurrences [] eps).

(* type_multi_line_string.go:Boundary *)
Definition mline_boundary (ls : list (lineT Q)) : geom := new_multipoint 0 (mod2_points ls).

(* ------------------------------------------------------------------ Polygon / MultiPolygon *)
(* type_polygon.go:Boundary = NewMultiLineString(p.rings).Force2D() *)
Definition poly_boundary_mls (y : polyT Q) : geom := force2d (new_multiline 0 (poly_rings y)).
(* type_geometry.go:Boundary, Polygon case: a holeless polygon gives a LineString *)
Definition poly_boundary_geom (y : polyT Q) : geom :=
  match poly_boundary_mls y with
  | GMLine _ [l] => GLine l
  | b => b
  end.
(* type_multi_polygon.go:Boundary *)
Definition mpoly_boundary (ys : list (polyT Q)) : geom :=
  new_multiline 0 (flat_map (fun y => map line2d (poly_rings y)) ys).

(* ------------------------------------------------------------------ Geometry.Boundary *)
(* type_geometry.go:Boundary with type_point.go / type_multi_point.go (GeometryCollection{}) and
   type_geometry_collection.go:Boundary (an empty collection is returned as it is; otherwise
   the non-empty member boundaries, forced to XY, in an XY collection) *)
Fixpoint boundary (g : geom) : geom :=
  match g with
  | GPoint _ | GMPoint _ _ => GColl XY []
  | GLine l => line_boundary l
  | GMLine _ ls => mline_boundary ls
  | GPoly y => poly_boundary_geom y
  | GMPoly _ ys => mpoly_boundary ys
  | GColl ct gs =>
      if forallb (@is_empty Q) gs then g
      else GColl XY (filter (fun b => negb (is_empty b)) (map (fun g' => force2d (boundary g')) gs))
  end.

(* The method of the concrete type Polygon (no collapse) - observed separately by the harness *)
Definition boundary_concrete (g : geom) : geom :=
  match g with
  | GPoly y => poly_boundary_mls y
  | _ => boundary g
  end.

(* ------------------------------------------------------------------ well-formedness *)
(* what the constructors' validation guarantees and the theorems need: polygon rings are
   non-empty and closed (type_polygon.go:Validate), line strings are empty or have two
   vertices (type_line_string.go:Validate) *)
Definition ring_ok (l : lineT Q) : bool := negb (line_empty l) && line_is_closed l.
Definition poly_wf (y : polyT Q) : bool := forallb ring_ok (poly_rings y).
Definition line_wf (l : lineT Q) : bool :=
  match line_vs l with [_] => false | _ => true end.
Fixpoint geom_wf (g : geom) : bool :=
  match g with
  | GPoint _ | GMPoint _ _ => true
  | GLine l => line_wf l
  | GMLine _ ls => forallb line_wf ls
  | GPoly y => poly_wf y
  | GMPoly _ ys => forallb poly_wf ys
  | GColl _ gs => forallb geom_wf gs
  end.

(* ------------------------------------------------------------------ executable statements *)
(* the flattened leaves (type_geometry_collection.go:walk) *)
Fixpoint leaves (g : geom) : list geom :=
  match g with
  | GColl _ gs => flat_map leaves gs
  | _ => [g]
  end.

(* dimension clause: the boundary is empty or one dimension lower *)
Definition dim_clause (g b : geom) : bool :=
  is_empty b || Nat.eqb (S (dim_ie b)) (dim_ie g).

(* all vertices and edge midpoints of a geometry: probes of its point set *)
Definition seg_mid (s : seg) : pt := (qmid (fst (fst s)) (fst (snd s)), qmid (snd (fst s)) (snd (snd s))).
Definition probes (b : geom) : list pt :=
  arr_points b ++ flat_map (fun s => [fst s; snd s; seg_mid s]) (arr_segments b).

(* a point is "boundary of g": it is Boundary of some leaf of g (for a non-collection: of g).
   A collection's boundary is the collection of its members' boundaries, so the point set of
   Boundary(g) must be the union of the leaves' boundary sets. *)
Definition leaf_preps (g : geom) : list pgeom := map prep (leaves g).
Definition on_leaf_boundary (pls : list pgeom) (p : pt) : bool :=
  existsb (fun pg => loc_eqb (locate_p pg p) Boundary) pls.

(* "every point of it relates to g as boundary" on the probes of b *)
Definition probes_on_boundary (g b : geom) : bool :=
  let pls := leaf_preps g in
  forallb (on_leaf_boundary pls) (probes b).

(* structurally equal neighbours of a canonically sorted list dropped (the segments of b are
   normally segments of g: the arrangement is built once per distinct segment) *)
Fixpoint dedup_sorted {A} (key : A -> list Z) (l : list A) : list A :=
  match l with
  | a :: ((b :: _) as r) =>
      if lex_leb (key a) (key b) && lex_leb (key b) (key a) then dedup_sorted key r
      else a :: dedup_sorted key r
  | _ => l
  end.

(* "exactly the set": at every witness of the arrangement of g and b (every vertex, every open
   edge piece, every face) membership in b coincides with being Boundary of a leaf of g *)
Definition boundary_exact (g b : geom) : bool :=
  let pls := leaf_preps g in
  let W := witnesses (dedup_sorted seg_key (canon_segs (arr_segments g ++ arr_segments b)))
                     (dedup_sorted pt_key (canon_pts (arr_points g ++ arr_points b))) in
  (* a face witness (dimension 2) can only matter when b has an areal part *)
  let faces := Nat.ltb 1 (dimension b) in
  forallb (fun w => match snd w with
                    | D2 => if faces then Bool.eqb (inG b (fst w)) (on_leaf_boundary pls (fst w)) else true
                    | _ => Bool.eqb (inG b (fst w)) (on_leaf_boundary pls (fst w))
                    end) W.
Definition n_segments (g : geom) : nat := length (arr_segments g).

(* non-lattice input only: a MultiPolygon leaf whose members overlap in exact arithmetic (a ring
   point of one member strictly inside another) although the implementation's float validation
   accepted it - e.g. members that touched along an edge before the coordinates were sheared and
   rounded.  Such a case is outside the property's domain (not valid) and is excluded, counted. *)
Definition mpoly_overlap (l : geom) : bool :=
  match l with
  | GMPoly _ ys => existsb (fun p => existsb (fun y => poly_interior y p) ys) (probes (boundary l))
  | _ => false
  end.
Definition members_overlap (g : geom) : bool := existsb mpoly_overlap (leaves g).

(* ------------------------------------------------------------------ the mod-2 rule, stated *)
(* p is an end point of the non-empty, non-closed line string l *)
Definition open_end_of (l : lineT Q) (p : pt) : bool :=
  negb (line_is_closed l) &&
  match line_vs l with
  | [] => false
  | a :: r => pt_eqb p (vpt a) || pt_eqb p (vpt (last r a))
  end.
(* p is an end point of an odd number of non-closed members *)
Definition odd_open_ends (ls : list (lineT Q)) (p : pt) : bool :=
  Nat.odd (length (filter (fun l => open_end_of l p) ls)).
