(* Property C15 - executable side conditions of the all-points reading of Boundary.boundary_exact:
   every ring of every polygon of the geometry is a closed vertex list.  Definitions only. *)
From Coq Require Import QArith List Bool.
From SF Require Import Base.GeomAST Base.QKernel Base.Planar Model.Boundary.
Import ListNotations.

Definition rings_closedb (g : geom) : bool :=
  forallb (fun y => forallb (fun r => pts_closed (line_pts r)) (poly_rings y)) (g_polys g).

(* the check the driver performs: closed rings on both sides and agreement at the witnesses *)
Definition boundary_exact_ok (g b : geom) : bool :=
  rings_closedb g && rings_closedb b && boundary_exact g b.
