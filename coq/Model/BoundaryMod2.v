(* Property C15 - the mod-2 rule as an executable statement about a REPORTED boundary b of a lineal
   geometry g (type_line_string.go:Boundary, type_multi_line_string.go:Boundary): membership in b
   coincides with "end point of an odd number of non-closed members" (Boundary.odd_open_ends).
   Evaluated at finitely many candidates (every end point of a member, every point of b); theorem
   mod2_exact_everywhere (Proofs/BoundaryMod2_proofs.v) lifts it to every point of Q^2.
   For collections: the boundary is the collection of the members' boundaries, so every odd end
   point of every lineal leaf must be a point of b (mod2_complete).  Definitions only. *)
From Coq Require Import QArith List Bool.
From SF Require Import Base.GeomAST Base.QKernel Base.Planar Model.Boundary.
Import ListNotations.

(* the member line strings of a lineal geometry *)
Definition lineal_members (l : geom) : list (lineT Q) :=
  match l with
  | GLine x => [x]
  | GMLine _ ls => ls
  | _ => []
  end.

(* the end points of the non-closed members, with repetition (Planar.line_ends) *)
Definition mod2_ends (ls : list (lineT Q)) : list pt := flat_map line_ends ls.

Definition mod2_agree_at (ls : list (lineT Q)) (b : geom) (cands : list pt) : bool :=
  forallb (fun p => Bool.eqb (inG b p) (odd_open_ends ls p)) cands.

(* g a LineString or MultiLineString, b its reported boundary: agreement at every end point of a
   member and at every point of b *)
Definition mod2_exact (g b : geom) : bool :=
  match g with
  | GLine _ | GMLine _ _ =>
      let ls := lineal_members g in mod2_agree_at ls b (mod2_ends ls ++ g_points b)
  | _ => true
  end.

(* any g (collections included), b its reported boundary: every odd end point of every lineal leaf
   is a point of b *)
Definition mod2_leaf_complete (b l : geom) : bool :=
  let ls := lineal_members l in
  forallb (fun p => implb (odd_open_ends ls p) (inG b p)) (mod2_ends ls).
Definition mod2_complete (g b : geom) : bool := forallb (mod2_leaf_complete b) (leaves g).

(* b consists of points only (what Boundary returns for lineal input: a MultiPoint) *)
Definition puntalb (b : geom) : bool :=
  match g_lines b, g_polys b with
  | [], [] => true
  | _, _ => false
  end.
