(* What the public constructors make of a description tree (harness lib/node.go:Build):
   members are built first, a non-empty member list goes through New* (AND of the member
   types, members forced), an empty one keeps the requested type via ForceCoordinatesType. *)
From Coq Require Import NArith List Bool.
From SF Require Import Base.GeomAST.
Import ListNotations.

Section Build.
  Variable F : Type.
  Variable zero : F.

  Definition build_poly (p : polyT F) : polyT F :=
    match p with
    | MkPoly ct [] => MkPoly ct []
    | MkPoly _ rs => new_polygon zero rs
    end.

  Fixpoint build (g : geomT F) : geomT F :=
    match g with
    | GPoint p => GPoint p
    | GLine l => GLine l
    | GPoly p => GPoly (build_poly p)
    | GMPoint ct [] => GMPoint ct []
    | GMPoint _ ps => new_multipoint zero ps
    | GMLine ct [] => GMLine ct []
    | GMLine _ ls => new_multiline zero ls
    | GMPoly ct [] => GMPoly ct []
    | GMPoly _ ps => new_multipoly zero (map build_poly ps)
    | GColl ct [] => GColl ct []
    | GColl _ gs => new_collection zero (map build gs)
    end.
End Build.
Arguments build {F} _ _.
Arguments build_poly {F} _ _.
