(* Model of the coordinates-type bookkeeping (property C16): what every structure-preserving
   operation of the library does with the coordinates type stored at each node and with the Z/M
   payload of each vertex.  Generic in the ordinate carrier F (the extraction uses N = raw
   IEEE-754 bit patterns, so that Z/M values including NaN travel exactly).

   Representation.  A Go Sequence stores ctype.Dimension() floats per vertex; the model stores a
   list of 4-field vertices (GeomAST.vtx) whose unused fields are zero (vtx_ok).  A Go Point
   stores a full Coordinates struct, exactly like the model.  Functions below are transcriptions
   of the Go methods on values satisfying that representation invariant; the Go-literal shortcuts
   that only differ outside the invariant (go_force_point, go_force_line) are kept next to them
   and proved equal under the invariant (Proofs/CType_proofs.v: go_force_*_refines).

   Operations whose XY computation is floating-point arithmetic (TransformXY's callback, the
   orientation test of ForceCW/CCW, the interpolated points of Densify, the XY-only results of
   ConvexHull/Centroid/...) take that computation as an argument of the op: the theorems hold for
   every such argument. *)
From Coq Require Import NArith List Bool Lia.
From SF Require Import Base.GeomAST.
Import ListNotations.

Section CType.
  Variable F : Type.
  Variable zero : F.

  Notation vtxF := (vtx F).
  Notation pointF := (pointT F).
  Notation lineF := (lineT F).
  Notation polyF := (polyT F).
  Notation geomF := (geomT F).

  (* ------------------------------------------------------------ Go-literal ForceCoordinatesType *)
  (* type_point.go:ForceCoordinatesType
       if !p.full { return NewEmptyPoint(newCType) }
       if newCType.Is3D() != p.coords.Type.Is3D() { p.coords.Z = 0 }
       if newCType.IsMeasured() != p.coords.Type.IsMeasured() { p.coords.M = 0 }
       p.coords.Type = newCType *)
  Definition go_force_point (new : ctype) (p : pointF) : pointF :=
    match p with
    | MkPoint _ None => MkPoint new None
    | MkPoint old (Some v) =>
        MkPoint new (Some {| vx := vx v; vy := vy v;
                             vz := if Bool.eqb (has_z new) (has_z old) then vz v else zero;
                             vm := if Bool.eqb (has_m new) (has_m old) then vm v else zero |})
    end.
  (* type_sequence.go:ForceCoordinatesType
       if s.ctype == newCType { return s }
       if len(s.floats) == 0 { return Sequence{newCType, nil} }
       ... per vertex: c := s.Get(i) (absent dimensions read as zero); X, Y copied; Z and M
       copied when newCType has them *)
  Definition go_force_line (new : ctype) (l : lineF) : lineF :=
    let 'MkLine old vs := l in
    if ct_eqb old new then l
    else match vs with
         | [] => MkLine new []
         | _ => MkLine new (map (force_vtx zero old new) vs)
         end.

  (* ------------------------------------------------------------ NewPoint *)
  (* type_point.go:NewPoint (with fix F61): fields that the coordinates type does not have are set
     to zero, so that the representation invariant holds of every Point a caller can build.
     [v] is the Coordinates struct as the caller filled it. *)
  Definition new_point (ct : ctype) (v : vtxF) : pointF := MkPoint ct (Some (force_vtx zero XYZM ct v)).
  (* before F61: Point{c, true}, the struct as given; Point.Coordinates() hands it back *)
  Definition new_point_raw (ct : ctype) (v : vtxF) : pointF := MkPoint ct (Some v).

  (* ------------------------------------------------------------ Reverse *)
  (* type_sequence.go:Reverse copies whole strides: each vertex keeps its own Z and M *)
  Definition reverse_line (l : lineF) : lineF := let 'MkLine ct vs := l in MkLine ct (rev vs).
  (* type_polygon.go:Reverse  Polygon{reversed, p.ctype} *)
  Definition reverse_poly (p : polyF) : polyF :=
    let 'MkPoly ct rs := p in MkPoly ct (map reverse_line rs).
  (* type_geometry.go:Reverse; Point and MultiPoint return themselves; type_geometry_collection.go:
     if c.IsEmpty() { return c } *)
  Fixpoint reverse_geom (g : geomF) : geomF :=
    match g with
    | GPoint p => GPoint p
    | GLine l => GLine (reverse_line l)
    | GPoly p => GPoly (reverse_poly p)
    | GMPoint ct ps => GMPoint ct ps
    | GMLine ct ls => GMLine ct (map reverse_line ls)
    | GMPoly ct ps => GMPoly ct (map reverse_poly ps)
    | GColl ct gs => if forallb is_empty gs then GColl ct gs else GColl ct (map reverse_geom gs)
    end.

  (* ------------------------------------------------------------ TransformXY *)
  Definition xyfun := F -> F -> F * F.
  (* transform.go:transformSequence  c := seq.Get(i); c.XY = fn(c.XY); append by ctype *)
  Definition tx_vtx (f : xyfun) (v : vtxF) : vtxF :=
    let '(x, y) := f (vx v) (vy v) in {| vx := x; vy := y; vz := vz v; vm := vm v |}.
  (* type_point.go:TransformXY  if !p.full { return p }; newC := p.coords; newC.XY = fn(newC.XY) *)
  Definition tx_point (f : xyfun) (p : pointF) : pointF :=
    match p with
    | MkPoint ct None => MkPoint ct None
    | MkPoint ct (Some v) => MkPoint ct (Some (tx_vtx f v))
    end.
  Definition tx_line (f : xyfun) (l : lineF) : lineF :=
    let 'MkLine ct vs := l in MkLine ct (map (tx_vtx f) vs).
  (* type_polygon.go:TransformXY  NewPolygon(transformed).ForceCoordinatesType(p.ctype) *)
  Definition tx_poly (f : xyfun) (p : polyF) : polyF :=
    let 'MkPoly ct rs := p in force_poly zero ct (new_polygon zero (map (tx_line f) rs)).
  Definition gpoly_of (g : geomF) : list polyF := match g with GMPoly _ ps => ps | _ => [] end.
  Fixpoint tx_geom (f : xyfun) (g : geomF) : geomF :=
    match g with
    | GPoint p => GPoint (tx_point f p)
    | GLine l => GLine (tx_line f l)
    | GPoly p => GPoly (tx_poly f p)
    (* type_multi_point.go:TransformXY  len==0: MultiPoint{}.ForceCoordinatesType(ctype);
       else NewMultiPoint(txPoints) *)
    | GMPoint ct [] => GMPoint ct []
    | GMPoint _ ps => new_multipoint zero (map (tx_point f) ps)
    | GMLine ct [] => GMLine ct []
    | GMLine _ ls => new_multiline zero (map (tx_line f) ls)
    (* type_multi_polygon.go:TransformXY  NewMultiPolygon(polys).ForceCoordinatesType(m.ctype) *)
    | GMPoly ct ps => force_geom zero ct (new_multipoly zero (map (tx_poly f) ps))
    (* type_geometry_collection.go:TransformXY  GeometryCollection{transformed, c.ctype} *)
    | GColl ct gs => GColl ct (map (tx_geom f) gs)
    end.

  (* ------------------------------------------------------------ ForceCW / ForceCCW *)
  (* sign of signedAreaOfLinearRing (a float computation on X/Y only): Lt = negative (clockwise) *)
  Definition orientation := lineF -> comparison.
  Definition cmp_eqb (a b : comparison) : bool :=
    match a, b with Lt, Lt | Eq, Eq | Gt, Gt => true | _, _ => false end.
  Section Orient.
    Variable orient : orientation.
    (* type_polygon.go:IsCW / IsCCW  for i, ring: is := sign == want; if (i == 0) != is { return false } *)
    Definition rings_oriented (want : comparison) (rs : list lineF) : bool :=
      match rs with
      | [] => true
      | r0 :: rest => cmp_eqb (orient r0) want && forallb (fun r => negb (cmp_eqb (orient r) want)) rest
      end.
    Definition poly_oriented (want : comparison) (p : polyF) : bool := rings_oriented want (poly_rings p).
    (* type_geometry.go:IsCW / IsCCW  non-areal types: true *)
    Fixpoint geom_oriented (want : comparison) (g : geomF) : bool :=
      match g with
      | GPoly p => poly_oriented want p
      | GMPoly _ ps => forallb (poly_oriented want) ps
      | GColl _ gs => forallb (geom_oriented want) gs
      | _ => true
      end.
    (* type_polygon.go:forceOrientation
         alreadyCW := signedArea < 0; if (i == 0) == (alreadyCW == forceCW) keep else ring.Reverse() *)
    Definition orient_ring (force_cw first : bool) (r : lineF) : lineF :=
      let already_cw := cmp_eqb (orient r) Lt in
      if Bool.eqb first (Bool.eqb already_cw force_cw) then r else reverse_line r.
    Definition force_orient_poly (force_cw : bool) (p : polyF) : polyF :=
      let 'MkPoly ct rs := p in
      MkPoly ct (match rs with
                 | [] => []
                 | r0 :: rest => orient_ring force_cw true r0 :: map (orient_ring force_cw false) rest
                 end).
    (* type_geometry.go:forceOrientation (members of a collection are re-oriented unconditionally) *)
    Fixpoint force_orient_geom (force_cw : bool) (g : geomF) : geomF :=
      match g with
      | GPoly p => GPoly (force_orient_poly force_cw p)
      | GMPoly ct ps => GMPoly ct (map (force_orient_poly force_cw) ps)
      | GColl ct gs => GColl ct (map (force_orient_geom force_cw) gs)
      | _ => g
      end.
    (* type_geometry.go:ForceCW  if g.IsCW() { return g }; return g.forceOrientation(true) *)
    Definition force_cw_geom (g : geomF) : geomF :=
      if geom_oriented Lt g then g else force_orient_geom true g.
    Definition force_ccw_geom (g : geomF) : geomF :=
      if geom_oriented Gt g then g else force_orient_geom false g.
  End Orient.

  (* ------------------------------------------------------------ AsMulti*, accessors *)
  (* type_point.go:AsMultiPoint NewMultiPoint([]Point{p}); type_line_string.go:AsMultiLineString;
     type_polygon.go:AsMultiPolygon  polys = nil when p is empty; NewMultiPolygon(polys).Force(p.ctype) *)
  Definition as_multi (g : geomF) : option geomF :=
    match g with
    | GPoint p => Some (new_multipoint zero [p])
    | GLine l => Some (new_multiline zero [l])
    | GPoly p =>
        Some (force_geom zero (poly_ct p)
                (new_multipoly zero (if poly_empty p then [] else [p])))
    | _ => None
    end.

  (* PointN / LineStringN / PolygonN / GeometryN: slice indexing, out of range panics (None);
     Polygon: index 0 is ExteriorRing (empty polygon: LineString{}.ForceCoordinatesType(p.ctype)),
     index k+1 is InteriorRingN(k) = p.rings[k+1] *)
  Definition member (i : nat) (g : geomF) : option geomF :=
    match g with
    | GMPoint _ ps => option_map GPoint (nth_error ps i)
    | GMLine _ ls => option_map GLine (nth_error ls i)
    | GMPoly _ ps => option_map GPoly (nth_error ps i)
    | GColl _ gs => nth_error gs i
    | GPoly (MkPoly ct rs) =>
        match i, rs with
        | O, [] => Some (GLine (MkLine ct []))
        | _, _ => option_map GLine (nth_error rs i)
        end
    | _ => None
    end.

  (* type_line_string.go:StartPoint / EndPoint
       if s.IsEmpty() { return NewEmptyPoint(s.CoordinatesType()) }; NewPoint(s.seq.Get(i)) *)
  Definition start_point (g : geomF) : option geomF :=
    match g with
    | GLine (MkLine ct vs) => Some (GPoint (MkPoint ct (hd_error vs)))
    | _ => None
    end.
  Definition end_point (g : geomF) : option geomF :=
    match g with
    | GLine (MkLine ct vs) => Some (GPoint (MkPoint ct (hd_error (rev vs))))
    | _ => None
    end.

  (* ------------------------------------------------------------ Dump, DumpCoordinates, Coordinates *)
  (* type_geometry.go:appendDump *)
  Fixpoint dump (g : geomF) : list geomF :=
    match g with
    | GPoint _ | GLine _ | GPoly _ => [g]
    | GMPoint _ ps => map GPoint ps
    | GMLine _ ls => map GLine ls
    | GMPoly _ ps => map GPoly ps
    | GColl _ gs => flat_map dump gs
    end.

  (* type_*.go:DumpCoordinates: the raw floats of all members, appended, under the node's ctype *)
  Fixpoint dump_coords (g : geomF) : lineF :=
    match g with
    | GPoint p => MkLine (point_ct p) (point_vs p)
    | GLine l => l
    | GPoly p => MkLine (poly_ct p) (poly_vs p)
    | GMPoint ct ps => MkLine ct (flat_map point_vs ps)
    | GMLine ct ls => MkLine ct (flat_map line_vs ls)
    | GMPoly ct ps => MkLine ct (flat_map poly_vs ps)
    | GColl ct gs => MkLine ct (flat_map (fun x => line_vs (dump_coords x)) gs)
    end.

  (* What a caller gets by re-assembling Coordinates() with the public constructors:
     Point: NewPoint(c) / NewEmptyPoint(c.Type); LineString: NewLineString(seq);
     MultiPoint: NewLineString(seq); Polygon, MultiLineString: NewMultiLineString(lines of the
     sequences); MultiPolygon: NewMultiPolygon(NewPolygon(...)...).  GeometryCollection has no
     Coordinates method. *)
  Definition coords_rebuilt (g : geomF) : option geomF :=
    match g with
    | GPoint p => Some (GPoint p)
    | GLine l => Some (GLine l)
    | GPoly p => Some (new_multiline zero (poly_rings p))
    | GMPoint ct ps => Some (GLine (MkLine ct (flat_map point_vs ps)))
    | GMLine _ ls => Some (new_multiline zero ls)
    | GMPoly _ ps => Some (new_multipoly zero (map (fun p => new_polygon zero (poly_rings p)) ps))
    | GColl _ _ => None
    end.

  (* NewMultiLineString(p.DumpRings()) *)
  Definition dump_rings (g : geomF) : option geomF :=
    match g with
    | GPoly p => Some (new_multiline zero (poly_rings p))
    | _ => None
    end.

  (* ------------------------------------------------------------ constructors on mixed members *)
  (* members are first forced to individually chosen coordinates types (one per member), then the
     public constructor of the parent is applied: the AND rule of New* on a history *)
  Fixpoint zip_force {A} (force : ctype -> A -> A) (cts : list ctype) (l : list A) : option (list A) :=
    match cts, l with
    | [], [] => Some []
    | c :: cts', x :: l' => option_map (cons (force c x)) (zip_force force cts' l')
    | _, _ => None
    end.
  Definition rebuild (cts : list ctype) (g : geomF) : option geomF :=
    match g with
    | GPoly p => option_map (fun rs => GPoly (new_polygon zero rs)) (zip_force (force_line zero) cts (poly_rings p))
    | GMPoint _ ps => option_map (new_multipoint zero) (zip_force (force_point zero) cts ps)
    | GMLine _ ls => option_map (new_multiline zero) (zip_force (force_line zero) cts ls)
    | GMPoly _ ps => option_map (new_multipoly zero) (zip_force (force_poly zero) cts ps)
    | GColl _ gs => option_map (new_collection zero) (zip_force (force_geom zero) cts gs)
    | _ => None
    end.

  (* ------------------------------------------------------------ Densify *)
  (* alg_densify.go:densify  every original vertex is copied (c.appendFloat64s), the interpolated
     ones (interpolateCoords, Type = c0.Type & c1.Type) are appended by that type: dimensions the
     sequence does not have are not stored.  The interpolated values are the argument [ins]. *)
  Definition inserter := vtxF -> vtxF -> list vtxF.
  Fixpoint densify_vs (ins : inserter) (ct : ctype) (vs : list vtxF) : list vtxF :=
    match vs with
    | [] => []
    | a :: tl =>
        match tl with
        | [] => [a]
        | b :: _ => a :: map (force_vtx zero XYZM ct) (ins a b) ++ densify_vs ins ct tl
        end
    end.
  Definition densify_line (ins : inserter) (l : lineF) : lineF :=
    let 'MkLine ct vs := l in MkLine ct (densify_vs ins ct vs).
  Definition densify_poly (ins : inserter) (p : polyF) : polyF :=
    let 'MkPoly ct rs := p in MkPoly ct (map (densify_line ins) rs).
  (* type_geometry.go:Densify  Point, MultiPoint: return g *)
  Fixpoint densify_geom (ins : inserter) (g : geomF) : geomF :=
    match g with
    | GPoint _ | GMPoint _ _ => g
    | GLine l => GLine (densify_line ins l)
    | GPoly p => GPoly (densify_poly ins p)
    | GMLine ct ls => GMLine ct (map (densify_line ins) ls)
    | GMPoly ct ps => GMPoly ct (map (densify_poly ins) ps)
    | GColl ct gs => GColl ct (map (densify_geom ins) gs)
    end.

  (* ------------------------------------------------------------ XY-only operations *)
  (* Their results are assembled from XY values alone (XY.AsPoint, NewSequence(_, DimXY),
     line.asLineString, Force2D): [res] stands for whatever the floating-point computation
     produced; force_geom XY res is that value as the constructors used can express it. *)
  Inductive xyop := XCentroid | XConvexHull | XPointOnSurface | XEnvelope | XSetOp.
  Definition apply_xy (k : xyop) (res : geomF) (g : geomF) : geomF :=
    match k, g with
    (* alg_convex_hull.go:convexHull  if g.IsEmpty() { return g.Force2D() } *)
    | XConvexHull, _ => if is_empty g then force_geom zero XY g else force_geom zero XY res
    (* type_point.go:Centroid, PointOnSurface  return p.Force2D() *)
    | XCentroid, GPoint p => GPoint (force_point zero XY p)
    | XPointOnSurface, GPoint p => GPoint (force_point zero XY p)
    | _, _ => force_geom zero XY res
    end.

  (* ------------------------------------------------------------ operations and histories *)
  Inductive op :=
  | OForce (c : ctype)
  | OForce2D
  | OReverse
  | OTransform (f : xyfun)
  | OForceCW (o : orientation)
  | OForceCCW (o : orientation)
  | OAsMulti
  | OMember (i : nat)
  | OStartPoint
  | OEndPoint
  | ODumpColl
  | ODumpCoords
  | ODumpRings
  | OCoords
  | ORebuild (cts : list ctype)
  | ODensify (ins : inserter)
  | OXYOnly (k : xyop) (res : geomF).

  (* None: the Go method does not exist for that type, or panics (index out of range) *)
  Definition apply (g : geomF) (o : op) : option geomF :=
    match o with
    | OForce c => Some (force_geom zero c g)
    | OForce2D => Some (force_geom zero XY g)
    | OReverse => Some (reverse_geom g)
    | OTransform f => Some (tx_geom f g)
    | OForceCW o => Some (force_cw_geom o g)
    | OForceCCW o => Some (force_ccw_geom o g)
    | OAsMulti => as_multi g
    | OMember i => member i g
    | OStartPoint => start_point g
    | OEndPoint => end_point g
    | ODumpColl => Some (new_collection zero (dump g))
    | ODumpCoords => Some (GLine (dump_coords g))
    | ODumpRings => dump_rings g
    | OCoords => coords_rebuilt g
    | ORebuild cts => rebuild cts g
    | ODensify ins => Some (densify_geom ins g)
    | OXYOnly k res => Some (apply_xy k res g)
    end.

  (* total variant for fold_left: an inapplicable operation leaves the value alone *)
  Definition apply_t (g : geomF) (o : op) : geomF :=
    match apply g o with Some r => r | None => g end.
  Definition run (ops : list op) (g : geomF) : geomF := fold_left apply_t ops g.

  (* ------------------------------------------------------------ executable statement (spec) *)
  Variable feqb : F -> F -> bool.
  Variable is_zero : F -> bool.

  Fixpoint list_eqb {A} (e : A -> A -> bool) (a b : list A) : bool :=
    match a, b with
    | [], [] => true
    | x :: a', y :: b' => e x y && list_eqb e a' b'
    | _, _ => false
    end.
  Definition vtx_eqb (a b : vtxF) : bool :=
    feqb (vx a) (vx b) && feqb (vy a) (vy b) && feqb (vz a) (vz b) && feqb (vm a) (vm b).
  Definition opt_eqb {A} (e : A -> A -> bool) (a b : option A) : bool :=
    match a, b with
    | None, None => true
    | Some x, Some y => e x y
    | _, _ => false
    end.
  Definition point_eqb (a b : pointF) : bool :=
    let 'MkPoint c1 o1 := a in let 'MkPoint c2 o2 := b in ct_eqb c1 c2 && opt_eqb vtx_eqb o1 o2.
  Definition line_eqb (a b : lineF) : bool :=
    let 'MkLine c1 v1 := a in let 'MkLine c2 v2 := b in ct_eqb c1 c2 && list_eqb vtx_eqb v1 v2.
  Definition poly_eqb (a b : polyF) : bool :=
    let 'MkPoly c1 r1 := a in let 'MkPoly c2 r2 := b in ct_eqb c1 c2 && list_eqb line_eqb r1 r2.
  Fixpoint geom_eqb (a b : geomF) : bool :=
    match a, b with
    | GPoint p, GPoint q => point_eqb p q
    | GLine p, GLine q => line_eqb p q
    | GPoly p, GPoly q => poly_eqb p q
    | GMPoint c1 l1, GMPoint c2 l2 => ct_eqb c1 c2 && list_eqb point_eqb l1 l2
    | GMLine c1 l1, GMLine c2 l2 => ct_eqb c1 c2 && list_eqb line_eqb l1 l2
    | GMPoly c1 l1, GMPoly c2 l2 => ct_eqb c1 c2 && list_eqb poly_eqb l1 l2
    | GColl c1 l1, GColl c2 l2 =>
        ct_eqb c1 c2 &&
        (fix go (x y : list geomF) : bool :=
           match x, y with
           | [], [] => true
           | g1 :: x', g2 :: y' => geom_eqb g1 g2 && go x' y'
           | _, _ => false
           end) l1 l2
    | _, _ => false
    end.

  (* the plain structural map: [hs] on every sequence, [hp] on every point, node types set to [c] *)
  Section Map.
    Variable c : ctype.
    Variable hs : list vtxF -> list vtxF.
    Variable hp : vtxF -> vtxF.
    Definition map_point (p : pointF) : pointF := MkPoint c (option_map hp (point_c p)).
    Definition map_line (l : lineF) : lineF := MkLine c (hs (line_vs l)).
    Definition map_poly (p : polyF) : polyF := MkPoly c (map map_line (poly_rings p)).
    Fixpoint map_geom (g : geomF) : geomF :=
      match g with
      | GPoint p => GPoint (map_point p)
      | GLine l => GLine (map_line l)
      | GPoly p => GPoly (map_poly p)
      | GMPoint _ ps => GMPoint c (map map_point ps)
      | GMLine _ ls => GMLine c (map map_line ls)
      | GMPoly _ ps => GMPoly c (map map_poly ps)
      | GColl _ gs => GColl c (map map_geom gs)
      end.
  End Map.
  Definition map_vertices (c : ctype) (h : vtxF -> vtxF) : geomF -> geomF := map_geom c (map h) h.

  (* every sequence of a value: one entry per point (empty or singleton), line and ring *)
  Definition poly_seqs (p : polyF) : list (list vtxF) := map line_vs (poly_rings p).
  Fixpoint geom_seqs (g : geomF) : list (list vtxF) :=
    match g with
    | GPoint p => [point_vs p]
    | GLine l => [line_vs l]
    | GPoly p => poly_seqs p
    | GMPoint _ ps => map point_vs ps
    | GMLine _ ls => map line_vs ls
    | GMPoly _ ps => flat_map poly_seqs ps
    | GColl _ gs => flat_map geom_seqs gs
    end.

  Definition seq_eqb := list_eqb vtx_eqb.
  Definition vs_eqb (a b : geomF) : bool := seq_eqb (geom_vs a) (geom_vs b).
  (* a is a subsequence of b *)
  Fixpoint subseqb (a b : list vtxF) : bool :=
    match b with
    | [] => match a with [] => true | _ => false end
    | y :: b' =>
        match a with
        | [] => true
        | x :: a' => if vtx_eqb x y then subseqb a' b' else subseqb a b'
        end
    end.
  Fixpoint forallb2 {A B} (f : A -> B -> bool) (a : list A) (b : list B) : bool :=
    match a, b with
    | [], [] => true
    | x :: a', y :: b' => f x y && forallb2 f a' b'
    | _, _ => false
    end.
  Definition ct_sub (a b : ctype) : bool := ct_eqb (ct_and a b) a.
  Definition v0 : vtxF := {| vx := zero; vy := zero; vz := zero; vm := zero |}.
  (* tree shape with node types and sequence lengths, vertices erased *)
  Definition shape (g : geomF) : geomF := map_geom (geom_ct g) (map (fun _ => v0)) (fun _ => v0) g.
  (* tree shape with node types, sequences erased, points kept *)
  Definition shape_lines_erased (g : geomF) : geomF := map_geom (geom_ct g) (fun _ => []) (fun v => v) g.
  Definition is_atom (g : geomF) : bool :=
    match g with GPoint _ | GLine _ | GPoly _ => true | _ => false end.
  Definition members_of (g : geomF) : nat :=
    match g with
    | GPoint _ | GLine _ => 0
    | GPoly p => length (poly_rings p)
    | GMPoint _ l => length l | GMLine _ l => length l | GMPoly _ l => length l | GColl _ l => length l
    end.
  Definition multi_type (t : gtype) : gtype :=
    match t with TPoint => TMPoint | TLine => TMLine | TPoly => TMPoly | x => x end.
  Definition same_ends (a b : list vtxF) : bool :=
    opt_eqb vtx_eqb (hd_error a) (hd_error b) && opt_eqb vtx_eqb (hd_error (rev a)) (hd_error (rev b)).

  (* The property, operation by operation: what the result r of operation o on g must look like.
     old = the coordinates type of g (the same at every node of a consistent g). *)
  Definition spec (g : geomF) (o : op) (r : geomF) : bool :=
    let old := geom_ct g in
    consistent is_zero r &&
    match o with
    (* force: same tree, every node typed c, X/Y kept, kept dimensions carried, new ones zero *)
    | OForce c => geom_eqb r (map_vertices c (force_vtx zero old c) g)
    | OForce2D => geom_eqb r (map_vertices XY (force_vtx zero old XY) g)
    (* reverse: same tree and types, every sequence reversed as a list of whole vertices *)
    | OReverse => geom_eqb r (map_geom old (@rev vtxF) (fun v => v) g)
    (* transform: same tree and types, X/Y through f, each vertex keeps its Z and M *)
    | OTransform f => geom_eqb r (map_vertices old (tx_vtx f) g)
    (* re-orientation: same shape and types, every sequence kept or reversed as a whole *)
    | OForceCW _ | OForceCCW _ =>
        geom_eqb (shape r) (shape g) &&
        forallb2 (fun s s' => seq_eqb s' s || seq_eqb s' (rev s)) (geom_seqs g) (geom_seqs r)
    | OAsMulti =>
        ct_eqb (geom_ct r) old && gtype_eqb (geom_type r) (multi_type (geom_type g)) && vs_eqb r g
    (* a member reports the parent's type and holds its own part of the parent's vertices *)
    | OMember _ | OStartPoint | OEndPoint =>
        ct_eqb (geom_ct r) old && subseqb (geom_vs r) (geom_vs g)
    | ODumpColl =>
        ct_eqb (geom_ct r) (match dump g with [] => XY | _ => old end) && vs_eqb r g &&
        match r with GColl _ ms => forallb is_atom ms | _ => false end
    | ODumpCoords => geom_eqb r (GLine (MkLine old (geom_vs g)))
    | ODumpRings =>
        ct_eqb (geom_ct r) (match members_of g with O => XY | _ => old end) && vs_eqb r g
    (* constructors reduce to the common subset: dimensions of the result are carried, others dropped *)
    | OCoords =>
        ct_sub (geom_ct r) old &&
        seq_eqb (geom_vs r) (map (force_vtx zero old (geom_ct r)) (geom_vs g))
    | ORebuild cts =>
        ct_eqb (geom_ct r) (match members_of g with O => XY | _ => and_all (fun c => c) cts end) &&
        seq_eqb (geom_vs r) (map (force_vtx zero old (geom_ct r)) (geom_vs g))
    (* densify: same tree and types, points untouched, every original vertex still there in order
       with its Z and M, first and last vertex of every sequence unchanged *)
    | ODensify _ =>
        geom_eqb (shape_lines_erased r) (shape_lines_erased g) &&
        forallb2 (fun s s' => subseqb s s' && same_ends s s') (geom_seqs g) (geom_seqs r)
    | OXYOnly _ _ => ct_eqb (geom_ct r) XY
    end.

  (* the statement along a whole history: every step that applies meets [spec] on the value the
     previous step produced (an inapplicable step leaves the value, as in [apply_t]) *)
  Fixpoint history_ok (g : geomF) (ops : list op) : bool :=
    match ops with
    | [] => true
    | o :: rest =>
        match apply g o with
        | Some r => spec g o r && history_ok r rest
        | None => history_ok g rest
        end
    end.

  (* the coordinates type of a result, operation by operation *)
  Definition ctype_rule (g : geomF) (o : op) (r : geomF) : Prop :=
    match o with
    | OForce c => geom_ct r = c
    | OForce2D | OXYOnly _ _ => geom_ct r = XY
    | OReverse | OTransform _ | OForceCW _ | OForceCCW _ | OAsMulti | OMember _ | OStartPoint
    | OEndPoint | ODumpCoords | ODensify _ => geom_ct r = geom_ct g
    | ODumpColl => geom_ct r = match dump g with [] => XY | _ => geom_ct g end
    | ODumpRings => geom_ct r = match members_of g with O => XY | _ => geom_ct g end
    | OCoords => ct_sub (geom_ct r) (geom_ct g) = true
    | ORebuild cts => geom_ct r = match members_of g with O => XY | _ => and_all (fun c => c) cts end
    end.
End CType.

Arguments go_force_point {F} _ _ _. Arguments go_force_line {F} _ _ _.
Arguments new_point {F} _ _ _. Arguments new_point_raw {F} _ _.
Arguments reverse_line {F} _. Arguments reverse_poly {F} _. Arguments reverse_geom {F} _.
Arguments tx_vtx {F} _ _. Arguments tx_point {F} _ _. Arguments tx_line {F} _ _.
Arguments tx_poly {F} _ _ _. Arguments tx_geom {F} _ _ _.
Arguments cmp_eqb _ _ : simpl nomatch.
Arguments rings_oriented {F} _ _ _. Arguments poly_oriented {F} _ _ _. Arguments geom_oriented {F} _ _ _.
Arguments orient_ring {F} _ _ _ _. Arguments force_orient_poly {F} _ _ _. Arguments force_orient_geom {F} _ _ _.
Arguments force_cw_geom {F} _ _. Arguments force_ccw_geom {F} _ _.
Arguments as_multi {F} _ _. Arguments member {F} _ _. Arguments start_point {F} _. Arguments end_point {F} _.
Arguments dump {F} _. Arguments dump_coords {F} _. Arguments coords_rebuilt {F} _ _. Arguments dump_rings {F} _ _.
Arguments zip_force {A} _ _ _. Arguments rebuild {F} _ _ _.
Arguments densify_vs {F} _ _ _ _. Arguments densify_line {F} _ _ _. Arguments densify_poly {F} _ _ _.
Arguments densify_geom {F} _ _ _.
Arguments apply_xy {F} _ _ _ _.
Arguments OForce {F} _. Arguments OForce2D {F}. Arguments OReverse {F}. Arguments OTransform {F} _.
Arguments OForceCW {F} _. Arguments OForceCCW {F} _. Arguments OAsMulti {F}. Arguments OMember {F} _.
Arguments OStartPoint {F}. Arguments OEndPoint {F}. Arguments ODumpColl {F}. Arguments ODumpCoords {F}.
Arguments ODumpRings {F}. Arguments OCoords {F}. Arguments ORebuild {F} _. Arguments ODensify {F} _.
Arguments OXYOnly {F} _ _.
Arguments apply {F} _ _ _. Arguments apply_t {F} _ _ _. Arguments run {F} _ _ _.
Arguments list_eqb {A} _ _ _. Arguments vtx_eqb {F} _ _ _. Arguments opt_eqb {A} _ _ _.
Arguments point_eqb {F} _ _ _. Arguments line_eqb {F} _ _ _. Arguments poly_eqb {F} _ _ _.
Arguments geom_eqb {F} _ _ _.
Arguments map_point {F} _ _ _. Arguments map_line {F} _ _ _. Arguments map_poly {F} _ _ _.
Arguments map_geom {F} _ _ _ _. Arguments map_vertices {F} _ _ _.
Arguments poly_seqs {F} _. Arguments geom_seqs {F} _.
Arguments seq_eqb {F} _ _ _. Arguments vs_eqb {F} _ _ _. Arguments subseqb {F} _ _ _.
Arguments forallb2 {A B} _ _ _.
Arguments v0 {F} _. Arguments shape {F} _ _. Arguments shape_lines_erased {F} _.
Arguments is_atom {F} _. Arguments members_of {F} _. Arguments same_ends {F} _ _ _.
Arguments spec {F} _ _ _ _ _ _.
Arguments history_ok {F} _ _ _ _ _.
Arguments ctype_rule {F} _ _ _.

(* ---------------------------------------------------------------- the carrier of the extraction *)
(* IEEE-754 bit patterns: the vertex functions the correspondence run uses for TransformXY are exact
   on bit patterns (sign flip, sign clear, swap, constant), so that the model computes the very
   value the Go callback returns. *)
Local Open Scope N_scope.
Definition sign_bit : N := 9223372036854775808.
Definition neg_bits (b : N) : N := if b <? sign_bit then b + sign_bit else b - sign_bit.
Definition abs_bits (b : N) : N := if b <? sign_bit then b else b - sign_bit.
Inductive xyfam := FId | FSwap | FNegX | FNegY | FAbs | FRot90 | FConst (cx cy : N).
Definition xyfam_fun (k : xyfam) : xyfun N :=
  fun x y =>
    match k with
    | FId => (x, y)
    | FSwap => (y, x)
    | FNegX => (neg_bits x, y)
    | FNegY => (x, neg_bits y)
    | FAbs => (abs_bits x, abs_bits y)
    | FRot90 => (neg_bits y, x)
    | FConst cx cy => (cx, cy)
    end.
Definition new_point_n := @new_point N 0.
Definition apply_n := @apply N 0.
Definition spec_n := @spec N 0 N.eqb (N.eqb 0).
Definition consistent_n := @consistent N (N.eqb 0).
