(* Property C13 - rotated minimum bounding rectangles (geom/alg_rotating_calipers.go) over Q.
   The implementation walks three calipers around the convex ring; per ring edge it obtains the
   extreme projections of the ring's vertices along the edge (rhs, lhs) and across it (far).
   The model is the reference semantics of that walk: per edge the extreme projections are taken
   over ALL ring vertices (what the calipers reach on a convex ring), everything else
   (projection formula, rectangle, metrics, "first strictly smaller wins") is transcribed.
   Definitions only; proofs in Proofs/Calipers_proofs.v. *)
From Coq Require Import ZArith QArith Qminmax List Bool.
From SF Require Import Base.GeomAST Model.Hull.
Import ListNotations.
Open Scope Z_scope.

(* geom/xy.go: Sub, Dot, rotateCCW90 *)
Definition sub (a b : pt) : pt := (fst a - fst b, snd a - snd b).
Definition dot (u v : pt) : Z := fst u * fst v + snd u * snd v.
Definition rot90 (d : pt) : pt := (- snd d, fst d).

(* what the three calipers hold for edge a->b (dir = b-a): the extreme values of
   pt().Dot(dir) over the ring for dir, -dir (kept as the minimum along dir) and rot90 dir *)
Record cand := { c_a : pt; c_d : pt; c_tmin : Z; c_tmax : Z; c_hmax : Z }.

Definition candidate (ring : list pt) (e : pt * pt) : cand :=
  let a := fst e in
  let d := sub (snd e) a in
  let ts := map (fun v => dot (sub v a) d) ring in
  let hs := map (fun v => dot (sub v a) (rot90 d)) ring in
  {| c_a := a; c_d := d;
     c_tmin := fold_right Z.min 0 ts; c_tmax := fold_right Z.max 0 ts;
     c_hmax := fold_right Z.max 0 hs |}.

(* findMBR: one candidate per edge i, i+1 < seq.Length() *)
Definition candidates (ring : list pt) : list cand := map (candidate ring) (ring_edges ring).

Open Scope Q_scope.
Definition qpt : Type := (Q * Q)%type.
Definition q_of_pt (p : pt) : qpt := (inject_Z (fst p), inject_Z (snd p)).
Definition qadd (a b : qpt) : qpt := (fst a + fst b, snd a + snd b).
Definition qsub (a b : qpt) : qpt := (fst a - fst b, snd a - snd b).
Definition qdot (a b : qpt) : Q := fst a * fst b + snd a * snd b.
Definition qcross2 (a b : qpt) : Q := fst a * snd b - snd a * fst b.     (* xy.go:Cross *)
Definition qcross (p q s : qpt) : Q := qcross2 (qsub q p) (qsub s q).   (* orientation's cp *)
Definition qlen2 (a : qpt) : Q := qdot a a.

(* xy.go:proj  w.proj(o) = o.Scale(w.Dot(o) / o.Dot(o)), with t = w.Dot(o) *)
Definition proj_on (o : pt) (t : Z) : qpt :=
  let k := inject_Z t / inject_Z (dot o o) in
  (inject_Z (fst o) * k, inject_Z (snd o) * k).

Record qrect := { r_origin : qpt; r_span1 : qpt; r_span2 : qpt }.

(* candidateRect := {origin: seq[i] + lhs.proj, span1: rhs.proj - lhs.proj, span2: far.proj} *)
Definition cand_rect (c : cand) : qrect :=
  let d := c_d c in
  {| r_origin := qadd (q_of_pt (c_a c)) (proj_on d (c_tmin c));
     r_span1 := qsub (proj_on d (c_tmax c)) (proj_on d (c_tmin c));
     r_span2 := proj_on (rot90 d) (c_hmax c) |}.

(* rotatedRectangle.asPoly *)
Definition rect_corners (r : qrect) : list qpt :=
  let o := r_origin r in
  [o; qadd o (r_span1 r); qadd (qadd o (r_span1 r)) (r_span2 r); qadd o (r_span2 r); o].

Inductive metric_kind := MArea | MWidth.
(* rotatedRectangle.area / widthSq *)
Definition rect_metric (k : metric_kind) (r : qrect) : Q :=
  match k with
  | MArea => qcross2 (r_span1 r) (r_span2 r)
  | MWidth => Qmin (qlen2 (r_span1 r)) (qlen2 (r_span2 r))
  end.
Definition cand_metric (k : metric_kind) (c : cand) : Q := rect_metric k (cand_rect c).

(* findMBR: `if i == 0 || candidateMetric < minMetric` *)
Fixpoint first_min (k : metric_kind) (best : cand) (l : list cand) : cand :=
  match l with
  | [] => best
  | c :: r => if Qlt_le_dec (cand_metric k c) (cand_metric k best) then first_min k c r
              else first_min k best r
  end.
Definition find_mbr (k : metric_kind) (ring : list pt) : option cand :=
  match candidates ring with
  | [] => None
  | c :: r => Some (first_min k c r)
  end.

(* rotatedMinimumBoundingRectangle on the hull result: degenerate hulls are returned as they are *)
Inductive mbr_result :=
| MHull (r : hull_result)            (* point, line, no points: the hull itself *)
| MRect (c : cand)
| MPanic.
Definition mbr_pts (k : metric_kind) (pts : list pt) : mbr_result :=
  match hull_pts pts with
  | HPoly ring => match find_mbr k ring with Some c => MRect c | None => MPanic end
  | HPanic => MPanic
  | r => MHull r
  end.

(* ------------------------------------------------------------------------------------------ *)
(* Exact containment in a rectangle given by its corner list (counter-clockwise) *)
Fixpoint qedges (r : list qpt) : list (qpt * qpt) :=
  match r with
  | a :: ((b :: _) as t) => (a, b) :: qedges t
  | _ => []
  end.
Definition rect_contains (corners : list qpt) (p : qpt) : bool :=
  forallb (fun e => Qle_bool 0 (qcross (fst e) (snd e) p)) (qedges corners).

(* ------------------------------------------------------------------------------------------ *)
(* Statement of the property on an OBSERVED rectangle (five corners read from the
   implementation's float output, converted exactly to Q), with an absolute tolerance eps for
   distances and a relative tolerance rel for angles and the metric.  Intermediate values are
   kept reduced (Qred: the observed numbers are dyadic, unreduced denominators would multiply). *)
Definition qle_b (a b : Q) : bool := Qle_bool a b.
Definition qsq (a : Q) : Q := Qred (a * a).
Definition qabs_le (a b : Q) : bool := qle_b a b && qle_b (- b) a.     (* |a| <= b *)
Definition rsub (a b : qpt) : qpt := (Qred (fst a - fst b), Qred (snd a - snd b)).
Definition radd (a b : qpt) : qpt := (Qred (fst a + fst b), Qred (snd a + snd b)).
Definition rcross2 (a b : qpt) : Q := Qred (fst a * snd b - snd a * fst b).
Definition rdot (a b : qpt) : Q := Qred (fst a * fst b + snd a * snd b).

(* signed distance of p from the line through a with direction d is (d x (p-a)) / |d|;
   "at least -eps" without square roots, bound = eps^2 |d|^2 *)
Definition left_within (a d : qpt) (bound : Q) (p : qpt) : bool :=
  let o := rcross2 d (rsub p a) in
  qle_b 0 o || qle_b (qsq o) bound.
(* |distance of p from that line| <= eps *)
Definition on_line_within (a d : qpt) (bound : Q) (p : qpt) : bool :=
  qle_b (qsq (rcross2 d (rsub p a))) bound.

Definition observed_metric (k : metric_kind) (s1 s2 : qpt) : Q :=
  match k with
  | MArea => rcross2 s1 s2
  | MWidth => Qmin (rdot s1 s1) (rdot s2 s2)
  end.

Definition rect_out_ok (k : metric_kind) (eps rel : Q) (corners : list qpt) (ring : list pt) (best : Q) : bool :=
  match corners with
  | [c0; c1; c2; c3; c4] =>
      let s1 := rsub c1 c0 in
      let s2 := rsub c3 c0 in
      let e2 := qsq eps in
      let d01 := s1 in let b01 := Qred (e2 * rdot d01 d01) in
      let d12 := rsub c2 c1 in let b12 := Qred (e2 * rdot d12 d12) in
      let d23 := rsub c3 c2 in let b23 := Qred (e2 * rdot d23 d23) in
      let d30 := rsub c0 c3 in let b30 := Qred (e2 * rdot d30 d30) in
      (* closed *)
      Qeq_bool (fst c4) (fst c0) && Qeq_bool (snd c4) (snd c0)
      (* a rectangle: right angle at the origin, opposite corner = origin + span1 + span2 *)
      && qle_b (qsq (rdot s1 s2)) (qsq rel * rdot s1 s1 * rdot s2 s2)
      && (let d := rsub c2 (radd c1 s2) in qle_b (rdot d d) e2)
      (* encloses the hull to within eps *)
      && forallb (fun v => let p := q_of_pt v in
                           left_within c0 d01 b01 p && left_within c1 d12 b12 p
                           && left_within c2 d23 b23 p && left_within c3 d30 b30 p) ring
      (* one side collinear with a hull edge *)
      && existsb (fun e => on_line_within c0 d01 b01 (q_of_pt (fst e))
                           && on_line_within c0 d01 b01 (q_of_pt (snd e))) (ring_edges ring)
      (* metric minimal among the edge-aligned rectangles *)
      && qabs_le (observed_metric k s1 s2 - best) (rel * best + e2)
  | _ => false
  end.

(* ------------------------------------------------------------------------------------------ *)
(* General-position float inputs (the quantifier's second clause): the covering claims within
   tolerance, evaluated exactly on the doubles (converted to Q) the implementation read and
   returned.  pts: input points, ring: the returned closed ring. *)
Definition qpt_eqb (a b : qpt) : bool := Qeq_bool (fst a) (fst b) && Qeq_bool (snd a) (snd b).

Definition float_hull_ok (eps : Q) (pts ring : list qpt) : bool :=
  match ring with
  | v0 :: _ :: _ :: _ :: _ =>
      qpt_eqb (last ring v0) v0
      && forallb (fun v => existsb (qpt_eqb v) pts) ring
      && forallb (fun e => let a := fst e in
                           let d := rsub (snd e) a in
                           let bound := Qred (qsq eps * rdot d d) in
                           forallb (left_within a d bound) pts) (qedges ring)
  | _ => false
  end.

Definition float_rect_ok (eps rel : Q) (corners ring : list qpt) : bool :=
  match corners with
  | [c0; c1; c2; c3; c4] =>
      let s1 := rsub c1 c0 in
      let s2 := rsub c3 c0 in
      let e2 := qsq eps in
      let d01 := s1 in let b01 := Qred (e2 * rdot d01 d01) in
      let d12 := rsub c2 c1 in let b12 := Qred (e2 * rdot d12 d12) in
      let d23 := rsub c3 c2 in let b23 := Qred (e2 * rdot d23 d23) in
      let d30 := rsub c0 c3 in let b30 := Qred (e2 * rdot d30 d30) in
      Qeq_bool (fst c4) (fst c0) && Qeq_bool (snd c4) (snd c0)
      && qle_b (qsq (rdot s1 s2)) (qsq rel * rdot s1 s1 * rdot s2 s2)
      && (let d := rsub c2 (radd c1 s2) in qle_b (rdot d d) e2)
      && forallb (fun p => left_within c0 d01 b01 p && left_within c1 d12 b12 p
                           && left_within c2 d23 b23 p && left_within c3 d30 b30 p) ring
      && existsb (fun e => on_line_within c0 d01 b01 (fst e) && on_line_within c0 d01 b01 (snd e)) (qedges ring)
  | _ => false
  end.

(* ------------------------------------------------------------------------------------------ *)
(* The caliper walk itself (findMBR / caliper.update), transcribed with exact integer dot products
   and explicit fuel; None = an index out of range (Go panic) or fuel exhausted (the `for {}` of
   caliper.update would not have terminated within 2n+2 steps).  The driver checks on every
   generated ring that the walk reaches exactly the extremes of [candidates] (the reference
   semantics the theorems are about). *)
Open Scope Z_scope.
Definition neg (d : pt) : pt := (- fst d, - snd d).          (* xy.go:rotate180 *)

(* for { c.idx = (c.idx+1) % n; d1 := pt().Dot(dir); if d1 < d0 { c.idx = (c.idx-1+n) % n; break }; d0 = d1 } *)
Fixpoint caliper_loop (fuel : nat) (ring : list pt) (n : nat) (off dir : pt) (idx : nat) (d0 : Z)
  : option (nat * Z) :=
  match fuel with
  | O => None
  | S f =>
      let idx1 := Nat.modulo (S idx) n in
      match nth_error ring idx1 with
      | None => None
      | Some p =>
          let d1 := dot (sub p off) dir in
          if d1 <? d0 then Some (idx, d0) else caliper_loop f ring n off dir idx1 d1
      end
  end.
(* caliper.update: returns the new idx and the dot product whose projection becomes c.proj *)
Definition caliper_update (ring : list pt) (n : nat) (off dir : pt) (idx : nat) : option (nat * Z) :=
  match nth_error ring idx with
  | None => None
  | Some p => caliper_loop (2 * n + 2) ring n off dir idx (dot (sub p off) dir)
  end.

Fixpoint walk_edges (ring : list pt) (n : nat) (i : nat) (k : nat) (rhs far lhs : nat) : option (list cand) :=
  match k with
  | O => Some []
  | S k' =>
      match nth_error ring i, nth_error ring (S i) with
      | Some a, Some b =>
          let d := sub b a in
          match caliper_update ring n a d rhs with
          | None => None
          | Some (r, tmax) =>
              let far0 := if Nat.eqb i 0 then r else far in
              match caliper_update ring n a (rot90 d) far0 with
              | None => None
              | Some (f, hmax) =>
                  let lhs0 := if Nat.eqb i 0 then f else lhs in
                  match caliper_update ring n a (neg d) lhs0 with
                  | None => None
                  | Some (l, ntmin) =>
                      match walk_edges ring n (S i) k' r f l with
                      | None => None
                      | Some cs => Some ({| c_a := a; c_d := d; c_tmin := - ntmin; c_tmax := tmax; c_hmax := hmax |} :: cs)
                      end
                  end
              end
          end
      | _, _ => None
      end
  end.
(* for i := 0; i+1 < seq.Length(); i++ *)
Definition walk_candidates (ring : list pt) : option (list cand) :=
  let n := length ring in walk_edges ring n 0 (n - 1) 0 0 0.
