(* Model for property C10: the ORDER-CANONICALISATION steps of the overlay result extraction and
   the order-insensitive folds the overlay performs while ranging over Go maps, as list functions;
   plus the pure-function model of call histories that the harness checks the implementation
   against. Definitions only (executable); proofs are in Proofs/Canon_proofs.v.

   The overlay keeps its cell complex in Go maps (geom/dcel.go: halfEdges map[[2]XY]*halfEdgeRecord,
   vertices map[XY]*vertexRecord, vertexRecord.incidents map[*halfEdgeRecord]struct{}; the face
   list is built by ranging over halfEdges; geom/dcel_extract_geometry.go: facesInPoly, toExpand).
   Go randomises the iteration order of every `range` over a map, so every list below is to be
   read as "the members in SOME order chosen by the runtime"; the theorems say the results do not
   depend on that order.

   Every `range` over a map in geom/ (non-test, non-debug code), classified:
   (i)  result canonicalised afterwards   (ii) fold/closure that is order-free   (iii) order can leak
     dcel_input.go:addVertices (range interactions)            (ii) independent inserts into a map
     dcel_fixup.go:fixVertices (range d.vertices)              (ii) writes prev of edges leaving / next of edges
                                                                    entering THAT vertex only: disjoint
     dcel_fixup.go:fixVertex (range v.incidents)               (i)  sorted by radialLess when > 2 (used cyclically;
                                                                    <= 2 members have one cyclic order)
                                                                    [radial_less_strict_total, fix_vertex_order_free]
     dcel_fixup.go:assignFaces (range d.halfEdges)             order of d.faces and each face's representative edge
                                                                    follow the map; consumers: label flood fill (ii,
                                                                    reachability), extractPolygons (i, sort +
                                                                    rotate_to_min), matrix (ii)
     dcel_fixup.go:populateInSetLabels (vertices, halfEdges)   (ii) [populate_labels_order_free], including the read
                                                                    of e.prev.inSet that may still be unset
     dcel_extract_geometry.go:extractPolygons (range facesInPoly)   (i) [order_rings_perm_invariant, rotate_to_min_invariant];
                                                                    was (iii) for INVALID operands: orderPolygonRings took
                                                                    the first counter-clockwise ring found, and invalid input
                                                                    can yield several: EXHIBITED (finding F141, error text of
                                                                    set operations varied; fixes/F141.patch takes the least)
     dcel_extract_geometry.go:findFacesMakingPolygon (pop from toExpand)  (ii) connected component as a set
     dcel_extract_geometry.go:extractLineStrings (range d.halfEdges)  (i) [orient_edge_twin_invariant + sort]
     dcel_extract_geometry.go:extractPoints (range d.vertices)        (i) sort by XY.Less
     dcel_extract_intersection_matrix.go (vertices, halfEdges)  (ii) [intersection_matrix_order_free]
     dcel_extract_intersection_matrix.go:vertexRecord.location (first of range v.incidents)
                                                                (ii) only if all incident edges agree
                                                                    [pick_location_order_free]; explored, no
                                                                    disagreement exhibited
     dcel_node_set.go:nodeSet.list (range s.nodes)              (iii) feeds the bulk load of the point index; the
                                                                    R-tree visiting order reaches reNodeLineString's
                                                                    cuts, which were sorted by distance ONLY: distinct
                                                                    cuts at equal distance kept their discovery order.
                                                                    EXHIBITED (finding F140, fixes/F140.patch breaks
                                                                    the tie by XY.Less; then class (i))
     graph.go:hasCycle (three ranges)                           (ii) existence of a cycle
     geojson_unmarshal.go (range hasLength), geojson_feature_collection.go (range topLevel)  (ii) boolean or / map build

   sort.Slice is a standard-library oracle (DESIGN.md section 4): its contract is "the result is a
   permutation of the input that is sorted for the comparison". [isort] is one function with
   that contract; [sort_perm_unique] (Proofs) shows every function with that contract returns
   the same list, so nothing depends on the sorting algorithm (sort.Slice is not stable). *)
From Coq Require Import List Bool ZArith NArith Lia Arith.
Import ListNotations.

(* ------------------------------------------------------------------------------------------ *)
Section Order.
  Variable A : Type.
  Variable ltb : A -> A -> bool.       (* the `less` closure handed to sort.Slice *)

  Fixpoint insert (x : A) (l : list A) : list A :=
    match l with
    | [] => [x]
    | y :: t => if ltb x y then x :: y :: t else y :: insert x t
    end.
  Fixpoint isort (l : list A) : list A :=
    match l with [] => [] | x :: t => insert x (isort t) end.

  (* sort.Slice's post-condition on adjacent elements: never less(a[i+1], a[i]) *)
  Fixpoint sortedb (l : list A) : bool :=
    match l with
    | [] => true
    | x :: t => match t with [] => true | y :: _ => negb (ltb y x) && sortedb t end
    end.

  (* geom/dcel_extract_geometry.go:extractPolygonRing
       minI := 0; for i := range seqs { if seqs[i].less(seqs[minI]) { minI = i } } *)
  Fixpoint min_index_from (l : list A) (i : nat) (best : A) (besti : nat) : nat :=
    match l with
    | [] => besti
    | x :: t => if ltb x best then min_index_from t (S i) x i else min_index_from t (S i) best besti
    end.
  Definition min_index (l : list A) : nat :=
    match l with [] => 0 | x :: t => min_index_from t 1 x 0 end.

  (* geom/dcel_extract_geometry.go:rotateSeqs (three reversals) with its early return *)
  Definition rotate_right (k : nat) (l : list A) : list A :=
    if (k =? 0) || (k =? length l) then l
    else let r := rev l in rev (firstn k r) ++ rev (skipn k r).
  (* rotateSeqs(seqs, len(seqs)-minI) *)
  Definition rotate_to_min (l : list A) : list A := rotate_right (length l - min_index l) l.

  (* one step / k steps of rotating the START of a cycle (what a different map order does to a
     ring: the walk starts at another edge of the same cycle) *)
  Definition rot1 (l : list A) : list A := match l with [] => [] | a :: t => t ++ [a] end.
  Fixpoint rotn (k : nat) (l : list A) : list A :=
    match k with O => l | S k' => rotn k' (rot1 l) end.

  (* the first member satisfying f, with what precedes and follows it; swapping it to the front
     (rings[i], rings[0] = rings[0], rings[i]) *)
  Fixpoint split_first (f : A -> bool) (l : list A) : option (list A * A * list A) :=
    match l with
    | [] => None
    | x :: t => if f x then Some ([], x, t)
                else match split_first f t with
                     | Some (pre, y, post) => Some (x :: pre, y, post)
                     | None => None
                     end
    end.
  Definition swap_first_ccw (f : A -> bool) (l : list A) : list A :=
    match split_first f l with
    | Some (a :: pre, x, post) => x :: pre ++ a :: post
    | _ => l
    end.

  (* geom/dcel_extract_geometry.go:orderPolygonRings, as repaired by fix F141:
       outer := -1
       for i, r := range rings { if ccw(r) && (outer < 0 || r.less(rings[outer])) { outer = i } }
       if outer < 0 { for i, r := range rings { if outer < 0 || r.less(rings[outer]) { outer = i } } }
       rings[outer], rings[0] = rings[0], rings[outer]
       inners := rings[1:]; sort.Slice(inners, less)
     i.e. the LEAST counter-clockwise ring (the least ring when there is none) goes first - its
     first occurrence; [ccw] is a function of the ring's coordinates, so equal rings agree on it.
     Before the fix the FIRST counter-clockwise ring found was taken, which leaked the discovery
     order whenever an (invalid) input made the overlay extract several (finding F141).
     rings[outer] on an empty slice panics; extractPolygons returns an error before calling it with
     no rings, so the empty case is modelled as None and never taken by [canon_poly]. *)
  Variable ccw : A -> bool.
  Definition least (l : list A) : option A :=
    match l with
    | [] => None
    | x :: t => Some (fold_left (fun b y => if ltb y b then y else b) t x)
    end.
  Definition same (o x : A) : bool := negb (ltb x o) && negb (ltb o x).
  Definition candidates (rings : list A) : list A :=
    match filter ccw rings with [] => rings | _ :: _ => filter ccw rings end.
  Definition order_rings (rings : list A) : option (list A) :=
    match least (candidates rings) with
    | None => None
    | Some o => match swap_first_ccw (same o) rings with
                | [] => None
                | h :: inners => Some (h :: isort inners)
                end
    end.
End Order.

Arguments insert {A}. Arguments isort {A}. Arguments sortedb {A}. Arguments min_index {A}.
Arguments min_index_from {A}. Arguments rotate_right {A}. Arguments rotate_to_min {A}.
Arguments rot1 {A}. Arguments rotn {A}. Arguments split_first {A}. Arguments swap_first_ccw {A}.
Arguments order_rings {A}. Arguments least {A}. Arguments same {A}. Arguments candidates {A}.

(* sorting records by a key: sort.Slice(polys, func(i,j){ return ext(polys[i]).less(ext(polys[j])) }) *)
Definition isort_by {B K : Type} (ltb : K -> K -> bool) (key : B -> K) (l : list B) : list B :=
  isort (fun x y => ltb (key x) (key y)) l.

(* ------------------------------------------------------------------------------------------ *)
Section Lex.
  Variable E : Type.
  Variable eeqb : E -> E -> bool.      (* Go's == on XY *)
  Variable eltb : E -> E -> bool.      (* XY.Less *)
  (* geom/type_sequence.go:Sequence.less
       for i := 0; i < s.Length(); i++ {
         if i >= oLen { return true }                 (a LONGER sequence with equal prefix is less)
         if s[i] != o[i] { return s[i].Less(o[i]) } }
       return false *)
  Fixpoint seq_ltb (s o : list E) : bool :=
    match s with
    | [] => false
    | x :: s' => match o with
                 | [] => true
                 | y :: o' => if eeqb x y then seq_ltb s' o' else eltb x y
                 end
    end.
End Lex.
Arguments seq_ltb {E}.

(* geom/xy.go:XY.Less   if w.X != o.X { return w.X < o.X }; return w.Y < o.Y *)
Definition xyT := (Z * Z)%type.
Definition xy_eqb (a b : xyT) : bool := (fst a =? fst b)%Z && (snd a =? snd b)%Z.
Definition xy_ltb (a b : xyT) : bool :=
  if negb (fst a =? fst b)%Z then (fst a <? fst b)%Z else (snd a <? snd b)%Z.

(* Ordinates are carried as integers that order like the float64 values they stand for:
   [ord_key] maps the IEEE-754 bit pattern of a non-NaN double to Z monotonically (sign-magnitude
   to two's-complement order); +0 and -0 both map to 0, as Go's == and < treat them. *)
Definition ord_key (bits : N) : Z :=
  if (bits <? 9223372036854775808)%N then Z.of_N bits
  else (- Z.of_N (bits - 9223372036854775808))%Z.

Definition seqT := list xyT.                     (* the XY values of a geom.Sequence *)
Definition sq_ltb : seqT -> seqT -> bool := seq_ltb xy_eqb xy_ltb.

(* geom/dcel_extract_geometry.go:extractLineStrings
     if e.twin.seq.less(e.seq) { e = e.twin }      (twin.seq is the reversed sequence) *)
Definition orient_edge (e : seqT) : seqT := if sq_ltb (rev e) e then rev e else e.

(* geom/dcel_extract_geometry.go:buildRingSequence: every edge sequence without its last point,
   concatenated, then the first point again *)
Definition build_ring (seqs : list seqT) : seqT :=
  let body := concat (map (@removelast xyT) seqs) in body ++ firstn 1 body.

(* ------------------------------------------------------------------------------------------ *)
(* The extraction pipeline. A ring as discovered = the cyclic list of edge sequences starting at
   whichever edge the map iteration reached first; a cell = the rings of one polygon in discovery
   order; cells in the order faces were created (which follows the halfEdges map).
   [ccw] is the orientation test (sign of the shoelace sum, geom/type_polygon.go:
   signedAreaOfLinearRing); it is a function of the ring's coordinates only. *)
Section Extract.
  Variable ccw : seqT -> bool.
  Definition canon_ring (cycle : list seqT) : seqT := build_ring (rotate_to_min sq_ltb cycle).
  Definition canon_poly (cell : list (list seqT)) : option (list seqT) :=
    order_rings sq_ltb ccw (map canon_ring cell).
  (* extractPolygons: `if len(rings) == 0 { return error }` is the None below *)
  Fixpoint canon_cells (cells : list (list (list seqT))) : option (list (list seqT)) :=
    match cells with
    | [] => Some []
    | c :: t => match canon_poly c, canon_cells t with
                | Some p, Some ps => Some (p :: ps)
                | _, _ => None
                end
    end.
  Definition ext_ring (p : list seqT) : seqT := hd [] p.
  Definition canon_polys (cells : list (list (list seqT))) : option (list (list seqT)) :=
    match canon_cells cells with
    | Some ps => Some (isort_by sq_ltb ext_ring ps)
    | None => None
    end.
  Definition canon_lines (edges : list seqT) : list seqT := isort sq_ltb (map orient_edge edges).
  Definition canon_points (pts : list xyT) : list xyT := isort xy_ltb pts.
  Definition canon (cells : list (list (list seqT))) (edges : list seqT) (pts : list xyT)
    : option (list (list seqT) * list seqT * list xyT) :=
    match canon_polys cells with
    | Some ps => Some (ps, canon_lines edges, canon_points pts)
    | None => None
    end.
End Extract.

(* What can be checked on a RESULT geometry through the public API (the correspondence run):
   rings come tagged with their orientation; the checker re-derives the order of an arbitrarily
   scrambled copy of the members and must reproduce the implementation's order. *)
Definition tring := (bool * seqT)%type.
Definition tr_ltb (a b : tring) : bool := sq_ltb (snd a) (snd b).
Definition api_canon_poly (rings : list tring) : option (list tring) := order_rings tr_ltb fst rings.
Definition api_ext (p : list tring) : seqT := match p with [] => [] | r :: _ => snd r end.
Definition api_canon_polys (ps : list (list tring)) : list (list tring) := isort_by sq_ltb api_ext ps.
Definition api_canon_lines (ls : list seqT) : list seqT := isort sq_ltb (map orient_edge ls).
Definition api_canon_points (ps : list xyT) : list xyT := isort xy_ltb ps.

(* ------------------------------------------------------------------------------------------ *)
(* Order-insensitive folds. *)

(* geom/dcel_extract_intersection_matrix.go:extractIntersectionMatrix. Entries: -1 = 'F', else the
   dimension digit. matrix.set is a plain assignment m[3*locA+locB] = entry; all vertices are
   written first ('0'), then all half edges ('1'), then all faces ('2'). *)
Fixpoint upd (i : nat) (v : Z) (m : list Z) : list Z :=
  match m with
  | [] => []
  | x :: t => match i with O => v :: t | S j => x :: upd j v t end
  end.
Definition new_matrix : list Z := repeat (-1)%Z 9.
Definition im_index (locs : nat * nat) : nat := 3 * fst locs + snd locs.
Definition im_phase (entry : Z) (cells : list (nat * nat)) (m : list Z) : list Z :=
  fold_left (fun m c => upd (im_index c) entry m) cells m.
Definition extract_im (verts edges faces : list (nat * nat)) : list Z :=
  im_phase 2 faces (im_phase 1 edges (im_phase 0 verts new_matrix)).
(* the max-by-dimension reading of the same matrix *)
Definition mem_loc (c : nat * nat) (l : list (nat * nat)) : bool :=
  existsb (fun d => (fst c =? fst d) && (snd c =? snd d)) l.
Definition im_spec_entry (verts edges faces : list (nat * nat)) (c : nat * nat) : Z :=
  if mem_loc c faces then 2%Z else if mem_loc c edges then 1%Z else if mem_loc c verts then 0%Z else (-1)%Z.

(* geom/dcel_extract_intersection_matrix.go:vertexRecord.location, last branch:
     for e := range v.incidents { return e.location(operand) }
   returns the location of WHICHEVER incident edge the map yields first. *)
Definition pick_location (incident_locs : list nat) : option nat := hd_error incident_locs.

(* geom/dcel_fixup.go:populateInSetLabels, second loop, for one operand.
   Edges are numbered; [lbl e] is the value assigned to e.inSet (it depends only on srcEdge and
   the face labels, which are final at that point); [origin e] the vertex; [prev e] the
   predecessor. The loop body is
       e.inSet = lbl e
       e.origin.inSet = e.origin.inSet || e.inSet || e.prev.inSet
   where e.prev.inSet is still the zero value if e.prev has not been visited yet: a read whose
   value depends on the iteration order. State: (edges already assigned, vertex labels). *)
Section Labels.
  Variable origin : nat -> nat.
  Variable prev : nat -> nat.
  Variable lbl : nat -> bool.
  Definition memb (e : nat) (l : list nat) : bool := existsb (Nat.eqb e) l.
  Definition label_step (st : list nat * (nat -> bool)) (e : nat) : list nat * (nat -> bool) :=
    let done := e :: fst st in
    let stale_or_final := memb (prev e) done && lbl (prev e) in
    (done, fun v => if v =? origin e then snd st v || lbl e || stale_or_final else snd st v).
  Definition populate_labels (src : nat -> bool) (order : list nat) : nat -> bool :=
    snd (fold_left label_step order ([], src)).
  (* the order-free reading: a vertex is in the set iff it was explicitly, or some edge leaving it is *)
  Definition labels_spec (src : nat -> bool) (edges : list nat) (v : nat) : bool :=
    src v || existsb (fun e => (origin e =? v) && lbl e) edges.
End Labels.

(* ------------------------------------------------------------------------------------------ *)
(* Histories. The models of the other properties are functions: given the operand store and a
   call they return a result and do not return a new store. [run] is that reading of a sequence of
   API calls; [history_ok] is the executable check applied to an OBSERVED history (call, result,
   store re-observed after the call): every store observation equals the initial one and equal
   calls returned equal results wherever they stand in the history. *)
Section History.
  Variables (store call result : Type).
  Variable sem : store -> call -> result.
  Definition step (s : store) (c : call) : store * result := (s, sem s c).
  Fixpoint run (s : store) (cs : list call) : list (call * result * store) :=
    match cs with
    | [] => []
    | c :: t => let (s', r) := step s c in (c, r, s') :: run s' t
    end.

  Variable store_eqb : store -> store -> bool.
  Variable call_eqb : call -> call -> bool.
  Variable result_eqb : result -> result -> bool.
  Fixpoint lookup (c : call) (memo : list (call * result)) : option result :=
    match memo with
    | [] => None
    | (c', r) :: t => if call_eqb c c' then Some r else lookup c t
    end.
  (* index of the first offending event and its kind: 0 = operand store changed, 1 = result differs *)
  Fixpoint first_bad (s0 : store) (memo : list (call * result)) (i : nat)
           (evs : list (call * result * store)) : option (nat * nat) :=
    match evs with
    | [] => None
    | (c, r, s) :: t =>
        if negb (store_eqb s s0) then Some (i, 0)
        else match lookup c memo with
             | Some r' => if result_eqb r r' then first_bad s0 memo (S i) t else Some (i, 1)
             | None => first_bad s0 ((c, r) :: memo) (S i) t
             end
    end.
  Definition history_ok (s0 : store) (evs : list (call * result * store)) : bool :=
    match first_bad s0 [] 0 evs with None => true | Some _ => false end.
End History.
Arguments run {store call result}. Arguments step {store call result}.
Arguments history_ok {store call result}. Arguments first_bad {store call result}.
Arguments lookup {call result}.

(* instance used by the correspondence driver: stores, calls and results are interned byte strings *)
Definition history_ok_N : N -> list (N * N * N) -> bool := history_ok N.eqb N.eqb N.eqb.
Definition first_bad_N : N -> list (N * N * N) -> option (nat * nat) :=
  fun s0 evs => first_bad N.eqb N.eqb N.eqb s0 [] 0 evs.

(* ------------------------------------------------------------------------------------------ *)
(* Executable correspondence checks on a result geometry of the implementation: the members are
   scrambled by a fixed family of permutations (rotation by k, reversal; every other linestring
   reversed) and put back in order by the model; the model's order must be the implementation's. *)
Fixpoint list_eqb {X : Type} (eqb : X -> X -> bool) (a b : list X) : bool :=
  match a, b with
  | [], [] => true
  | x :: a', y :: b' => eqb x y && list_eqb eqb a' b'
  | _, _ => false
  end.
Definition sq_eqb : seqT -> seqT -> bool := list_eqb xy_eqb.
Definition tring_eqb (a b : tring) : bool := Bool.eqb (fst a) (fst b) && sq_eqb (snd a) (snd b).
Definition scramble {X : Type} (k : nat) (l : list X) : list X := rev (rotn k l).
Fixpoint alt_rev (flip : bool) (ls : list seqT) : list seqT :=
  match ls with
  | [] => []
  | l :: t => (if flip then rev l else l) :: alt_rev (negb flip) t
  end.
Definition api_poly_ok (k : nat) (rings : list tring) : bool :=
  match api_canon_poly (scramble k rings) with
  | Some r => list_eqb tring_eqb r rings
  | None => false
  end.
Definition api_polys_ok (k : nat) (ps : list (list tring)) : bool :=
  list_eqb (list_eqb tring_eqb) (api_canon_polys (scramble k ps)) ps && forallb (api_poly_ok k) ps.
Definition api_lines_ok (k : nat) (ls : list seqT) : bool :=
  list_eqb sq_eqb (api_canon_lines (scramble k (alt_rev true ls))) ls.
Definition api_points_ok (k : nat) (ps : list xyT) : bool :=
  list_eqb xy_eqb (api_canon_points (scramble k ps)) ps.
(* strictness: the members of a result are pairwise different (no two polygons with the same
   exterior ring, no repeated linestring or point), which is the hypothesis of the uniqueness theorems *)
Fixpoint strictly_sortedb {X : Type} (ltb : X -> X -> bool) (l : list X) : bool :=
  match l with
  | [] => true
  | x :: t => match t with [] => true | y :: _ => ltb x y && strictly_sortedb ltb t end
  end.

(* ------------------------------------------------------------------------------------------ *)
(* geom/dcel_fixup.go:radialLess and fixVertex. Direction vectors (second point minus first point
   of an incident edge) over Z: exact for integer-lattice inputs, where the products below are
   exact in binary64 as well. *)
Definition radial_ltb (di dj : Z * Z) : bool :=
  let '(x1, y1) := di in let '(x2, y2) := dj in
  if (x1 >=? 0)%Z && (x2 <? 0)%Z then true
  else if (x1 <? 0)%Z && (x2 >=? 0)%Z then false
  else if (x1 =? 0)%Z && (x2 =? 0)%Z then
         (if (y1 >=? 0)%Z || (y2 >=? 0)%Z then (y1 <? y2)%Z else (y2 <? y1)%Z)
  else let det := (x1 * y2 - y1 * x2)%Z in                       (* di.Cross(dj) *)
       if negb (det =? 0)%Z then (det >? 0)%Z
       else (x1 * x1 + y1 * y1 <? x2 * x2 + y2 * y2)%Z.            (* lengthSq *)

(* fixVertex: collect v.incidents (map order), sort radially when there are more than two, then
   link every edge to its successor in the cyclic order: ei.prev = ej.twin, ej.twin.next = ei for
   j = i+1 mod n. Result: the set of (edge, successor) pairs. *)
Definition succ_pairs {X : Type} (l : list X) : list (X * X) := combine l (rot1 l).
Definition fix_vertex (inc : list (nat * (Z * Z))) : list (nat * nat) :=
  let s := if length inc <=? 2 then inc else isort_by radial_ltb snd inc in
  map (fun p => (fst (fst p), fst (snd p))) (succ_pairs s).
