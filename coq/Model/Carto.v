(* Model of the nine map projections of /repo/carto over the real numbers (property C19).

   Definitions only.  Every function is the formula of the Go source with the same shape
   (same sub-expressions, same order), over Coq's R.  Angles enter and leave in degrees exactly
   as in the Go API; [dtor]/[rtod] are the conversions of carto/util.go.

   The model follows the code AFTER the repairs F12, F13, F14, F80, F81 (see /verif/fixes); the
   formulas of the pinned tree that these repairs replace are kept under the names [..._orig] at the
   end of the file: the [_refuted] theorems of Props/C19.v are about them.

   What is NOT modelled: IEEE-754 rounding, signed zeros, NaN/Inf.  The tie to the float64 code is
   the correspondence run (tools/c19_run.py): one goal [Rabs (model - go_double) <= eps] per sampled
   evaluation, closed by [interval]. *)

From Coq Require Import Reals.
Local Open Scope R_scope.

(* ------------------------------------------------------------------------------------------ *)
(* carto/util.go *)

Definition dtor (d : R) : R := d * PI / 180.          (* util.go:dtor *)
Definition rtod (r : R) : R := r * 180 / PI.          (* util.go:rtod *)
Definition sq (x : R) : R := x * x.                   (* util.go:sq *)
Definition sec (x : R) : R := 1 / cos x.              (* util.go:sec *)
Definition cot (x : R) : R := 1 / tan x.              (* util.go:cot *)
Definition pow (x y : R) : R := Rpower x y.           (* util.go:pow = math.Pow, positive base *)
(* util.go:sign = math.Copysign(1, x); the sign of a zero is not modelled (n = 0 is excluded) *)
Definition sign (x : R) : R := if Rle_dec 0 x then 1 else -1.
(* util.go:atan2 = math.Atan2 on finite arguments, by cases from atan *)
Definition atan2 (y x : R) : R :=
  if Rlt_dec 0 x then atan (y / x)
  else if Rlt_dec x 0 then (if Rle_dec 0 y then atan (y / x) + PI else atan (y / x) - PI)
  else if Rlt_dec 0 y then PI / 2
  else if Rlt_dec y 0 then - (PI / 2)
  else 0.

(* carto/radius.go *)
Definition WGS84MeanRadius : R := (2 * 6378137 + 6356752.314245) / 3.

(* ------------------------------------------------------------------------------------------ *)
(* carto/proj_equirectangular.go *)

Record er_cfg := { er_R : R; er_lon0 : R; er_lat1 : R }.
Definition er_lam0 (c : er_cfg) : R := dtor (er_lon0 c).              (* SetCentralMeridian *)
Definition er_cosphi1 (c : er_cfg) : R := cos (dtor (er_lat1 c)).     (* SetStandardParallels *)

Definition er_fwd_x (c : er_cfg) (lon lat : R) : R :=                 (* Forward *)
  er_R c * (dtor lon - er_lam0 c) * er_cosphi1 c.
Definition er_fwd_y (c : er_cfg) (lon lat : R) : R := er_R c * dtor lat.
Definition er_rev_lon (c : er_cfg) (x y : R) : R :=                   (* Reverse *)
  rtod (x / (er_R c * er_cosphi1 c) + er_lam0 c).
Definition er_rev_lat (c : er_cfg) (x y : R) : R := rtod (y / er_R c).

(* ------------------------------------------------------------------------------------------ *)
(* carto/proj_sinusoidal.go *)

Record sn_cfg := { sn_R : R; sn_lon0 : R }.
Definition sn_lam0 (c : sn_cfg) : R := dtor (sn_lon0 c).

Definition sn_fwd_x (c : sn_cfg) (lon lat : R) : R :=
  sn_R c * cos (dtor lat) * (dtor lon - sn_lam0 c).
Definition sn_fwd_y (c : sn_cfg) (lon lat : R) : R := sn_R c * dtor lat.
Definition sn_rev_lon (c : sn_cfg) (x y : R) : R :=
  rtod (x / (sn_R c * cos (y / sn_R c)) + sn_lam0 c).
Definition sn_rev_lat (c : sn_cfg) (x y : R) : R := rtod (y / sn_R c).

(* ------------------------------------------------------------------------------------------ *)
(* carto/proj_lambert_cylindrical_equal_area.go *)

Record lc_cfg := { lc_R : R; lc_lon0 : R }.
Definition lc_lam0 (c : lc_cfg) : R := dtor (lc_lon0 c).

Definition lc_fwd_x (c : lc_cfg) (lon lat : R) : R := lc_R c * (dtor lon - lc_lam0 c).
Definition lc_fwd_y (c : lc_cfg) (lon lat : R) : R := lc_R c * sin (dtor lat).
Definition lc_rev_lon (c : lc_cfg) (x y : R) : R := rtod (x / lc_R c + lc_lam0 c).
Definition lc_rev_lat (c : lc_cfg) (x y : R) : R := rtod (asin (y / lc_R c)).

(* ------------------------------------------------------------------------------------------ *)
(* carto/proj_web_mercator.go; P = float64(int(1) << zoom), exact for zoom <= 62 *)

Record wm_cfg := { wm_zoom : nat }.
Definition wm_P (c : wm_cfg) : R := 2 ^ wm_zoom c.

Definition wm_fwd_x (c : wm_cfg) (lon lat : R) : R := (lon + 180) / 360 * wm_P c.
Definition wm_fwd_y (c : wm_cfg) (lon lat : R) : R :=
  (PI - ln (tan (PI / 4 + dtor lat / 2))) * wm_P c / (2 * PI).
Definition wm_rev_lon (c : wm_cfg) (x y : R) : R := x / wm_P c * 360 - 180.
Definition wm_rev_lat (c : wm_cfg) (x y : R) : R :=
  rtod (2 * (atan (exp (PI - 2 * PI * y / wm_P c)) - PI / 4)).

(* ------------------------------------------------------------------------------------------ *)
(* the three conics share their configuration: radius, origin (lon0, lat0), parallels lat1, lat2 *)

Record cn_cfg := { cn_R : R; cn_lon0 : R; cn_lat0 : R; cn_lat1 : R; cn_lat2 : R }.
Definition cn_lam0 c := dtor (cn_lon0 c).
Definition cn_phi0 c := dtor (cn_lat0 c).
Definition cn_phi1 c := dtor (cn_lat1 c).
Definition cn_phi2 c := dtor (cn_lat2 c).

(* carto/proj_lambert_conformal_conic.go *)
Definition lcc_n (c : cn_cfg) : R :=
  ln (cos (cn_phi1 c) * sec (cn_phi2 c))
  / ln (tan (PI / 4 + cn_phi2 c / 2) * cot (PI / 4 + cn_phi1 c / 2)).
Definition lcc_F (c : cn_cfg) : R :=
  cos (cn_phi1 c) * pow (tan (PI / 4 + cn_phi1 c / 2)) (lcc_n c) / lcc_n c.
Definition lcc_rho (c : cn_cfg) (phi : R) : R :=
  cn_R c * lcc_F c * pow (cot (PI / 4 + phi / 2)) (lcc_n c).
Definition lcc_rho0 (c : cn_cfg) : R := lcc_rho c (cn_phi0 c).

Definition lcc_fwd_x (c : cn_cfg) (lon lat : R) : R :=
  lcc_rho c (dtor lat) * sin (lcc_n c * (dtor lon - cn_lam0 c)).
Definition lcc_fwd_y (c : cn_cfg) (lon lat : R) : R :=
  lcc_rho0 c - lcc_rho c (dtor lat) * cos (lcc_n c * (dtor lon - cn_lam0 c)).
Definition lcc_rev_rho (c : cn_cfg) (x y : R) : R :=
  sign (lcc_n c) * sqrt (sq x + sq (lcc_rho0 c - y)).
Definition lcc_rev_theta (c : cn_cfg) (x y : R) : R := atan (x / (lcc_rho0 c - y)).
Definition lcc_rev_lon (c : cn_cfg) (x y : R) : R :=
  rtod (cn_lam0 c + lcc_rev_theta c x y / lcc_n c).
Definition lcc_rev_lat (c : cn_cfg) (x y : R) : R :=
  rtod (2 * atan (pow (cn_R c * lcc_F c / lcc_rev_rho c x y) (1 / lcc_n c)) - PI / 2).

(* carto/proj_albers_equal_area_conic.go *)
Definition alb_n (c : cn_cfg) : R := (sin (cn_phi1 c) + sin (cn_phi2 c)) / 2.
Definition alb_C (c : cn_cfg) : R := sq (cos (cn_phi1 c)) + 2 * alb_n c * sin (cn_phi1 c).
Definition alb_rho (c : cn_cfg) (phi : R) : R :=
  cn_R c * sqrt (alb_C c - 2 * alb_n c * sin phi) / alb_n c.
Definition alb_rho0 (c : cn_cfg) : R := alb_rho c (cn_phi0 c).

Definition alb_fwd_x (c : cn_cfg) (lon lat : R) : R :=
  alb_rho c (dtor lat) * sin (alb_n c * (dtor lon - cn_lam0 c)).
Definition alb_fwd_y (c : cn_cfg) (lon lat : R) : R :=
  alb_rho0 c - alb_rho c (dtor lat) * cos (alb_n c * (dtor lon - cn_lam0 c)).
(* Reverse, after F12: rho = sqrt(..) / R *)
Definition alb_rev_rho (c : cn_cfg) (x y : R) : R := sqrt (sq x + sq (alb_rho0 c - y)) / cn_R c.
Definition alb_rev_theta (c : cn_cfg) (x y : R) : R := atan (x / (alb_rho0 c - y)).
Definition alb_rev_lon (c : cn_cfg) (x y : R) : R :=
  rtod (cn_lam0 c + alb_rev_theta c x y / alb_n c).
Definition alb_rev_lat (c : cn_cfg) (x y : R) : R :=
  rtod (asin ((alb_C c - alb_rev_rho c x y * alb_rev_rho c x y * alb_n c * alb_n c) / (2 * alb_n c))).

(* carto/proj_equidistant_conic.go *)
Definition eqdc_n (c : cn_cfg) : R := (cos (cn_phi1 c) - cos (cn_phi2 c)) / (cn_phi2 c - cn_phi1 c).
Definition eqdc_G (c : cn_cfg) : R := cos (cn_phi1 c) / eqdc_n c + cn_phi1 c.
Definition eqdc_rho (c : cn_cfg) (phi : R) : R := eqdc_G c - phi.
Definition eqdc_rho0 (c : cn_cfg) : R := eqdc_G c - cn_phi0 c.

Definition eqdc_fwd_x (c : cn_cfg) (lon lat : R) : R :=
  cn_R c * (eqdc_rho c (dtor lat) * sin (eqdc_n c * (dtor lon - cn_lam0 c))).
Definition eqdc_fwd_y (c : cn_cfg) (lon lat : R) : R :=
  cn_R c * (eqdc_rho0 c - eqdc_rho c (dtor lat) * cos (eqdc_n c * (dtor lon - cn_lam0 c))).
Definition eqdc_rev_rho (c : cn_cfg) (x y : R) : R :=
  sign (eqdc_n c)
  * sqrt (x / cn_R c * (x / cn_R c) + (eqdc_rho0 c - y / cn_R c) * (eqdc_rho0 c - y / cn_R c)).
Definition eqdc_rev_theta (c : cn_cfg) (x y : R) : R :=
  atan (x / cn_R c / (eqdc_rho0 c - y / cn_R c)).
Definition eqdc_rev_lon (c : cn_cfg) (x y : R) : R :=
  rtod (cn_lam0 c + eqdc_rev_theta c x y / eqdc_n c).
Definition eqdc_rev_lat (c : cn_cfg) (x y : R) : R := rtod (eqdc_G c - eqdc_rev_rho c x y).

(* ------------------------------------------------------------------------------------------ *)
(* the two azimuthals share their configuration: radius and centre (lon0, lat0) *)

Record az_cfg := { az_R : R; az_lon0 : R; az_lat0 : R }.
Definition az_lam0 c := dtor (az_lon0 c).
Definition az_phi0 c := dtor (az_lat0 c).

(* the three direction cosines of the point seen from the centre (sub-expressions of Forward) *)
Definition az_A (c : az_cfg) (lon lat : R) : R := cos (dtor lat) * sin (dtor lon - az_lam0 c).
Definition az_B (c : az_cfg) (lon lat : R) : R :=
  cos (az_phi0 c) * sin (dtor lat) - sin (az_phi0 c) * cos (dtor lat) * cos (dtor lon - az_lam0 c).
Definition az_C (c : az_cfg) (lon lat : R) : R :=
  sin (az_phi0 c) * sin (dtor lat) + cos (az_phi0 c) * cos (dtor lat) * cos (dtor lon - az_lam0 c).

(* carto/proj_azimuthal_equidistant.go; Forward after F81: rho = R * atan2(sin c, cos c) *)
Definition azeq_rho (c : az_cfg) (lon lat : R) : R :=
  az_R c * atan2 (sqrt (sq (az_A c lon lat) + sq (az_B c lon lat))) (az_C c lon lat).
Definition azeq_theta (c : az_cfg) (lon lat : R) : R := atan2 (az_A c lon lat) (az_B c lon lat).
Definition azeq_fwd_x (c : az_cfg) (lon lat : R) : R := azeq_rho c lon lat * sin (azeq_theta c lon lat).
Definition azeq_fwd_y (c : az_cfg) (lon lat : R) : R := azeq_rho c lon lat * cos (azeq_theta c lon lat).
(* Reverse after F13: explicit centre branch *)
Definition azeq_rev_rho (x y : R) : R := sqrt (x * x + y * y).
Definition azeq_rev_lat (c : az_cfg) (x y : R) : R :=
  let rho := azeq_rev_rho x y in
  if Req_EM_T rho 0 then az_lat0 c
  else rtod (asin (cos (rho / az_R c) * sin (az_phi0 c)
                   + (y * sin (rho / az_R c) * cos (az_phi0 c)) / rho)).
Definition azeq_rev_lon (c : az_cfg) (x y : R) : R :=
  let rho := azeq_rev_rho x y in
  if Req_EM_T rho 0 then az_lon0 c
  else rtod (az_lam0 c
             + atan2 (x * sin (rho / az_R c))
                     (rho * cos (az_phi0 c) * cos (rho / az_R c)
                      - y * sin (az_phi0 c) * sin (rho / az_R c))).

(* carto/proj_orthographic.go; SetCenter stores lam0, sin phi0, cos phi0 *)
Definition or_sinphi0 c := sin (az_phi0 c).
Definition or_cosphi0 c := cos (az_phi0 c).
Definition or_fwd_x (c : az_cfg) (lon lat : R) : R :=
  az_R c * cos (dtor lat) * sin (dtor lon - az_lam0 c).
Definition or_fwd_y (c : az_cfg) (lon lat : R) : R :=
  az_R c * (or_cosphi0 c * sin (dtor lat) - or_sinphi0 c * cos (dtor lat) * cos (dtor lon - az_lam0 c)).
(* Reverse after F14 (centre branch) and F80 (atan2 instead of atan) *)
Definition or_rev_rho (x y : R) : R := sqrt (x * x + y * y).       (* geom.XY.Length *)
Definition or_rev_c (c : az_cfg) (x y : R) : R := asin (or_rev_rho x y / az_R c).
Definition or_rev_lat (c : az_cfg) (x y : R) : R :=
  let rho := or_rev_rho x y in
  if Req_EM_T rho 0 then rtod (atan2 (or_sinphi0 c) (or_cosphi0 c))
  else rtod (asin (cos (or_rev_c c x y) * or_sinphi0 c
                   + y * sin (or_rev_c c x y) * or_cosphi0 c / rho)).
Definition or_rev_lon (c : az_cfg) (x y : R) : R :=
  let rho := or_rev_rho x y in
  if Req_EM_T rho 0 then rtod (az_lam0 c)
  else rtod (az_lam0 c
             + atan2 (x * sin (or_rev_c c x y))
                     (rho * cos (or_rev_c c x y) * or_cosphi0 c
                      - y * sin (or_rev_c c x y) * or_sinphi0 c)).

(* ------------------------------------------------------------------------------------------ *)
(* pairs, for the statements [rev c (fwd c (lon, lat)) = (lon, lat)] *)

Definition mk2 (fx fy : R -> R -> R) (p : R * R) : R * R := (fx (fst p) (snd p), fy (fst p) (snd p)).

Definition er_fwd c := mk2 (er_fwd_x c) (er_fwd_y c).
Definition er_rev c := mk2 (er_rev_lon c) (er_rev_lat c).
Definition sn_fwd c := mk2 (sn_fwd_x c) (sn_fwd_y c).
Definition sn_rev c := mk2 (sn_rev_lon c) (sn_rev_lat c).
Definition lc_fwd c := mk2 (lc_fwd_x c) (lc_fwd_y c).
Definition lc_rev c := mk2 (lc_rev_lon c) (lc_rev_lat c).
Definition wm_fwd c := mk2 (wm_fwd_x c) (wm_fwd_y c).
Definition wm_rev c := mk2 (wm_rev_lon c) (wm_rev_lat c).
Definition lcc_fwd c := mk2 (lcc_fwd_x c) (lcc_fwd_y c).
Definition lcc_rev c := mk2 (lcc_rev_lon c) (lcc_rev_lat c).
Definition alb_fwd c := mk2 (alb_fwd_x c) (alb_fwd_y c).
Definition alb_rev c := mk2 (alb_rev_lon c) (alb_rev_lat c).
Definition eqdc_fwd c := mk2 (eqdc_fwd_x c) (eqdc_fwd_y c).
Definition eqdc_rev c := mk2 (eqdc_rev_lon c) (eqdc_rev_lat c).
Definition azeq_fwd c := mk2 (azeq_fwd_x c) (azeq_fwd_y c).
Definition azeq_rev c := mk2 (azeq_rev_lon c) (azeq_rev_lat c).
Definition or_fwd c := mk2 (or_fwd_x c) (or_fwd_y c).
Definition or_rev c := mk2 (or_rev_lon c) (or_rev_lat c).

(* ------------------------------------------------------------------------------------------ *)
(* Setters.  A projection value has no state besides its configuration: every Set* method of the Go
   types overwrites the fields it names (equirectangular/orthographic store derived values,
   cos phi1 resp. sin/cos phi0, which the model recomputes from the configured angle) and
   Forward/Reverse read nothing else.  A Go implementation that caches anything across calls must
   keep this observable behaviour; the history class of the harness checks it. *)

Definition er_set_meridian (c : er_cfg) (lon : R) : er_cfg :=          (* SetCentralMeridian *)
  {| er_R := er_R c; er_lon0 := lon; er_lat1 := er_lat1 c |}.
Definition er_set_parallels (c : er_cfg) (lat : R) : er_cfg :=         (* SetStandardParallels *)
  {| er_R := er_R c; er_lon0 := er_lon0 c; er_lat1 := lat |}.
Definition sn_set_meridian (c : sn_cfg) (lon : R) : sn_cfg := {| sn_R := sn_R c; sn_lon0 := lon |}.
Definition lc_set_meridian (c : lc_cfg) (lon : R) : lc_cfg := {| lc_R := lc_R c; lc_lon0 := lon |}.
Definition cn_set_origin (c : cn_cfg) (lon lat : R) : cn_cfg :=        (* SetOrigin *)
  {| cn_R := cn_R c; cn_lon0 := lon; cn_lat0 := lat; cn_lat1 := cn_lat1 c; cn_lat2 := cn_lat2 c |}.
Definition cn_set_parallels (c : cn_cfg) (l1 l2 : R) : cn_cfg :=       (* SetStandardParallels *)
  {| cn_R := cn_R c; cn_lon0 := cn_lon0 c; cn_lat0 := cn_lat0 c; cn_lat1 := l1; cn_lat2 := l2 |}.
Definition az_set_center (c : az_cfg) (lon lat : R) : az_cfg :=        (* SetCenter *)
  {| az_R := az_R c; az_lon0 := lon; az_lat0 := lat |}.

(* ------------------------------------------------------------------------------------------ *)
(* Formulas of the pinned tree replaced by the repairs (subjects of the [_refuted] theorems). *)

(* F12: proj_albers_equal_area_conic.go:Reverse had  rho = R * sqrt(sq(x)+sq(rho0-y)) *)
Definition alb_rev_rho_orig (c : cn_cfg) (x y : R) : R := cn_R c * sqrt (sq x + sq (alb_rho0 c - y)).
Definition alb_rev_arg_orig (c : cn_cfg) (x y : R) : R :=     (* the argument of asin *)
  (alb_C c - alb_rev_rho_orig c x y * alb_rev_rho_orig c x y * alb_n c * alb_n c) / (2 * alb_n c).
Definition alb_rev_lat_orig (c : cn_cfg) (x y : R) : R := rtod (asin (alb_rev_arg_orig c x y)).

(* F13: proj_azimuthal_equidistant.go:Reverse had no centre branch: the latitude is
   asin(cos(rho/R) sin phi0 + NUM / DEN) with the following numerator and denominator *)
Definition azeq_rev_lat_orig_num (c : az_cfg) (x y : R) : R :=
  y * sin (azeq_rev_rho x y / az_R c) * cos (az_phi0 c).
Definition azeq_rev_lat_orig_den (x y : R) : R := azeq_rev_rho x y.

(* F14: proj_orthographic.go:Reverse had no centre branch: both the latitude (.. / rho) and the
   longitude atan(NUM / DEN) divide by an expression that vanishes with rho *)
Definition or_rev_lat_orig_den (x y : R) : R := or_rev_rho x y.
Definition or_rev_lon_orig_num (c : az_cfg) (x y : R) : R := x * sin (or_rev_c c x y).
Definition or_rev_lon_orig_den (c : az_cfg) (x y : R) : R :=
  or_rev_rho x y * cos (or_rev_c c x y) * or_cosphi0 c - y * sin (or_rev_c c x y) * or_sinphi0 c.
(* F80: ... and used atan(NUM / DEN), which is only right when DEN > 0 *)
Definition or_rev_lon_orig (c : az_cfg) (x y : R) : R :=
  rtod (az_lam0 c + atan (or_rev_lon_orig_num c x y / or_rev_lon_orig_den c x y)).

(* F81: proj_azimuthal_equidistant.go:Forward had rho = R * acos(cos c).  Over the reals the two
   are equal (theorem azeq_rho_acos); in float64 acos is ill-conditioned at the centre and the
   rounded cosine can exceed 1. *)
Definition azeq_rho_orig (c : az_cfg) (lon lat : R) : R := az_R c * acos (az_C c lon lat).
