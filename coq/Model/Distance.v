(* Gallina model of geom.Distance over Q (property C09): SQUARED distances, exact.
   Definitions only, executable.  Anchors: geom/alg_distance.go, geom/type_envelope.go:Distance,
   geom/xy.go (Sub, Dot, Scale, Add, Length).

   The Go code works with float64 lengths (one math.Sqrt per Length()); the model keeps every
   quantity squared, so that it stays in Q:
     proj < 0        <->  (xy-a).(b-a) < 0           (proj = (xy-a).(b-a) / |ab|, |ab| > 0)
     proj > abLen    <->  (xy-a).(b-a) > |ab|^2
     (|ab x ap| / abLen)^2 = (ab x ap)^2 / |ab|^2
   The value returned by Go is compared with the square root of the model's value.

   What is abstracted: the R-tree (rtree.BulkLoad, PrioritySearch) and the early termination
   `recordEnv.Distance(env) > minDist -> Stop`.  [dist2] takes the minimum over ALL pairs of parts.
   This is justified by (i) property C11 (PrioritySearch enumerates every record, in order of
   increasing box distance to the query box) and (ii) the theorem [pruned_search_is_min] of
   Props/C09.v about [pruned_search] below: on a stream sorted by a lower bound of the part
   distance, stopping at the first record whose bound exceeds the best value so far returns the
   minimum over the whole stream; the lower bound is [box_d2_le_*] (Proofs). *)
From Coq Require Import QArith Qabs Qreduction List Bool ZArith Lia.
From SF Require Import Base.GeomAST Base.QKernel Base.Planar Model.Intersects.
Import ListNotations.
Open Scope Q_scope.

(* ---------------------------------------------------------------- vectors *)
Definition vsub (p q : pt) : pt := (fst p - fst q, snd p - snd q).     (* XY.Sub *)
Definition vdot (u v : pt) : Q := fst u * fst v + snd u * snd v.       (* XY.Dot *)
(* distBetweenXYs, squared: xy1.Sub(xy2).lengthSq() *)
Definition d2_xy (p q : pt) : Q := let w := vsub p q in vdot w w.

(* XY.Cross *)
Definition vcross (u v : pt) : Q := fst u * snd v - snd u * fst v.

(* distBetweenXYAndLine, squared (after fix F91: the perpendicular distance |ab x ap| / |ab| when
   the foot of the perpendicular is inside the segment; before the fix the code constructed the
   foot a + ab * (proj/abLen) and measured to it - the same real number, see d2_xy_line_closest) *)
Definition d2_xy_line (xy : pt) (ln : seg) : Q :=
  let '(a, b) := ln in
  let ab := vsub b a in
  let l2 := vdot ab ab in                       (* abLen^2 *)
  let ap := vsub xy a in
  let pr := vdot ap ab in                       (* proj * abLen *)
  if qltb pr 0 then d2_xy xy a                  (* proj < 0 *)
  else if qltb l2 pr then d2_xy xy b            (* proj > abLen *)
  else let c := vcross ab ap in c * c / l2.     (* (|ab x ap| / abLen)^2 *)

(* the point of the segment that realises the distance (specification only) *)
Definition closest_on_line (xy : pt) (ln : seg) : pt :=
  let '(a, b) := ln in
  let ab := vsub b a in
  let l2 := vdot ab ab in
  let pr := vdot (vsub xy a) ab in
  if qltb pr 0 then a
  else if qltb l2 pr then b
  else
    let t := pr / l2 in
    (fst ab * t + fst a, snd ab * t + snd a).

(* fastMin *)
Definition qmin (a b : Q) : Q := if qltb a b then a else b.

(* distBetweenLineAndLine: the minimum of the four end-point-to-line distances *)
Definition d2_line_line (ln1 ln2 : seg) : Q :=
  qmin (qmin (qmin (d2_xy_line (fst ln1) ln2) (d2_xy_line (snd ln1) ln2))
             (d2_xy_line (fst ln2) ln1))
       (d2_xy_line (snd ln2) ln1).

(* ---------------------------------------------------------------- parts of a geometry *)
(* extractXYsAndLines: the XYs ... *)
Fixpoint part_xys (g : geom) : list pt :=
  match g with
  | GPoint p => point_pts p                                  (* Point.asXYs *)
  | GMPoint _ ps => flat_map point_pts ps                    (* MultiPoint.asXYs: empty points skipped *)
  | GColl _ gs => flat_map part_xys gs                       (* walk: leaves in order *)
  | _ => []
  end.
(* ... and the lines (polygons contribute their boundary only) *)
Fixpoint part_lines (g : geom) : list seg :=
  match g with
  | GLine l => ls_lines l
  | GPoly y => poly_lines y
  | GMLine _ ls => mls_lines ls
  | GMPoly _ ys => mpoly_lines ys
  | GColl _ gs => flat_map part_lines gs
  | _ => []
  end.

(* ---------------------------------------------------------------- the search *)
(* minDist: None is +Inf *)
Definition omin (m : option Q) (d : Q) : option Q :=
  match m with None => Some d | Some x => Some (qmin x d) end.

(* one PrioritySearch without the early stop: every record of the indexed operand *)
Definition scan_xy (xy : pt) (xys2 : list pt) (lns2 : list seg) (m : option Q) : option Q :=
  fold_left (fun m ln => omin m (d2_xy_line xy ln)) lns2
    (fold_left (fun m q => omin m (d2_xy xy q)) xys2 m).
Definition scan_line (ln : seg) (xys2 : list pt) (lns2 : list seg) (m : option Q) : option Q :=
  fold_left (fun m ln2 => omin m (d2_line_line ln2 ln)) lns2
    (fold_left (fun m q => omin m (d2_xy_line q ln)) xys2 m).

Definition search_all (xys1 : list pt) (lns1 : list seg) (xys2 : list pt) (lns2 : list seg) : option Q :=
  fold_left (fun m ln => scan_line ln xys2 lns2 m) lns1
    (fold_left (fun m xy => scan_xy xy xys2 lns2 m) xys1 None).

(* geom/alg_distance.go:Distance, squared.  None is the (0, false) result *)
Definition dist2 (g1 g2 : geom) : option Q :=
  if intersects g1 g2 then Some 0
  else
    let xys1 := part_xys g1 in let lns1 := part_lines g1 in
    let xys2 := part_xys g2 in let lns2 := part_lines g2 in
    (* the operand with more parts goes into the tree *)
    if Nat.ltb (length xys2 + length lns2) (length xys1 + length lns1)
    then search_all xys2 lns2 xys1 lns1
    else search_all xys1 lns1 xys2 lns2.

(* ---------------------------------------------------------------- the pruned search *)
(* searchBody on a stream of records in priority order: [key r] is the squared distance between
   the record's box and the query box, [val r] the squared distance of the part itself *)
Fixpoint pruned_search {R : Type} (key val : R -> Q) (recs : list R) (best : option Q) : option Q :=
  match recs with
  | [] => best
  | r :: rest =>
      match best with
      | Some b => if qltb b (key r) then best                       (* d > minDist: Stop *)
                  else pruned_search key val rest (omin best (val r))
      | None => pruned_search key val rest (omin best (val r))       (* d > +Inf is false *)
      end
  end.
Definition full_search {R : Type} (val : R -> Q) (recs : list R) (best : option Q) : option Q :=
  fold_left (fun m r => omin m (val r)) recs best.

(* ---------------------------------------------------------------- envelopes *)
(* geom/type_envelope.go:Distance, squared (both envelopes non-empty) *)
Definition box_d2 (e o : box) : Q :=
  let dx := qmax2 0 (qmax2 (bminx o - bmaxx e) (bminx e - bmaxx o)) in
  let dy := qmax2 0 (qmax2 (bminy o - bmaxy e) (bminy e - bmaxy o)) in
  dx * dx + dy * dy.

(* the bounding box of a non-empty list of points *)
Definition box_add (e : box) (p : pt) : box :=
  MkBox (qmin2 (bminx e) (fst p)) (qmin2 (bminy e) (snd p)) (qmax2 (bmaxx e) (fst p)) (qmax2 (bmaxy e) (snd p)).
Definition box_of_pts (ps : list pt) : option box :=
  match ps with
  | [] => None
  | p :: r => Some (fold_left box_add r (xy_box p))
  end.
(* all control points that Distance looks at *)
Definition part_pts (g : geom) : list pt :=
  part_xys g ++ flat_map (fun ln => [fst ln; snd ln]) (part_lines g).
Definition parts_box (g : geom) : option box := box_of_pts (part_pts g).

(* ---------------------------------------------------------------- judging a float64 result *)
(* |d - sqrt m| <= rel * d + abs  for d, rel, abs >= 0, decided without taking a root *)
Definition sqrt_close (d m rel abs : Q) : bool :=
  let tol := rel * d + abs in
  let lo := d - tol in
  let hi := d + tol in
  Qle_bool 0 d && (Qle_bool lo 0 || Qle_bool (lo * lo) m) && Qle_bool m (hi * hi).

(* largest |ordinate| among the control points of g (0 if none) *)
Definition qabs_max (m : Q) (p : pt) : Q := qmax2 (qmax2 m (Qabs (fst p))) (Qabs (snd p)).
Definition magnitude (a b : geom) : Q := fold_left qabs_max (part_pts a ++ part_pts b) 0.

(* exact rational value of a finite float64 given as sign, 53-bit integer significand and binary
   exponent: (-1)^s * m * 2^e *)
Definition q_of_dyadic (neg : bool) (m : Z) (e : Z) : Q :=
  let v := if (0 <=? e)%Z then inject_Z (m * 2 ^ e) else Qmake m (Z.to_pos (2 ^ (- e))) in
  if neg then - v else v.

(* ---------------------------------------------------------------- reference value *)
(* exact squared distance of two closed non-degenerate segments by an algorithm that is independent
   of the one in the Go code: 0 if they meet (QKernel.seg_seg), else the constrained minimum of the
   quadratic |a + s(b-a) - c - t(d-c)|^2 over the unit square by clamping (C. Ericson, Real-Time
   Collision Detection, 5.1.9) *)
Definition clamp01 (x : Q) : Q := if qltb x 0 then 0 else if qltb 1 x then 1 else x.
Definition d2_seg_seg_clamp (s t : seg) : Q :=
  let '(a, b) := s in
  let '(c, d) := t in
  let d1 := vsub b a in
  let d2 := vsub d c in
  let r := vsub a c in
  let A := vdot d1 d1 in
  let E := vdot d2 d2 in
  let F := vdot d2 r in
  let C := vdot d1 r in
  let B := vdot d1 d2 in
  let denom := A * E - B * B in
  let s0 := if Qeq_bool denom 0 then 0 else clamp01 ((B * F - C * E) / denom) in
  let t0 := (B * s0 + F) / E in
  let '(s1, t1) :=
    if qltb t0 0 then (clamp01 (- C / A), 0)
    else if qltb 1 t0 then (clamp01 ((B - C) / A), 1)
    else (s0, t0) in
  let p := (fst a + fst d1 * s1, snd a + snd d1 * s1) in
  let q := (fst c + fst d2 * t1, snd c + snd d2 * t1) in
  Qred (d2_xy p q).
Definition d2_seg_seg_ref (s t : seg) : Q :=
  match seg_seg s t with
  | SSEmpty => d2_seg_seg_clamp s t
  | _ => 0
  end.
Definition min_list (l : list Q) : option Q := fold_left omin l None.
(* the executable statement "minimum Euclidean distance between the two point sets": zero iff the
   point sets share a point (decided on the witnesses of the exact arrangement), else the minimum
   over all pairs of boundary parts *)
Definition dist2_ref_with (meet : bool) (a b : geom) : option Q :=
  let xa := part_xys a in let la := part_lines a in
  let xb := part_xys b in let lb := part_lines b in
  match xa ++ map fst la, xb ++ map fst lb with
  | [], _ | _, [] => None
  | _, _ =>
      if meet then Some 0
      else min_list (flat_map (fun p => map (d2_xy p) xb ++ map (d2_xy_line p) lb) xa ++
                     flat_map (fun s => map (fun q => d2_xy_line q s) xb ++ map (d2_seg_seg_ref s) lb) la)
  end.
Definition dist2_ref (a b : geom) : option Q := dist2_ref_with (share_witness a b) a b.

(* squared diameter of the control points (the diameter of a polygonal point set is attained at
   vertices) *)
Definition diam2 (g : geom) : Q :=
  let ps := part_pts g in
  fold_left (fun m p => fold_left (fun m q => qmax2 m (d2_xy p q)) ps m) ps 0.

(* ---------------------------------------------------------------- carrier change Z -> Q *)
Definition zq_vtx (v : vtx Z) : vtx Q :=
  Build_vtx (inject_Z (vx v)) (inject_Z (vy v)) (inject_Z (vz v)) (inject_Z (vm v)).
Definition zq_point (p : pointT Z) : pointT Q := MkPoint (point_ct p) (option_map zq_vtx (point_c p)).
Definition zq_line (l : lineT Z) : lineT Q := MkLine (line_ct l) (map zq_vtx (line_vs l)).
Definition zq_poly (y : polyT Z) : polyT Q := MkPoly (poly_ct y) (map zq_line (poly_rings y)).
Fixpoint zq_geom (g : geomT Z) : geom :=
  match g with
  | GPoint p => GPoint (zq_point p)
  | GLine l => GLine (zq_line l)
  | GPoly y => GPoly (zq_poly y)
  | GMPoint c ps => GMPoint c (map zq_point ps)
  | GMLine c ls => GMLine c (map zq_line ls)
  | GMPoly c ys => GMPoly c (map zq_poly ys)
  | GColl c gs => GColl c (map zq_geom gs)
  end.

(* ---------------------------------------------------------------- a second, cheap reference *)
(* two polygonal point sets share a point iff two of their segments meet, or a vertex / isolated
   point of one lies in the other (a connected piece without boundary contact lies wholly inside
   or wholly outside).  Built only from QKernel.seg_seg and Planar.inG; used by the driver on
   inputs too large for the witness arrangement, and cross-checked against it on the others. *)
Definition seg_meet (s t : seg) : bool := match seg_seg s t with SSEmpty => false | _ => true end.
Definition geom_vertices (g : geom) : list pt := arr_points g ++ flat_map seg_ends (arr_segments g).
Definition share_simple (a b : geom) : bool :=
  existsb (fun s => existsb (seg_meet s) (arr_segments b)) (arr_segments a) ||
  existsb (inG b) (geom_vertices a) || existsb (inG a) (geom_vertices b).

(* ---------------------------------------------------------------- class predicate of known finding F20 *)
(* "some hole ring of an areal member of an operand meets the interior of another areal member of
   the SAME operand" (DESIGN section 0, F20), decided on the witnesses of the arrangement of the
   two members.  Only used to label disagreements between Intersects and the overlay-based
   operations (Relate, Intersection) on such operands. *)
Definition hole_meets_interior (y y' : polyT Q) : bool :=
  existsb (fun w => rings_boundary (tl (poly_ring_segs y)) (fst w) && poly_interior y' (fst w))
          (pair_witnesses (GPoly y) (GPoly y')).
Fixpoint f20_pairs (ys : list (polyT Q)) : bool :=
  match ys with
  | [] => false
  | y :: r => existsb (fun y' => hole_meets_interior y y' || hole_meets_interior y' y) r || f20_pairs r
  end.
Definition f20_class (g : geom) : bool := f20_pairs (g_polys g).

(* ---------------------------------------------------------------- clearance (general-position inputs) *)
(* the quantifier's admission test for float64 inputs: every vertex keeps a squared distance of at
   least tol2 from every non-incident segment and from every different vertex of the two operands *)
Definition clearance_ok (tol2 : Q) (a b : geom) : bool :=
  let V := geom_vertices a ++ geom_vertices b in
  let L := filter (fun s => negb (pt_eqb (fst s) (snd s))) (arr_segments a ++ arr_segments b) in
  forallb (fun v =>
    forallb (fun s => pt_eqb v (fst s) || pt_eqb v (snd s) || Qle_bool tol2 (d2_xy_line v s)) L &&
    forallb (fun w => pt_eqb v w || Qle_bool tol2 (d2_xy v w)) V) V.
