(* Property C20 - empty, zero-value and mixed-empty geometries.

   This file holds (definitions only, all executable):
     1. typed empty geometries of every type ([emp], [emp_geom]),
     2. [insert_empties g plan]: empty members of every type inserted at chosen positions of every
        MultiPoint / MultiLineString / MultiPolygon / GeometryCollection node of g, at any depth,
     3. [strip_empties g]: every empty member of every Multi* / collection node removed,
     4. the zero value Geometry{} (nil payload) next to geometries holding a payload ([gvalue]),
        with the accessor the Go code uses in every type switch,
     5. the NEUTRAL ANSWER TABLE [neutral]: what every modelled operation answers when its
        operand(s) are empty, as read from the Go code (anchors at each row).

   Anchors: geom/type_geometry.go (MustAsGeometryCollection: nil ptr -> GeometryCollection{};
   every `switch g.gtype`), geom/type_geometry_collection.go (IsEmpty, Dimension,
   highestDimensionIgnoreEmpties), geom/type_multi_point.go / type_multi_line_string.go /
   type_multi_polygon.go (IsEmpty: all members empty), geom/alg_relate.go, geom/alg_set_op.go,
   geom/alg_distance.go, geom/alg_intersects.go, geom/alg_convex_hull.go,
   geom/alg_point_on_surface.go. *)
From Coq Require Import List Bool Arith.
From SF Require Import Base.GeomAST.
Import ListNotations.

(* ---------------------------------------------------------------- typed empties *)
(* the shape of an empty geometry: POINT EMPTY, LINESTRING EMPTY, POLYGON EMPTY, a Multi* of n
   empty members (n = 0: MULTI* EMPTY), a collection whose members are again empty shapes
   (EGC [] is GEOMETRYCOLLECTION EMPTY) *)
Inductive emp :=
| EPt | ELn | EPg
| EMPt (n : nat) | EMLn (n : nat) | EMPg (n : nat)
| EGC (ms : list emp).

(* where to insert: at a Multi* / collection node, [here] lists (position, shape) pairs that are
   inserted one after the other (position counted in the list as it is at that moment; a position
   beyond the end appends); [kids] are the plans of the node's members (collections only), in
   order; missing plans mean "leave the member alone" *)
Inductive eplan := EP (here : list (nat * emp)) (kids : list eplan).

Definition insert_at {A} (k : nat) (x : A) (l : list A) : list A := firstn k l ++ x :: skipn k l.

Definition ins_list {A} (mk : emp -> A) (here : list (nat * emp)) (l : list A) : list A :=
  fold_left (fun acc ke => insert_at (fst ke) (mk (snd ke)) acc) here l.

Section Empty.
  Variable F : Type.
  Notation geom := (geomT F).

  Definition empty_point (ct : ctype) : pointT F := MkPoint ct None.      (* NewEmptyPoint(ct) *)
  Definition empty_line (ct : ctype) : lineT F := MkLine ct [].           (* LineString{}.ForceCoordinatesType(ct) *)
  Definition empty_poly (ct : ctype) : polyT F := MkPoly ct [].           (* Polygon{}.ForceCoordinatesType(ct) *)

  (* the empty geometry of shape e with coordinates type ct at every node *)
  Fixpoint emp_geom (ct : ctype) (e : emp) : geom :=
    match e with
    | EPt => GPoint (empty_point ct)
    | ELn => GLine (empty_line ct)
    | EPg => GPoly (empty_poly ct)
    | EMPt n => GMPoint ct (repeat (empty_point ct) n)
    | EMLn n => GMLine ct (repeat (empty_line ct) n)
    | EMPg n => GMPoly ct (repeat (empty_poly ct) n)
    | EGC ms => GColl ct (map (emp_geom ct) ms)
    end.

  (* ---------------------------------------------------------------- insertion *)
  Section Zip.
    Variable f : geom -> eplan -> geom.
    Fixpoint zipk (l : list geom) (ks : list eplan) : list geom :=
      match l with
      | [] => []
      | x :: r => match ks with
                  | [] => x :: r
                  | k :: kr => f x k :: zipk r kr
                  end
      end.
  End Zip.

  (* Point / LineString / Polygon have no members: unchanged.  The members of a Multi* are of one
     type, so the shape of an inserted member is fixed by the node (the shape in the plan is
     ignored there); a collection takes members of every shape.  Inserted members carry the
     node's coordinates type (what the constructors would force them to). *)
  Fixpoint insert_empties (g : geom) (p : eplan) {struct g} : geom :=
    match g, p with
    | GMPoint ct ps, EP here _ => GMPoint ct (ins_list (fun _ => empty_point ct) here ps)
    | GMLine ct ls, EP here _ => GMLine ct (ins_list (fun _ => empty_line ct) here ls)
    | GMPoly ct ys, EP here _ => GMPoly ct (ins_list (fun _ => empty_poly ct) here ys)
    | GColl ct gs, EP here kids => GColl ct (ins_list (emp_geom ct) here (zipk insert_empties gs kids))
    | GPoint _, _ | GLine _, _ | GPoly _, _ => g
    end.

  (* ---------------------------------------------------------------- stripping *)
  Definition keep_points (ps : list (pointT F)) := filter (fun p => negb (point_empty p)) ps.
  Definition keep_lines (ls : list (lineT F)) := filter (fun l => negb (line_empty l)) ls.
  Definition keep_polys (ys : list (polyT F)) := filter (fun y => negb (poly_empty y)) ys.

  (* every empty member removed, at every depth; the top-level value itself stays (an empty
     top-level geometry keeps its type) *)
  Fixpoint strip_empties (g : geom) : geom :=
    match g with
    | GMPoint ct ps => GMPoint ct (keep_points ps)
    | GMLine ct ls => GMLine ct (keep_lines ls)
    | GMPoly ct ys => GMPoly ct (keep_polys ys)
    | GColl ct gs => GColl ct (flat_map (fun x => if is_empty x then [] else [strip_empties x]) gs)
    | GPoint _ | GLine _ | GPoly _ => g
    end.

  (* no Multi* / collection node has an empty member *)
  Fixpoint no_empty_members (g : geom) : bool :=
    match g with
    | GMPoint _ ps => forallb (fun p => negb (point_empty p)) ps
    | GMLine _ ls => forallb (fun l => negb (line_empty l)) ls
    | GMPoly _ ys => forallb (fun y => negb (poly_empty y)) ys
    | GColl _ gs => forallb (fun x => negb (is_empty x) && no_empty_members x) gs
    | GPoint _ | GLine _ | GPoly _ => true
    end.

  (* ---------------------------------------------------------------- dimension *)
  (* geom/type_geometry.go:Dimension; type_geometry_collection.go:Dimension - the maximum over
     ALL members (empty ones count), 0 for a collection without members *)
  Fixpoint dimension (g : geom) : nat :=
    match g with
    | GPoint _ | GMPoint _ _ => 0
    | GLine _ | GMLine _ _ => 1
    | GPoly _ | GMPoly _ _ => 2
    | GColl _ gs => fold_right (fun x acc => Nat.max (dimension x) acc) 0 gs
    end.
  (* geom/type_geometry_collection.go:highestDimensionIgnoreEmpties *)
  Fixpoint dimension_ie (g : geom) : nat :=
    match g with
    | GColl _ gs => fold_right (fun x acc => Nat.max (dimension_ie x) acc) 0 gs
    | _ => if is_empty g then 0 else dimension g
    end.

  (* number of members / of all nodes below (NumPoints, NumLineStrings, NumPolygons,
     NumGeometries): NOT transparent by design (they count empty members); listed so that the
     harness knows to exclude them from the transparency comparison *)
  Definition num_members (g : geom) : nat :=
    match g with
    | GMPoint _ ps => length ps | GMLine _ ls => length ls | GMPoly _ ys => length ys
    | GColl _ gs => length gs
    | _ => 0
    end.

  (* ---------------------------------------------------------------- the zero Geometry *)
  (* geom.Geometry is {gtype; ptr}.  The zero value has gtype = TypeGeometryCollection (0) and a
     nil ptr; every other value is built by AsGeometry() of a concrete value and holds a payload. *)
  Inductive gvalue := GZero | GVal (g : geom).

  (* type_geometry.go: every method is `switch g.gtype { case TypeGeometryCollection:
     g.MustAsGeometryCollection().M() ... }` and MustAsGeometryCollection returns
     GeometryCollection{} (XY, no members) for the nil ptr *)
  Definition payload (v : gvalue) : geom :=
    match v with
    | GZero => GColl XY []
    | GVal g => g
    end.
  Definition lift {A} (obs : geom -> A) (v : gvalue) : A := obs (payload v).

  (* the pinned code before the repair of F4: AppendWKT cast g.ptr directly *)
  Inductive wkt_out (A : Type) := WOk (a : A) | WNilDeref.
  Definition append_wkt_unfixed {A} (wkt : geom -> A) (v : gvalue) : wkt_out A :=
    match v with
    | GZero => WNilDeref _
    | GVal g => WOk _ (wkt g)
    end.
  Definition append_wkt_fixed {A} (wkt : geom -> A) (v : gvalue) : wkt_out A := WOk _ (lift wkt v).
End Empty.

Arguments empty_point {F} _. Arguments empty_line {F} _. Arguments empty_poly {F} _.
Arguments emp_geom {F} _ _. Arguments zipk {F} _ _ _. Arguments insert_empties {F} _ _.
Arguments keep_points {F} _. Arguments keep_lines {F} _. Arguments keep_polys {F} _.
Arguments strip_empties {F} _. Arguments no_empty_members {F} _.
Arguments dimension {F} _. Arguments dimension_ie {F} _. Arguments num_members {F} _.
Arguments GZero {F}. Arguments GVal {F} _. Arguments payload {F} _. Arguments lift {F A} _ _.
Arguments WOk {A} _. Arguments WNilDeref {A}.
Arguments append_wkt_unfixed {F A} _ _. Arguments append_wkt_fixed {F A} _ _.

(* ================================================================ the neutral answer table *)
(* the operations of the API that the check knows by name (the harness maps method / function
   names to these; everything else is "unmodelled surface": no panic + same as on the explicit
   empty value) *)
Inductive opname :=
(* unary, on any geometry *)
| OIsEmpty | ODimension | OEnvelope | OArea | OLength | OCentroid | OConvexHull | OBoundary
| OPointOnSurface | OIsSimple | ODumpCoordinates | OReverse | OForce2D | OValidate
| OMinAreaRect | OMinWidthRect | OUnaryUnion
| OForceCW | OForceCCW | OIsCW | OIsCCW | OTransformXY | ODensify | OSimplify | OSnapToGrid
(* codecs: encode then decode *)
| OWKB | OWKT | OGeoJSON | OTWKB
(* binary, symmetric emptiness patterns handled by [which] below *)
| OIntersects | ODistance | ORelate | OExactEquals
| OEquals | ODisjoint | OTouches | OContains | OCovers | OWithin | OCoveredBy | OCrosses | OOverlaps
| OUnion | OIntersection | ODifference | OSymDiff.

(* which operands are empty *)
Inductive which := WBoth | WLeft | WRight.   (* both / only the first / only the second *)

Inductive answer :=
| ABool (b : bool)
| ABoolUndefined            (* (false, false): IsSimple of a collection *)
| ATypeDimension            (* the nominal dimension of the type; a collection: max over members, 0 if none *)
| AEmptyEnvelope            (* Envelope{}: IsEmpty, no Min/Max *)
| AZero                     (* 0.0 *)
| AEmptyPoint               (* POINT EMPTY (XY) *)
| AEmptyGeometry            (* some empty geometry: IsEmpty() = true *)
| AEmptyCollection          (* exactly GEOMETRYCOLLECTION EMPTY *)
| ASameForce2D              (* the operand itself, forced to XY *)
| ASame                     (* structurally the operand itself *)
| AEmptySequence            (* Sequence of length 0 *)
| ANoError                  (* nil error *)
| AUndefined                (* (0, false) *)
| AMatrix (m : list nat)    (* DE-9IM, 9 entries row-major, 0 = F, k+1 = dimension k *)
| AMatrixOfOther            (* the closed form for the non-empty operand: Relate.relate_empty_branch *)
| ARoundTrip                (* decode(encode g) is structurally g (up to the format's documented losses) *)
| AUnaryUnionOfOther        (* the self-union of the non-empty operand *)
| ANotApplicable.           (* the emptiness pattern cannot occur / nothing is promised *)

(* what an operation answers when the operands named by [w] are empty (unary operations: WBoth).
   Each row was read off the Go source. *)
Definition neutral (o : opname) (w : which) : answer :=
  match o, w with
  (* type_*.go:IsEmpty *)
  | OIsEmpty, _ => ABool true
  (* type_geometry.go:Dimension: by type, "regardless of whether or not they are empty" *)
  | ODimension, _ => ATypeDimension
  (* type_*.go:Envelope: no coordinates -> zero Envelope *)
  | OEnvelope, _ => AEmptyEnvelope
  (* type_*.go:Area / Length: 0 *)
  | OArea, _ => AZero
  | OLength, _ => AZero
  (* type_*.go:Centroid: "If the Geometry is empty, then an empty Point is returned" *)
  | OCentroid, _ => AEmptyPoint
  (* alg_convex_hull.go:convexHull: `if g.IsEmpty() { return g.Force2D() }` *)
  | OConvexHull, _ => ASameForce2D
  (* type_*.go:Boundary: empty of the boundary type *)
  | OBoundary, _ => AEmptyGeometry
  (* alg_point_on_surface.go / type_*.go:PointOnSurface *)
  | OPointOnSurface, _ => AEmptyPoint
  (* type_geometry.go:IsSimple: true for the six non-collection types when empty;
     (false, false) for a collection - the harness picks by type *)
  | OIsSimple, _ => ABool true
  | ODumpCoordinates, _ => AEmptySequence
  | OReverse, _ => ASame
  | OForce2D, _ => ASameForce2D
  | OValidate, _ => ANoError
  (* type_*.go:ForceCW / ForceCCW / TransformXY / Densify / SnapToGrid: nothing to change *)
  | OForceCW, _ | OForceCCW, _ | OTransformXY, _ | ODensify, _ | OSnapToGrid, _ => ASame
  (* alg_simplify.go: members that collapse (empty ones do) are dropped from Multi* - an empty geometry of the same type *)
  | OSimplify, _ => AEmptyGeometry
  (* type_*.go:IsCW / IsCCW: no ring violates the orientation *)
  | OIsCW, _ | OIsCCW, _ => ABool true
  (* alg_rotating_calipers.go: `hull := g.ConvexHull(); if hull.IsEmpty() { return hull }` - "the
     empty geometry of the same type is returned" *)
  | OMinAreaRect, _ => ASameForce2D
  | OMinWidthRect, _ => ASameForce2D
  (* alg_set_op.go:UnaryUnion = setOp(g, or, Geometry{}): nothing to extract *)
  | OUnaryUnion, _ => AEmptyCollection
  | OWKB, _ | OWKT, _ | OGeoJSON, _ | OTWKB, _ => ARoundTrip
  (* alg_intersects.go: no pair of parts *)
  | OIntersects, _ => ABool false
  (* alg_distance.go: `if len(xys1)+len(lns1) == 0 || ... { return 0, false }` *)
  | ODistance, _ => AUndefined
  (* alg_relate.go:Relate, branch a.IsEmpty() || b.IsEmpty() *)
  | ORelate, WBoth => AMatrix [0; 0; 0; 0; 0; 0; 0; 0; 3]
  | ORelate, _ => AMatrixOfOther
  (* alg_exact_equals.go: structural; nothing promised by emptiness alone *)
  | OExactEquals, _ => ANotApplicable
  (* alg_relate.go:Equals: `if a.IsEmpty() && b.IsEmpty() { return true }`; else FF*FF**** fails
     on the non-empty operand's interior row/column *)
  | OEquals, WBoth => ABool true
  | OEquals, _ => ABool false
  (* FF*FF**** matches every matrix of the empty branch *)
  | ODisjoint, _ => ABool true
  (* the remaining patterns need a T in a row or column of the empty operand *)
  | OTouches, _ | OContains, _ | OCovers, _ | OWithin, _ | OCoveredBy, _
  | OCrosses, _ | OOverlaps, _ => ABool false
  (* alg_set_op.go *)
  | OUnion, WBoth => AEmptyCollection
  | OUnion, _ => AUnaryUnionOfOther
  | OIntersection, _ => AEmptyCollection
  | ODifference, WBoth => AEmptyCollection
  | ODifference, WLeft => AEmptyCollection          (* a empty *)
  | ODifference, WRight => AUnaryUnionOfOther       (* b empty: UnaryUnion(a) *)
  | OSymDiff, WBoth => AEmptyCollection
  | OSymDiff, _ => AUnaryUnionOfOther
  end.
