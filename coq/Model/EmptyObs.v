(* Property C20: glue between Model/Empty.v and the models of other properties, for the driver:
   the closed form of Relate for an empty operand (Model/Relate.v, repaired code) on lattice
   geometries, as entry codes (0 = F, k+1 = dimension k). *)
From Coq Require Import QArith ZArith List Bool.
From SF Require Import Base.GeomAST Base.QKernel Base.Planar Model.Relate Model.Empty.
From SF Require Model.Envelope Model.Measure Model.TWKB.
Import ListNotations.

Definition zq_vtx (v : vtx Z) : vtx Q := Build_vtx (inject_Z (vx v)) (inject_Z (vy v)) (inject_Z (vz v)) (inject_Z (vm v)).
Definition zq_point (p : pointT Z) : pointT Q := MkPoint (point_ct p) (option_map zq_vtx (point_c p)).
Definition zq_line (l : lineT Z) : lineT Q := MkLine (line_ct l) (map zq_vtx (line_vs l)).
Definition zq_poly (y : polyT Z) : polyT Q := MkPoly (poly_ct y) (map zq_line (poly_rings y)).
Fixpoint zq_geom (g : geomT Z) : geomT Q :=
  match g with
  | GPoint p => GPoint (zq_point p)
  | GLine l => GLine (zq_line l)
  | GPoly y => GPoly (zq_poly y)
  | GMPoint c ps => GMPoint c (map zq_point ps)
  | GMLine c ls => GMLine c (map zq_line ls)
  | GMPoly c ys => GMPoly c (map zq_poly ys)
  | GColl c gs => GColl c (map zq_geom gs)
  end.

Definition dim_code (d : dimv) : nat := match d with DF => 0 | D0 => 1 | D1 => 2 | D2 => 3 end%nat.

(* geom/alg_relate.go:Relate, branch `a.IsEmpty() || b.IsEmpty()` of the repaired code (F8) *)
Definition relate_empty_codes (a b : geomT Z) : list nat :=
  map dim_code (matrix_list (relate_empty_branch Relate.dimension_ie (zq_geom a) (zq_geom b))).
(* the same with the pinned code's Dimension() (counts empty members) *)
Definition relate_empty_codes_unfixed (a b : geomT Z) : list nat :=
  map dim_code (matrix_list (relate_empty_branch Relate.dimension (zq_geom a) (zq_geom b))).

(* Envelope (Model/Envelope.v) and twice the area (Model/Measure.v) of a lattice geometry, for the
   comparison with the implementation on geometries with inserted empty members *)
Definition env_z (g : geomT Z) : option (Z * Z * (Z * Z)) :=
  match Envelope.env_of Envelope.ZO g with
  | None => None
  | Some b => Some (Envelope.minx b, Envelope.miny b, (Envelope.maxx b, Envelope.maxy b))
  end.
Definition area2_q (g : geomT Z) : Q := Qred (2 * Measure.geom_area false None (zq_geom g)).

(* The bounding box that MarshalTWKB(g, ..., TWKBBoundingBoxHeader()) must announce (Model/TWKB.v:
   expected_info, the specification of C07): (min, max) per wire dimension X Y [Z] [M] over all
   vertices; None when g has no vertex.  Empty members have no vertices, so it cannot see them
   (Props/C20.v: insert_twkb_bbox). *)
Definition twkb_bbox_z (g : geomT Z) : option (list (Z * Z)) := TWKB.env_of (TWKB.geom_pts g).

(* geom/twkb_write.go:writeMultiPoint refuses (error return, finding F5) an empty Point inside a
   non-empty MultiPoint, at any depth: the only geometries with empty members TWKB cannot carry
   (the clause of TWKB.geom_dom for GMPoint, read as a predicate of the geometry alone) *)
Fixpoint twkb_refuses (g : geomT Z) : bool :=
  match g with
  | GMPoint _ ps => negb (forallb point_empty ps) && existsb point_empty ps
  | GColl _ gs => existsb twkb_refuses gs
  | _ => false
  end.
