(* Property C12 - model of geom/type_envelope.go and of every geometry type's Envelope() method.
   Definitions only (executable, no proofs). The model is written once, parametric in the ordinate
   carrier F and in the comparison primitives the Go code uses on float64 ([<], [<=], [==],
   math.IsNaN, math.IsInf); it is instantiated
     - with Z ([ZO]: the integer lattice, no NaN, no infinity) for the theorems and the lattice runs,
     - with the order-isomorphic image of float64 ([KO]: sign-magnitude integer keys, NaN = None)
       for the run on general doubles; min/max selection does no arithmetic, so this image is exact
       up to the identification of -0 with +0 (which is Go's [==]).
   Arithmetic-valued methods (Width, Height, Area, Distance, Center) exist for the Z instance only;
   Distance is modelled by its square (an integer), Center over Q. *)
From Coq Require Import ZArith NArith QArith List Bool.
From SF Require Import Base.GeomAST.
Import ListNotations.

(* the float64 primitives used by the transcribed code *)
Record ops (F : Type) := MkOps {
  o_zero : F;
  o_lt : F -> F -> bool;      (* a < b  *)
  o_le : F -> F -> bool;      (* a <= b *)
  o_eq : F -> F -> bool;      (* a == b *)
  o_nan : F -> bool;          (* math.IsNaN *)
  o_inf : F -> bool           (* math.IsInf(_, 0) *)
}.
Arguments MkOps {F} _ _ _ _ _ _.
Arguments o_zero {F} _. Arguments o_lt {F} _ _ _. Arguments o_le {F} _ _ _.
Arguments o_eq {F} _ _ _. Arguments o_nan {F} _ _. Arguments o_inf {F} _ _.

Section Env.
  Variable F : Type.
  Variable O : ops F.

  (* geom/type_envelope.go: type Envelope struct { min, max XY; nonEmpty bool }.
     Every constructor of the package leaves min = max = XY{} when nonEmpty is false, so the
     empty envelope carries no data: [None]. *)
  Record box := MkBox { minx : F; miny : F; maxx : F; maxy : F }.
  Definition env := option box.
  Definition xy := (F * F)%type.

  (* geom/util.go:fastMin  -  if math.IsNaN(a) || a < b { return a }; return b *)
  Definition fast_min (a b : F) : F := if o_nan O a || o_lt O a b then a else b.
  (* geom/util.go:fastMax  -  if math.IsNaN(a) || a > b { return a }; return b *)
  Definition fast_max (a b : F) : F := if o_nan O a || o_lt O b a then a else b.

  (* geom/xy.go:validate == nil *)
  Definition xy_valid (p : xy) : bool :=
    negb (o_nan O (fst p) || o_nan O (snd p)) && negb (o_inf O (fst p) || o_inf O (snd p)).

  (* type_envelope.go:IsEmpty *)
  Definition env_is_empty (e : env) : bool := match e with None => true | Some _ => false end.

  (* type_envelope.go:ExpandToIncludeXY *)
  Definition expand_xy (e : env) (p : xy) : env :=
    match e with
    | None => Some (MkBox (fst p) (snd p) (fst p) (snd p))
    | Some b => Some (MkBox (fast_min (minx b) (fst p)) (fast_min (miny b) (snd p))
                            (fast_max (maxx b) (fst p)) (fast_max (maxy b) (snd p)))
    end.

  (* type_envelope.go:NewEnvelope *)
  Definition new_envelope (ps : list xy) : env := fold_left expand_xy ps None.

  (* type_envelope.go:ExpandToIncludeEnvelope *)
  Definition join (e o : env) : env :=
    match e with
    | None => o
    | Some a =>
        match o with
        | None => e
        | Some b => Some (MkBox (fast_min (minx a) (minx b)) (fast_min (miny a) (miny b))
                                (fast_max (maxx a) (maxx b)) (fast_max (maxy a) (maxy b)))
        end
    end.

  (* type_envelope.go:Validate == nil *)
  Definition env_valid (e : env) : bool :=
    match e with
    | None => true
    | Some b => xy_valid (minx b, miny b) && xy_valid (maxx b, maxy b)
    end.

  (* type_envelope.go:IsPoint  -  e.min == e.max on XY structs: X == X && Y == Y *)
  Definition env_is_point (e : env) : bool :=
    match e with
    | None => false
    | Some b => o_eq O (minx b) (maxx b) && o_eq O (miny b) (maxy b)
    end.
  (* type_envelope.go:IsLine  -  (min.X == max.X) != (min.Y == max.Y) *)
  Definition env_is_line (e : env) : bool :=
    match e with
    | None => false
    | Some b => xorb (o_eq O (minx b) (maxx b)) (o_eq O (miny b) (maxy b))
    end.
  (* type_envelope.go:IsRectangle *)
  Definition env_is_rectangle (e : env) : bool :=
    match e with
    | None => false
    | Some b => negb (o_eq O (minx b) (maxx b)) && negb (o_eq O (miny b) (maxy b))
    end.

  (* type_envelope.go:Contains  (p.X >= e.min.X is written e.min.X <= p.X, the same IEEE predicate) *)
  Definition contains (e : env) (p : xy) : bool :=
    match e with
    | None => false
    | Some b => xy_valid p && o_le O (minx b) (fst p) && o_le O (fst p) (maxx b)
                && o_le O (miny b) (snd p) && o_le O (snd p) (maxy b)
    end.

  (* type_envelope.go:Intersects *)
  Definition intersects (e o : env) : bool :=
    match e, o with
    | Some a, Some b => o_le O (minx a) (maxx b) && o_le O (minx b) (maxx a)
                        && o_le O (miny a) (maxy b) && o_le O (miny b) (maxy a)
    | _, _ => false
    end.

  (* type_envelope.go:Covers *)
  Definition covers (e o : env) : bool :=
    match e, o with
    | Some a, Some b => o_le O (minx a) (minx b) && o_le O (miny a) (miny b)
                        && o_le O (maxx b) (maxx a) && o_le O (maxy b) (maxy a)
    | _, _ => false
    end.

  (* xy.go:AsPoint *)
  Definition xy_vtx (x y : F) : vtx F := Build_vtx x y (o_zero O) (o_zero O).
  Definition xy_point (x y : F) : pointT F := MkPoint XY (Some (xy_vtx x y)).

  (* type_envelope.go:Min / Max  (Point{} is the empty XY point) *)
  Definition env_min (e : env) : pointT F :=
    match e with None => MkPoint XY None | Some b => xy_point (minx b) (miny b) end.
  Definition env_max (e : env) : pointT F :=
    match e with None => MkPoint XY None | Some b => xy_point (maxx b) (maxy b) end.

  (* type_envelope.go:MinMaxXYs *)
  Definition min_max_xys (e : env) : xy * xy * bool :=
    match e with
    | None => ((o_zero O, o_zero O), (o_zero O, o_zero O), false)
    | Some b => ((minx b, miny b), (maxx b, maxy b), true)
    end.

  (* type_envelope.go:AsBox  (reads min/max of the struct even when empty: zeros) *)
  Definition as_box (e : env) : (F * F * F * F) * bool :=
    match e with
    | None => ((o_zero O, o_zero O, o_zero O, o_zero O), false)
    | Some b => ((minx b, miny b, maxx b, maxy b), true)
    end.

  (* type_envelope.go:TransformXY *)
  Definition transform_xy (fn : xy -> xy) (e : env) : env :=
    match e with
    | None => None
    | Some b =>
        let u := fn (minx b, miny b) in
        let v := fn (maxx b, maxy b) in
        Some (MkBox (fast_min (fst u) (fst v)) (fast_min (snd u) (snd v))
                    (fast_max (fst u) (fst v)) (fast_max (snd u) (snd v)))
    end.

  (* type_envelope.go:AsGeometry. Geometry{} (the zero value) is the empty XY GeometryCollection. *)
  Definition as_geometry (e : env) : geomT F :=
    match e with
    | None => GColl XY []
    | Some b =>
        if env_is_point e then GPoint (xy_point (minx b) (miny b))
        else if env_is_line e then
          GLine (MkLine XY [xy_vtx (minx b) (miny b); xy_vtx (maxx b) (maxy b)])
        else
          GPoly (new_polygon (o_zero O)
                   [MkLine XY [xy_vtx (minx b) (miny b); xy_vtx (minx b) (maxy b);
                               xy_vtx (maxx b) (maxy b); xy_vtx (maxx b) (miny b);
                               xy_vtx (minx b) (miny b)]])
    end.

  (* type_envelope.go:BoundingDiagonal *)
  Definition bounding_diagonal (e : env) : geomT F :=
    match e with
    | None => GColl XY []
    | Some b =>
        if env_is_point e then GPoint (xy_point (minx b) (miny b))
        else GLine (MkLine XY [xy_vtx (minx b) (miny b); xy_vtx (maxx b) (maxy b)])
    end.

  (* ---------------- Envelope() of every geometry type ---------------- *)

  (* type_sequence.go:Envelope  -  empty for length 0; otherwise lower = upper = first point and
     one pass of fastMin/fastMax over the remaining points *)
  Definition seq_step (b : box) (v : vtx F) : box :=
    MkBox (fast_min (minx b) (vx v)) (fast_min (miny b) (vy v))
          (fast_max (maxx b) (vx v)) (fast_max (maxy b) (vy v)).
  Definition seq_env (vs : list (vtx F)) : env :=
    match vs with
    | [] => None
    | v0 :: rest => Some (fold_left seq_step rest (MkBox (vx v0) (vy v0) (vx v0) (vy v0)))
    end.

  (* type_point.go:Envelope *)
  Definition point_env (p : pointT F) : env :=
    match point_c p with
    | Some v => expand_xy None (vx v, vy v)
    | None => None
    end.
  (* type_line_string.go:Envelope *)
  Definition line_env (l : lineT F) : env := seq_env (line_vs l).
  (* type_polygon.go:ExteriorRing *)
  Definition exterior_ring (p : polyT F) : lineT F :=
    match poly_rings p with
    | [] => MkLine (poly_ct p) []
    | r :: _ => r
    end.
  (* type_polygon.go:Envelope  -  the exterior ring only *)
  Definition poly_env (p : polyT F) : env := line_env (exterior_ring p).
  (* type_multi_point.go / type_multi_line_string.go / type_multi_polygon.go /
     type_geometry_collection.go:Envelope  -  var env Envelope; for each member: env = env.ExpandToIncludeEnvelope(member.Envelope()) *)
  Definition fold_env {A} (f : A -> env) (l : list A) : env :=
    fold_left (fun e a => join e (f a)) l None.
  (* type_geometry.go:Envelope dispatches on the type tag *)
  Fixpoint env_of (g : geomT F) : env :=
    match g with
    | GPoint p => point_env p
    | GLine l => line_env l
    | GPoly p => poly_env p
    | GMPoint _ ps => fold_env point_env ps
    | GMLine _ ls => fold_env line_env ls
    | GMPoly _ ps => fold_env poly_env ps
    | GColl _ gs => fold_left (fun e a => join e (env_of a)) gs None
    end.

  (* ---------------- the transformations the property names ---------------- *)

  (* type_sequence.go:Reverse, type_line_string.go:Reverse *)
  Definition reverse_line (l : lineT F) : lineT F := MkLine (line_ct l) (rev (line_vs l)).
  (* type_polygon.go:Reverse (every ring reversed, ring order kept) *)
  Definition reverse_poly (p : polyT F) : polyT F := MkPoly (poly_ct p) (map reverse_line (poly_rings p)).
  (* type_geometry.go:Reverse; Point and MultiPoint are returned unchanged; the members of
     Multi*/collections are reversed individually, their order kept *)
  Fixpoint reverse_geom (g : geomT F) : geomT F :=
    match g with
    | GPoint p => GPoint p
    | GLine l => GLine (reverse_line l)
    | GPoly p => GPoly (reverse_poly p)
    | GMPoint ct ps => GMPoint ct ps
    | GMLine ct ls => GMLine ct (map reverse_line ls)
    | GMPoly ct ps => GMPoly ct (map reverse_poly ps)
    | GColl ct gs => GColl ct (map reverse_geom gs)
    end.

  (* type_polygon.go:forceOrientation - each ring is kept or reversed; the decision (sign of the
     ring's signed area, whether it is the exterior ring, the requested direction) is abstracted
     as an arbitrary oracle [keep is_exterior ring] *)
  Variable keep : bool -> lineT F -> bool.
  Definition orient_rings (rs : list (lineT F)) : list (lineT F) :=
    match rs with
    | [] => []
    | r :: hs => (if keep true r then r else reverse_line r)
                 :: map (fun h => if keep false h then h else reverse_line h) hs
    end.
  Definition orient_poly (p : polyT F) : polyT F := MkPoly (poly_ct p) (orient_rings (poly_rings p)).
  Fixpoint orient_geom (g : geomT F) : geomT F :=
    match g with
    | GPoly p => GPoly (orient_poly p)
    | GMPoly ct ps => GMPoly ct (map orient_poly ps)
    | GColl ct gs => GColl ct (map orient_geom gs)
    | _ => g
    end.

  (* ---------------- what the envelope is compared with ---------------- *)

  (* the XY positions Envelope() folds over, in visiting order (polygons: exterior ring only) *)
  Definition vxy (v : vtx F) : xy := (vx v, vy v).
  Definition point_xys (p : pointT F) : list xy := map vxy (point_vs p).
  Definition line_xys (l : lineT F) : list xy := map vxy (line_vs l).
  Definition poly_shell_xys (p : polyT F) : list xy := line_xys (exterior_ring p).
  Fixpoint visited_xys (g : geomT F) : list xy :=
    match g with
    | GPoint p => point_xys p
    | GLine l => line_xys l
    | GPoly p => poly_shell_xys p
    | GMPoint _ ps => flat_map point_xys ps
    | GMLine _ ls => flat_map line_xys ls
    | GMPoly _ ps => flat_map poly_shell_xys ps
    | GColl _ gs => flat_map visited_xys gs
    end.
  (* all control points (what DumpCoordinates returns), XY part *)
  Definition ctrl_xys (g : geomT F) : list xy := map vxy (geom_vs g).

  (* hypothesis the polygon shortcut relies on: every control point of every hole lies in the box
     of the exterior ring (a consequence of validity) *)
  Definition poly_holes_in_shell_box (p : polyT F) : bool :=
    forallb (fun h => forallb (fun v => contains (poly_env p) (vxy v)) (line_vs h)) (tl (poly_rings p)).
  Fixpoint holes_in_shell_box (g : geomT F) : bool :=
    match g with
    | GPoly p => poly_holes_in_shell_box p
    | GMPoly _ ps => forallb poly_holes_in_shell_box ps
    | GColl _ gs => forallb holes_in_shell_box gs
    | _ => true
    end.
  (* hypothesis of "Envelope empty iff geometry empty": no polygon has an empty exterior ring
     (type_polygon.go:IsEmpty: "Rings are not allowed to be empty") *)
  Definition poly_shell_nonempty (p : polyT F) : bool :=
    match poly_rings p with
    | [] => true
    | r :: _ => negb (line_empty r)
    end.
  Fixpoint shells_nonempty (g : geomT F) : bool :=
    match g with
    | GPoly p => poly_shell_nonempty p
    | GMPoly _ ps => forallb poly_shell_nonempty ps
    | GColl _ gs => forallb shells_nonempty gs
    | _ => true
    end.

  (* executable statement of tightness, evaluated on the implementation's own output:
     [e] is empty iff there is no point; otherwise every point is inside [e] (closed intervals) and
     each of the four sides is attained by some point *)
  Definition tight_spec (ps : list xy) (e : env) : bool :=
    match e with
    | None => match ps with [] => true | _ => false end
    | Some b =>
        forallb (fun p => o_le O (minx b) (fst p) && o_le O (fst p) (maxx b)
                          && o_le O (miny b) (snd p) && o_le O (snd p) (maxy b)) ps
        && existsb (fun p => o_eq O (fst p) (minx b)) ps
        && existsb (fun p => o_eq O (fst p) (maxx b)) ps
        && existsb (fun p => o_eq O (snd p) (miny b)) ps
        && existsb (fun p => o_eq O (snd p) (maxy b)) ps
    end.

  Definition box_eqb (a b : box) : bool :=
    o_eq O (minx a) (minx b) && o_eq O (miny a) (miny b)
    && o_eq O (maxx a) (maxx b) && o_eq O (maxy a) (maxy b).
  Definition env_eqb (a b : env) : bool :=
    match a, b with
    | None, None => true
    | Some x, Some y => box_eqb x y
    | _, _ => false
    end.
End Env.

Arguments MkBox {F} _ _ _ _.
Arguments minx {F} _. Arguments miny {F} _. Arguments maxx {F} _. Arguments maxy {F} _.
Arguments fast_min {F} _ _ _. Arguments fast_max {F} _ _ _. Arguments xy_valid {F} _ _.
Arguments env_is_empty {F} _. Arguments expand_xy {F} _ _ _. Arguments new_envelope {F} _ _.
Arguments join {F} _ _ _. Arguments env_valid {F} _ _. Arguments env_is_point {F} _ _.
Arguments env_is_line {F} _ _. Arguments env_is_rectangle {F} _ _. Arguments contains {F} _ _ _.
Arguments intersects {F} _ _ _. Arguments covers {F} _ _ _. Arguments xy_vtx {F} _ _ _.
Arguments xy_point {F} _ _ _. Arguments env_min {F} _ _. Arguments env_max {F} _ _.
Arguments min_max_xys {F} _ _. Arguments as_box {F} _ _. Arguments transform_xy {F} _ _ _.
Arguments as_geometry {F} _ _. Arguments bounding_diagonal {F} _ _.
Arguments seq_step {F} _ _ _. Arguments seq_env {F} _ _. Arguments point_env {F} _ _.
Arguments line_env {F} _ _. Arguments exterior_ring {F} _. Arguments poly_env {F} _ _.
Arguments fold_env {F} _ {A} _ _. Arguments env_of {F} _ _.
Arguments reverse_line {F} _. Arguments reverse_poly {F} _. Arguments reverse_geom {F} _.
Arguments orient_rings {F} _ _. Arguments orient_poly {F} _ _. Arguments orient_geom {F} _ _.
Arguments vxy {F} _. Arguments point_xys {F} _. Arguments line_xys {F} _.
Arguments poly_shell_xys {F} _. Arguments visited_xys {F} _. Arguments ctrl_xys {F} _.
Arguments poly_holes_in_shell_box {F} _ _. Arguments holes_in_shell_box {F} _ _.
Arguments poly_shell_nonempty {F} _. Arguments shells_nonempty {F} _.
Arguments tight_spec {F} _ _ _. Arguments box_eqb {F} _ _ _. Arguments env_eqb {F} _ _ _.

(* ---------------- instance 1: the integer lattice ---------------- *)
Definition ZO : ops Z := MkOps 0%Z Z.ltb Z.leb Z.eqb (fun _ => false) (fun _ => false).
Definition zbox := box Z.
Definition zenv := env Z.

Open Scope Z_scope.

(* type_envelope.go:Width / Height / Area (0 for the empty envelope) *)
Definition width (e : zenv) : Z := match e with None => 0 | Some b => maxx b - minx b end.
Definition height (e : zenv) : Z := match e with None => 0 | Some b => maxy b - miny b end.
Definition area (e : zenv) : Z :=
  match e with None => 0 | Some b => (maxx b - minx b) * (maxy b - miny b) end.

(* type_envelope.go:Distance, squared: dx*dx + dy*dy (the Go method returns its square root and
   [true]); [None] is the (0, false) result for an empty operand *)
Definition dist2 (e o : zenv) : option Z :=
  match e, o with
  | Some a, Some b =>
      let dx := fast_max ZO 0 (fast_max ZO (minx b - maxx a) (minx a - maxx b)) in
      let dy := fast_max ZO 0 (fast_max ZO (miny b - maxy a) (miny a - maxy b)) in
      Some (dx * dx + dy * dy)
  | _, _ => None
  end.

(* type_envelope.go:Center  -  e.min.Add(e.max).Scale(0.5); [None] is the empty Point *)
Definition center (e : zenv) : option (Q * Q) :=
  match e with
  | None => None
  | Some b => Some (Qmake (minx b + maxx b) 2, Qmake (miny b + maxy b) 2)
  end.

(* ---------------- instance 2: float64 through its order-isomorphic integer key ----------------
   A float64 bit pattern is mapped to None (NaN) or Some k, k the sign-magnitude reading of the
   pattern: k = +-(bits mod 2^63). For non-NaN doubles a < b iff key a < key b, a == b iff the
   keys are equal (both zeros have key 0), and +-Inf are the two extreme keys. *)
Definition fkey := option Z.
Definition inf_mag : Z := 9218868437227405312. (* 0x7FF0000000000000 *)
Definition key_of_bits (b : N) : fkey :=
  let mag := Z.of_N (N.land b 9223372036854775807) in
  if inf_mag <? mag then None
  else Some (if N.testbit b 63 then - mag else mag).
Definition k_lt (a b : fkey) : bool :=
  match a, b with Some x, Some y => x <? y | _, _ => false end.
Definition k_le (a b : fkey) : bool :=
  match a, b with Some x, Some y => x <=? y | _, _ => false end.
Definition k_eq (a b : fkey) : bool :=
  match a, b with Some x, Some y => x =? y | _, _ => false end.
Definition k_nan (a : fkey) : bool := match a with None => true | Some _ => false end.
Definition k_inf (a : fkey) : bool := match a with None => false | Some x => Z.abs x =? inf_mag end.
Definition KO : ops fkey := MkOps (Some 0) k_lt k_le k_eq k_nan k_inf.

(* structural identity of observed keys (NaN matches NaN): used to compare model and implementation *)
Definition key_same (a b : fkey) : bool :=
  match a, b with
  | None, None => true
  | Some x, Some y => x =? y
  | _, _ => false
  end.
Definition kbox_same (a b : box fkey) : bool :=
  key_same (minx a) (minx b) && key_same (miny a) (miny b)
  && key_same (maxx a) (maxx b) && key_same (maxy a) (maxy b).
Definition kenv_same (a b : env fkey) : bool :=
  match a, b with
  | None, None => true
  | Some x, Some y => kbox_same x y
  | _, _ => false
  end.

(* ---------------- reading the implementation's float64 results exactly ---------------- *)
(* value * 2^k of a finite double, when that is an integer (k = 0: integers; k = 1: halves) *)
Definition scaled_int_of_bits (k : Z) (b : N) : option Z :=
  let mag := Z.of_N (N.land b 9223372036854775807) in
  let neg := N.testbit b 63 in
  if mag =? 0 then Some 0
  else
    let e := mag / 4503599627370496 in          (* 2^52 *)
    let m := mag mod 4503599627370496 in
    if (e =? 0) || (e =? 2047) then None        (* subnormal / Inf / NaN: not used on the lattice *)
    else
      let sig := 4503599627370496 + m in
      let sh := e - 1075 + k in
      let v := if 0 <=? sh then Some (sig * 2 ^ sh)
               else let d := 2 ^ (- sh) in if sig mod d =? 0 then Some (sig / d) else None in
      match v with
      | Some a => Some (if neg then - a else a)
      | None => None
      end.
Definition int_of_bits (b : N) : option Z := scaled_int_of_bits 0 b.

(* is the double [d] (given by its bits) the square root of the integer n to within [tol] units in
   the last place?  d = D * 2^-52 exactly (d is 0 or >= 1 here), one ulp of d is T * 2^-52 with
   T = 2^(exponent of d); the test is (D - tol*T)^2 <= n * 2^104 <= (D + tol*T)^2, in integers.
   The lattice run uses tol = 2: since the fix F40 Envelope.Distance is math.Hypot(dx, dy), which is
   accurate to about one ulp but not correctly rounded (Hypot(1,6) is one ulp below the correctly
   rounded sqrt 37), and the double nearest to the exact root is itself up to half an ulp away from
   it; the property asks for agreement with the interval definition to within rounding. *)
Definition sqrt_within_ulps (tol : Z) (n : Z) (dbits : N) : bool :=
  match scaled_int_of_bits 52 dbits with
  | None => false
  | Some D =>
      if n =? 0 then D =? 0
      else
        let e := Z.of_N (N.land dbits 9223372036854775807) / 4503599627370496 in
        let T := tol * 2 ^ (Z.max 0 (e - 1023)) in
        (0 <? D) && ((D - T) * (D - T) <=? n * 2 ^ 104) && (n * 2 ^ 104 <=? (D + T) * (D + T))
  end.
Definition sqrt_within_ulp (n : Z) (dbits : N) : bool := sqrt_within_ulps 1 n dbits.

(* carrier change of a whole geometry (bits -> keys, bits -> integers) *)
Section MapGeom.
  Variables A B : Type.
  Variable f : A -> B.
  Definition map_vtx (v : vtx A) : vtx B := Build_vtx (f (vx v)) (f (vy v)) (f (vz v)) (f (vm v)).
  Definition map_point (p : pointT A) : pointT B :=
    MkPoint (point_ct p) (option_map map_vtx (point_c p)).
  Definition map_line (l : lineT A) : lineT B := MkLine (line_ct l) (map map_vtx (line_vs l)).
  Definition map_poly (p : polyT A) : polyT B := MkPoly (poly_ct p) (map map_line (poly_rings p)).
  Fixpoint map_geom (g : geomT A) : geomT B :=
    match g with
    | GPoint p => GPoint (map_point p)
    | GLine l => GLine (map_line l)
    | GPoly p => GPoly (map_poly p)
    | GMPoint ct ps => GMPoint ct (map map_point ps)
    | GMLine ct ls => GMLine ct (map map_line ls)
    | GMPoly ct ps => GMPoly ct (map map_poly ps)
    | GColl ct gs => GColl ct (map map_geom gs)
    end.
End MapGeom.
Arguments map_geom {A B} _ _.

(* integer reading of a lattice geometry; ordinates that are not integers (never produced by the
   lattice generator) are reported by [all_int = false] *)
Definition int_or_zero (b : N) : Z := match int_of_bits b with Some z => z | None => 0 end.
Definition is_int (b : N) : bool := match int_of_bits b with Some _ => true | None => false end.
Definition all_int (g : geomT N) : bool :=
  forallb (fun v => is_int (vx v) && is_int (vy v) && is_int (vz v) && is_int (vm v)) (geom_vs g).

(* the fixed family of point maps used to exercise TransformXY on the lattice *)
Definition zfn (k : nat) (p : Z * Z) : Z * Z :=
  let (x, y) := p in
  match k with
  | 0%nat => (x, y)
  | 1%nat => (- x, y)
  | 2%nat => (y, x)
  | 3%nat => (2 * x + 1, 3 - y)
  | _ => (- y, - x)
  end.

(* ---------------- executable point-set statements over the lattice ----------------
   For envelopes with integer corners the closed-interval point sets are compared through their
   integer points (Proofs/Envelope_proofs.v shows that integer witnesses suffice). These functions
   do not use the min/max comparisons of the methods they judge: they enumerate points. *)
Definition zrange (lo hi : Z) : list Z :=
  map (fun i => lo + Z.of_nat i) (seq 0 (Z.to_nat (hi - lo + 1))).
Definition box_points (b : zbox) : list (Z * Z) :=
  flat_map (fun x => map (fun y => (x, y)) (zrange (miny b) (maxy b))) (zrange (minx b) (maxx b)).
Definition env_points (e : zenv) : list (Z * Z) :=
  match e with None => [] | Some b => box_points b end.
Definition pt_eqb (p q : Z * Z) : bool := (fst p =? fst q) && (snd p =? snd q).
Definition mem_pt (p : Z * Z) (l : list (Z * Z)) : bool := existsb (pt_eqb p) l.
(* "has any points in common" *)
Definition intersects_spec (a b : zenv) : bool :=
  existsb (fun p => mem_pt p (env_points b)) (env_points a).
(* "every point of the other envelope is contained in this envelope", both non-empty *)
Definition covers_spec (a b : zenv) : bool :=
  negb (env_is_empty a) && negb (env_is_empty b)
  && forallb (fun q => mem_pt q (env_points a)) (env_points b).
(* least squared distance over all pairs of points; None when an operand is empty *)
Definition sqd (p q : Z * Z) : Z :=
  (fst p - fst q) * (fst p - fst q) + (snd p - snd q) * (snd p - snd q).
Definition dist2_spec (a b : zenv) : option Z :=
  fold_left (fun acc p =>
    fold_left (fun acc q =>
      match acc with
      | None => Some (sqd p q)
      | Some d => Some (Z.min d (sqd p q))
      end) (env_points b) acc) (env_points a) None.

(* ---------------- exact reading of float64 results on general (non-lattice) boxes ----------------
   A finite double is m * 2^e exactly ([dy_of_bits]); differences, sums and products of such values
   are computed exactly, and a float64 result of the implementation is accepted when it lies within
   a stated number of units in the last place of the exact value (an infinite result only when the
   exact value is beyond the float64 range). No float arithmetic is trusted here. *)
Definition dy := (Z * Z)%type.                       (* (m, e) stands for m * 2^e *)
Definition f64_mag (b : N) : Z := Z.of_N (N.land b 9223372036854775807).
Definition f64_exp (b : N) : Z := f64_mag b / 4503599627370496.
Definition dy_of_bits (b : N) : option dy :=
  let e := f64_exp b in
  let m := f64_mag b mod 4503599627370496 in
  if e =? 2047 then None
  else
    let sig := if e =? 0 then m else 4503599627370496 + m in
    Some (if N.testbit b 63 then - sig else sig, Z.max e 1 - 1075).
Definition dy_zero : dy := (0, 0).
Definition dy_align (x y : dy) : Z * Z :=
  let e := Z.min (snd x) (snd y) in (Z.shiftl (fst x) (snd x - e), Z.shiftl (fst y) (snd y - e)).
Definition dy_sub (x y : dy) : dy := let (a, b) := dy_align x y in (a - b, Z.min (snd x) (snd y)).
Definition dy_add (x y : dy) : dy := let (a, b) := dy_align x y in (a + b, Z.min (snd x) (snd y)).
Definition dy_mul (x y : dy) : dy := (fst x * fst y, snd x + snd y).
Definition dy_le (x y : dy) : bool := let (a, b) := dy_align x y in a <=? b.
Definition dy_lt (x y : dy) : bool := let (a, b) := dy_align x y in a <? b.
Definition dy_abs (x : dy) : dy := (Z.abs (fst x), snd x).
Definition dy_max (x y : dy) : dy := if dy_le x y then y else x.
Definition dy_half (x : dy) : dy := (fst x, snd x - 1).
(* tol units in the last place of the double with bits b *)
Definition dy_ulps (tol : Z) (b : N) : dy := (tol, Z.max (f64_exp b) 1 - 1075).
(* values of at least (2^54 - 1) * 2^970 = MaxFloat64 + half an ulp round to infinity *)
Definition overflow_threshold : dy := (18014398509481983, 970).
Definition is_inf_bits (b : N) : bool := f64_mag b =? inf_mag.
(* is the double r within tol ulps (of r) of the exact value x; +-Inf only beyond the range *)
Definition close_to (tol : Z) (x : dy) (r : N) : bool :=
  match dy_of_bits r with
  | Some v => dy_le (dy_abs (dy_sub x v)) (dy_ulps tol r)
  | None => is_inf_bits r && dy_le overflow_threshold (dy_abs x)
            && Bool.eqb (N.testbit r 63) (fst x <? 0)
  end.

Definition box_dy (b : box N) : option (box dy) :=
  match dy_of_bits (minx b), dy_of_bits (miny b), dy_of_bits (maxx b), dy_of_bits (maxy b) with
  | Some a, Some c, Some d, Some e => Some (MkBox a c d e)
  | _, _, _, _ => None
  end.

(* Width / Height: the correctly rounded difference (within 1 ulp) *)
Definition width_close (b : box dy) (w : N) : bool := close_to 1 (dy_sub (maxx b) (minx b)) w.
Definition height_close (b : box dy) (h : N) : bool := close_to 1 (dy_sub (maxy b) (miny b)) h.
(* Area against the exact product of the exact sides (within 2 ulps; underflow to a subnormal or
   zero and overflow to +Inf are what rounding gives) *)
Definition area_close (b : box dy) (a : N) : bool :=
  close_to 2 (dy_mul (dy_sub (maxx b) (minx b)) (dy_sub (maxy b) (miny b))) a.
(* Center: the midpoint within 2 ulps *)
Definition mid_close (lo hi : dy) (c : N) : bool := close_to 2 (dy_half (dy_add lo hi)) c.
(* the sum min+max itself leaves the float64 range although the midpoint does not *)
Definition mid_sum_overflows (lo hi : dy) : bool := dy_le overflow_threshold (dy_abs (dy_add lo hi)).

(* Distance: exact squared distance of two boxes, and the test that a double is its square root
   within tol ulps: (r - u)^2 <= s <= (r + u)^2 *)
Definition gap_dy (lo1 hi1 lo2 hi2 : dy) : dy :=
  dy_max dy_zero (dy_max (dy_sub lo2 hi1) (dy_sub lo1 hi2)).
Definition dist_sq_exact (a b : box dy) : dy :=
  let gx := gap_dy (minx a) (maxx a) (minx b) (maxx b) in
  let gy := gap_dy (miny a) (maxy a) (miny b) (maxy b) in
  dy_add (dy_mul gx gx) (dy_mul gy gy).
Definition sqrt_close (tol : Z) (s : dy) (r : N) : bool :=
  match dy_of_bits r with
  | Some v =>
      let u := dy_ulps tol r in
      let lo := dy_max dy_zero (dy_sub v u) in
      let hi := dy_add v u in
      dy_le dy_zero v && dy_le (dy_mul lo lo) s && dy_le s (dy_mul hi hi)
  | None => is_inf_bits r && negb (N.testbit r 63)
            && dy_le (dy_mul overflow_threshold overflow_threshold) s
  end.
(* the squares computed by dx*dx + dy*dy leave the normal float64 range although the distance
   itself is representable: a non-zero gap whose square is below 2^-1022, or a sum of squares of
   at least 2^1024 *)
Definition sq_underflows (g : dy) : bool := negb (fst g =? 0) && dy_lt (dy_mul g g) (1, -1022).
Definition dist_squares_out_of_range (a b : box dy) : bool :=
  let gx := gap_dy (minx a) (maxx a) (minx b) (maxx b) in
  let gy := gap_dy (miny a) (maxy a) (miny b) (maxy b) in
  sq_underflows gx || sq_underflows gy || dy_le (1, 1024) (dist_sq_exact a b).
