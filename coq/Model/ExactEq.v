(* Model of geom.ExactEquals (property C18).
   Anchors: geom/alg_exact_equals.go (eq, geometriesEq, lineStringsEq, pointsEq, multiPointsEq,
   polygonsEq, multiLineStringsEq, multiPolygonsEq, geometryCollectionsEq, structureEq,
   validPermutation), geom/type_line_string.go (IsClosed, IsRing), geom/type_polygon.go
   (ExteriorRing, NumInteriorRings, InteriorRingN).

   The transcription is generic in
     F       the ordinate carrier,
     feq     Go's == on float64 (used for Z, M and by IsClosed),
     xy_eq   the XY part of exactEqualsComparator.eq (exact comparison, or squared distance
             against the squared tolerance),
     simple  LineString.IsSimple, which belongs to property C03 and is an oracle here,
     io      the IgnoreOrder option.
   The second half instantiates F with raw IEEE-754 bit patterns (N) and gives the executable
   statement of the property (WKB equality after normalising -0).

   The model follows the code AFTER the two repairs prepared with this property:
     F11  eq compares X and Y exactly when the squared tolerance is zero (the squared distance of
          two distinct tiny ordinates underflows to 0);
     F50  a ring may only be matched under rotation when its closing vertex equals its first
          vertex in every ordinate (IsClosed looks at X and Y only; the rotation index map never
          reads the closing vertex of the second ring);
     F52  the tolerance test compares distance and tolerance after scaling both by one power of
          two, so that the squares neither overflow (values above about 1e154: every pair of
          points used to be "within" such a tolerance) nor underflow (below about 1e-162: the
          squared tolerance was 0 and the comparison became exact); "no tolerance" is
          tolerance == 0, not squared tolerance == 0.  The model's arithmetic is exact (Q), so
          xy_eq_bits is the statement d^2 <= e^2 itself at every magnitude. *)
From Coq Require Import NArith ZArith QArith List Bool Lia Permutation.
From SF Require Import Base.GeomAST Base.Bytes Base.Outcome Model.WKB.
Import ListNotations.
Local Close Scope Q_scope.
Local Open Scope nat_scope.

Section ExactEq.
  Variable F : Type.
  Variable feq : F -> F -> bool.
  Variable xy_eq : vtx F -> vtx F -> bool.
  Variable simple : lineT F -> bool.
  Variable io : bool.

  (* alg_exact_equals.go:eq  (a.Type, b.Type are the coordinate types of the owning sequences) *)
  Definition coord_eq (cta : ctype) (a : vtx F) (ctb : ctype) (b : vtx F) : bool :=
    ct_eqb cta ctb
    && xy_eq a b
    && (negb (has_z cta) || feq (vz a) (vz b))
    && (negb (has_m cta) || feq (vm a) (vm b)).

  (* lineStringsEq:sameCurve.  An index outside the sequence would make Sequence.Get panic;
     every call below stays in range (lemma same_curve_in_range), the [false] is never taken. *)
  Definition same_curve (ct1 ct2 : ctype) (c1 c2 : list (vtx F)) (n : nat)
             (m1 m2 : nat -> nat) : bool :=
    forallb (fun i => match nth_error c1 (m1 i), nth_error c2 (m2 i) with
                      | Some a, Some b => coord_eq ct1 a ct2 b
                      | _, _ => false
                      end) (seq 0 n).

  (* type_line_string.go:IsClosed  !s.IsEmpty() && s.seq.GetXY(0) == s.seq.GetXY(n-1) *)
  Definition is_closed (l : lineT F) : bool :=
    match line_vs l with
    | [] => false
    | v0 :: _ => let vl := last (line_vs l) v0 in feq (vx v0) (vx vl) && feq (vy v0) (vy vl)
    end.
  (* type_line_string.go:IsRing *)
  Definition is_ring (l : lineT F) : bool := is_closed l && simple l.
  (* F50: c.eq(c.Get(0), c.Get(n-1)) *)
  Definition ends_eq (l : lineT F) : bool :=
    match line_vs l with
    | [] => false
    | v0 :: _ => coord_eq (line_ct l) v0 (line_ct l) (last (line_vs l) v0)
    end.

  (* lineStringsEq *)
  Definition line_eq (l1 l2 : lineT F) : bool :=
    let c1 := line_vs l1 in
    let c2 := line_vs l2 in
    let n := length c1 in
    if negb (n =? length c2) then false
    else if negb (ct_eqb (line_ct l1) (line_ct l2)) then false
    else
      let same := same_curve (line_ct l1) (line_ct l2) c1 c2 n in
      let identity := fun i : nat => i in
      let equal := same identity identity in
      if equal || negb io then equal
      else
        let reversed := fun i : nat => n - i - 1 in
        let are_rings := is_ring l1 && is_ring l2 && ends_eq l1 && ends_eq l2 in
        let rev_eq := same identity reversed in
        if rev_eq || negb are_rings then rev_eq
        else
          existsb (fun o => let offset := fun i : nat => (i + o) mod (n - 1) in
                            same identity offset || same reversed offset)
                  (seq 1 (n - 1)).

  (* pointsEq *)
  Definition point_eq (p1 p2 : pointT F) : bool :=
    match point_c p1, point_c p2 with
    | None, None => ct_eqb (point_ct p1) (point_ct p2)
    | Some a, Some b => coord_eq (point_ct p1) a (point_ct p2) b
    | _, _ => false
    end.

  (* multiPointsEq:ptsEq *)
  Definition mpoint_member_eq (p1 p2 : pointT F) : bool :=
    match point_c p1, point_c p2 with
    | None, None => true
    | Some a, Some b => coord_eq (point_ct p1) a (point_ct p2) b
    | _, _ => false
    end.

  (* validPermutation: choices[i], choices[last] = choices[last], choices[i]; choices = choices[:last] *)
  Definition swap_remove {B} (i : nat) (l : list B) : list B :=
    match rev l with
    | [] => []
    | lastx :: _ =>
        let init := removelast l in
        if i =? length init then init else firstn i init ++ lastx :: skipn (S i) init
    end.

  (* validPermutation:recurse.  l1 holds the elements level, level+1, ... of the first geometry,
     choices the still unmatched elements of the second one, in the order of the Go slice. *)
  Section Members.
  Context {A B : Type}.
  Variable eqm : A -> B -> bool.
  Fixpoint valid_permutation (l1 : list A) (choices : list B) : bool :=
    match choices with
    | [] => true
    | _ :: _ =>
        match l1 with
        | [] => false (* eq(level, c) with level = n: unreachable, both sides have n elements *)
        | a :: r =>
            (fix try (i : nat) (cs : list B) : bool :=
               match cs with
               | [] => false
               | c :: cs' =>
                   (eqm a c && valid_permutation r (swap_remove i choices)) || try (S i) cs'
               end) 0%nat choices
        end
    end.

  (* structureEq, second half: for i := 0; i < n; i++ { if !eq(i, i) { return false } } *)
  Fixpoint all2 (l1 : list A) (l2 : list B) : bool :=
    match l1, l2 with
    | [], [] => true
    | a :: r, b :: s => eqm a b && all2 r s
    | _, _ => false (* unreachable: the callers compare the lengths first *)
    end.

  (* structureEq *)
  Definition structure_eq (l1 : list A) (l2 : list B) : bool :=
    if io then valid_permutation l1 l2 else all2 l1 l2.
  End Members.

  (* type_polygon.go:ExteriorRing / InteriorRingN *)
  Definition ext_ring (p : polyT F) : lineT F :=
    match p with
    | MkPoly ct [] => MkLine ct []
    | MkPoly _ (r :: _) => r
    end.
  Definition int_rings (p : polyT F) : list (lineT F) :=
    match poly_rings p with [] => [] | _ :: rs => rs end.

  (* polygonsEq *)
  Definition poly_eq (p1 p2 : polyT F) : bool :=
    (length (int_rings p1) =? length (int_rings p2))
    && line_eq (ext_ring p1) (ext_ring p2)
    && structure_eq line_eq (int_rings p1) (int_rings p2).

  (* geometriesEq and the Multi* / collection comparisons *)
  Fixpoint geom_eq (g h : geomT F) {struct g} : bool :=
    match g, h with
    | GPoint p, GPoint q => point_eq p q
    | GLine l, GLine k => line_eq l k
    | GPoly p, GPoly q => poly_eq p q
    | GMPoint ct1 ps, GMPoint ct2 qs =>
        (length ps =? length qs) && ct_eqb ct1 ct2 && structure_eq mpoint_member_eq ps qs
    | GMLine ct1 ls, GMLine ct2 ks =>
        (length ls =? length ks) && ct_eqb ct1 ct2 && structure_eq line_eq ls ks
    | GMPoly ct1 ps, GMPoly ct2 qs =>
        (length ps =? length qs) && ct_eqb ct1 ct2 && structure_eq poly_eq ps qs
    | GColl ct1 gs, GColl ct2 hs =>
        (length gs =? length hs) && ct_eqb ct1 ct2 && structure_eq geom_eq gs hs
    | _, _ => false
    end.
End ExactEq.

Arguments coord_eq {F} _ _ _ _ _ _.
Arguments same_curve {F} _ _ _ _ _ _ _ _ _.
Arguments is_closed {F} _ _.
Arguments is_ring {F} _ _ _.
Arguments ends_eq {F} _ _ _.
Arguments line_eq {F} _ _ _ _ _ _.
Arguments point_eq {F} _ _ _ _.
Arguments mpoint_member_eq {F} _ _ _ _.
Arguments swap_remove {B} _ _.
Arguments valid_permutation {A B} _ _ _.
Arguments all2 {A B} _ _ _.
Arguments structure_eq _ {A B} _ _ _.
Arguments ext_ring {F} _.
Arguments int_rings {F} _.
Arguments poly_eq {F} _ _ _ _ _ _.
Arguments geom_eq {F} _ _ _ _ _ _.

(* the XY comparison of the repaired eq when no tolerance is given: a.XY != b.XY *)
Definition xy_exact {F} (feq : F -> F -> bool) (a b : vtx F) : bool :=
  feq (vx a) (vx b) && feq (vy a) (vy b).

(* ------------------------------------------------------------------ bit-pattern instance *)
Local Open Scope N_scope.

Definition sign_bit : N := 9223372036854775808.      (* 2^63: the pattern of -0 *)
(* math.IsNaN with shifts and masks (same function as WKB.is_nan, lemma is_nan_fast_eq) *)
Definition is_nan_fast (b : N) : bool :=
  (N.land (N.shiftr b 52) 2047 =? 2047) && negb (N.land b 4503599627370495 =? 0).
Definition is_zero_bits (b : N) : bool := (b =? 0) || (b =? sign_bit).
(* Go's == on two float64 given by their bit patterns: NaN differs from everything, -0 == +0 *)
Definition feq_bits (a b : N) : bool :=
  if a =? b then negb (is_nan_fast a) else is_zero_bits a && is_zero_bits b.
(* the normal form used by the property: -0 becomes +0 *)
Definition nz_bits (b : N) : N := if b =? sign_bit then 0 else b.

(* exact value of a bit pattern: NaN, +-Inf, or the rational it denotes (no rounding anywhere) *)
Inductive ext := ENaN | EInf (neg : bool) | EFin (q : Q).
Definition pow2Q (k : Z) : Q :=
  if (0 <=? k)%Z then inject_Z (2 ^ k) else Qmake 1 (Z.to_pos (2 ^ (- k))).
Definition ext_of_bits (b : N) : ext :=
  let neg := N.testbit b 63 in
  let e := N.land (N.shiftr b 52) 2047 in
  let m := N.land b 4503599627370495 in
  if e =? 2047 then (if m =? 0 then EInf neg else ENaN)   (* ENaN iff is_nan_fast b *)
  else
    let mag : Q :=
      if e =? 0 then (inject_Z (Z.of_N m) * pow2Q (-1074))%Q
      else (inject_Z (Z.of_N (4503599627370496 + m)) * pow2Q (Z.of_N e - 1075))%Q in
    EFin (if neg then (- mag)%Q else mag).
(* a - b of xy.go:Sub, exactly *)
Definition ext_sub (a b : ext) : ext :=
  match a, b with
  | ENaN, _ | _, ENaN => ENaN
  | EInf s, EInf s' => if Bool.eqb s s' then ENaN else EInf s
  | EInf s, EFin _ => EInf s
  | EFin _, EInf s => EInf (negb s)
  | EFin p, EFin q => EFin (p - q)
  end.
(* alg_exact_equals.go:exceedsTolerance  dx*dx+dy*dy > tol*tol (after the exact rescaling of
   dx, dy, tol by a common power of two), for a finite tolerance t *)
Definition len_sq_gt (dx dy : ext) (t : Q) : bool :=
  match dx, dy with
  | ENaN, _ | _, ENaN => false           (* NaN > x is false *)
  | EInf _, _ | _, EInf _ => true        (* +Inf > finite *)
  | EFin p, EFin q => negb (Qle_bool (p * p + q * q) (t * t))
  end.

(* the XY part of eq under ToleranceXY(within); [tol] is the bit pattern of [within]
   (0 when the option is absent).  Exact arithmetic: agrees with the float64 code wherever the
   subtraction, the squares and their sum are exact or far from the threshold. *)
Definition xy_eq_bits (tol : N) (a b : vtx N) : bool :=
  if is_zero_bits tol then xy_exact feq_bits a b     (* c.tolerance == 0: a.XY != b.XY *)
  else
    match ext_of_bits tol with
    | EFin t =>
        negb (len_sq_gt (ext_sub (ext_of_bits (vx a)) (ext_of_bits (vx b)))
                        (ext_sub (ext_of_bits (vy a)) (ext_of_bits (vy b))) t)
    | _ => true   (* the tolerance is +-Inf or NaN: nothing is greater *)
    end.

(* ExactEquals(g, h, opts...) on bit patterns *)
Definition exact_equals (simple : lineT N -> bool) (tol : N) (io : bool) (g h : geom) : bool :=
  geom_eq feq_bits (xy_eq_bits tol) simple io g h.

(* ------------------------------------------------------------------ normal form and spec *)
Section Norm.
  Variable F : Type.
  Variable nz : F -> F.
  Variable zero : F.
  (* ordinates the coordinate type does not use are not part of the value *)
  Definition norm_vtx (ct : ctype) (v : vtx F) : vtx F :=
    Build_vtx (nz (vx v)) (nz (vy v))
              (if has_z ct then nz (vz v) else zero) (if has_m ct then nz (vm v) else zero).
  Definition norm_point (p : pointT F) : pointT F :=
    let 'MkPoint ct c := p in MkPoint ct (option_map (norm_vtx ct) c).
  Definition norm_line (l : lineT F) : lineT F :=
    let 'MkLine ct vs := l in MkLine ct (map (norm_vtx ct) vs).
  Definition norm_poly (p : polyT F) : polyT F :=
    let 'MkPoly ct rs := p in MkPoly ct (map norm_line rs).
  Fixpoint norm_geom (g : geomT F) : geomT F :=
    match g with
    | GPoint p => GPoint (norm_point p)
    | GLine l => GLine (norm_line l)
    | GPoly p => GPoly (norm_poly p)
    | GMPoint ct ps => GMPoint ct (map norm_point ps)
    | GMLine ct ls => GMLine ct (map norm_line ls)
    | GMPoly ct ps => GMPoly ct (map norm_poly ps)
    | GColl ct gs => GColl ct (map norm_geom gs)
    end.

  (* every used ordinate satisfies ok (= is not NaN) *)
  Variable ok : F -> bool.
  Definition vtx_nf (ct : ctype) (v : vtx F) : bool :=
    ok (vx v) && ok (vy v) && (negb (has_z ct) || ok (vz v)) && (negb (has_m ct) || ok (vm v)).
  Definition point_nf (p : pointT F) : bool :=
    match point_c p with None => true | Some v => vtx_nf (point_ct p) v end.
  Definition line_nf (l : lineT F) : bool := forallb (vtx_nf (line_ct l)) (line_vs l).
  (* rings are never empty (type_polygon.go:IsEmpty relies on it) *)
  Definition ring_nf (l : lineT F) : bool :=
    line_nf l && match line_vs l with [] => false | _ => true end.
  Definition poly_nf (p : polyT F) : bool := forallb ring_nf (poly_rings p).
  Fixpoint geom_nf (g : geomT F) : bool :=
    match g with
    | GPoint p => point_nf p
    | GLine l => line_nf l
    | GPoly p => poly_nf p
    | GMPoint _ ps => forallb point_nf ps
    | GMLine _ ls => forallb line_nf ls
    | GMPoly _ ps => forallb poly_nf ps
    | GColl _ gs => forallb geom_nf gs
    end.
End Norm.
Arguments norm_vtx {F} _ _ _ _. Arguments norm_point {F} _ _ _. Arguments norm_line {F} _ _ _.
Arguments norm_poly {F} _ _ _. Arguments norm_geom {F} _ _ _.
Arguments vtx_nf {F} _ _ _. Arguments point_nf {F} _ _. Arguments line_nf {F} _ _.
Arguments ring_nf {F} _ _. Arguments poly_nf {F} _ _. Arguments geom_nf {F} _ _.

(* every node carries the same coordinate type (what the constructors establish) *)
Definition cts_agree {F} (g : geomT F) : bool := consistent (fun _ : F => true) g.

Definition nzg (g : geom) : geom := norm_geom nz_bits 0 g.
Definition nan_free (g : geom) : bool := geom_nf (fun b => negb (is_nan_fast b)) g.

Fixpoint bytes_eqb (a b : list N) : bool :=
  match a, b with
  | [], [] => true
  | x :: r, y :: s => (x =? y) && bytes_eqb r s
  | _, _ => false
  end.
(* the executable statement of the first sentence of the property: the WKB encodings are equal
   once -0 is written as +0 *)
Definition wkb_equal (g h : geom) : bool := bytes_eqb (enc (nzg g)) (enc (nzg h)).

(* ------------------------------------------------------------------ tolerance statement *)
Section TolSpec.
  Variable F : Type.
  (* the control points of a geometry in storage order, each with the coordinate type of the
     sequence (or point) that owns it *)
  Definition point_cvs (p : pointT F) : list (ctype * vtx F) :=
    match point_c p with None => [] | Some v => [(point_ct p, v)] end.
  Definition line_cvs (l : lineT F) : list (ctype * vtx F) := map (pair (line_ct l)) (line_vs l).
  Definition poly_cvs (p : polyT F) : list (ctype * vtx F) := flat_map line_cvs (poly_rings p).
  Fixpoint geom_cvs (g : geomT F) : list (ctype * vtx F) :=
    match g with
    | GPoint p => point_cvs p
    | GLine l => line_cvs l
    | GPoly p => poly_cvs p
    | GMPoint _ ps => flat_map point_cvs ps
    | GMLine _ ls => flat_map line_cvs ls
    | GMPoly _ ps => flat_map poly_cvs ps
    | GColl _ gs => flat_map geom_cvs gs
    end.
  (* same type, coordinate types, member counts, emptiness and vertex counts at every node:
     the comparison with every pair of coordinates accepted *)
  Definition same_structure (g h : geomT F) : bool :=
    geom_eq (fun _ _ => true) (fun _ _ => true) (fun _ => false) false g h.
End TolSpec.
Arguments point_cvs {F} _. Arguments line_cvs {F} _. Arguments poly_cvs {F} _.
Arguments geom_cvs {F} _. Arguments same_structure {F} _ _.

(* "relates vertex lists that correspond within distance e" *)
Definition tol_spec (tol : N) (g h : geom) : bool :=
  same_structure g h
  && all2 (fun a b => coord_eq feq_bits (xy_eq_bits tol) (fst a) (snd a) (fst b) (snd b))
          (geom_cvs g) (geom_cvs h).

(* ------------------------------------------------------------------ the IgnoreOrder statement *)
(* "... additionally identifies geometries that differ only by the permutation of collection
   members, of MultiPoint/MultiLineString/MultiPolygon members and of holes, by the direction of a
   LineString, and by the start vertex or direction of a ring - and nothing else."
   OrderEquiv is the least relation containing structural equality (ordinates compared with ==)
   and these moves, closed under symmetry, transitivity and application inside members. *)
Section OrderSpec.
  Local Close Scope N_scope.
  Variable F : Type.
  Variable feq : F -> F -> bool.
  Variable simple : lineT F -> bool.

  Definition veq (ct : ctype) (a b : vtx F) : Prop := coord_eq feq (xy_exact feq) ct a ct b = true.
  Definition plain_eq (g h : geomT F) : Prop := geom_eq feq (xy_exact feq) simple false g h = true.
  (* a ring: closed and simple (IsRing), the closing vertex repeating the first in every ordinate *)
  Definition ring (l : lineT F) : Prop :=
    is_ring feq simple l = true /\ ends_eq feq (xy_exact feq) l = true.
  (* start a closed sequence one vertex later: drop the closing vertex, move the first vertex to
     the end, close again *)
  Definition rot1 (vs : list (vtx F)) : list (vtx F) :=
    match removelast vs with
    | [] => vs
    | v0 :: t => match t with [] => [v0; v0] | v1 :: _ => t ++ [v0; v1] end
    end.
  Definition rotk (k : nat) (vs : list (vtx F)) : list (vtx F) := Nat.iter k rot1 vs.

  Inductive OrderEquiv : geomT F -> geomT F -> Prop :=
  | OE_plain g h : plain_eq g h -> OrderEquiv g h
  | OE_sym g h : OrderEquiv g h -> OrderEquiv h g
  | OE_trans g h k : OrderEquiv g h -> OrderEquiv h k -> OrderEquiv g k
  (* direction of a LineString *)
  | OE_reverse ct vs : OrderEquiv (GLine (MkLine ct vs)) (GLine (MkLine ct (rev vs)))
  (* start vertex and direction of a ring: ws is vs started k vertices later, possibly traversed
     backwards (ordinates up to ==) *)
  | OE_ring ct vs ws k (flip : bool) :
      ring (MkLine ct vs) -> ring (MkLine ct ws) ->
      Forall2 (veq ct) (if flip then rev ws else ws) (rotk k vs) ->
      OrderEquiv (GLine (MkLine ct vs)) (GLine (MkLine ct ws))
  (* member order *)
  | OE_perm_mpoint ct ps qs : Permutation ps qs -> OrderEquiv (GMPoint ct ps) (GMPoint ct qs)
  | OE_perm_mline ct ls ks : Permutation ls ks -> OrderEquiv (GMLine ct ls) (GMLine ct ks)
  | OE_perm_mpoly ct ps qs : Permutation ps qs -> OrderEquiv (GMPoly ct ps) (GMPoly ct qs)
  | OE_perm_coll ct gs hs : Permutation gs hs -> OrderEquiv (GColl ct gs) (GColl ct hs)
  (* order of the holes; the exterior ring stays first *)
  | OE_perm_holes ct e hs ks :
      Permutation hs ks -> OrderEquiv (GPoly (MkPoly ct (e :: hs))) (GPoly (MkPoly ct (e :: ks)))
  (* the moves apply inside members, at every level *)
  | OE_in_poly ct rs ss :
      Forall2 (fun l k => OrderEquiv (GLine l) (GLine k)) rs ss ->
      OrderEquiv (GPoly (MkPoly ct rs)) (GPoly (MkPoly ct ss))
  | OE_in_mline ct ls ks :
      Forall2 (fun l k => OrderEquiv (GLine l) (GLine k)) ls ks ->
      OrderEquiv (GMLine ct ls) (GMLine ct ks)
  | OE_in_mpoly ct ps qs :
      Forall2 (fun p q => OrderEquiv (GPoly p) (GPoly q)) ps qs ->
      OrderEquiv (GMPoly ct ps) (GMPoly ct qs)
  | OE_in_coll ct gs hs :
      Forall2 OrderEquiv gs hs -> OrderEquiv (GColl ct gs) (GColl ct hs).
End OrderSpec.
Arguments veq {F} _ _ _ _. Arguments plain_eq {F} _ _ _ _. Arguments ring {F} _ _ _.
Arguments rot1 {F} _. Arguments rotk {F} _ _. Arguments OrderEquiv {F} _ _ _ _.
