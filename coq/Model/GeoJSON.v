(* Model of the GeoJSON codec (property C06).
   Carrier: N = raw IEEE-754 bit pattern of each float64 (as in Model/WKB.v).  JSON numbers are
   opaque: a JNum carries the bit pattern of the float64 that strconv/encoding/json read or will
   write; the spelling of numbers is an oracle checked by the harness, never by this model.
   Strings are byte lists (UTF-8).  JSON objects keep their members in document order.

   Anchors: geom/geojson_marshal.go, MarshalJSON/UnmarshalJSON of every type (type_*.go),
   geom/geojson_unmarshal.go, geom/geojson_feature_collection.go.

   Abstractions (stated once, here):
   - encoding/json matches struct field names case-insensitively; the model matches them exactly
     (the document grammar of the harness only uses the exact member names);
   - a duplicated "geometries" member re-decodes into the slice of the first one (stale elements
     are reused by encoding/json); the model lets the last member win;
   - geometry validation (UnmarshalGeoJSON without NoValidate) is an oracle observed by the harness. *)
From Coq Require Import Ascii String.
From Coq Require Import NArith List Bool Lia.
From SF Require Import Base.Outcome Base.GeomAST.
Import ListNotations.
Local Open Scope N_scope.

Notation geom := (geomT N).
Definition str := list N.

Fixpoint bytes_of (s : string) : str :=
  match s with
  | EmptyString => []
  | String a r => N_of_ascii a :: bytes_of r
  end.

Fixpoint str_eqb (a b : str) : bool :=
  match a, b with
  | [], [] => true
  | x :: a', y :: b' => (x =? y) && str_eqb a' b'
  | _, _ => false
  end.

Inductive json :=
| JNull
| JBool (b : bool)
| JNum (bits : N)
| JStr (s : str)
| JArr (l : list json)
| JObj (kvs : list (str * json)).

Section JsonInd.
  Variable P : json -> Prop.
  Hypothesis Hnull : P JNull.
  Hypothesis Hbool : forall b, P (JBool b).
  Hypothesis Hnum : forall n, P (JNum n).
  Hypothesis Hstr : forall s, P (JStr s).
  Hypothesis Harr : forall l, Forall P l -> P (JArr l).
  Hypothesis Hobj : forall kvs, Forall (fun kv => P (snd kv)) kvs -> P (JObj kvs).
  Fixpoint json_ind' (j : json) : P j :=
    match j with
    | JNull => Hnull
    | JBool b => Hbool b
    | JNum n => Hnum n
    | JStr s => Hstr s
    | JArr l =>
        Harr l ((fix go (l : list json) : Forall P l :=
                   match l with
                   | [] => Forall_nil P
                   | x :: r => Forall_cons x (json_ind' x) (go r)
                   end) l)
    | JObj kvs =>
        Hobj kvs ((fix go (l : list (str * json)) : Forall (fun kv => P (snd kv)) l :=
                     match l with
                     | [] => Forall_nil _
                     | (k, v) :: r => Forall_cons (k, v) (json_ind' v) (go r)
                     end) kvs)
    end.
End JsonInd.

(* ------------------------------------------------------------------ names *)
Definition k_type : str := Eval compute in bytes_of "type".
Definition k_coordinates : str := Eval compute in bytes_of "coordinates".
Definition k_geometries : str := Eval compute in bytes_of "geometries".
Definition k_geometry : str := Eval compute in bytes_of "geometry".
Definition k_id : str := Eval compute in bytes_of "id".
Definition k_properties : str := Eval compute in bytes_of "properties".
Definition k_features : str := Eval compute in bytes_of "features".
Definition s_Point : str := Eval compute in bytes_of "Point".
Definition s_LineString : str := Eval compute in bytes_of "LineString".
Definition s_Polygon : str := Eval compute in bytes_of "Polygon".
Definition s_MultiPoint : str := Eval compute in bytes_of "MultiPoint".
Definition s_MultiLineString : str := Eval compute in bytes_of "MultiLineString".
Definition s_MultiPolygon : str := Eval compute in bytes_of "MultiPolygon".
Definition s_GeometryCollection : str := Eval compute in bytes_of "GeometryCollection".
Definition s_Feature : str := Eval compute in bytes_of "Feature".
Definition s_FeatureCollection : str := Eval compute in bytes_of "FeatureCollection".

Definition type_name (t : gtype) : str :=
  match t with
  | TPoint => s_Point | TLine => s_LineString | TPoly => s_Polygon
  | TMPoint => s_MultiPoint | TMLine => s_MultiLineString | TMPoly => s_MultiPolygon
  | TColl => s_GeometryCollection
  end.

(* geojson_unmarshal.go:decodeGeoJSON  switch node.Type (case-sensitive) *)
Definition type_of_name (s : str) : option gtype :=
  if str_eqb s s_Point then Some TPoint
  else if str_eqb s s_LineString then Some TLine
  else if str_eqb s s_Polygon then Some TPoly
  else if str_eqb s s_MultiPoint then Some TMPoint
  else if str_eqb s s_MultiLineString then Some TMLine
  else if str_eqb s s_MultiPolygon then Some TMPoly
  else if str_eqb s s_GeometryCollection then Some TColl
  else None.

(* ================================================================== marshalling, tree level *)
(* geojson_marshal.go:appendGeoJSONCoordinate: X, Y, then Z iff coords.Type.Is3D(); M never *)
Definition pos_json (ct : ctype) (v : vtx N) : json :=
  JArr (JNum (vx v) :: JNum (vy v) :: (if has_z ct then [JNum (vz v)] else [])).
(* appendGeoJSONSequence / Sequences / SequenceMatrix *)
Definition seq_json (l : lineT N) : json := JArr (map (pos_json (line_ct l)) (line_vs l)).
Definition seqs_json (ls : list (lineT N)) : json := JArr (map seq_json ls).
Definition poly_coords (p : polyT N) : json := seqs_json (poly_rings p).

Definition gobj (t : gtype) (member : str) (v : json) : json :=
  JObj [(k_type, JStr (type_name t)); (member, v)].

(* type_point.go:MarshalJSON: the empty point is "coordinates":[] *)
Definition point_coords (p : pointT N) : json :=
  match point_c p with
  | Some v => pos_json (point_ct p) v
  | None => JArr []
  end.
(* type_multi_point.go:MarshalJSON: empty member points are skipped *)
Definition mpoint_coords (ps : list (pointT N)) : json :=
  JArr (flat_map (fun p => match point_c p with
                           | Some v => [pos_json (point_ct p) v]
                           | None => []
                           end) ps).

(* type_geometry.go:MarshalJSON and the seven concrete MarshalJSON methods *)
Fixpoint to_json (g : geom) : json :=
  match g with
  | GPoint p => gobj TPoint k_coordinates (point_coords p)
  | GLine l => gobj TLine k_coordinates (seq_json l)
  | GPoly p => gobj TPoly k_coordinates (poly_coords p)
  | GMPoint _ ps => gobj TMPoint k_coordinates (mpoint_coords ps)
  | GMLine _ ls => gobj TMLine k_coordinates (seqs_json ls)
  | GMPoly _ ps => gobj TMPoly k_coordinates (JArr (map poly_coords ps))
  | GColl _ gs => gobj TColl k_geometries (JArr (map to_json gs))
  end.

(* ================================================================== marshalling, byte level *)
(* The writers append bytes by hand; a token is one byte or one number (spelled by
   strconv.AppendFloat(f,'f',-1,64), the oracle). *)
Inductive tok := TC (c : N) | TN (bits : N).
Definition lit (s : str) : list tok := map TC s.
Definition c_lbr : N := 91.  Definition c_rbr : N := 93.   (* [ ] *)
Definition c_lcb : N := 123. Definition c_rcb : N := 125.  (* { } *)
Definition c_comma : N := 44. Definition c_colon : N := 58. Definition c_quote : N := 34.

(* the shape of every hand-written loop: '[' , elements separated by ',' , ']' *)
Definition sep_by {A} (f : A -> list tok) (l : list A) : list tok :=
  match l with
  | [] => []
  | x :: r => f x ++ flat_map (fun y => TC c_comma :: f y) r
  end.
Definition bracket (body : list tok) : list tok := TC c_lbr :: body ++ [TC c_rbr].

Definition pr_pos (ct : ctype) (v : vtx N) : list tok :=
  TC c_lbr :: TN (vx v) :: TC c_comma :: TN (vy v) ::
  (if has_z ct then [TC c_comma; TN (vz v)] else []) ++ [TC c_rbr].
Definition pr_seq (l : lineT N) : list tok := bracket (sep_by (pr_pos (line_ct l)) (line_vs l)).
Definition pr_seqs (ls : list (lineT N)) : list tok := bracket (sep_by pr_seq ls).
Definition pr_matrix (ps : list (polyT N)) : list tok :=
  bracket (sep_by (fun p => pr_seqs (poly_rings p)) ps).

(* `{"type":"<T>","<member>":` *)
Definition h_open : str := Eval compute in bytes_of "{""type"":""".
Definition h_mid : str := Eval compute in bytes_of """,""".
Definition h_end : str := Eval compute in bytes_of """:".
Definition pr_head (t : gtype) (member : str) : list tok :=
  lit h_open ++ lit (type_name t) ++ lit h_mid ++ lit member ++ lit h_end.

(* type_multi_point.go:MarshalJSON  the `first` flag *)
Fixpoint pr_mpoints (first : bool) (ps : list (pointT N)) : list tok :=
  match ps with
  | [] => []
  | p :: r =>
      match point_c p with
      | Some v => (if first then [] else [TC c_comma]) ++ pr_pos (point_ct p) v ++ pr_mpoints false r
      | None => pr_mpoints first r
      end
  end.

(* GeometryCollection.MarshalJSON hands []Geometry to json.Marshal, which calls
   Geometry.MarshalJSON per member and writes '[' , ',' , ']' itself (encoding/json = oracle for
   that framing; it re-validates and compacts the member bytes, which contain no white space) *)
Fixpoint gj_print (g : geom) : list tok :=
  match g with
  | GPoint p =>
      pr_head TPoint k_coordinates ++
      match point_c p with
      | Some v => pr_pos (point_ct p) v
      | None => [TC c_lbr; TC c_rbr]
      end ++ [TC c_rcb]
  | GLine l => pr_head TLine k_coordinates ++ pr_seq l ++ [TC c_rcb]
  | GPoly p => pr_head TPoly k_coordinates ++ pr_seqs (poly_rings p) ++ [TC c_rcb]
  | GMPoint _ ps =>
      pr_head TMPoint k_coordinates ++ TC c_lbr :: pr_mpoints true ps ++ [TC c_rbr; TC c_rcb]
  | GMLine _ ls => pr_head TMLine k_coordinates ++ pr_seqs ls ++ [TC c_rcb]
  | GMPoly _ ps => pr_head TMPoly k_coordinates ++ pr_matrix ps ++ [TC c_rcb]
  | GColl _ gs =>
      pr_head TColl k_geometries ++
      bracket (match gs with
               | [] => []
               | x :: r => gj_print x ++ flat_map (fun y => TC c_comma :: gj_print y) r
               end) ++ [TC c_rcb]
  end.

(* The compact JSON printer: the reference for "syntactically valid JSON".  Strings are written
   between quotes without escaping, which is the JSON spelling exactly for strings made of
   printable ASCII other than quote and backslash (plain_str); every string of to_json is plain. *)
Definition plain_char (c : N) : bool := (32 <=? c) && (c <? 127) && negb (c =? 34) && negb (c =? 92).
Definition plain_str (s : str) : bool := forallb plain_char s.
Definition pr_str (s : str) : list tok := TC c_quote :: lit s ++ [TC c_quote].

Definition w_null : str := Eval compute in bytes_of "null".
Definition w_true : str := Eval compute in bytes_of "true".
Definition w_false : str := Eval compute in bytes_of "false".

Fixpoint json_print (j : json) : list tok :=
  match j with
  | JNull => lit w_null
  | JBool true => lit w_true
  | JBool false => lit w_false
  | JNum b => [TN b]
  | JStr s => pr_str s
  | JArr l =>
      bracket (match l with
               | [] => []
               | x :: r => json_print x ++ flat_map (fun y => TC c_comma :: json_print y) r
               end)
  | JObj kvs =>
      TC c_lcb ::
      (match kvs with
       | [] => []
       | (k, v) :: r =>
           (pr_str k ++ TC c_colon :: json_print v) ++
           flat_map (fun kv => TC c_comma :: pr_str (fst kv) ++ TC c_colon :: json_print (snd kv)) r
       end) ++ [TC c_rcb]
  end.

Fixpoint json_strings_plain (j : json) : bool :=
  match j with
  | JStr s => plain_str s
  | JArr l => forallb json_strings_plain l
  | JObj kvs => forallb (fun kv => plain_str (fst kv) && json_strings_plain (snd kv)) kvs
  | _ => true
  end.

(* ================================================================== unmarshalling *)
(* ---- stage 1: encoding/json into geojsonNode{Type string; Coords RawMessage; Geoms []geojsonNode} *)
Inductive node := MkNode (ty : str) (coords : option json) (geoms : list node).
Definition node_zero : node := MkNode [] None [].

Fixpoint mapM {A B} (f : A -> outcome B) (l : list A) : outcome (list B) :=
  match l with
  | [] => Ok []
  | x :: r => do y <- f x; do ys <- mapM f r; Ok (y :: ys)
  end.

(* null leaves the zero struct; a string member of the wrong JSON kind is an UnmarshalTypeError;
   unknown members are skipped; members are applied in document order *)
Fixpoint decode_node (j : json) : outcome node :=
  match j with
  | JNull => Ok node_zero
  | JObj kvs =>
      (fix members (kvs : list (str * json)) (acc : node) : outcome node :=
         match kvs with
         | [] => Ok acc
         | (k, v) :: r =>
             let 'MkNode ty co gs := acc in
             if str_eqb k k_type then
               match v with
               | JStr s => members r (MkNode s co gs)
               | JNull => members r acc
               | _ => Err ESyntax
               end
             else if str_eqb k k_coordinates then members r (MkNode ty (Some v) gs)
             else if str_eqb k k_geometries then
               match v with
               | JNull => members r (MkNode ty co [])
               | JArr l =>
                   do ns <- (fix elems (l : list json) : outcome (list node) :=
                               match l with
                               | [] => Ok []
                               | x :: t => do n <- decode_node x; do ns <- elems t; Ok (n :: ns)
                               end) l;
                   members r (MkNode ty co ns)
               | _ => Err ESyntax
               end
             else members r acc
         end) kvs node_zero
  | _ => Err ESyntax
  end.

(* ---- stage 2: decodeGeoJSON: type dispatch, "coordinates" re-parsed at the depth of the type *)
(* a float64 slot: number, or null (leaves the fresh 0); anything else is a type error *)
Definition num (j : json) : outcome N :=
  match j with JNum b => Ok b | JNull => Ok 0 | _ => Err ESyntax end.
(* a slice: array, or null (nil slice); anything else is a type error *)
Definition arr {A} (f : json -> outcome A) (j : json) : outcome (list A) :=
  match j with JNull => Ok [] | JArr l => mapM f l | _ => Err ESyntax end.
Definition dim1 := arr num.     (* extract1DimFloat64s *)
Definition dim2 := arr dim1.    (* extract2DimFloat64s *)
Definition dim3 := arr dim2.
Definition dim4 := arr dim3.
(* an absent member leaves a nil RawMessage: "unexpected end of JSON input" *)
Definition raw {A} (f : json -> outcome A) (c : option json) : outcome A :=
  match c with None => Err ESyntax | Some j => f j end.

Inductive gjn :=
| NPoint (c : list N)
| NLine (c : list (list N))
| NPoly (c : list (list (list N)))
| NMPoint (c : list (list N))
| NMLine (c : list (list (list N)))
| NMPoly (c : list (list (list (list N))))
| NColl (l : list gjn).

Fixpoint decode_geojson (n : node) : outcome gjn :=
  let 'MkNode ty co gs := n in
  match type_of_name ty with
  | Some TPoint => do c <- raw dim1 co; Ok (NPoint c)
  | Some TLine => do c <- raw dim2 co; Ok (NLine c)
  | Some TPoly => do c <- raw dim3 co; Ok (NPoly c)
  | Some TMPoint => do c <- raw dim2 co; Ok (NMPoint c)
  | Some TMLine => do c <- raw dim3 co; Ok (NMLine c)
  | Some TMPoly => do c <- raw dim4 co; Ok (NMPoly c)
  | Some TColl =>
      do l <- (fix go (gs : list node) : outcome (list gjn) :=
                 match gs with
                 | [] => Ok []
                 | x :: r => do y <- decode_geojson x; do ys <- go r; Ok (y :: ys)
                 end) gs;
      Ok (NColl l)
  | None => Err EGeomType
  end.

(* ---- stage 3: detectCoordinatesLengths: the set of position lengths of the whole document *)
Fixpoint foldM {A S} (f : A -> S -> outcome S) (l : list A) (s : S) : outcome S :=
  match l with
  | [] => Ok s
  | x :: r => do s' <- f x s; foldM f r s'
  end.
Definition note_len (ok : nat -> bool) (c : list N) (acc : list nat) : outcome (list nat) :=
  let n := length c in if ok n then Ok (n :: acc) else Err ESyntax.
Definition len_point (n : nat) : bool := negb (Nat.eqb n 1).   (* 0 is the empty point *)
Definition len_pos (n : nat) : bool := Nat.leb 2 n.

Fixpoint detect (t : gjn) (acc : list nat) : outcome (list nat) :=
  match t with
  | NPoint c => note_len len_point c acc
  | NLine cs | NMPoint cs => foldM (note_len len_pos) cs acc
  | NPoly css | NMLine css => foldM (foldM (note_len len_pos)) css acc
  | NMPoly csss => foldM (foldM (foldM (note_len len_pos))) csss acc
  | NColl ts =>
      (fix go (ts : list gjn) (acc : list nat) : outcome (list nat) :=
         match ts with
         | [] => Ok acc
         | x :: r => do a <- detect x acc; go r a
         end) ts acc
  end.

(* UnmarshalGeoJSON: has2D = some length is 2; has3D = some length is >= 3;
   XYZ iff !has2D && has3D *)
Definition decide_ct (lens : list nat) : ctype :=
  let has2 := existsb (Nat.eqb 2) lens in
  let has3 := existsb (Nat.leb 3) lens in
  if negb has2 && has3 then XYZ else XY.

(* ---- stage 4: geojsonNodeToGeometry *)
Definition idx (fs : list N) (i : nat) : outcome N :=
  match nth_error fs i with Some x => Ok x | None => Panic PIndex end.
(* oneDimFloat64sToCoordinates after its len(fs)==0 test; also one row of twoDimFloat64sToSequence
   (stride = Dimension; the coordinates type is always XY or XYZ here, see decide_ct) *)
Definition vtx_of (fs : list N) (ct : ctype) : outcome (vtx N) :=
  do x <- idx fs 0; do y <- idx fs 1;
  do z <- (if has_z ct then idx fs 2 else Ok 0);
  Ok (Build_vtx x y z 0).
Definition point_of (fs : list N) (ct : ctype) : outcome (pointT N) :=
  match fs with
  | [] => Ok (MkPoint ct None)
  | _ => do v <- vtx_of fs ct; Ok (MkPoint ct (Some v))
  end.
Definition line_of (ct : ctype) (cs : list (list N)) : outcome (lineT N) :=
  do vs <- mapM (fun c => vtx_of c ct) cs; Ok (MkLine ct vs).

Fixpoint to_geom (ct : ctype) (t : gjn) : outcome geom :=
  match t with
  | NPoint c => do p <- point_of c ct; Ok (GPoint p)
  | NLine cs => do l <- line_of ct cs; Ok (GLine l)
  | NPoly [] => Ok (GPoly (MkPoly ct []))
  | NPoly css => do rs <- mapM (line_of ct) css; Ok (GPoly (new_polygon 0 rs))
  | NMPoint [] => Ok (GMPoint ct [])
  | NMPoint cs => do ps <- mapM (fun c => point_of c ct) cs; Ok (new_multipoint 0 ps)
  | NMLine [] => Ok (GMLine ct [])
  | NMLine css => do ls <- mapM (line_of ct) css; Ok (new_multiline 0 ls)
  | NMPoly [] => Ok (GMPoly ct [])
  | NMPoly csss =>
      do ps <- mapM (fun css => do rs <- mapM (line_of ct) css;
                                Ok (force_poly 0 ct (new_polygon 0 rs))) csss;
      Ok (new_multipoly 0 ps)
  | NColl [] => Ok (GColl ct [])
  | NColl ts =>
      do gs <- (fix go (ts : list gjn) : outcome (list geom) :=
                  match ts with
                  | [] => Ok []
                  | x :: r => do y <- to_geom ct x; do ys <- go r; Ok (y :: ys)
                  end) ts;
      Ok (new_collection 0 gs)
  end.

Definition unmarshal_gjn (t : gjn) : outcome geom :=
  do lens <- detect t []; to_geom (decide_ct lens) t.

(* UnmarshalGeoJSON(input, NoValidate{}) on the parsed document *)
Definition gj_unmarshal (j : json) : outcome geom :=
  do n <- decode_node j; do t <- decode_geojson n; unmarshal_gjn t.

(* type_geometry.go:unmarshalGeoJSONAsType (UnmarshalJSON of the seven concrete types) *)
Definition unmarshal_as (t : gtype) (j : json) : outcome geom :=
  do g <- gj_unmarshal j;
  if gtype_eqb (geom_type g) t then Ok g else Err EMemberType.

(* the "type" the document declares, as the decoder sees it *)
Definition doc_type (j : json) : option gtype :=
  match decode_node j with
  | Ok (MkNode ty _ _) => type_of_name ty
  | _ => None
  end.

(* ================================================================== the losses, as a function *)
(* What the format cannot carry: M is dropped; Z survives iff the value has Z and at least one
   position is written; empty Points inside MultiPoints are not written. *)
Definition gj_ct (g : geom) : ctype :=
  if has_z (geom_ct g) && negb (match geom_vs g with [] => true | _ => false end) then XYZ else XY.

Definition point_full (p : pointT N) : bool := negb (point_empty p).

Fixpoint lossy_at (ct : ctype) (g : geom) : geom :=
  match g with
  | GPoint p => GPoint (force_point 0 ct p)
  | GLine l => GLine (force_line 0 ct l)
  | GPoly p => GPoly (force_poly 0 ct p)
  | GMPoint _ ps => GMPoint ct (map (force_point 0 ct) (filter point_full ps))
  | GMLine _ ls => GMLine ct (map (force_line 0 ct) ls)
  | GMPoly _ ps => GMPoly ct (map (force_poly 0 ct) ps)
  | GColl _ gs => GColl ct (map (lossy_at ct) gs)
  end.
Definition gj_lossy (g : geom) : geom := lossy_at (gj_ct g) g.

(* domain of the round trip: every node carries the same coordinates type (true of everything
   the constructors build).  Unused Z/M fields need not be zero. *)
Definition same_ct (g : geom) : bool := geom_ok (fun _ : N => true) (geom_ct g) g.

(* ================================================================== executable statement (Spec) *)
Definition is_num (j : json) : bool := match j with JNum _ => true | _ => false end.
(* lengths of all arrays that hold at least one number: the positions of a geometry document *)
Fixpoint pos_lens (j : json) : list nat :=
  match j with
  | JArr l => (if existsb is_num l then [length l] else []) ++ flat_map pos_lens l
  | JObj kvs => flat_map (fun kv => pos_lens (snd kv)) kvs
  | _ => []
  end.
Definition all_eq_nat (l : list nat) : bool :=
  match l with [] => true | x :: r => forallb (Nat.eqb x) r end.
Definition positions_ok (j : json) : bool :=
  forallb (fun n => Nat.eqb n 2 || Nat.eqb n 3) (pos_lens j) && all_eq_nat (pos_lens j).

(* RFC 7946 section 3.1 member structure of a Geometry object *)
Definition is_pos (j : json) : bool :=
  match j with
  | JArr l => forallb is_num l && (Nat.eqb (length l) 2 || Nat.eqb (length l) 3)
  | _ => false
  end.
Definition arr_of (f : json -> bool) (j : json) : bool :=
  match j with JArr l => forallb f l | _ => false end.
Definition is_empty_arr (j : json) : bool := match j with JArr [] => true | _ => false end.

Fixpoint rfc_geometry (j : json) : bool :=
  match j with
  | JObj [(k1, JStr ty); (k2, v)] =>
      str_eqb k1 k_type &&
      match type_of_name ty with
      | Some TPoint => str_eqb k2 k_coordinates && (is_pos v || is_empty_arr v)
      | Some TLine | Some TMPoint => str_eqb k2 k_coordinates && arr_of is_pos v
      | Some TPoly | Some TMLine => str_eqb k2 k_coordinates && arr_of (arr_of is_pos) v
      | Some TMPoly => str_eqb k2 k_coordinates && arr_of (arr_of (arr_of is_pos)) v
      | Some TColl =>
          str_eqb k2 k_geometries &&
          match v with
          | JArr l => forallb rfc_geometry l
          | _ => false
          end
      | None => false
      end
  | _ => false
  end.

(* ================================================================== Features *)
(* geom/geojson_feature_collection.go.  ID, Properties and ForeignMembers hold Go values of the
   kinds encoding/json produces (nil, bool, float64, string, []interface{}, map[string]interface{});
   they are modelled as json trees whose objects stand for Go maps.  A Go map has no order and no
   duplicate keys; json.Marshal writes its members sorted by key (byte order), and decoding a
   JSON object into a map lets the last duplicate win.  Both are the normal form jnorm. *)
Fixpoint str_ltb (a b : str) : bool :=
  match a, b with
  | [], [] => false
  | [], _ :: _ => true
  | _ :: _, [] => false
  | x :: a', y :: b' => (x <? y) || ((x =? y) && str_ltb a' b')
  end.

(* insertion into a key-sorted association list; an equal key is replaced *)
Fixpoint ins (k : str) (v : json) (l : list (str * json)) : list (str * json) :=
  match l with
  | [] => [(k, v)]
  | (k', v') :: r =>
      if str_eqb k k' then (k, v) :: r
      else if str_ltb k k' then (k, v) :: l
      else (k', v') :: ins k v r
  end.

Fixpoint jnorm (j : json) : json :=
  match j with
  | JArr l => JArr (map jnorm l)
  | JObj kvs =>
      JObj ((fix go (kvs : list (str * json)) (acc : list (str * json)) : list (str * json) :=
               match kvs with
               | [] => acc
               | (k, v) :: r => go r (ins k (jnorm v) acc)
               end) kvs [])
  | _ => j
  end.
Definition norm_kvs (kvs : list (str * json)) : list (str * json) :=
  match jnorm (JObj kvs) with JObj l => l | _ => [] end.

(* a json tree that is its own normal form: what a decoded Go value looks like *)
Fixpoint sortedb (l : list (str * json)) : bool :=
  match l with
  | [] => true
  | (k, _) :: r => forallb (fun kv => str_ltb k (fst kv)) r && sortedb r
  end.
Fixpoint canon (j : json) : bool :=
  match j with
  | JArr l => forallb canon l
  | JObj kvs => sortedb kvs && forallb (fun kv => canon (snd kv)) kvs
  | _ => true
  end.

(* GeoJSONFeature{Geometry, ID, Properties, ForeignMembers}: f_id = JNull is the nil interface;
   f_props = None is the nil map; a nil and an empty ForeignMembers map behave alike *)
Record feature := MkFeature {
  f_geom : geom;
  f_id : json;
  f_props : option (list (str * json));
  f_foreign : list (str * json) }.

(* GeoJSONFeature.MarshalJSON: struct {type, geometry, id omitempty, properties}, nil
   properties written as {}, then the foreign members spliced in before the closing brace *)
Definition feat_to_json (f : feature) : json :=
  JObj ([(k_type, JStr s_Feature); (k_geometry, to_json (f_geom f))] ++
        (match f_id f with JNull => [] | v => [(k_id, jnorm v)] end) ++
        [(k_properties, JObj (norm_kvs (match f_props f with Some p => p | None => [] end)))] ++
        norm_kvs (f_foreign f)).

(* the splice, on bytes: buf[:len(buf)-1] ++ ',' ++ fms[1:]  (only when fms is not "{}") *)
Definition splice (buf fms : list tok) : list tok := removelast buf ++ TC c_comma :: tl fms.

(* map[string]json.RawMessage: the last duplicate wins *)
Fixpoint lookup (k : str) (kvs : list (str * json)) : option json :=
  match kvs with
  | [] => None
  | (k', v) :: r =>
      match lookup k r with
      | Some x => Some x
      | None => if str_eqb k k' then Some v else None
      end
  end.

Definition reserved (k : str) : bool :=
  str_eqb k k_type || str_eqb k k_geometry || str_eqb k k_id || str_eqb k k_properties.

(* GeoJSONFeature.UnmarshalJSON (the geometry is decoded by Geometry.UnmarshalJSON, which also
   validates: validation is the oracle observed by the harness) *)
Definition feat_unmarshal (j : json) : outcome feature :=
  match j with
  | JObj kvs =>
      match lookup k_type kvs with
      | Some (JStr s) =>
          if str_eqb s s_Feature then
            match lookup k_geometry kvs with
            | Some gj =>
                do g <- gj_unmarshal gj;
                let id := match lookup k_id kvs with Some v => jnorm v | None => JNull end in
                do props <- match lookup k_properties kvs with
                            | None | Some JNull => Ok None
                            | Some (JObj p) => Ok (Some (norm_kvs p))
                            | Some _ => Err ESyntax
                            end;
                Ok (MkFeature g id props
                              (norm_kvs (filter (fun kv => negb (reserved (fst kv))) kvs)))
            | None => Err EOther
            end
          else Err EOther
      | Some JNull => Err EOther       (* typeStr stays "" *)
      | Some _ => Err ESyntax
      | None => Err EOther
      end
  | JNull => Err EOther                (* nil map: "feature type field missing" *)
  | _ => Err ESyntax
  end.

(* what a feature looks like after Marshal/Unmarshal *)
Definition feat_lossy (f : feature) : feature :=
  MkFeature (gj_lossy (f_geom f)) (jnorm (f_id f))
            (Some (norm_kvs (match f_props f with Some p => p | None => [] end)))
            (norm_kvs (f_foreign f)).

Definition feat_ok (f : feature) : bool :=
  same_ct (f_geom f) && forallb (fun kv => negb (reserved (fst kv))) (f_foreign f).

(* GeoJSONFeatureCollection.MarshalJSON: nil is written as [] *)
Definition fc_to_json (fs : list feature) : json :=
  JObj [(k_type, JStr s_FeatureCollection); (k_features, JArr (map feat_to_json fs))].

(* GeoJSONFeatureCollection.UnmarshalJSON: struct {Type string; Features []GeoJSONFeature}
   decoded by encoding/json (members in order, null is a no-op for the string and nil for the
   slice), then the type test *)
Definition fc_unmarshal (j : json) : outcome (list feature) :=
  match j with
  | JNull => Err EOther
  | JObj kvs =>
      do st <- (fix members (kvs : list (str * json)) (ty : str) (fs : list feature)
                  : outcome (str * list feature) :=
                  match kvs with
                  | [] => Ok (ty, fs)
                  | (k, v) :: r =>
                      if str_eqb k k_type then
                        match v with
                        | JStr s => members r s fs
                        | JNull => members r ty fs
                        | _ => Err ESyntax
                        end
                      else if str_eqb k k_features then
                        match v with
                        | JNull => members r ty []
                        | JArr l => do fs' <- mapM feat_unmarshal l; members r ty fs'
                        | _ => Err ESyntax
                        end
                      else members r ty fs
                  end) kvs [] [];
      let '(ty, fs) := st in
      if str_eqb ty s_FeatureCollection then Ok fs else Err EOther
  | _ => Err ESyntax
  end.
