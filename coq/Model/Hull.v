(* Property C13 - model of geom/alg_convex_hull.go over the integer lattice (carrier Z: on
   |c| <= 2^10 every float product/sum of the implementation is exact, so Z arithmetic is what
   the Go code computes).  Definitions only; proofs are in Proofs/Hull_proofs.v. *)
From Coq Require Import ZArith List Bool.
From SF Require Import Base.GeomAST.
Import ListNotations.
Open Scope Z_scope.

Definition pt : Type := (Z * Z)%type.

Definition pt_eqb (a b : pt) : bool := (fst a =? fst b) && (snd a =? snd b).

(* geom/xy.go:Sub, Cross;  geom/alg_orientation.go:orientation
   cp := q.Sub(p).Cross(s.Sub(q))  with  w.Cross(o) = w.X*o.Y - w.Y*o.X *)
Definition cross (p q s : pt) : Z :=
  (fst q - fst p) * (snd s - snd q) - (snd q - snd p) * (fst s - fst q).

Inductive orient := RightTurn | Collinear | LeftTurn.
Definition orientation (p q s : pt) : orient :=
  let cp := cross p q s in
  if 0 <? cp then LeftTurn else if cp <? 0 then RightTurn else Collinear.
Definition is_left_turn (o : orient) : bool := match o with LeftTurn => true | _ => false end.

(* geom/xy.go:Less *)
Definition pt_less (w o : pt) : bool :=
  if negb (fst w =? fst o) then fst w <? fst o else snd w <? snd o.

(* geom/alg_convex_hull.go:monotoneChain  sort.Slice(pts, Less).  The library sort is not stable,
   but two points that are not Less-related either way are the same pair of integers, so the
   sorted slice is determined by the multiset (Hull_proofs.sort_unique): insertion sort here. *)
Fixpoint insert (p : pt) (l : list pt) : list pt :=
  match l with
  | [] => [p]
  | x :: r => if pt_less p x then p :: l else x :: insert p r
  end.
Definition sort (l : list pt) : list pt := fold_right insert [] l.

(* The inner loop
     for len(lower) >= 2 && orientation(lower[len-2], lower[len-1], p) != leftTurn { lower = lower[:len-1] }
   on the slice held in reverse (head = last element). *)
Fixpoint pop_nonleft (st : list pt) (p : pt) : list pt :=
  match st with
  | b :: ((a :: _) as st') =>
      if is_left_turn (orientation a b p) then st else pop_nonleft st' p
  | _ => st
  end.
(* ... ; lower = append(lower, p) *)
Definition push (st : list pt) (p : pt) : list pt := p :: pop_nonleft st p.
(* one chain over the points in the order given; result in slice order *)
Definition chain_rev (pts : list pt) : list pt := fold_left push pts [].
Definition chain (pts : list pt) : list pt := rev (chain_rev pts).

(* monotoneChain: lower over the sorted points, upper over the sorted points backwards,
   append(lower, upper[1:]...) *)
Definition monotone_chain (pts : list pt) : list pt :=
  let s := sort pts in
  chain s ++ tl (chain (rev s)).

(* hasAtLeast2DistinctPointsInXYs *)
Definition has_2_distinct (pts : list pt) : bool :=
  match pts with
  | [] => false
  | p0 :: r => existsb (fun q => negb (pt_eqb q p0)) r
  end.

(* isLinearHull: odd length and hull[i-1] == hull[i+1] for i = len/2; the slice indexing can go
   out of range (i = 0), which is a Go panic and is kept as such. *)
Inductive linear_verdict := LinNo | LinYes (half : list pt) | LinPanic.
Definition is_linear_hull (hull : list pt) : linear_verdict :=
  if Nat.even (length hull) then LinNo else
  let i := Nat.div (length hull) 2 in
  match i with
  | O => LinPanic
  | S i1 =>
    match nth_error hull i1, nth_error hull (S i) with
    | Some a, Some b => if pt_eqb a b then LinYes (firstn (S i) hull) else LinNo
    | _, _ => LinPanic
    end
  end.

Inductive hull_result :=
| HNoPoints               (* non-empty geometry without control points *)
| HPoint (p : pt)
| HLine (a b : pt)
| HPoly (ring : list pt)
| HPanic.

(* convexHull, after the IsEmpty test, on the extracted point set *)
Definition hull_pts (pts : list pt) : hull_result :=
  match pts with
  | [] => HNoPoints        (* fix F90: `if len(pts) == 0` (was: pts[0] index out of range) *)
  | p0 :: _ =>
    if negb (has_2_distinct pts) then HPoint p0 else
    let hull := monotone_chain pts in
    match is_linear_hull hull with
    | LinPanic => HPanic
    | LinNo => HPoly hull
    | LinYes half =>
        match half with
        | h0 :: _ => HLine h0 (last half h0)   (* line{half[0], half[len(half)-1]} *)
        | [] => HPanic
        end
    end
  end.

(* ---- convexHullPointSet over the geometry value (carrier Z) ---- *)
Definition geomZ := geomT Z.
Definition xy_of (v : vtx Z) : pt := (vx v, vy v).
Definition point_pts (p : pointT Z) : list pt :=
  match point_c p with None => [] | Some v => [xy_of v] end.
Definition line_pts (l : lineT Z) : list pt := map xy_of (line_vs l).
(* p.ExteriorRing(): the empty LineString for a polygon without rings, else rings[0] *)
Definition poly_pts (p : polyT Z) : list pt :=
  match poly_rings p with [] => [] | r :: _ => line_pts r end.
Fixpoint point_set (g : geomZ) : list pt :=
  match g with
  | GColl _ gs => flat_map point_set gs
  | GPoint p => point_pts p
  | GLine l => line_pts l
  | GPoly p => poly_pts p
  | GMPoint _ ps => flat_map point_pts ps
  | GMLine _ ls => flat_map line_pts ls
  | GMPoly _ ps => flat_map poly_pts ps
  end.

Definition vtx_xy (p : pt) : vtx Z := Build_vtx (fst p) (snd p) 0 0.
Definition result_geom (r : hull_result) : option geomZ :=
  match r with
  | HNoPoints => Some (GColl XY [])
  | HPoint p => Some (GPoint (MkPoint XY (Some (vtx_xy p))))
  | HLine a b => Some (GLine (MkLine XY [vtx_xy a; vtx_xy b]))
  | HPoly ring => Some (GPoly (MkPoly XY [MkLine XY (map vtx_xy ring)]))
  | HPanic => None
  end.

(* geom/alg_convex_hull.go:convexHull; None = panic.  The final poly.Validate() (panic "bug in
   monotoneChain routine") is not modelled: hull_correct shows the ring is a strictly convex
   simple closed ring, and the harness observes panics of the implementation directly. *)
Definition convex_hull (g : geomZ) : option geomZ :=
  if is_empty g then Some (force_geom 0 XY g)     (* g.Force2D() *)
  else result_geom (hull_pts (point_set g)).

(* ------------------------------------------------------------------------------------------ *)
(* Executable statement of the property (the spec S), evaluated on any candidate result.      *)

Definition mem (p : pt) (l : list pt) : bool := existsb (pt_eqb p) l.

Fixpoint ring_edges (r : list pt) : list (pt * pt) :=
  match r with
  | a :: ((b :: _) as t) => (a, b) :: ring_edges t
  | _ => []
  end.

(* p on or to the left of the directed edge a->b *)
Definition on_or_left (e : pt * pt) (p : pt) : bool := 0 <=? cross (fst e) (snd e) p.
Definition covered_by (ring : list pt) (p : pt) : bool := forallb (fun e => on_or_left e p) (ring_edges ring).

(* every consecutive triple of l is a strict left turn *)
Fixpoint strict_turns (l : list pt) : bool :=
  match l with
  | a :: ((b :: c :: _) as t) => (0 <? cross a b c) && strict_turns t
  | _ => true
  end.

Fixpoint nodup_b (l : list pt) : bool :=
  match l with
  | [] => true
  | x :: r => negb (mem x r) && nodup_b r
  end.

Definition on_segment (a b p : pt) : bool :=
  (cross a b p =? 0)
  && (Z.min (fst a) (fst b) <=? fst p) && (fst p <=? Z.max (fst a) (fst b))
  && (Z.min (snd a) (snd b) <=? snd p) && (snd p <=? Z.max (snd a) (snd b)).

(* closed ring v0 v1 .. v(k-1) v0 with k >= 3, all cyclic consecutive triples strict left turns
   (the wrap-around triple v(k-1) v0 v1 included), vertices pairwise distinct *)
Definition strictly_convex_ring (ring : list pt) : bool :=
  match ring with
  | v0 :: v1 :: _ =>
      (4 <=? Z.of_nat (length ring))
      && pt_eqb (last ring v0) v0
      && strict_turns (ring ++ [v1])
      && nodup_b (removelast ring)
  | _ => false
  end.

Definition hull_ok (ps : list pt) (r : hull_result) : bool :=
  match r with
  | HNoPoints => match ps with [] => true | _ => false end
  | HPoint a => mem a ps && forallb (pt_eqb a) ps
  | HLine a b => negb (pt_eqb a b) && mem a ps && mem b ps && forallb (on_segment a b) ps
  | HPoly ring =>
      strictly_convex_ring ring
      && forallb (fun v => mem v ps) ring
      && forallb (covered_by ring) ps
  | HPanic => false
  end.

(* the vertices of a result, as a point list (the control points of the result geometry) *)
Definition result_pts (r : hull_result) : list pt :=
  match r with
  | HNoPoints | HPanic => []
  | HPoint p => [p]
  | HLine a b => [a; b]
  | HPoly ring => ring
  end.

(* reading a result geometry back (used by the driver on the implementation's output) *)
Definition result_of_geom (g : geomZ) : option hull_result :=
  match g with
  | GPoint (MkPoint _ (Some v)) => Some (HPoint (xy_of v))
  | GLine (MkLine _ [a; b]) => Some (HLine (xy_of a) (xy_of b))
  | GPoly (MkPoly _ [r]) => Some (HPoly (line_pts r))
  | GColl _ [] => Some HNoPoints
  | _ => None
  end.

(* the whole property on a geometry and a candidate result geometry *)
Definition hull_geom_ok (g out : geomZ) : bool :=
  if is_empty g then is_empty out
  else match result_of_geom out with
       | Some r => hull_ok (point_set g) r
       | None => false
       end.
