(* Gallina model of geom.Intersects over Q (property C09).  Definitions only, executable.

   Transcribed routine by routine from geom/alg_intersects.go, geom/line.go, geom/alg_point_in_ring.go,
   geom/alg_orientation.go, geom/type_sequence.go:getLine, geom/util.go:rank.  Ordinates are exact
   rationals; on the integer lattice |c| <= 2^10 every product, sum and comparison below is exact
   in float64, so the Go code computes the same booleans.

   What is abstracted (and why that is sound):
   - rtree.BulkLoad + RangeSearch in hasIntersectionBetweenLines: the search visits exactly the
     records whose box overlaps the query box (property C11: range search is exact), so the model
     tests every pair of lines whose boxes overlap ([box_overlap] is rtree/box.go:overlap); the
     early `Stop` only ends the search once the answer is already `true`;
   - map[XY]bool in hasIntersectionMultiPointWithMultiPoint: membership test by XY equality;
   - the points ptA/ptB of line.intersectLine are not modelled: Intersects calls it with
     populateExtension = false and reads only the `empty` flag;
   - XY.validate() inside Envelope.Contains (NaN/Inf rejection): no such values in Q. *)
From Coq Require Import QArith Qreduction List Bool ZArith Lia.
From SF Require Import Base.GeomAST Base.QKernel Base.Planar.
Import ListNotations.
Open Scope Q_scope.

(* ---------------------------------------------------------------- scalars, boxes *)
(* geom/util.go:sortFloat64Pair  -  if a > b { return b, a }; return a, b *)
Definition sort_pair (a b : Q) : Q * Q := if qltb b a then (b, a) else (a, b).

Record box := MkBox { bminx : Q; bminy : Q; bmaxx : Q; bmaxy : Q }.

(* geom/line.go:box / uncheckedEnvelope (the same four numbers) *)
Definition line_box (ln : seg) : box :=
  let '(a, b) := ln in
  let '(x0, x1) := sort_pair (fst a) (fst b) in
  let '(y0, y1) := sort_pair (snd a) (snd b) in
  MkBox x0 y0 x1 y1.
(* geom/xy.go:box / uncheckedEnvelope *)
Definition xy_box (p : pt) : box := MkBox (fst p) (snd p) (fst p) (snd p).

(* geom/type_envelope.go:Contains (non-empty envelope, finite XY) *)
Definition box_contains (e : box) (p : pt) : bool :=
  Qle_bool (bminx e) (fst p) && Qle_bool (fst p) (bmaxx e) &&
  Qle_bool (bminy e) (snd p) && Qle_bool (snd p) (bmaxy e).

(* rtree/box.go:overlap *)
Definition box_overlap (b1 b2 : box) : bool :=
  Qle_bool (bminx b1) (bmaxx b2) && Qle_bool (bminx b2) (bmaxx b1) &&
  Qle_bool (bminy b1) (bmaxy b2) && Qle_bool (bminy b2) (bmaxy b1).

(* ---------------------------------------------------------------- orientation *)
Inductive turn := LeftTurn | Collinear | RightTurn.
Definition turn_eqb (a b : turn) : bool :=
  match a, b with
  | LeftTurn, LeftTurn | Collinear, Collinear | RightTurn, RightTurn => true
  | _, _ => false
  end.

(* geom/alg_orientation.go:orientation  -  cp := q.Sub(p).Cross(s.Sub(q)) *)
Definition go_cp (p q s : pt) : Q :=
  (fst q - fst p) * (snd s - snd q) - (snd q - snd p) * (fst s - fst q).
Definition orientation (p q s : pt) : turn :=
  match go_cp p q s ?= 0 with
  | Gt => LeftTurn
  | Lt => RightTurn
  | Eq => Collinear
  end.

(* ---------------------------------------------------------------- lines of a sequence *)
(* geom/type_sequence.go:getLine + type_line_string.go:asLines: consecutive pairs, pairs with
   a == b skipped (a `line` always has distinct ends) *)
Fixpoint as_lines (vs : list pt) : list seg :=
  match vs with
  | a :: ((b :: _) as r) => if pt_eqb a b then as_lines r else (a, b) :: as_lines r
  | _ => []
  end.

(* geom/line.go:intersectsXY *)
Definition intersects_xy (ln : seg) (xy : pt) : bool :=
  let '(a, b) := ln in
  if negb (box_contains (line_box ln) xy) then false
  else
    let lhs := (fst xy - fst a) * (snd b - snd a) in
    let rhs := (snd xy - snd a) * (fst b - fst a) in
    Qeq_bool lhs rhs.

(* geom/line.go:onSegment *)
Definition qmax2 (a b : Q) : Q := if qltb b a then a else b.   (* fastMax *)
Definition qmin2 (a b : Q) : Q := if qltb a b then a else b.   (* fastMin *)
Definition on_segment (p q r : pt) : bool :=
  Qle_bool (fst r) (qmax2 (fst p) (fst q)) && Qle_bool (qmin2 (fst p) (fst q)) (fst r) &&
  Qle_bool (snd r) (qmax2 (snd p) (snd q)) && Qle_bool (qmin2 (snd p) (snd q)) (snd r).

(* geom/line.go:intersectLine, the `empty` flag of the result (true = no intersection) *)
Definition intersect_line_empty (ln other : seg) : bool :=
  let '(a, b) := ln in
  let '(c, d) := other in
  let o1 := orientation a b c in
  let o2 := orientation a b d in
  let o3 := orientation c d a in
  let o4 := orientation c d b in
  if negb (turn_eqb o1 o2) && negb (turn_eqb o3 o4) then false
  else if turn_eqb o1 Collinear && turn_eqb o2 Collinear then
    (negb (on_segment a b c) && negb (on_segment a b d)) &&
    (negb (on_segment c d a) && negb (on_segment c d b))
  else true.

(* geom/alg_intersects.go:hasIntersectionBetweenLines (populateExtension = false):
   the shorter list is indexed, every line of the longer one queries it *)
Definition has_intersection_between_lines (lines1 lines2 : list seg) : bool :=
  let '(l1, l2) := if Nat.ltb (length lines2) (length lines1) then (lines2, lines1) else (lines1, lines2) in
  existsb (fun lnA =>
    existsb (fun lnB => box_overlap (line_box lnA) (line_box lnB) && negb (intersect_line_empty lnA lnB)) l1) l2.

(* ---------------------------------------------------------------- point against ring *)
Inductive side := SInterior | SBoundary | SExterior.

(* geom/alg_point_in_ring.go:hasCrossing  ->  (crossing, onLine) *)
Definition has_crossing (p : pt) (ln : seg) : bool * bool :=
  let '(a, b) := ln in
  let '(lower, upper) := if qltb (snd b) (snd a) then (b, a) else (a, b) in
  let o := orientation lower upper p in
  let crossing := Qle_bool (snd lower) (snd p) && qltb (snd p) (snd upper) && turn_eqb o RightTurn in
  let on_line := box_contains (line_box ln) p && turn_eqb o Collinear in
  (crossing, on_line).

(* geom/alg_point_in_ring.go:relatePointToRing: the loop, [odd] is count%2 *)
Fixpoint relate_loop (p : pt) (lns : list seg) (odd : bool) : side :=
  match lns with
  | [] => if odd then SInterior else SExterior
  | ln :: r =>
      let '(crossing, on_line) := has_crossing p ln in
      if on_line then SBoundary else relate_loop p r (xorb odd crossing)
  end.
Definition relate_point_to_ring (p : pt) (ring : list pt) : side := relate_loop p (as_lines ring) false.

(* ---------------------------------------------------------------- accessors *)
(* Point.XY() *)
Definition point_xy (q : pointT Q) : option pt := option_map vpt (point_c q).
(* LineString.StartPoint() as an optional XY *)
Definition start_xy (l : lineT Q) : option pt :=
  match line_pts l with [] => None | a :: _ => Some a end.
(* Polygon.ExteriorRing() *)
Definition exterior_ring (y : polyT Q) : lineT Q :=
  match poly_rings y with [] => MkLine (poly_ct y) [] | r :: _ => r end.
(* LineString.asLines / MultiLineString.asLines / Polygon.Boundary().asLines / MultiPolygon.Boundary().asLines *)
Definition ls_lines (l : lineT Q) : list seg := as_lines (line_pts l).
Definition mls_lines (ls : list (lineT Q)) : list seg := flat_map ls_lines ls.
Definition poly_lines (y : polyT Q) : list seg := mls_lines (poly_rings y).
Definition mpoly_lines (ys : list (polyT Q)) : list seg := flat_map poly_lines ys.

(* ---------------------------------------------------------------- per type-pair routines *)
(* hasIntersectionPointWithPoint *)
Definition ix_point_point (p1 p2 : pointT Q) : bool :=
  match point_xy p1, point_xy p2 with
  | Some a, Some b => pt_eqb a b
  | _, _ => false
  end.

(* hasIntersectionPointWithLineString *)
Definition ix_point_line (p : pointT Q) (l : lineT Q) : bool :=
  match point_xy p with
  | None => false
  | Some xy => existsb (fun ln => intersects_xy ln xy) (ls_lines l)
  end.

(* hasIntersectionPointWithPolygon *)
Definition side_is_interior (s : side) : bool := match s with SInterior => true | _ => false end.
Definition side_is_exterior (s : side) : bool := match s with SExterior => true | _ => false end.
Definition ix_xy_polygon (xy : pt) (y : polyT Q) : bool :=
  match poly_rings y with
  | [] => false                                            (* p.IsEmpty() *)
  | shell :: holes =>
      if side_is_exterior (relate_point_to_ring xy (line_pts shell)) then false
      else forallb (fun h => negb (side_is_interior (relate_point_to_ring xy (line_pts h)))) holes
  end.
Definition ix_optxy_polygon (o : option pt) (y : polyT Q) : bool :=
  match o with None => false | Some xy => ix_xy_polygon xy y end.
Definition ix_point_polygon (p : pointT Q) (y : polyT Q) : bool := ix_optxy_polygon (point_xy p) y.

(* hasIntersectionPointWithMultiPoint *)
Definition ix_point_mpoint (p : pointT Q) (mp : list (pointT Q)) : bool :=
  existsb (fun q => ix_point_point p q) mp.
(* hasIntersectionPointWithMultiLineString *)
Definition ix_point_mline (p : pointT Q) (ls : list (lineT Q)) : bool :=
  existsb (fun l => ix_point_line p l) ls.
(* hasIntersectionPointWithMultiPolygon *)
Definition ix_optxy_mpoly (o : option pt) (ys : list (polyT Q)) : bool :=
  existsb (fun y => ix_optxy_polygon o y) ys.
Definition ix_point_mpoly (p : pointT Q) (ys : list (polyT Q)) : bool := ix_optxy_mpoly (point_xy p) ys.

(* hasIntersectionMultiPointWithMultiLineString *)
Definition ix_mpoint_mline (mp : list (pointT Q)) (ls : list (lineT Q)) : bool :=
  existsb (fun p =>
    match point_xy p with
    | None => false
    | Some xy => existsb (fun l => existsb (fun ln => intersects_xy ln xy) (ls_lines l)) ls
    end) mp.

(* hasIntersectionLineStringWithLineString / hasIntersectionMultiLineStringWithMultiLineString *)
Definition ix_mline_mline (ls1 ls2 : list (lineT Q)) : bool :=
  has_intersection_between_lines (mls_lines ls1) (mls_lines ls2).

(* hasIntersectionMultiLineStringWithMultiPolygon: boundary test, then one StartPoint probe per
   line string *)
Definition ix_mline_mpoly (ls : list (lineT Q)) (ys : list (polyT Q)) : bool :=
  if has_intersection_between_lines (mls_lines ls) (mpoly_lines ys) then true
  else existsb (fun l => ix_optxy_mpoly (start_xy l) ys) ls.

(* hasIntersectionMultiPointWithMultiPoint (set membership by XY equality) *)
Definition ix_mpoint_mpoint (mp1 mp2 : list (pointT Q)) : bool :=
  existsb (fun q2 =>
    match point_xy q2 with
    | None => false
    | Some b => existsb (fun q1 => match point_xy q1 with None => false | Some a => pt_eqb a b end) mp1
    end) mp2.

(* hasIntersectionMultiPointWithPolygon *)
Definition ix_mpoint_polygon (mp : list (pointT Q)) (y : polyT Q) : bool :=
  existsb (fun p => ix_point_polygon p y) mp.
(* hasIntersectionMultiPointWithMultiPolygon *)
Definition ix_mpoint_mpoly (mp : list (pointT Q)) (ys : list (polyT Q)) : bool :=
  existsb (fun p => ix_point_mpoly p ys) mp.

(* hasIntersectionPolygonWithPolygon: boundaries, then the two start-point probes *)
Definition ix_polygon_polygon (p1 p2 : polyT Q) : bool :=
  if has_intersection_between_lines (poly_lines p1) (poly_lines p2) then true
  else ix_optxy_polygon (start_xy (exterior_ring p1)) p2 || ix_optxy_polygon (start_xy (exterior_ring p2)) p1.

(* hasIntersectionMultiPolygonWithMultiPolygon *)
Definition ix_mpoly_mpoly (ys1 ys2 : list (polyT Q)) : bool :=
  existsb (fun p1 => existsb (fun p2 => ix_polygon_polygon p1 p2) ys2) ys1.

(* ---------------------------------------------------------------- dispatch *)
(* geom/util.go:rank *)
Definition rank (g : geom) : nat :=
  match g with
  | GPoint _ => 1 | GLine _ => 2 | GPoly _ => 3
  | GMPoint _ _ => 4 | GMLine _ _ => 5 | GMPoly _ _ => 6 | GColl _ _ => 7
  end%nat.

Inductive outcome := OBool (b : bool) | OPanic.

(* the switch of Intersects for rank g1 <= rank g2, neither a collection; every combination that
   the switch does not list ends in the final panic *)
Definition ix_switch (g1 g2 : geom) : outcome :=
  match g1, g2 with
  | GPoint p, GPoint q => OBool (ix_point_point p q)
  | GPoint p, GLine l => OBool (ix_point_line p l)
  | GPoint p, GPoly y => OBool (ix_point_polygon p y)
  | GPoint p, GMPoint _ mp => OBool (ix_point_mpoint p mp)
  | GPoint p, GMLine _ ls => OBool (ix_point_mline p ls)
  | GPoint p, GMPoly _ ys => OBool (ix_point_mpoly p ys)
  | GLine l, GLine l' => OBool (ix_mline_mline [l] [l'])      (* asLines of each *)
  | GLine l, GPoly y => OBool (ix_mline_mpoly [l] [y])        (* AsMultiLineString / AsMultiPolygon *)
  | GLine l, GMPoint _ mp => OBool (ix_mpoint_mline mp [l])
  | GLine l, GMLine _ ls => OBool (ix_mline_mline [l] ls)
  | GLine l, GMPoly _ ys => OBool (ix_mline_mpoly [l] ys)
  | GPoly y, GPoly y' => OBool (ix_polygon_polygon y y')
  | GPoly y, GMPoint _ mp => OBool (ix_mpoint_polygon mp y)
  | GPoly y, GMLine _ ls => OBool (ix_mline_mpoly ls [y])
  | GPoly y, GMPoly _ ys => OBool (ix_mpoly_mpoly [y] ys)
  | GMPoint _ mp, GMPoint _ mp' => OBool (ix_mpoint_mpoint mp mp')
  | GMPoint _ mp, GMLine _ ls => OBool (ix_mpoint_mline mp ls)
  | GMPoint _ mp, GMPoly _ ys => OBool (ix_mpoint_mpoly mp ys)
  | GMLine _ ls, GMLine _ ls' => OBool (ix_mline_mline ls ls')
  | GMLine _ ls, GMPoly _ ys => OBool (ix_mline_mpoly ls ys)
  | GMPoly _ ys, GMPoly _ ys' => OBool (ix_mpoly_mpoly ys ys')
  | _, _ => OPanic
  end.

(* Intersects on two non-collections: the rank swap, then the switch *)
Definition ix_flat_o (g1 g2 : geom) : outcome :=
  if Nat.ltb (rank g2) (rank g1) then ix_switch g2 g1 else ix_switch g1 g2.
Definition out_bool (o : outcome) : bool := match o with OBool b => b | OPanic => false end.
Definition ix_flat (g1 g2 : geom) : bool := out_bool (ix_flat_o g1 g2).

(* Intersects(l, g) for a non-collection l: no swap while g is a collection (rank 7); loop over
   the children, first `true` wins *)
Fixpoint ix_leaf_geom (l : geom) (g : geom) : bool :=
  match g with
  | GColl _ gs => existsb (fun c => ix_leaf_geom l c) gs
  | _ => ix_flat l g
  end.

(* Intersects(a, g) for a collection a: if g is a collection, loop over its children; otherwise
   the ranks are swapped and the call becomes Intersects(g, a) with g a non-collection *)
Fixpoint ix_coll_geom (a : geom) (g : geom) : bool :=
  match g with
  | GColl _ gs => existsb (fun c => ix_coll_geom a c) gs
  | _ => ix_leaf_geom g a
  end.

(* geom/alg_intersects.go:Intersects *)
Definition intersects (g1 g2 : geom) : bool :=
  match g1 with
  | GColl _ _ => ix_coll_geom g1 g2
  | _ => ix_leaf_geom g1 g2
  end.

(* no pair of geometries reaches the final panic of the switch *)
Fixpoint leaves (g : geom) : list geom :=
  match g with
  | GColl _ gs => flat_map leaves gs
  | _ => [g]
  end.
Definition intersects_panics (g1 g2 : geom) : bool :=
  existsb (fun a => existsb (fun b => match ix_flat_o a b with OPanic => true | _ => false end) (leaves g2)) (leaves g1).

(* ---------------------------------------------------------------- hypotheses used by theorems *)
(* every ring of every polygon is closed (first = last): part of OGC validity *)
Definition poly_rings_closed (y : polyT Q) : bool := forallb (fun r => pts_closed (line_pts r)) (poly_rings y).
Definition rings_closed (g : geom) : bool := forallb poly_rings_closed (g_polys g).
(* a vertex list is empty or has two different vertices (LineString validity: at least two
   distinct points) *)
Definition pts_wf (ps : list pt) : bool :=
  match ps with
  | [] => true
  | a :: r => existsb (fun q => negb (pt_eqb a q)) r
  end.
Definition lines_wf (g : geom) : bool := forallb (fun l => pts_wf (line_pts l)) (g_lines g).
(* no areal leaf *)
Definition no_polys (g : geom) : bool := match g_polys g with [] => true | _ => false end.

(* ---------------------------------------------------------------- executable reference *)
(* "the two point sets share a point", decided on the witnesses of the exact arrangement of both
   operands (DESIGN 2.2a); complete under the slab-sufficiency argument (DESIGN 4.1, not proved) *)
Definition share_witness (a b : geom) : bool :=
  existsb (fun w => inG a (fst w) && inG b (fst w)) (pair_witnesses a b).
