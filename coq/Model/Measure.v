(* Property C14 - Area, Length, Centroid.  Gallina transcription of the measure code of
   peterstace/simplefeatures over exact rationals (carrier Q: every finite float64 is a dyadic
   rational, so lattice and general-position inputs are both represented exactly; what the float
   code adds is rounding only, which the correspondence run bounds).

   Definitions only (executable); proofs are in Proofs/Measure_proofs.v.
   Loops are transcribed as accumulator loops in the order of the Go code ([fold_left] /
   explicit [_loop] functions); the proofs relate them to order-free sums.

   The square root is a section variable [sq]: no property of it is used by the model; the
   theorems about Length and lineal centroids hold for every [sq] that respects [==]. *)
From Coq Require Import QArith Qabs Qround ZArith NArith List Bool.
From SF Require Import Base.GeomAST.
Import ListNotations.
Open Scope Q_scope.

(* geom/xy.go *)
Definition xy := (Q * Q)%type.
Definition xy_add (a b : xy) : xy := (fst a + fst b, snd a + snd b).          (* XY.Add *)
Definition xy_sub (a b : xy) : xy := (fst a - fst b, snd a - snd b).          (* XY.Sub *)
Definition xy_scale (a : xy) (s : Q) : xy := (fst a * s, snd a * s).          (* XY.Scale *)
Definition xy_eqb (a b : xy) : bool := Qeq_bool (fst a) (fst b) && Qeq_bool (snd a) (snd b).
Definition xy0 : xy := (0, 0).

(* geom/type_sequence.go:GetXY - Z and M are never read by any measure *)
Definition vxy (v : vtx Q) : xy := (vx v, vy v).
Definition line_xys (l : lineT Q) : list xy := map vxy (line_vs l).

(* ------------------------------------------------------------------------------------------ *)
(* Area                                                                                        *)
(* ------------------------------------------------------------------------------------------ *)

(* the transform option: nil (None) or a per-vertex function *)
Definition apply_tr (tr : option (xy -> xy)) (p : xy) : xy :=
  match tr with None => p | Some f => f p end.

(* geom/type_polygon.go:signedAreaOfLinearRing - the loop
     pt1 := nthPt(0); for i := 0; i < n-1; i++ { pt0 := pt1; pt1 = nthPt(i+1);
       sum += (pt1.X + pt0.X) * (pt1.Y - pt0.Y) }                                       *)
Fixpoint shoelace_loop (sum : Q) (pt1 : xy) (rest : list xy) : Q :=
  match rest with
  | [] => sum
  | p :: r => shoelace_loop (sum + (fst p + fst pt1) * (snd p - snd pt1)) p r
  end.

(* n == 0 -> 0; else sum / 2 *)
Definition ring_area_xy (pts : list xy) : Q :=
  match pts with
  | [] => 0
  | p :: r => shoelace_loop 0 p r / 2
  end.

Definition ring_area (tr : option (xy -> xy)) (l : lineT Q) : Q :=
  ring_area_xy (map (apply_tr tr) (line_xys l)).

(* geom/type_polygon.go:Area.  ExteriorRing of an empty polygon is the empty LineString
   (area 0, |0| = 0) and there are no interior rings. *)
Definition poly_area (signed : bool) (tr : option (xy -> xy)) (p : polyT Q) : Q :=
  match poly_rings p with
  | [] => 0
  | shell :: holes =>
      let a0 := ring_area tr shell in
      fold_left (fun tot h => let a := ring_area tr h in
                              if signed then tot + a else tot - Qabs a)
                holes (if signed then a0 else Qabs a0)
  end.

(* geom/type_multi_polygon.go:Area *)
Definition mpoly_area (signed : bool) (tr : option (xy -> xy)) (ps : list (polyT Q)) : Q :=
  fold_left (fun a p => a + poly_area signed tr p) ps 0.

(* geom/type_geometry.go:Area, geom/type_geometry_collection.go:Area *)
Fixpoint geom_area (signed : bool) (tr : option (xy -> xy)) (g : geomT Q) : Q :=
  match g with
  | GPoly p => poly_area signed tr p
  | GMPoly _ ps => mpoly_area signed tr ps
  | GColl _ gs => fold_left (fun sum g' => sum + geom_area signed tr g') gs 0
  | GPoint _ | GLine _ | GMPoint _ _ | GMLine _ _ => 0
  end.

(* ------------------------------------------------------------------------------------------ *)
(* Centroid of areal geometries (no square root involved)                                      *)
(* ------------------------------------------------------------------------------------------ *)

(* geom/type_polygon.go:triangleArea2, centroid3 *)
Definition tri_area2 (p1 p2 p3 : xy) : Q :=
  (fst p2 - fst p1) * (snd p3 - snd p1) - (fst p3 - fst p1) * (snd p2 - snd p1).
Definition centroid3 (p1 p2 p3 : xy) : xy := xy_add (xy_add p1 p2) p3.

(* geom/type_polygon.go:centroidOfRing - the loop  for i := 1; i+1 < n; i++ over (seq[i], seq[i+1]) *)
Fixpoint fan_loop (base : xy) (areaSum2 : Q) (cent6 : xy) (p : xy) (rest : list xy) : Q * xy :=
  match rest with
  | [] => (areaSum2, cent6)
  | q :: r =>
      let area2 := tri_area2 base p q in
      fan_loop base (areaSum2 + area2) (xy_add cent6 (xy_scale (centroid3 base p q) area2)) q r
  end.
Definition fan (base : xy) (tl : list xy) : Q * xy :=
  match tl with
  | [] => (0, xy0)
  | p :: r => fan_loop base 0 xy0 p r
  end.

(* cent6.Scale(1.0 / 3.0 / areaSum2).  For an empty ring the Go code panics at seq.GetXY(0)
   (see [centroid_outcome]); the value returned here for [] is never used under that guard.
   Division by zero (degenerate ring: NaN in Go) is Q's x/0 = 0; the theorems that divide keep
   the non-zero hypothesis visible, and the correspondence run checks that Go never returns NaN
   on valid input. *)
Definition centroid_of_ring_xy (pts : list xy) : xy :=
  match pts with
  | [] => xy0
  | base :: tl => let '(a2, c6) := fan base tl in xy_scale c6 (1 / 3 / a2)
  end.
Definition centroid_of_ring (l : lineT Q) : xy := centroid_of_ring_xy (line_xys l).

(* geom/type_polygon.go:weightedCentroid *)
Definition weighted_centroid (ring : lineT Q) (ringArea totalArea : Q) : xy :=
  xy_scale (centroid_of_ring ring) (ringArea / totalArea).

(* geom/type_polygon.go:Centroid.  None is the empty Point. *)
Definition poly_centroid (p : polyT Q) : option xy :=
  match poly_rings p with
  | [] => None
  | shell :: holes =>
      let a0 := Qabs (ring_area None shell) in
      let hs := map (fun h => - Qabs (ring_area None h)) holes in
      let sumAreas := fold_left Qplus hs a0 in
      Some (fold_left (fun c ha => xy_add c (weighted_centroid (fst ha) (snd ha) sumAreas))
                      (combine holes hs) (weighted_centroid shell a0 sumAreas))
  end.

(* geom/type_multi_polygon.go:Centroid *)
Definition mpoly_centroid (ps : list (polyT Q)) : option xy :=
  if forallb (@poly_empty Q) ps then None
  else
    let areas := map (poly_area false None) ps in
    let totalArea := fold_left Qplus areas 0 in
    Some (fold_left (fun w pa => match poly_centroid (fst pa) with
                                 | Some c => xy_add w (xy_scale c (snd pa / totalArea))
                                 | None => w
                                 end)
                    (combine ps areas) xy0).

(* geom/type_point.go:Centroid (Force2D), geom/type_multi_point.go:Centroid *)
Definition point_xy (p : pointT Q) : option xy :=
  match point_c p with None => None | Some v => Some (vxy v) end.

Definition points_sum (ps : list (pointT Q)) (acc : xy * Z) : xy * Z :=
  fold_left (fun sn p => match point_xy p with
                         | Some c => (xy_add (fst sn) c, (snd sn + 1)%Z)
                         | None => sn
                         end) ps acc.

Definition mpoint_centroid (ps : list (pointT Q)) : option xy :=
  let '(sum, n) := points_sum ps (xy0, 0%Z) in
  if (n =? 0)%Z then None else Some (xy_scale sum (1 / inject_Z n)).

(* geom/type_geometry_collection.go:walk - the non-collection leaves in order *)
Fixpoint leaves (g : geomT Q) : list (geomT Q) :=
  match g with
  | GColl _ gs => flat_map leaves gs
  | _ => [g]
  end.

(* geom/type_geometry_collection.go:highestDimensionIgnoreEmpties *)
Fixpoint hdim (g : geomT Q) : nat :=
  if is_empty g then 0%nat
  else match g with
       | GColl _ gs => fold_left (fun d g' => Nat.max d (hdim g')) gs 0%nat
       | GPoint _ | GMPoint _ _ => 0%nat
       | GLine _ | GMLine _ _ => 1%nat
       | GPoly _ | GMPoly _ _ => 2%nat
       end.

(* geom/type_geometry_collection.go:pointCentroid *)
Definition coll_point_centroid (lv : list (geomT Q)) : xy :=
  let '(sum, n) :=
    fold_left (fun sn g => match g with
                           | GPoint p => points_sum [p] sn
                           | GMPoint _ ps => points_sum ps sn
                           | _ => sn
                           end) lv (xy0, 0%Z) in
  xy_scale sum (1 / inject_Z n).

Section WithSqrt.
  Variable sq : Q -> Q.   (* math.Sqrt *)

  (* geom/xy.go:Length = Sqrt(Dot(w,w)) on the pinned tree, Hypot(X, Y) after fix F120: in exact
     arithmetic both are the root of X*X + Y*Y (the fix only changes float range behaviour) *)
  Definition xy_len (d : xy) : Q := sq (fst d * fst d + snd d * snd d).

  (* geom/type_line_string.go:Length - delta := xyA.Sub(xyB); sum += delta.Length() *)
  Fixpoint length_loop (sum : Q) (a : xy) (rest : list xy) : Q :=
    match rest with
    | [] => sum
    | b :: r => length_loop (sum + xy_len (xy_sub a b)) b r
    end.
  Definition length_xy (pts : list xy) : Q :=
    match pts with [] => 0 | a :: r => length_loop 0 a r end.
  Definition line_length (l : lineT Q) : Q := length_xy (line_xys l).

  (* geom/type_multi_line_string.go:Length *)
  Definition mline_length (ls : list (lineT Q)) : Q :=
    fold_left (fun s l => s + line_length l) ls 0.

  (* geom/type_geometry.go:Length, geom/type_geometry_collection.go:Length *)
  Fixpoint geom_length (g : geomT Q) : Q :=
    if is_empty g then 0
    else match g with
         | GColl _ gs => fold_left (fun s g' => s + geom_length g') gs 0
         | GLine l => line_length l
         | GMLine _ ls => mline_length ls
         | GPoint _ | GMPoint _ _ | GPoly _ | GMPoly _ _ => 0
         end.

  (* geom/type_line_string.go:sumCentroidAndLengthOfLineString with type_sequence.go:getLine
     (i = 0 and zero-length segments are skipped), line.go:length (a.distanceTo(b) = length of
     b.Sub(a)) and line.go:centroid *)
  Fixpoint sumcl_loop (sumXY : xy) (sumLen : Q) (a : xy) (rest : list xy) : xy * Q :=
    match rest with
    | [] => (sumXY, sumLen)
    | b :: r =>
        if xy_eqb a b then sumcl_loop sumXY sumLen b r
        else
          let len := xy_len (xy_sub b a) in
          let cent := ((1 # 2) * (fst a + fst b), (1 # 2) * (snd a + snd b)) in
          sumcl_loop (xy_add sumXY (xy_scale cent len)) (sumLen + len) b r
    end.
  Definition sumcl_xy (pts : list xy) : xy * Q :=
    match pts with [] => (xy0, 0) | a :: r => sumcl_loop xy0 0 a r end.
  Definition sum_centroid_length (l : lineT Q) : xy * Q := sumcl_xy (line_xys l).

  (* geom/type_line_string.go:Centroid *)
  Definition line_centroid (l : lineT Q) : option xy :=
    let '(sumXY, sumLen) := sum_centroid_length l in
    if Qeq_bool sumLen 0 then None else Some (xy_scale sumXY (1 / sumLen)).

  (* geom/type_multi_line_string.go:Centroid *)
  Definition mline_centroid (ls : list (lineT Q)) : option xy :=
    let '(sumXY, sumLen) :=
      fold_left (fun acc l => let '(c, n) := sum_centroid_length l in
                              (xy_add (fst acc) c, snd acc + n)) ls (xy0, 0) in
    if Qeq_bool sumLen 0 then None else Some (xy_scale sumXY (1 / sumLen)).

  (* Centroid of a non-collection geometry (geom/type_geometry.go:Centroid dispatch) *)
  Definition leaf_centroid (g : geomT Q) : option xy :=
    match g with
    | GPoint p => point_xy p
    | GLine l => line_centroid l
    | GPoly p => poly_centroid p
    | GMPoint _ ps => mpoint_centroid ps
    | GMLine _ ls => mline_centroid ls
    | GMPoly _ ps => mpoly_centroid ps
    | GColl _ _ => None   (* never a leaf *)
    end.

  (* geom/type_geometry_collection.go:linearCentroid *)
  Definition lin_step (acc : Q * xy) (l : lineT Q) : Q * xy :=
    match line_centroid l with
    | Some c => let len := line_length l in (fst acc + len, xy_add (snd acc) (xy_scale c len))
    | None => acc
    end.
  Definition coll_linear_centroid (lv : list (geomT Q)) : xy :=
    let '(lengthSum, weighted) :=
      fold_left (fun acc g => match g with
                              | GLine l => lin_step acc l
                              | GMLine _ ls => fold_left lin_step ls acc
                              | _ => acc
                              end) lv (0, xy0) in
    xy_scale weighted (1 / lengthSum).

  (* geom/type_geometry_collection.go:arealCentroid *)
  Definition coll_areal_centroid (lv : list (geomT Q)) : xy :=
    let areas := map (geom_area false None) lv in
    let areaSum := fold_left Qplus areas 0 in
    fold_left (fun w ga => match leaf_centroid (fst ga) with
                           | Some c => xy_add w (xy_scale c (snd ga / areaSum))
                           | None => w
                           end) (combine lv areas) xy0.

  (* geom/type_geometry_collection.go:Centroid; the default branch (dimension > 2) is
     unreachable: hdim <= 2 *)
  Definition coll_centroid (ct : ctype) (gs : list (geomT Q)) : option xy :=
    if forallb (@is_empty Q) gs then None
    else
      let lv := flat_map leaves gs in
      match hdim (GColl ct gs) with
      | 0%nat => Some (coll_point_centroid lv)
      | 1%nat => Some (coll_linear_centroid lv)
      | _ => Some (coll_areal_centroid lv)
      end.

  (* geom/type_geometry.go:Centroid *)
  Definition geom_centroid (g : geomT Q) : option xy :=
    match g with
    | GColl ct gs => coll_centroid ct gs
    | _ => leaf_centroid g
    end.
End WithSqrt.

(* Outside the property's domain but part of the code's behaviour: a polygon holding an empty
   ring (not constructible through validation) is non-empty and areal, so every Centroid path
   reaches centroidOfRing on it and seq.GetXY(0) panics (index out of range). *)
Definition poly_has_empty_ring (p : polyT Q) : bool := existsb (@line_empty Q) (poly_rings p).
Fixpoint has_empty_ring (g : geomT Q) : bool :=
  match g with
  | GPoly p => poly_has_empty_ring p
  | GMPoly _ ps => existsb poly_has_empty_ring ps
  | GColl _ gs => existsb has_empty_ring gs
  | _ => false
  end.
Inductive cres := CPanic | CRes (c : option xy).
Definition centroid_outcome (sq : Q -> Q) (g : geomT Q) : cres :=
  if has_empty_ring g then CPanic else CRes (geom_centroid sq g).

(* ------------------------------------------------------------------------------------------ *)
(* The operations the property relates the measures to (used in theorem statements and by the  *)
(* metamorphic part of the correspondence)                                                     *)
(* ------------------------------------------------------------------------------------------ *)

(* TransformXY of every type: X,Y replaced, Z/M kept *)
Definition vtx_tr (f : xy -> xy) (v : vtx Q) : vtx Q :=
  let p := f (vxy v) in Build_vtx (fst p) (snd p) (vz v) (vm v).
Definition point_tr (f : xy -> xy) (p : pointT Q) : pointT Q :=
  match p with MkPoint ct c => MkPoint ct (option_map (vtx_tr f) c) end.
Definition line_tr (f : xy -> xy) (l : lineT Q) : lineT Q :=
  match l with MkLine ct vs => MkLine ct (map (vtx_tr f) vs) end.
Definition poly_tr (f : xy -> xy) (p : polyT Q) : polyT Q :=
  match p with MkPoly ct rs => MkPoly ct (map (line_tr f) rs) end.
Fixpoint geom_tr (f : xy -> xy) (g : geomT Q) : geomT Q :=
  match g with
  | GPoint p => GPoint (point_tr f p)
  | GLine l => GLine (line_tr f l)
  | GPoly p => GPoly (poly_tr f p)
  | GMPoint ct ps => GMPoint ct (map (point_tr f) ps)
  | GMLine ct ls => GMLine ct (map (line_tr f) ls)
  | GMPoly ct ps => GMPoly ct (map (poly_tr f) ps)
  | GColl ct gs => GColl ct (map (geom_tr f) gs)
  end.
Definition translate (t : xy) (p : xy) : xy := xy_add p t.

(* Reverse of every type: vertex order of every line/ring reversed, members in place *)
Definition line_rev (l : lineT Q) : lineT Q :=
  match l with MkLine ct vs => MkLine ct (rev vs) end.
Definition poly_rev (p : polyT Q) : polyT Q :=
  match p with MkPoly ct rs => MkPoly ct (map line_rev rs) end.
Fixpoint geom_rev (g : geomT Q) : geomT Q :=
  match g with
  | GPoint p => GPoint p
  | GLine l => GLine (line_rev l)
  | GPoly p => GPoly (poly_rev p)
  | GMPoint ct ps => GMPoint ct ps
  | GMLine ct ls => GMLine ct (map line_rev ls)
  | GMPoly ct ps => GMPoly ct (map poly_rev ps)
  | GColl ct gs => GColl ct (map geom_rev gs)
  end.

(* geom/type_polygon.go:forceOrientation *)
Definition force_orientation (forceCW : bool) (p : polyT Q) : polyT Q :=
  match p with
  | MkPoly ct rs =>
      MkPoly ct
        (snd (fold_left (fun st ring =>
                let '(first, acc) := st in
                let alreadyCW := negb (Qle_bool 0 (ring_area None ring)) in
                let keep := Bool.eqb first (Bool.eqb alreadyCW forceCW) in
                (false, acc ++ [if keep then ring else line_rev ring]))
              rs (true, [])))
  end.

(* Z/M payload removed (Force2D): the measures must not see the difference *)
Definition vtx_2d (v : vtx Q) : vtx Q := Build_vtx (vx v) (vy v) 0 0.
Definition point_2d (p : pointT Q) : pointT Q :=
  match p with MkPoint _ c => MkPoint XY (option_map vtx_2d c) end.
Definition line_2d (l : lineT Q) : lineT Q :=
  match l with MkLine _ vs => MkLine XY (map vtx_2d vs) end.
Definition poly_2d (p : polyT Q) : polyT Q :=
  match p with MkPoly _ rs => MkPoly XY (map line_2d rs) end.
Fixpoint geom_2d (g : geomT Q) : geomT Q :=
  match g with
  | GPoint p => GPoint (point_2d p)
  | GLine l => GLine (line_2d l)
  | GPoly p => GPoly (poly_2d p)
  | GMPoint _ ps => GMPoint XY (map point_2d ps)
  | GMLine _ ls => GMLine XY (map line_2d ls)
  | GMPoly _ ps => GMPoly XY (map poly_2d ps)
  | GColl _ gs => GColl XY (map geom_2d gs)
  end.

(* closed vertex cycles: [close l] is the ring that visits the cycle l and returns to its start;
   [rot k l] starts the same cycle k vertices later *)
Definition close (l : list xy) : list xy :=
  match l with [] => [] | p :: _ => l ++ [p] end.
Definition rot (k : nat) (l : list xy) : list xy := skipn k l ++ firstn k l.

(* first = last up to ==: what the translation theorems need *)
Definition ring_closedb (pts : list xy) : bool :=
  match pts with [] => true | p :: _ => xy_eqb p (last pts p) end.

(* geom/type_polygon.go:IsCW / IsCCW (a ring of zero area is neither), and the geometry-level
   dispatch of type_geometry.go / type_multi_polygon.go / type_geometry_collection.go *)
Definition poly_oriented (cw : bool) (p : polyT Q) : bool :=
  snd (fold_left (fun st ring =>
         let '(first, ok) := st in
         let a := ring_area None ring in
         let is := if cw then negb (Qle_bool 0 a) else negb (Qle_bool a 0) in
         (false, ok && Bool.eqb first is))
       (poly_rings p) (true, true)).
Fixpoint geom_oriented (cw : bool) (g : geomT Q) : bool :=
  match g with
  | GPoly p => poly_oriented cw p
  | GMPoly _ ps => forallb (poly_oriented cw) ps
  | GColl _ gs => forallb (geom_oriented cw) gs
  | _ => true
  end.
Fixpoint geom_force_orientation (forceCW : bool) (g : geomT Q) : geomT Q :=
  match g with
  | GPoly p => GPoly (force_orientation forceCW p)
  | GMPoly ct ps => GMPoly ct (map (force_orientation forceCW) ps)
  | GColl ct gs => GColl ct (map (geom_force_orientation forceCW) gs)
  | _ => g
  end.
(* geom/type_geometry.go:ForceCW (forceCW = true) / ForceCCW (false) *)
Definition geom_force (forceCW : bool) (g : geomT Q) : geomT Q :=
  if geom_oriented forceCW g then g else geom_force_orientation forceCW g.

(* ---- vocabulary of the theorem statements ------------------------------------------------- *)
(* every polygon ring returns to its first vertex (X and Y equal as numbers) *)
Definition poly_closed (p : polyT Q) : bool :=
  forallb (fun l => ring_closedb (line_xys l)) (poly_rings p).
Fixpoint geom_closed (g : geomT Q) : bool :=
  match g with
  | GPoly p => poly_closed p
  | GMPoly _ ps => forallb poly_closed ps
  | GColl _ gs => forallb geom_closed gs
  | _ => true
  end.
(* order-free sum *)
Definition qsum (l : list Q) : Q := fold_right Qplus 0 l.
(* equality of points / optional points up to == on the ordinates *)
Definition xy_eq (a b : xy) : Prop := fst a == fst b /\ snd a == snd b.
Definition oxy_eq (a b : option xy) : Prop :=
  match a, b with
  | None, None => True
  | Some p, Some q => xy_eq p q
  | _, _ => False
  end.
(* the cross-product ("standard") form of the shoelace formula *)
Fixpoint cross_sum (p0 : xy) (l : list xy) : Q :=
  match l with
  | [] => 0
  | p :: r => (fst p0 * snd p - fst p * snd p0) + cross_sum p r
  end.
Definition cross_area_xy (pts : list xy) : Q :=
  match pts with [] => 0 | p :: r => cross_sum p r / 2 end.

(* convex counter-clockwise vertex cycle: every ordered triple of vertices turns left (or is
   collinear); strictly convex: every triple turns strictly left *)
Definition convex_ccw (l : list xy) : Prop :=
  forall i j k, (i < j)%nat -> (j < k)%nat -> (k < length l)%nat ->
                0 <= tri_area2 (nth i l xy0) (nth j l xy0) (nth k l xy0).
Definition strictly_convex_ccw (l : list xy) : Prop :=
  forall i j k, (i < j)%nat -> (j < k)%nat -> (k < length l)%nat ->
                0 < tri_area2 (nth i l xy0) (nth j l xy0) (nth k l xy0).
(* the signed areas of the triangles (b, p_i, p_i+1) of the fan from the first vertex b *)
Fixpoint fan_tris_from (b p : xy) (l : list xy) : list Q :=
  match l with
  | [] => []
  | q :: r => tri_area2 b p q / 2 :: fan_tris_from b q r
  end.
Definition fan_tris (l : list xy) : list Q :=
  match l with
  | b :: p :: r => fan_tris_from b p r
  | _ => []
  end.

(* a ring that is literally a closed vertex cycle; all polygon rings of a geometry *)
Definition is_cycle (L : list xy) : Prop := exists l, L = close l.
Fixpoint geom_rings (g : geomT Q) : list (lineT Q) :=
  match g with
  | GPoly p => poly_rings p
  | GMPoly _ ps => flat_map (@poly_rings Q) ps
  | GColl _ gs => flat_map geom_rings gs
  | _ => []
  end.
Definition rings_are_cycles (g : geomT Q) : Prop :=
  Forall (fun r => is_cycle (line_xys r)) (geom_rings g).
(* r' is the ring r started at another vertex of the same cycle *)
Definition ring_rotated (r r' : lineT Q) : Prop :=
  exists l k, line_xys r = close l /\ line_xys r' = close (rot k l).
(* g' is g with every polygon ring replaced by an R-related ring; points and lines identical *)
Definition polys_related (R : lineT Q -> lineT Q -> Prop) (p p' : polyT Q) : Prop :=
  Forall2 R (poly_rings p) (poly_rings p').
Fixpoint rings_related (R : lineT Q -> lineT Q -> Prop) (g g' : geomT Q) : Prop :=
  match g, g' with
  | GPoint p, GPoint p' => p = p'
  | GLine l, GLine l' => l = l'
  | GPoly p, GPoly p' => polys_related R p p'
  | GMPoint _ ps, GMPoint _ ps' => ps = ps'
  | GMLine _ ls, GMLine _ ls' => ls = ls'
  | GMPoly _ ps, GMPoly _ ps' => Forall2 (polys_related R) ps ps'
  | GColl _ gs, GColl _ gs' =>
      (fix go (l l' : list (geomT Q)) : Prop :=
         match l, l' with
         | [], [] => True
         | x :: r, y :: r' => rings_related R x y /\ go r r'
         | _, _ => False
         end) gs gs'
  | _, _ => False
  end.

(* ---- hypotheses of the translation-equivariance theorem: every divisor of the centroid
   computation is non-zero (true of valid geometries; Go returns NaN otherwise) ---- *)
(* twice the fan area of a ring as centroidOfRing sums it *)
Definition ring_fan2 (L : list xy) : Q := match L with [] => 0 | b :: tl => fst (fan b tl) end.
Definition poly_nondegenerate (p : polyT Q) : Prop :=
  poly_closed p = true /\
  Forall (fun r => ~ ring_fan2 (line_xys r) == 0) (poly_rings p) /\
  (poly_rings p = [] \/ ~ poly_area false None p == 0).
Definition shifted (t : xy) (o o' : option xy) : Prop :=
  match o, o' with
  | None, None => True
  | Some c, Some c' => xy_eq c' (xy_add c t)
  | _, _ => False
  end.

(* ---- order-free descriptions of what each leaf contributes to a collection centroid ---- *)
(* X / Y of an optional point, 0 for the empty point *)
Definition ocx (c : option xy) : Q := match c with Some v => fst v | None => 0 end.
Definition ocy (c : option xy) : Q := match c with Some v => snd v | None => 0 end.
(* dimension classes of non-collection geometries *)
Definition is_areal (g : geomT Q) : bool := match g with GPoly _ | GMPoly _ _ => true | _ => false end.
Definition is_lineal (g : geomT Q) : bool := match g with GLine _ | GMLine _ _ => true | _ => false end.
Definition is_puntal (g : geomT Q) : bool := match g with GPoint _ | GMPoint _ _ => true | _ => false end.
(* the dimension a leaf contributes to highestDimensionIgnoreEmpties *)
Definition leaf_dim (g : geomT Q) : nat :=
  if is_empty g then 0%nat
  else if is_areal g then 2%nat else if is_lineal g then 1%nat else 0%nat.
(* points: sum of ordinates and number of non-empty points *)
Definition zsum (l : list Z) : Z := fold_right Z.add 0%Z l.
Definition pcx (p : pointT Q) : Q := ocx (point_xy p).
Definition pcy (p : pointT Q) : Q := ocy (point_xy p).
Definition pcn (p : pointT Q) : Z := match point_xy p with Some _ => 1%Z | None => 0%Z end.
Definition gpx (g : geomT Q) : Q :=
  match g with GPoint p => pcx p | GMPoint _ ps => qsum (map pcx ps) | _ => 0 end.
Definition gpy (g : geomT Q) : Q :=
  match g with GPoint p => pcy p | GMPoint _ ps => qsum (map pcy ps) | _ => 0 end.
Definition gpn (g : geomT Q) : Z :=
  match g with GPoint p => pcn p | GMPoint _ ps => zsum (map pcn ps) | _ => 0%Z end.
(* lines that have a centroid (non-zero length): length and length-weighted centroid *)
Definition lw (sq : Q -> Q) (l : lineT Q) : Q :=
  match line_centroid sq l with Some _ => line_length sq l | None => 0 end.
Definition lcx (sq : Q -> Q) (l : lineT Q) : Q :=
  match line_centroid sq l with Some c => fst c * line_length sq l | None => 0 end.
Definition lcy (sq : Q -> Q) (l : lineT Q) : Q :=
  match line_centroid sq l with Some c => snd c * line_length sq l | None => 0 end.
Definition glw sq (g : geomT Q) : Q :=
  match g with GLine l => lw sq l | GMLine _ ls => qsum (map (lw sq) ls) | _ => 0 end.
Definition glx sq (g : geomT Q) : Q :=
  match g with GLine l => lcx sq l | GMLine _ ls => qsum (map (lcx sq) ls) | _ => 0 end.
Definition gly sq (g : geomT Q) : Q :=
  match g with GLine l => lcy sq l | GMLine _ ls => qsum (map (lcy sq) ls) | _ => 0 end.

Definition leaf_nondegenerate (g : geomT Q) : Prop :=
  match g with
  | GPoly p => poly_nondegenerate p
  | GMPoly _ ps => Forall poly_nondegenerate ps /\
                   (forallb (@poly_empty Q) ps = true \/ ~ mpoly_area false None ps == 0)
  | _ => True
  end.
(* the divisor of the collection centroid: number of points, total length, or total area *)
Definition coll_divisor (sq : Q -> Q) (g : geomT Q) : Q :=
  match hdim g with
  | 0%nat => inject_Z (zsum (map gpn (leaves g)))
  | 1%nat => qsum (map (glw sq) (leaves g))
  | _ => qsum (map (geom_area false None) (leaves g))
  end.
Definition centroid_defined (sq : Q -> Q) (g : geomT Q) : Prop :=
  match g with
  | GColl _ _ => Forall leaf_nondegenerate (leaves g) /\ (is_empty g = true \/ ~ coll_divisor sq g == 0)
  | _ => leaf_nondegenerate g
  end.
