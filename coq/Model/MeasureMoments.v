(* Property C14 - exact first moments of the point set of a polygon, by the slab decomposition.
   Definitions only (executable); proofs are in Proofs/Measure_moments.v.

   The cells are those of SetOpSpec.slab_cells (the trapezoids between two consecutive event
   abscissae x0 < x1 and two consecutive heights, taken at the middle of the slab, of the segments
   spanning the slab), in the same order and with the same witnesses.  SetOpSpec records a witness
   and the area of a cell only (the area of a trapezoid is width x height at the middle); the first
   moments depend on the shape, so a cell is recorded here with the heights of its lower and upper
   edge at both ends of the slab ([tcell]).  The edge through a height at the middle of the slab is
   looked up in the segment list ([edge_at]); inside a slab of the arrangement two segments with a
   common point are collinear, so the lookup does not depend on which segment is found
   (Proofs/Measure_moments.v, [hts_coherent]).

   For a trapezoid with vertical sides at x0 < x1, lower edge from (x0,l0) to (x1,l1) and upper
   edge from (x0,u0) to (x1,u1), with h0 = u0 - l0, h1 = u1 - l1:
     area            = (x1-x0) (h0 + h1) / 2
     integral of x   = (x1-x0) (h0 (2 x0 + x1) + h1 (x0 + 2 x1)) / 6
     integral of y   = (x1-x0) ((u0^2 + u0 u1 + u1^2) - (l0^2 + l0 l1 + l1^2)) / 6
   (x = x0 + t (x1-x0), the height and the ordinates of the edges are affine in t; integrate the
   polynomial in t over [0,1]). *)
From Coq Require Import QArith Qabs Qreduction ZArith List Bool.
From SF Require Import Base.GeomAST Base.QKernel Base.Planar Model.SetOpSpec Model.Measure.
Import ListNotations.
Open Scope Q_scope.

(* ---- a trapezoid with vertical sides ------------------------------------------------------- *)
Record tcell := MkT { tx0 : Q; tx1 : Q; tl0 : Q; tl1 : Q; tu0 : Q; tu1 : Q }.

Definition tz_area (c : tcell) : Q :=
  (tx1 c - tx0 c) * ((tu0 c - tl0 c) + (tu1 c - tl1 c)) / 2.
Definition tz_mx (c : tcell) : Q :=
  (tx1 c - tx0 c) * ((tu0 c - tl0 c) * (2 * tx0 c + tx1 c) + (tu1 c - tl1 c) * (tx0 c + 2 * tx1 c)) / 6.
Definition tz_my (c : tcell) : Q :=
  (tx1 c - tx0 c) * ((tu0 c * tu0 c + tu0 c * tu1 c + tu1 c * tu1 c)
                     - (tl0 c * tl0 c + tl0 c * tl1 c + tl1 c * tl1 c)) / 6.

(* operations on trapezoids used by the sanity lemmas *)
(* height of the edge from (x0,a0) to (x1,a1) at abscissa x *)
Definition lerp_h (x0 x1 a0 a1 x : Q) : Q := a0 + (x - x0) * (a1 - a0) / (x1 - x0).
(* the two parts of c on both sides of the vertical line at abscissa x *)
Definition tz_left (c : tcell) (x : Q) : tcell :=
  MkT (tx0 c) x (tl0 c) (lerp_h (tx0 c) (tx1 c) (tl0 c) (tl1 c) x) (tu0 c) (lerp_h (tx0 c) (tx1 c) (tu0 c) (tu1 c) x).
Definition tz_right (c : tcell) (x : Q) : tcell :=
  MkT x (tx1 c) (lerp_h (tx0 c) (tx1 c) (tl0 c) (tl1 c) x) (tl1 c) (lerp_h (tx0 c) (tx1 c) (tu0 c) (tu1 c) x) (tu1 c).
(* the two parts of c below and above the segment from (x0,m0) to (x1,m1) *)
Definition tz_below (c : tcell) (m0 m1 : Q) : tcell := MkT (tx0 c) (tx1 c) (tl0 c) (tl1 c) m0 m1.
Definition tz_above (c : tcell) (m0 m1 : Q) : tcell := MkT (tx0 c) (tx1 c) m0 m1 (tu0 c) (tu1 c).
Definition tz_translate (t : xy) (c : tcell) : tcell :=
  MkT (tx0 c + fst t) (tx1 c + fst t) (tl0 c + snd t) (tl1 c + snd t) (tu0 c + snd t) (tu1 c + snd t).
Definition tz_scale (k : Q) (c : tcell) : tcell :=
  MkT (k * tx0 c) (k * tx1 c) (k * tl0 c) (k * tl1 c) (k * tu0 c) (k * tu1 c).
(* independent scaling of the two axes *)
Definition tz_scale_xy (kx ky : Q) (c : tcell) : tcell :=
  MkT (kx * tx0 c) (kx * tx1 c) (ky * tl0 c) (ky * tl1 c) (ky * tu0 c) (ky * tu1 c).
Definition tz_rect (x0 x1 y0 y1 : Q) : tcell := MkT x0 x1 y0 y0 y1 y1.
(* the triangle (x0,a) (x1,b) (x1,c): a trapezoid whose left side has length 0 *)
Definition tz_tri (x0 x1 a b c : Q) : tcell := MkT x0 x1 a b a c.

(* ---- the trapezoids of the arrangement, with their shape ----------------------------------- *)
(* the open x-range of the non-vertical segment e contains xm: the test of Planar.slab_heights *)
Definition spans_open (e : seg) (xm : Q) : bool :=
  negb (seg_vertical e) &&
  ((qltb (fst (fst e)) xm && qltb xm (fst (snd e))) || (qltb (fst (snd e)) xm && qltb xm (fst (fst e)))).
(* a segment of L through the point (xm, y) of the open slab *)
Definition edge_at (L : list seg) (xm y : Q) : option seg :=
  find (fun e => spans_open e xm && Qeq_bool (seg_y_at e xm) y) L.
(* heights at the two ends x0, x1 of the slab of the edge that has height y at the middle xm *)
Definition hts_at (L : list seg) (x0 x1 xm y : Q) : Q * Q :=
  match edge_at L xm y with
  | Some e => (seg_y_at e x0, seg_y_at e x1)
  | None => (y, y)
  end.
Definition gap_tcell (L : list seg) (x0 x1 : Q) (yy : Q * Q) : pt * tcell :=
  let xm := qmid x0 x1 in
  let lo := hts_at L x0 x1 xm (fst yy) in
  let hi := hts_at L x0 x1 xm (snd yy) in
  ((xm, qmid (fst yy) (snd yy)), MkT x0 x1 (fst lo) (snd lo) (fst hi) (snd hi)).
(* same recursion as SetOpSpec.gap_cells / slab_cells *)
Fixpoint gap_tcells (L : list seg) (x0 x1 : Q) (ys : list Q) : list (pt * tcell) :=
  match ys with
  | y1 :: ((y2 :: _) as r) => gap_tcell L x0 x1 (y1, y2) :: gap_tcells L x0 x1 r
  | _ => []
  end.
Fixpoint slab_tcells (L : list seg) (xs : list Q) : list (pt * tcell) :=
  match xs with
  | x0 :: ((x1 :: _) as r) => gap_tcells L x0 x1 (slab_heights L (qmid x0 x1)) ++ slab_tcells L r
  | _ => []
  end.
(* the cells of the arrangement of the segments L and the points P *)
Definition moment_cells (L : list seg) (P : list pt) : list (pt * tcell) :=
  slab_tcells L (events (vertex_set L P)).

(* a functional of the shape evaluated on every cell: (witness, value), the format of
   SetOpSpec.cells_area and Measure_slab.cells_wsum *)
Definition tproj (F : tcell -> Q) (cells : list (pt * tcell)) : list (pt * Q) :=
  map (fun c => (fst c, F (snd c))) cells.

(* ---- exact area and first moments of a point set f (sum over the cells whose witness is in f) *)
Definition set_area (L : list seg) (P : list pt) (f : pt -> bool) : Q := cells_area (tproj tz_area (moment_cells L P)) f.
Definition set_mx (L : list seg) (P : list pt) (f : pt -> bool) : Q := cells_area (tproj tz_mx (moment_cells L P)) f.
Definition set_my (L : list seg) (P : list pt) (f : pt -> bool) : Q := cells_area (tproj tz_my (moment_cells L P)) f.
(* the centre of mass of the point set: first moments / area *)
Definition set_centroid (L : list seg) (P : list pt) (f : pt -> bool) : xy :=
  (set_mx L P f / set_area L P f, set_my L P f / set_area L P f).

(* one polygon in the arrangement of its own rings (as Measure_slab.slab_area) *)
Definition mpoly_segs (y : polyT Q) : list seg := flat_map line_segs (poly_rings y).
Definition slab_centroid (y : polyT Q) : xy := set_centroid (mpoly_segs y) [] (inG (GPoly y)).

(* the numerators centroidOfRing accumulates: (areaSum2, cent6) of the fan from the first vertex *)
Definition ring_fan6 (L : list xy) : xy := match L with [] => xy0 | b :: tl => snd (fan b tl) end.

(* one pass over the cells for the correspondence run: (area, integral of x, integral of y) of the
   point set, every partial sum normalised *)
Definition set_moments (cells : list (pt * tcell)) (f : pt -> bool) : Q * Q * Q :=
  fold_right (fun c acc =>
                if f (fst c)
                then let '(a, mx, my) := acc in
                     (Qred (tz_area (snd c) + a), Qred (tz_mx (snd c) + mx), Qred (tz_my (snd c) + my))
                else acc) (0, 0, 0) cells.
Definition poly_moments (y : polyT Q) : Q * Q * Q :=
  set_moments (moment_cells (mpoly_segs y) []) (inG (GPoly y)).

(* executable form of the additional hypothesis of the centroid theorems: no ring of zero area *)
Definition rings_nonzero (y : polyT Q) : bool :=
  forallb (fun r => negb (Qeq_bool (ring_area_xy (line_pts r)) 0)) (poly_rings y).

(* multipolygon: the members in one common arrangement; at every witness at most one member *)
Definition mp_segs (ps : list (polyT Q)) : list seg := flat_map mpoly_segs ps.
Definition members_disjoint (ps : list (polyT Q)) (cells : list pt) : bool :=
  forallb (fun w => (length (filter (fun y => inG (GPoly y) w) ps) <=? 1)%nat) cells.
(* one pass over the cells of the common arrangement, for the correspondence run *)
Definition mpoly_moments (ps : list (polyT Q)) : Q * Q * Q :=
  set_moments (moment_cells (mp_segs ps) []) (inG (GMPoly XY ps)).
