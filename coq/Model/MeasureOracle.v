(* Property C14 - executable oracles used by the correspondence run (not by the model):
   - exact value of a float64 bit pattern (dyadic rational);
   - rational brackets of the square root at 2^-80;
   - Pick's theorem on lattice polygons: A = I + B/2 - 1 with I counted by exact crossing
     parity over the lattice points of the bounding box and B by gcds - an area oracle that
     measures the point set and shares nothing with the shoelace sum;
   - unit-cell decomposition of rectilinear lattice polygons (area = number of unit cells whose
     centre is inside, centroid = mean of those centres) - a centre-of-mass oracle independent of
     the fan formula;
   - orientation of a simple ring from the turn at its lexicographically smallest vertex.
   Definitions only. *)
From Coq Require Import QArith Qabs Qround ZArith NArith List Bool.
From SF Require Import Base.GeomAST Model.Measure.
Import ListNotations.

(* ---- float64 bits -> exact rational -------------------------------------------------------- *)
Definition f64_to_Q (b : N) : option Q :=
  let sign := N.testbit b 63 in
  let e := N.land (N.shiftr b 52) 2047 in
  let m := N.land b 4503599627370495 in
  if (e =? 2047)%N then None
  else
    let mant := if (e =? 0)%N then Z.of_N m else Z.of_N (m + 4503599627370496) in
    let ex := if (e =? 0)%N then (-1074)%Z else (Z.of_N e - 1075)%Z in
    let z := if sign then (- mant)%Z else mant in
    Some (Qred (if (0 <=? ex)%Z then inject_Z (z * 2 ^ ex)
                else Qmake z (Z.to_pos (2 ^ (- ex))))).

Definition f64_or0 (b : N) : Q := match f64_to_Q b with Some q => q | None => 0 end.
Definition f64_finite (b : N) : bool := match f64_to_Q b with Some _ => true | None => false end.

(* carrier change of the geometry value *)
Section MapAST.
  Variables (A B : Type) (f : A -> B).
  Definition vtx_map (v : vtx A) : vtx B := Build_vtx (f (vx v)) (f (vy v)) (f (vz v)) (f (vm v)).
  Definition point_map (p : pointT A) : pointT B :=
    match p with MkPoint ct c => MkPoint ct (option_map vtx_map c) end.
  Definition line_map (l : lineT A) : lineT B :=
    match l with MkLine ct vs => MkLine ct (map vtx_map vs) end.
  Definition poly_map (p : polyT A) : polyT B :=
    match p with MkPoly ct rs => MkPoly ct (map line_map rs) end.
  Fixpoint geom_map (g : geomT A) : geomT B :=
    match g with
    | GPoint p => GPoint (point_map p)
    | GLine l => GLine (line_map l)
    | GPoly p => GPoly (poly_map p)
    | GMPoint ct ps => GMPoint ct (map point_map ps)
    | GMLine ct ls => GMLine ct (map line_map ls)
    | GMPoly ct ps => GMPoly ct (map poly_map ps)
    | GColl ct gs => GColl ct (map geom_map gs)
    end.
End MapAST.

(* X and Y of every vertex finite (Z/M are never read by the measures: non-finite ones become 0) *)
Definition xy_finite (g : geomT N) : bool :=
  forallb (fun v => f64_finite (vx v) && f64_finite (vy v)) (geom_vs g).
Definition geom_of_bits (g : geomT N) : geomT Q := geom_map N Q f64_or0 g.

(* ---- square root brackets ------------------------------------------------------------------ *)
Definition sqrt_scale : positive := 1208925819614629174706176.   (* 2^80 *)
Definition sqrt_floor_scaled (q : Q) : Z :=
  Z.sqrt (Qfloor (q * inject_Z (Zpos (sqrt_scale * sqrt_scale)))).
Definition sqrt_lo (q : Q) : Q :=
  if Qle_bool q 0 then 0 else Qred (Qmake (sqrt_floor_scaled q) sqrt_scale).
Definition sqrt_hi (q : Q) : Q :=
  if Qle_bool q 0 then 0
  else let lo := sqrt_lo q in
       if Qeq_bool (lo * lo) q then lo else Qred (Qmake (sqrt_floor_scaled q + 1) sqrt_scale).

(* integer-valued variants: sqrt_scale * sqrt, rounded down / up.  Length is linear in the
   square root and the lineal centroid is a ratio of two sums that are both linear in it, so
   the driver may run the model with these (no growing denominators) and divide lengths by
   sqrt_scale afterwards. *)
Definition sqrt_lo_scaled (q : Q) : Q :=
  if Qle_bool q 0 then 0 else inject_Z (sqrt_floor_scaled q).
Definition sqrt_hi_scaled (q : Q) : Q :=
  if Qle_bool q 0 then 0
  else let s := sqrt_floor_scaled q in
       if Qeq_bool (Qmake (s * s) (sqrt_scale * sqrt_scale)) q then inject_Z s else inject_Z (s + 1).
Definition unscale (q : Q) : Q := Qred (q / inject_Z (Zpos sqrt_scale)).

(* ---- comparisons --------------------------------------------------------------------------- *)
Definition q_close (a b tol : Q) : bool := Qle_bool (Qabs (a - b)) tol.
Definition q_between (lo x hi tol : Q) : bool := Qle_bool (lo - tol) x && Qle_bool x (hi + tol).
Definition xy_close (a b : xy) (tol : Q) : bool := q_close (fst a) (fst b) tol && q_close (snd a) (snd b) tol.
Definition xy_red (a : xy) : xy := (Qred (fst a), Qred (snd a)).

(* largest |ordinate| (X, Y only), at least 1 *)
Definition q_max (a b : Q) : Q := if Qle_bool a b then b else a.
Definition magnitude (g : geomT Q) : Q :=
  fold_left (fun m v => q_max m (q_max (Qabs (vx v)) (Qabs (vy v)))) (geom_vs g) 1.

(* the affine per-vertex transform used for the transform-option checks *)
Definition affine (a b c d e f : Z) (p : xy) : xy :=
  (inject_Z a * fst p + inject_Z b * snd p + inject_Z c,
   inject_Z d * fst p + inject_Z e * snd p + inject_Z f).

(* non-linear per-vertex transforms (exact on the lattice): they distinguish "transform, then
   use the vertex" from any reordering that commutes with affine maps only *)
Definition nonlinear (kind : Z) (p : xy) : xy :=
  let x := fst p in let y := snd p in
  match kind with
  | 1%Z => (x * x, y)
  | 2%Z => (x * y, y + x)
  | _ => (x * x - y, x + y * y)
  end.

(* ---- lattice oracles ----------------------------------------------------------------------- *)
Definition zpt := (Z * Z)%type.
Open Scope Z_scope.

Definition q_int (q : Q) : option Z :=
  let r := Qred q in if Pos.eqb (Qden r) 1 then Some (Qnum r) else None.
Fixpoint opt_all {A} (l : list (option A)) : option (list A) :=
  match l with
  | [] => Some []
  | None :: _ => None
  | Some a :: r => match opt_all r with Some r' => Some (a :: r') | None => None end
  end.
Definition ring_lattice (l : lineT Q) : option (list zpt) :=
  opt_all (map (fun p => match q_int (fst p), q_int (snd p) with
                         | Some x, Some y => Some (x, y)
                         | _, _ => None
                         end) (line_xys l)).
Definition poly_lattice (p : polyT Q) : option (list (list zpt)) :=
  opt_all (map ring_lattice (poly_rings p)).

Fixpoint edges (l : list zpt) : list (zpt * zpt) :=
  match l with
  | a :: r => match r with b :: _ => (a, b) :: edges r | [] => [] end
  | [] => []
  end.

Definition zcross (o a b : zpt) : Z :=
  (fst a - fst o) * (snd b - snd o) - (fst b - fst o) * (snd a - snd o).

Definition on_seg (p a b : zpt) : bool :=
  (zcross a b p =? 0) &&
  (Z.min (fst a) (fst b) <=? fst p) && (fst p <=? Z.max (fst a) (fst b)) &&
  (Z.min (snd a) (snd b) <=? snd p) && (snd p <=? Z.max (snd a) (snd b)).
Definition on_ring (p : zpt) (r : list zpt) : bool :=
  existsb (fun e => on_seg p (fst e) (snd e)) (edges r).

(* the edge a-b crosses the open ray from p towards +x (half-open rule in y) *)
Definition ray_crosses (p a b : zpt) : bool :=
  if Bool.eqb (snd p <? snd a) (snd p <? snd b) then false
  else
    let d := snd b - snd a in
    let t := (fst b - fst a) * (snd p - snd a) - (fst p - fst a) * d in
    if 0 <? d then 0 <? t else t <? 0.
Definition parity_inside (p : zpt) (r : list zpt) : bool :=
  fold_left (fun acc e => if ray_crosses p (fst e) (snd e) then negb acc else acc) (edges r) false.
Definition strictly_inside (p : zpt) (r : list zpt) : bool :=
  parity_inside p r && negb (on_ring p r).

Fixpoint zseq (lo : Z) (n : nat) : list Z :=
  match n with O => [] | S k => lo :: zseq (lo + 1) k end.
Definition zrange (lo hi : Z) : list Z := zseq lo (Z.to_nat (hi - lo + 1)).
Definition zmin_list (d : Z) (l : list Z) := fold_left Z.min l d.
Definition zmax_list (d : Z) (l : list Z) := fold_left Z.max l d.

Definition bbox (pts : list zpt) : Z * Z * Z * Z :=
  match pts with
  | [] => (0, 0, -1, -1)
  | p :: _ => (zmin_list (fst p) (map fst pts), zmin_list (snd p) (map snd pts),
               zmax_list (fst p) (map fst pts), zmax_list (snd p) (map snd pts))
  end.
Definition bbox_points (pts : list zpt) : list zpt :=
  let '(x0, y0, x1, y1) := bbox pts in
  flat_map (fun x => map (fun y => (x, y)) (zrange y0 y1)) (zrange x0 x1).
Definition bbox_size (pts : list zpt) : Z :=
  let '(x0, y0, x1, y1) := bbox pts in (x1 - x0 + 1) * (y1 - y0 + 1).

Definition count {A} (f : A -> bool) (l : list A) : Z :=
  fold_left (fun n a => if f a then n + 1 else n) l 0.

(* boundary lattice points of a closed ring: sum of gcd(|dx|,|dy|) over its edges *)
Definition ring_B_gcd (r : list zpt) : Z :=
  fold_left (fun s e => s + Z.gcd (fst (snd e) - fst (fst e)) (snd (snd e) - snd (fst e))) (edges r) 0.
Definition ring_B_count (r : list zpt) : Z := count (fun p => on_ring p r) (bbox_points r).
Definition ring_I (r : list zpt) : Z := count (fun p => strictly_inside p r) (bbox_points r).
(* twice the area of a simple lattice ring by Pick: 2A = 2I + B - 2 *)
Definition pick_ring2 (r : list zpt) : Z := 2 * ring_I r + ring_B_gcd r - 2.

(* per ring: shell minus holes (valid for every valid polygon: rings are simple) *)
Definition pick_poly2 (rs : list (list zpt)) : Z :=
  match rs with
  | [] => 0
  | shell :: holes => fold_left (fun a h => a - pick_ring2 h) holes (pick_ring2 shell)
  end.

(* the polygon as a point set: I = lattice points strictly inside the shell and not inside or
   on a hole, B = distinct lattice points on any ring.  With h pairwise disjoint holes not
   touching the shell: 2A = 2I + B - 2 + 2h.  [rings_disjoint] tells whether that is the case
   (for valid polygons rings can only touch at lattice points). *)
Definition poly_I (rs : list (list zpt)) : Z :=
  match rs with
  | [] => 0
  | shell :: holes =>
      count (fun p => strictly_inside p shell &&
                      forallb (fun h => negb (parity_inside p h || on_ring p h)) holes)
            (bbox_points shell)
  end.
Definition poly_B (rs : list (list zpt)) : Z :=
  match rs with
  | [] => 0
  | shell :: _ => count (fun p => existsb (on_ring p) rs) (bbox_points shell)
  end.
Definition rings_disjoint (rs : list (list zpt)) : bool :=
  poly_B rs =? fold_left (fun s r => s + ring_B_gcd r) rs 0.
Definition pick_set2 (rs : list (list zpt)) : Z :=
  match rs with
  | [] => 0
  | _ :: holes => 2 * poly_I rs + poly_B rs - 2 + 2 * Z.of_nat (length holes)
  end.

(* unit cells: for a rectilinear lattice polygon the area is the number of unit cells whose
   centre lies inside (parity in doubled coordinates, centres are never on an edge), and the
   centre of mass is the mean of those centres.  Returns (cells, sum of 2*cx, sum of 2*cy). *)
Definition rectilinear (r : list zpt) : bool :=
  forallb (fun e => (fst (fst e) =? fst (snd e)) || (snd (fst e) =? snd (snd e))) (edges r).
Definition dbl (r : list zpt) : list zpt := map (fun p => (2 * fst p, 2 * snd p)) r.
Definition cell_centres (shell : list zpt) : list zpt :=
  let '(x0, y0, x1, y1) := bbox shell in
  flat_map (fun x => map (fun y => (2 * x + 1, 2 * y + 1)) (zrange y0 (y1 - 1))) (zrange x0 (x1 - 1)).
Definition cells_poly (rs : list (list zpt)) : Z * Z * Z :=
  match rs with
  | [] => (0, 0, 0)
  | shell :: holes =>
      let dsh := dbl shell in
      let dhs := map dbl holes in
      fold_left (fun acc c =>
                   if parity_inside c dsh && forallb (fun h => negb (parity_inside c h)) dhs
                   then let '(n, sx, sy) := acc in (n + 1, sx + fst c, sy + snd c)
                   else acc)
                (cell_centres shell) (0, 0, 0)
  end.

(* orientation of a simple ring: the turn at the lexicographically smallest vertex of the
   cycle (consecutive duplicates removed).  Some true = counter-clockwise. *)
Definition zpt_eqb (a b : zpt) : bool := (fst a =? fst b) && (snd a =? snd b).
Definition zpt_ltb (a b : zpt) : bool := (fst a <? fst b) || ((fst a =? fst b) && (snd a <? snd b)).
Fixpoint dedup (l : list zpt) : list zpt :=
  match l with
  | a :: r => match r with
              | b :: _ => if zpt_eqb a b then dedup r else a :: dedup r
              | [] => [a]
              end
  | [] => []
  end.
Definition ring_ccw_extreme (r : list zpt) : option bool :=
  let cyc := removelast (dedup r) in
  match cyc with
  | [] => None
  | p0 :: _ =>
      let n := length cyc in
      let '(_, best) := fold_left (fun st p => let '(i, b) := st in
                                               (S i, if zpt_ltb p (nth b cyc p0) then i else b))
                                  cyc (O, O) in
      let v := nth best cyc p0 in
      let prev := nth ((best + n - 1) mod n)%nat cyc p0 in
      let next := nth ((best + 1) mod n)%nat cyc p0 in
      let c := zcross prev v next in
      if c =? 0 then None else Some (0 <? c)
  end.
