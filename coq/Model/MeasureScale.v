(* Property C14 - vocabulary of the scale-equivariance theorems (Props/C14.v: area_scale_equivariant,
   length_scale_equivariant, centroid_scale_equivariant) and of the rescaled variants of the
   correspondence run (ocaml/c14/driver.ml, tag sm:k).  Definitions only. *)
From Coq Require Import QArith List.
From SF Require Import Base.GeomAST Model.Measure.
Open Scope Q_scope.

(* every X and Y multiplied by c (TransformXY with p -> p.Scale(c)); Z and M are kept by geom_tr *)
Definition scale (c : Q) (p : xy) : xy := xy_scale p c.
Definition oscale (c : Q) (o : option xy) : option xy := option_map (scale c) o.

(* the root function respects == *)
Definition respects_eq (sq : Q -> Q) : Prop := forall a b, a == b -> sq a == sq b.
(* homogeneity of the square root between the scaled and the unscaled geometry:
   root' (c^2 x) = c root x.  math.Sqrt satisfies it with root' = root for every c >= 0; for any
   root and c <> 0 the function root' y := c * root (y / c^2) does. *)
Definition sqrt_homogeneous (c : Q) (sq sq' : Q -> Q) : Prop := forall x, sq' (c * c * x) == c * sq x.
