(* Property C01, second layer: the labelled cell complex of the overlay as an abstract finite
   half-edge structure, its structural invariants as an executable predicate, and the SELECTION
   rules of geom/dcel_extract_geometry.go on it.

   What is abstract: no coordinates.  A complex is three lists (vertices, half edges, faces); ids are
   positions in these lists.  The real structure of every overlay the implementation builds is
   exported by the hook geom/verif_hooks.go:VerifOverlay (build tag verif) and judged by [dcel_ok];
   the selection model below is run on it and compared with the geometry the implementation
   extracted (ocaml/c01/driver.ml).

   Anchors:
     geom/dcel.go                      halfEdgeRecord / faceRecord / vertexRecord (fields modelled: origin,
                                       twin, next, prev, incident, srcEdge, srcFace, inSet; src, inSet; cycle, inSet)
     geom/dcel_fixup.go                fixVertex (next/prev around a vertex), assignFaces (one face per
                                       cycle), populateInSetLabels (the label rule [labels_ok])
     geom/dcel_ghosts.go               ghost edges connect all components: the graph is connected, hence
                                       one boundary cycle per face and V - E + F = 2
     geom/dcel_extract_geometry.go     extractPolygons / shouldExtractLine / extractPoints: which faces,
                                       edges, vertices are selected, and the [extracted] marks that suppress
                                       lower-dimensional parts already covered
   NOT modelled: how the structure is computed (re-noding, radial sort, flood fill of face labels),
   ring walking and hole assignment of extractPolygons (the driver compares the boundary edges). *)
From Coq Require Import List Bool Arith Lia.
From SF Require Import Model.SetOpSpec.
Import ListNotations.

(* a label family: one bit per operand (A, B) *)
Definition lab := (bool * bool)%type.
Definition lab_get (l : lab) (op : bool) : bool := if op then snd l else fst l.   (* op: false = A, true = B *)
Definition lab_eqb (l m : lab) : bool := Bool.eqb (fst l) (fst m) && Bool.eqb (snd l) (snd m).
Definition lab_swap (l : lab) : lab := (snd l, fst l).
(* geom/alg_set_op.go: include(label) for the four operations *)
Definition inc (o : setop) (l : lab) : bool := op_bool o (fst l) (snd l).

Record vertexR := MkV { v_src : lab; v_in : lab }.
Record hedgeR := MkE { e_origin : nat; e_twin : nat; e_next : nat; e_prev : nat; e_face : nat;
                       e_srcEdge : lab; e_srcFace : lab; e_in : lab }.
Record faceR := MkF { f_cycle : option nat; f_in : lab }.
Record complex := MkC { c_verts : list vertexR; c_edges : list hedgeR; c_faces : list faceR }.

Definition get_e (c : complex) (i : nat) : option hedgeR := nth_error (c_edges c) i.
Definition get_v (c : complex) (i : nat) : option vertexR := nth_error (c_verts c) i.
Definition get_f (c : complex) (i : nat) : option faceR := nth_error (c_faces c) i.
Definition nE (c : complex) : nat := length (c_edges c).
Definition nV (c : complex) : nat := length (c_verts c).
Definition nF (c : complex) : nat := length (c_faces c).

(* label of a face id / of the face on the other side of a half edge (no label outside the lists) *)
Definition face_in (c : complex) (f : nat) : lab :=
  match get_f c f with Some fr => f_in fr | None => (false, false) end.
Definition twin_face (c : complex) (e : hedgeR) : option nat :=
  match get_e c (e_twin e) with Some t => Some (e_face t) | None => None end.
Definition twin_face_in (c : complex) (e : hedgeR) : lab :=
  match twin_face c e with Some f => face_in c f | None => (false, false) end.

(* ================================================================ structural invariants ====== *)
Fixpoint indexed_from {A} (k : nat) (l : list A) : list (nat * A) :=
  match l with [] => [] | x :: r => (k, x) :: indexed_from (S k) r end.
Definition edges_ix (c : complex) : list (nat * hedgeR) := indexed_from 0 (c_edges c).
Definition verts_ix (c : complex) : list (nat * vertexR) := indexed_from 0 (c_verts c).
Definition faces_ix (c : complex) : list (nat * faceR) := indexed_from 0 (c_faces c).

(* every id is inside its list *)
Definition ranges_ok (c : complex) : bool :=
  forallb (fun e => Nat.ltb (e_origin e) (nV c) && Nat.ltb (e_twin e) (nE c) && Nat.ltb (e_next e) (nE c)
                    && Nat.ltb (e_prev e) (nE c) && Nat.ltb (e_face e) (nF c)) (c_edges c)
  && forallb (fun f => match f_cycle f with Some s => Nat.ltb s (nE c) | None => true end) (c_faces c).

Definition field_is (c : complex) (i : nat) (proj : hedgeR -> nat) (v : nat) : bool :=
  match get_e c i with Some e => Nat.eqb (proj e) v | None => false end.

(* twin is an involution without fixed point, swaps the end points, and both half edges of an edge
   carry the same source-edge flags (dcel_input.go sets fwd and rev together) *)
Definition twin_ok (c : complex) : bool :=
  forallb (fun ie =>
    let i := fst ie in let e := snd ie in
    negb (Nat.eqb (e_twin e) i) && field_is c (e_twin e) e_twin i
    && match get_e c (e_twin e) with
       | Some t => lab_eqb (e_srcEdge t) (e_srcEdge e)
                   (* the twin starts where the next half edge starts *)
                   && field_is c (e_next e) e_origin (e_origin t)
       | None => false
       end) (edges_ix c).
(* next and prev are inverse; next stays on the same face *)
Definition next_prev_ok (c : complex) : bool :=
  forallb (fun ie =>
    let i := fst ie in let e := snd ie in
    field_is c (e_next e) e_prev i && field_is c (e_prev e) e_next i
    && field_is c (e_next e) e_face (e_face e)) (edges_ix c).

(* the half edges reached from s by following next, at most fuel steps, until s comes back *)
Fixpoint orbit (c : complex) (s : nat) (cur : nat) (fuel : nat) : option (list nat) :=
  match fuel with
  | O => None
  | S k =>
      match get_e c cur with
      | None => None
      | Some e => if Nat.eqb (e_next e) s then Some [cur]
                  else match orbit c s (e_next e) k with Some l => Some (cur :: l) | None => None end
      end
  end.
Definition count_face (c : complex) (f : nat) : nat :=
  length (filter (fun e => Nat.eqb (e_face e) f) (c_edges c)).
(* one closed boundary cycle per face, containing exactly the half edges incident to the face
   (the graph is connected through the ghost edges); the artificial face of an overlay without
   edges has no cycle *)
Definition faces_ok (c : complex) : bool :=
  forallb (fun jf =>
    let j := fst jf in let f := snd jf in
    match f_cycle f with
    | Some s =>
        field_is c s e_face j &&
        match orbit c s s (nE c) with
        | Some l => Nat.eqb (length l) (count_face c j)
        | None => false
        end
    | None => Nat.eqb (nE c) 0
    end) (faces_ix c)
  && (negb (Nat.eqb (nE c) 0) || Nat.eqb (nF c) 1).

(* Euler's formula for a connected plane graph: V - E + F = 2 with E = half edges / 2 *)
Definition euler_ok (c : complex) : bool :=
  Nat.eqb (nE c) 0 || (Nat.even (nE c) && Nat.eqb (2 * (nV c + nF c)) (nE c + 4)).

(* dcel_fixup.go: assignFaces and populateInSetLabels, as bounds rather than as one particular
   population rule (so that a rewrite of the rule that labels the same cells is not an alarm):
   lower bounds (label closure):  source face flag <= source edge flag;  source face flag <= label of
     the incident face;  source edge flag <= edge label;  label of the incident face <= edge label;
     edge label <= label of both end vertices;  source vertex flag <= vertex label;
   upper bounds (no label from nowhere):  edge label <= source edge flag, or a face on either side;
     vertex label <= source vertex flag, or an edge starting or ending at the vertex. *)
Definition lab_or (a b : lab) : lab := (fst a || fst b, snd a || snd b).
Definition lab_le (a b : lab) : bool := (negb (fst a) || fst b) && (negb (snd a) || snd b).
Definition vert_in (c : complex) (i : nat) : option lab :=
  match get_v c i with Some v => Some (v_in v) | None => None end.
Definition le_opt (a : lab) (b : option lab) : bool := match b with Some l => lab_le a l | None => false end.
Definition twin_origin (c : complex) (e : hedgeR) : option nat :=
  match get_e c (e_twin e) with Some t => Some (e_origin t) | None => None end.
Definition touches (c : complex) (i : nat) (e : hedgeR) : bool :=
  Nat.eqb (e_origin e) i || match twin_origin c e with Some j => Nat.eqb j i | None => false end.
Definition labels_ok (c : complex) : bool :=
  forallb (fun e =>
    lab_le (e_srcFace e) (e_srcEdge e)
    && lab_le (e_srcFace e) (face_in c (e_face e))
    && lab_le (e_srcEdge e) (e_in e)
    && lab_le (face_in c (e_face e)) (e_in e)
    && le_opt (e_in e) (vert_in c (e_origin e))
    && le_opt (e_in e) (match twin_origin c e with Some j => vert_in c j | None => None end)
    && lab_le (e_in e) (lab_or (e_srcEdge e) (lab_or (face_in c (e_face e)) (twin_face_in c e)))) (c_edges c)
  && forallb (fun iv =>
    let i := fst iv in let v := snd iv in
    lab_le (v_src v) (v_in v)
    && lab_le (v_in v)
         (fold_right (fun e acc => if touches c i e then lab_or (e_in e) acc else acc) (v_src v) (c_edges c)))
    (verts_ix c).

Definition dcel_ok (c : complex) : bool :=
  ranges_ok c && twin_ok c && next_prev_ok c && faces_ok c && euler_ok c && labels_ok c.

(* label closure, the part of [labels_ok] that the extraction relies on: a face in an operand's set
   forces the half edges of its boundary cycle into the set, an edge in the set forces both of its
   end points into the set *)
Definition label_closed (c : complex) : Prop :=
  (forall e, In e (c_edges c) -> lab_le (face_in c (e_face e)) (e_in e) = true) /\
  (forall e v, In e (c_edges c) -> get_v c (e_origin e) = Some v -> lab_le (e_in e) (v_in v) = true) /\
  (forall e t w, In e (c_edges c) -> get_e c (e_twin e) = Some t -> get_v c (e_origin t) = Some w ->
                 lab_le (e_in e) (v_in w) = true).

(* ================================================================ selection ================== *)
(* extractPolygons: the faces whose label passes the operation *)
Definition sel_face (o : setop) (c : complex) (f : nat) : bool := inc o (face_in c f).
Definition sel_twin_face (o : setop) (c : complex) (e : hedgeR) : bool := inc o (twin_face_in c e).
(* a face on either side is selected: extractPolygons marks the half edges of every cycle of a
   selected face, and their twins, as extracted *)
Definition adj_sel (o : setop) (c : complex) (e : hedgeR) : bool :=
  sel_face o c (e_face e) || sel_twin_face o c e.
(* shouldExtractLine, with e.extracted as left by extractPolygons *)
Definition sel_line (o : setop) (c : complex) (e : hedgeR) : bool :=
  negb (adj_sel o c e) && inc o (e_in e)
  && negb (sel_face o c (e_face e)) && negb (sel_twin_face o c e).
Definition twin_sel_line (o : setop) (c : complex) (e : hedgeR) : bool :=
  match get_e c (e_twin e) with Some t => sel_line o c t | None => false end.
(* extractLineStrings visits every half edge: the edge is extracted when either half edge passes *)
Definition line_extracted (o : setop) (c : complex) (e : hedgeR) : bool := sel_line o c e || twin_sel_line o c e.
(* vertex marks: origin of every half edge on a selected face's cycle; both ends of an extracted line *)
Definition v_covered (o : setop) (c : complex) (v : nat) : bool :=
  existsb (fun e => Nat.eqb (e_origin e) v
                    && (sel_face o c (e_face e) || line_extracted o c e)) (c_edges c).
(* extractPoints *)
Definition sel_point (o : setop) (c : complex) (iv : nat * vertexR) : bool :=
  inc o (v_in (snd iv)) && negb (v_covered o c (fst iv)).

(* the extracted cells, as id lists *)
Definition faces_selected (o : setop) (c : complex) : list nat :=
  map fst (filter (fun jf => sel_face o c (fst jf)) (faces_ix c)).
(* half edges on the boundary of the areal part: own face selected, other side not *)
Definition boundary_edges (o : setop) (c : complex) : list nat :=
  map fst (filter (fun ie => sel_face o c (e_face (snd ie)) && negb (sel_twin_face o c (snd ie))) (edges_ix c)).
(* one half edge per extracted line *)
Definition lines_selected (o : setop) (c : complex) : list nat :=
  map fst (filter (fun ie => line_extracted o c (snd ie) && Nat.ltb (fst ie) (e_twin (snd ie))) (edges_ix c)).
Definition points_selected (o : setop) (c : complex) : list nat :=
  map fst (filter (sel_point o c) (verts_ix c)).

(* the cells of the result's point set *)
Definition res_edge (o : setop) (c : complex) (e : hedgeR) : bool := adj_sel o c e || line_extracted o c e.
(* the label of either half edge of the edge passes the operation *)
Definition edge_inc (o : setop) (c : complex) (e : hedgeR) : bool :=
  inc o (e_in e) || match get_e c (e_twin e) with Some t => inc o (e_in t) | None => false end.
Definition res_vertex (o : setop) (c : complex) (iv : nat * vertexR) : bool :=
  v_covered o c (fst iv) || sel_point o c iv.

(* swapping the operands *)
Definition swap_v (v : vertexR) : vertexR := MkV (lab_swap (v_src v)) (lab_swap (v_in v)).
Definition swap_e (e : hedgeR) : hedgeR :=
  MkE (e_origin e) (e_twin e) (e_next e) (e_prev e) (e_face e)
      (lab_swap (e_srcEdge e)) (lab_swap (e_srcFace e)) (lab_swap (e_in e)).
Definition swap_f (f : faceR) : faceR := MkF (f_cycle f) (lab_swap (f_in f)).
Definition swap_c (c : complex) : complex :=
  MkC (map swap_v (c_verts c)) (map swap_e (c_edges c)) (map swap_f (c_faces c)).
