(* Property C01, fourth layer: geom/dcel_fixup.go in the model - the phases of the overlay engine between
   "all edges inserted" (dcel_input.go, dcel_ghosts.go) and "labelled complex":
       fixVertices / fixVertex / radialLess      the rotation system: next / prev around every vertex
       assignFaces                               one face per next-cycle, srcFace seeds, flood fill
       populateInSetLabels                       edge and vertex labels
   transcribed line by line over exact rationals, on an abstract PRE-COMPLEX: vertices with coordinates
   and source labels; half edges with origin, twin, the second point of their point sequence (it gives the
   outgoing direction: di := seq[1] - seq[0]), the last point, and the source labels srcEdge / srcFace -
   no next / prev / incident face / inSet labels yet.  Ids are positions in the two lists.

   Differences from the Go code, all of them about iteration ORDER and arithmetic:
     - Go iterates d.vertices, v.incidents and d.halfEdges as maps (unspecified order); the model iterates
       in id order.  What is proved about the result (Props/C01_fixup.v) does not mention the order; the
       driver compares the model's result with the implementation's on every real structure.
     - sort.Slice (unspecified algorithm, not stable) is an insertion sort here; under the hypothesis that
       radialLess is a strict total order on the directions at the vertex (theorems radialLess_irrefl, _trans, _total), the
       sorted list is unique (sorted_unique): every correct sorting algorithm returns it.
     - float64 subtraction / multiplication in radialLess are exact rational operations here (they are
       exact on the lattice classes of the generator; on general floats the driver's comparison of next /
       prev with the implementation's is the check).
     - loops that run "until the pointer comes back" (forEachEdgeInCycle) and the recursion of the flood
       fill have fuel (number of half edges / of faces + 1); the fuel is proved sufficient
       (find_cycles_total, flood fill: dfs_post) under the stated hypotheses.
   The cycle search re-uses [walk] / [collect] of Model/OverlayRings.v (same shape: a seen set, a walk until
   the start comes back). *)
From Coq Require Import List Bool Arith QArith Lia.
From SF Require Import Base.QKernel Model.SetOpSpec Model.OverlayComplex Model.OverlayRings.
Import ListNotations.

(* ================================================================ the pre-complex =============== *)
Record pvertex := MkPV { pv_xy : pt; pv_src : lab }.
Record phedge := MkPE { pe_origin : nat; pe_twin : nat; pe_second : pt; pe_dest : pt;
                        pe_srcEdge : lab; pe_srcFace : lab }.
Record precomplex := MkPC { pc_verts : list pvertex; pc_edges : list phedge }.

Definition pnV (pc : precomplex) : nat := length (pc_verts pc).
Definition pnE (pc : precomplex) : nat := length (pc_edges pc).
Definition p_origin (pc : precomplex) (i : nat) : nat :=
  match nth_error (pc_edges pc) i with Some e => pe_origin e | None => 0%nat end.
Definition p_twin (pc : precomplex) (i : nat) : nat :=
  match nth_error (pc_edges pc) i with Some e => pe_twin e | None => i end.
Definition p_srcEdge (pc : precomplex) (i : nat) : lab :=
  match nth_error (pc_edges pc) i with Some e => pe_srcEdge e | None => (false, false) end.
Definition p_srcFace (pc : precomplex) (i : nat) : lab :=
  match nth_error (pc_edges pc) i with Some e => pe_srcFace e | None => (false, false) end.
Definition p_xy (pc : precomplex) (v : nat) : pt :=
  match nth_error (pc_verts pc) v with Some x => pv_xy x | None => (0, 0) end.
Definition p_vsrc (pc : precomplex) (v : nat) : lab :=
  match nth_error (pc_verts pc) v with Some x => pv_src x | None => (false, false) end.
(* di := ei.seq.GetXY(1).Sub(ei.seq.GetXY(0)); seq[0] is the coordinate pair of the origin vertex *)
Definition p_dir (pc : precomplex) (i : nat) : pt :=
  match nth_error (pc_edges pc) i with
  | Some e => let o := p_xy pc (pe_origin e) in (fst (pe_second e) - fst o, snd (pe_second e) - snd o)
  | None => (0, 0)
  end.

(* ================================================================ radialLess ==================== *)
(* geom/xy.go: Cross, lengthSq *)
Definition vcross (a b : pt) : Q := fst a * snd b - snd a * fst b.
Definition vlen2 (a : pt) : Q := fst a * fst a + snd a * snd a.

(* geom/dcel_fixup.go: radialLess *)
Definition radialLess (di dj : pt) : bool :=
  if Qle_bool 0 (fst di) && qltb (fst dj) 0 then true                    (* di.X >= 0 && dj.X < 0 *)
  else if qltb (fst di) 0 && Qle_bool 0 (fst dj) then false              (* di.X < 0 && dj.X >= 0 *)
  else if Qeq_bool (fst di) 0 && Qeq_bool (fst dj) 0 then                (* di.X == 0 && dj.X == 0 *)
    (if Qle_bool 0 (snd di) || Qle_bool 0 (snd dj)                       (*   di.Y >= 0 || dj.Y >= 0 *)
     then qltb (snd di) (snd dj)                                         (*     return di.Y < dj.Y *)
     else qltb (snd dj) (snd di))                                        (*   return dj.Y < di.Y *)
  else
    let det := vcross di dj in
    if negb (Qeq_bool det 0) then qltb 0 det                             (* det != 0: return det > 0 *)
    else qltb (vlen2 di) (vlen2 dj).                                     (* return li < lj *)

(* the order radialLess implements, stated independently: four sectors taken counter-clockwise from the
   downward ray - 0: the ray x = 0, y < 0;  1: the open right half plane;  2: the ray x = 0, y > 0;
   3: the open left half plane - then, inside a sector, counter-clockwise (positive cross product), and
   for equal directions the shorter vector first *)
Definition sector (d : pt) : nat :=
  if Qeq_bool (fst d) 0 then (if qltb (snd d) 0 then 0 else 2)%nat
  else if qltb 0 (fst d) then 1%nat else 3%nat.
Definition radial_spec (a b : pt) : bool :=
  Nat.ltb (sector a) (sector b)
  || (Nat.eqb (sector a) (sector b)
      && (qltb 0 (vcross a b) || (Qeq_bool (vcross a b) 0 && qltb (vlen2 a) (vlen2 b)))).
Definition pt_nonzero (d : pt) : bool := negb (Qeq_bool (fst d) 0 && Qeq_bool (snd d) 0).

(* ================================================================ fixVertex / fixVertices ======= *)
Record links := MkL { l_next : nat -> nat; l_prev : nat -> nat }.
Definition upd {A} (f : nat -> A) (k : nat) (v : A) : nat -> A := fun i => if Nat.eqb i k then v else f i.
Definition set_next (s : links) (k v : nat) : links := MkL (upd (l_next s) k v) (l_prev s).
Definition set_prev (s : links) (k v : nat) : links := MkL (l_next s) (upd (l_prev s) k v).

(* v.incidents: the half edges whose origin is v *)
Definition incidents (pc : precomplex) (v : nat) : list nat :=
  filter (fun i => Nat.eqb (p_origin pc i) v) (seq 0 (pnE pc)).

(* sort.Slice(incidents, radialLess(di, dj)) *)
Fixpoint insert (less : nat -> nat -> bool) (x : nat) (l : list nat) : list nat :=
  match l with
  | [] => [x]
  | h :: t => if less x h then x :: l else h :: insert less x t
  end.
Fixpoint isort (less : nat -> nat -> bool) (l : list nat) : list nat :=
  match l with [] => [] | x :: r => insert less x (isort less r) end.
Definition edge_less (pc : precomplex) (i j : nat) : bool := radialLess (p_dir pc i) (p_dir pc j).
(* alreadySorted := len(incidents) <= 2; if !alreadySorted { sort } *)
Definition sorted_incidents (pc : precomplex) (v : nat) : list nat :=
  let inc := incidents pc v in
  if Nat.leb (length inc) 2 then inc else isort (edge_less pc) inc.

(* for i := range incidents { ei := incidents[i]; ej := incidents[(i+1)%len(incidents)]; ... }:
   the pairs (incidents[i], incidents[(i+1) mod n]) in the order of i (lemma cyc_pairs_nth) *)
Definition rotl {A} (l : list A) : list A := match l with [] => [] | h :: t => t ++ [h] end.
Definition cyc_pairs (l : list nat) : list (nat * nat) := combine l (rotl l).
(* ei.prev = ej.twin; ej.twin.next = ei *)
Definition link_step (pc : precomplex) (s : links) (p : nat * nat) : links :=
  let ei := fst p in let ej := snd p in
  set_next (set_prev s ei (p_twin pc ej)) (p_twin pc ej) ei.
Definition fixVertex (pc : precomplex) (s : links) (v : nat) : links :=
  fold_left (link_step pc) (cyc_pairs (sorted_incidents pc v)) s.
(* dcel_input.go:addOrGetEdge leaves fwd.next = fwd.prev = rev and rev.next = rev.prev = fwd *)
Definition init_links (pc : precomplex) : links := MkL (p_twin pc) (p_twin pc).
Definition fixVertices (pc : precomplex) : links :=
  fold_left (fixVertex pc) (seq 0 (pnV pc)) (init_links pc).

(* ================================================================ assignFaces =================== *)
(* "Find all cycles": for e in halfEdges { if seen[e] continue; forEachEdgeInCycle(e, seen[e] = true);
   cycles = append(cycles, e) } - [collect] with [walk] of Model/OverlayRings.v; a cycle is kept as the
   list of its half edges (the Go code keeps the first one and walks again) *)
Definition nsucc (nx : nat -> nat) : nat -> option nat := fun i => Some (nx i).
Definition find_cycles (nx : nat -> nat) (n : nat) : option (list (list nat)) :=
  collect (nsucc nx) (seq 0 n) [] n.

(* "Construct new faces": e.incident = f for every e of the cycle *)
Definition assign_incident (cycles : list (list nat)) : nat -> nat :=
  fold_left (fun inc jc => fold_left (fun inc e => upd inc e (fst jc)) (snd jc) inc)
            (indexed_from 0 cycles) (fun _ => 0%nat).
(* if e.srcFace[operand] { f.inSet[operand] = true } *)
Definition seed_label (srcF : nat -> lab) (cyc : list nat) : lab :=
  fold_left (fun acc e => lab_or acc (srcF e)) cyc (false, false).

(* the flood fill of one operand.  dfs(f): if visited[f] return; visited[f] = true;
   forEachEdgeInCycle(f.cycle, e => if !e.srcFace[operand] { e.twin.incident.inSet[operand] = true;
   dfs(e.twin.incident) }) *)
Definition face_succs (srcF : nat -> bool) (tw : nat -> nat) (inc : nat -> nat) (cyc : list nat) : list nat :=
  map (fun e => inc (tw e)) (filter (fun e => negb (srcF e)) cyc).
Definition fstate := (list nat * (nat -> bool))%type.          (* visited, inSet[operand] *)
Fixpoint dfs (succs : nat -> list nat) (fuel : nat) (f : nat) (st : fstate) : fstate :=
  match fuel with
  | O => st
  | S k =>
      if memb f (fst st) then st
      else fold_left (fun (st : fstate) g => dfs succs k g (fst st, upd (snd st) g true)) (succs f) (f :: fst st, snd st)
  end.
(* for _, f := range d.faces { if f.inSet[operand] { dfs(f) } } - inSet as updated so far *)
Definition flood (succs : nat -> list nat) (nF : nat) (seed : nat -> bool) : fstate :=
  fold_left (fun (st : fstate) f => if snd st f then dfs succs (S nF) f st else st) (seq 0 nF) ([], seed).

Record faces_out := MkFO { fo_cycles : list (list nat); fo_incident : nat -> nat; fo_in : nat -> lab }.
Definition op_succs (pc : precomplex) (cycles : list (list nat)) (inc : nat -> nat) (op : bool) (f : nat) : list nat :=
  face_succs (fun e => lab_get (p_srcFace pc e) op) (p_twin pc) inc (nth f cycles []).
Definition op_seed (pc : precomplex) (cycles : list (list nat)) (op : bool) (f : nat) : bool :=
  lab_get (seed_label (p_srcFace pc) (nth f cycles [])) op.
Definition assignFaces (pc : precomplex) (nx : nat -> nat) : option faces_out :=
  match find_cycles nx (pnE pc) with
  | None => None
  | Some cycles =>
      let inc := assign_incident cycles in
      let nF := length cycles in
      let inA := snd (flood (op_succs pc cycles inc false) nF (op_seed pc cycles false)) in
      let inB := snd (flood (op_succs pc cycles inc true) nF (op_seed pc cycles true)) in
      Some (MkFO cycles inc (fun f => (inA f, inB f)))
  end.
(* d.faces: one record per cycle; "if len(d.faces) == 0": the artificial face of an overlay without edges *)
Definition faces_of (fo : faces_out) : list faceR :=
  match fo_cycles fo with
  | [] => [MkF None (false, false)]
  | cycles => map (fun jc => MkF (Some (hd 0%nat (snd jc))) (fo_in fo (fst jc))) (indexed_from 0 cycles)
  end.

(* ================================================================ populateInSetLabels =========== *)
(* for v: v.inSet = v.src;  for e: e.inSet[op] = e.srcEdge[op] || e.incident.inSet[op] || e.twin.incident.inSet[op];
   e.origin.inSet[op] = e.origin.inSet[op] || e.inSet[op] || e.prev.inSet[op]   (e.prev.inSet: as assigned
   so far - the zero value when e.prev comes later in the iteration) *)
Definition lstate := ((nat -> lab) * (nat -> lab))%type.        (* edge inSet, vertex inSet *)
Definition populate_step (pc : precomplex) (pv : nat -> nat) (inc : nat -> nat) (fin : nat -> lab)
           (st : lstate) (e : nat) : lstate :=
  let l := lab_or (p_srcEdge pc e) (lab_or (fin (inc e)) (fin (inc (p_twin pc e)))) in
  let ein := upd (fst st) e l in
  let o := p_origin pc e in
  (ein, upd (snd st) o (lab_or (snd st o) (lab_or l (ein (pv e))))).
Definition populateInSetLabels (pc : precomplex) (pv : nat -> nat) (inc : nat -> nat) (fin : nat -> lab) : lstate :=
  fold_left (populate_step pc pv inc fin) (seq 0 (pnE pc)) (fun _ => (false, false), p_vsrc pc).

(* ================================================================ the labelled complex ========== *)
(* newDCELFromGeometries: dcel.fixVertices(); dcel.assignFaces(); dcel.populateInSetLabels() *)
Definition fixup (pc : precomplex) : option complex :=
  let s := fixVertices pc in
  match assignFaces pc (l_next s) with
  | None => None
  | Some fo =>
      let st := populateInSetLabels pc (l_prev s) (fo_incident fo) (fo_in fo) in
      Some (MkC (map (fun v => MkV (p_vsrc pc v) (snd st v)) (seq 0 (pnV pc)))
                (map (fun e => MkE (p_origin pc e) (p_twin pc e) (l_next s e) (l_prev s e) (fo_incident fo e)
                                   (p_srcEdge pc e) (p_srcFace pc e) (fst st e)) (seq 0 (pnE pc)))
                (faces_of fo))
  end.

(* ================================================================ executable hypotheses ========= *)
(* combinatorial well-formedness: ids in range; twin is an involution without fixed point *)
Definition pre_wf (pc : precomplex) : bool :=
  forallb (fun i => Nat.ltb (p_origin pc i) (pnV pc) && Nat.ltb (p_twin pc i) (pnE pc)
                    && Nat.eqb (p_twin pc (p_twin pc i)) i && negb (Nat.eqb (p_twin pc i) i)) (seq 0 (pnE pc)).
(* geometric well-formedness: every outgoing direction is non-zero, the directions of two different half
   edges leaving the same vertex are different vectors (this is what makes radialLess a strict total
   order on them), and a half edge ends where its twin starts *)
Definition pre_dirs_ok (pc : precomplex) : bool :=
  forallb (fun i =>
    pt_nonzero (p_dir pc i)
    && match nth_error (pc_edges pc) i with Some e => pt_eqb (pe_dest e) (p_xy pc (p_origin pc (p_twin pc i))) | None => false end
    && forallb (fun j => if Nat.eqb i j then true
                         else if negb (Nat.eqb (p_origin pc i) (p_origin pc j)) then true
                         else negb (pt_eqb (p_dir pc i) (p_dir pc j))) (seq 0 (pnE pc)))
    (seq 0 (pnE pc)).
(* both half edges of an edge carry the same srcEdge flags (dcel_input.go sets fwd and rev together) *)
Definition pre_src_sym (pc : precomplex) : bool :=
  forallb (fun i => lab_eqb (p_srcEdge pc (p_twin pc i)) (p_srcEdge pc i)) (seq 0 (pnE pc)).

(* z lies strictly inside the counter-clockwise sweep from a to x, for a linear order [less] that lists
   the directions counter-clockwise from a fixed ray (radialLess: from the downward ray) *)
Definition ccw_between (less : nat -> nat -> bool) (a z x : nat) : bool :=
  (less a z && less z x) || (less x a && less a z) || (less z x && less x a).
(* a half edge that borders a face of an operand is an edge of that operand (dcel_input.go:addPolygon sets
   srcFace only together with srcEdge) *)
Definition pre_srcface_le (pc : precomplex) : bool :=
  forallb (fun i => lab_le (p_srcFace pc i) (p_srcEdge pc i)) (seq 0 (pnE pc)).
