(* Property C01, fifth layer: THE COMPOSED OVERLAY ENGINE in exact arithmetic over Q.

       geom/alg_set_op.go:setOp  =  newDCELFromGeometries(a, b)  ;  extractGeometry(include)

   Phases modelled elsewhere and re-used here unchanged:
       Model/OverlayRenode.v    createGhosts, reNodeGeometries, findInteractionPoints, forEachNonInteractingSegment
       Model/OverlayFixup.v     fixVertices, assignFaces (flood fill), populateInSetLabels  (pre-complex -> complex)
       Model/OverlayComplex.v   selection rules of dcel_extract_geometry.go (faces, lines, points; extracted marks)
       Model/OverlayRings.v     findFacesMakingPolygon, extractPolygonRing (ring walk as half-edge id lists)
       Model/SetOpSpec.v        the final switch of extractGeometry ([assemble]); the dispatch of alg_set_op.go ([run])
   Transcribed HERE (the glue that was missing):
       geom/dcel.go:newDCELFromGeometries          the order of the phases                       [overlay_dcel]
       geom/dcel_input.go:addVertices              one vertex record per interaction point       [ov_vertices]
       geom/dcel_input.go:addGhosts / addGeometry / addPolygon / addLineString / addPoint / addGeometryCollection
                                                   which chains are inserted with which labels   [add_elem], [add_points]
       geom/dcel_input.go:addOrGetEdge / getOrAddHalfEdge   the half-edge table keyed by the first two points  [add_edge]
       geom/type_polygon.go:ForceCCW / IsCCW / forceOrientation / signedAreaOfLinearRing          [force_ccw]
       geom/dcel_extract_geometry.go:extractPolygonRing (minimal rotation), buildRingSequence, orderPolygonRings,
            the three sort.Slice calls, extractLineStrings' choice of the half edge, extractPoints  [ring_coords] ...
       geom/type_sequence.go:less                                                                  [seq_less]
   Everything is total; [None] stands for an error return or a panic of the Go code (the places are marked).

   WHAT IS ABSTRACTED, beyond what the phase models abstract already (see their headers):
     - ids: the Go code links records by pointers and iterates maps; here a vertex id is the position in the
       list of distinct interaction points sorted by XY.Less, a half-edge id the position in insertion order
       (fwd, then rev, of every first-seen key, in the order addGhosts, addGeometry(a), addGeometry(b) visit the
       chains).  Nothing that is extracted depends on the ids: every list that reaches the result is sorted by
       the Go code with a total comparator on coordinates.
     - addGeometry visits the members of a collection in order, points interleaved with lines and polygons;
       the model inserts the linear elements of an operand first (in that order) and then its points.  A point
       only sets the src flag of an existing vertex, which commutes with everything else.
     - vertexRecord.locations (used by Relate only, geom/dcel_extract_intersection_matrix.go) is not modelled.
     - geom/alg_set_op.go:setOp finally calls g.Validate() and turns a validation error into an error return:
       NOT modelled (Model/Validate.v is a lattice model).  [overlay_result] is the geometry before that call;
       the driver judges it with the verified exact oracle instead (SPEC pipeline_judge). *)
From Coq Require Import QArith Qreduction List Bool Arith Lia.
From SF Require Import Base.GeomAST Base.Outcome Base.QKernel Base.Planar Model.SetOpSpec
  Model.OverlayComplex Model.OverlayRings Model.OverlayRenode Model.OverlayFixup.
Import ListNotations.
Open Scope Q_scope.

(* ================================================================ operands as element lists ===== *)
(* the shape of an operand in the order OverlayRenode.g_elems lists its linear elements: a line string is
   one element, a polygon is as many consecutive elements as it has rings (exterior ring first) *)
Inductive eshape := SLine | SPoly (nrings : nat).
Fixpoint g_shapes (g : geom) : list eshape :=
  match g with
  | GLine _ => [SLine]
  | GMLine _ ls => map (fun _ => SLine) ls
  | GPoly y => [SPoly (length (poly_rings y))]
  | GMPoly _ ys => map (fun y => SPoly (length (poly_rings y))) ys
  | GColl _ gs => flat_map g_shapes gs
  | _ => []
  end.
Inductive oelem := OLine (ps : list pt) | OPoly (rings : list (list pt)).
(* the re-noded element list of an operand, cut back into line strings and polygons *)
Fixpoint regroup (sh : list eshape) (es : list (list pt)) : list oelem :=
  match sh with
  | [] => []
  | SLine :: r => match es with [] => [] | e :: es' => OLine e :: regroup r es' end
  | SPoly n :: r => OPoly (firstn n es) :: regroup r (skipn n es)
  end.

(* ================================================================ ForceCCW ====================== *)
(* geom/type_polygon.go:signedAreaOfLinearRing, twice: sum (pt1.X + pt0.X) * (pt1.Y - pt0.Y) *)
Fixpoint shoelace_go (ps : list pt) : Q :=
  match ps with
  | a :: ((b :: _) as r) => (fst b + fst a) * (snd b - snd a) + shoelace_go r
  | _ => 0
  end.
Definition ring_is_ccw (ps : list pt) : bool := qltb 0 (shoelace_go ps).     (* signedArea > 0 *)
Definition ring_is_cw (ps : list pt) : bool := qltb (shoelace_go ps) 0.      (* signedArea < 0 *)
(* geom/type_polygon.go:IsCCW: for i, ring: if (i == 0) != isCCW { return false } *)
Definition poly_is_ccw (rings : list (list pt)) : bool :=
  forallb (fun ir => Bool.eqb (Nat.eqb (fst ir) 0) (ring_is_ccw (snd ir))) (indexed_from 0 rings).
(* forceOrientation(forceCW = false): keep the ring iff (i == 0) == (alreadyCW == false) *)
Definition force_ring (ir : nat * list pt) : list pt :=
  if Bool.eqb (Nat.eqb (fst ir) 0) (negb (ring_is_cw (snd ir))) then snd ir else rev (snd ir).
(* geom/type_polygon.go:ForceCCW *)
Definition force_ccw (rings : list (list pt)) : list (list pt) :=
  if poly_is_ccw rings then rings else map force_ring (indexed_from 0 rings).

(* ================================================================ the half-edge table =========== *)
(* halfEdgeRecord before fixVertices: seq, origin, twin, srcEdge, srcFace (next = prev = twin) *)
Record hrec := MkH { h_seq : list pt; h_origin : nat; h_twin : nat; h_srcE : lab; h_srcF : lab }.
(* vertexRecord.src per vertex id; d.halfEdges in insertion order *)
Record bstate := MkB { b_vsrc : list lab; b_edges : list hrec }.

Fixpoint find_idx {A} (f : A -> bool) (l : list A) (k : nat) : option nat :=
  match l with
  | [] => None
  | x :: r => if f x then Some k else find_idx f r (S k)
  end.
Fixpoint upd_nth {A} (i : nat) (f : A -> A) (l : list A) : list A :=
  match l, i with
  | [], _ => []
  | x :: r, O => f x :: r
  | x :: r, S k => x :: upd_nth k f r
  end.
(* d.vertices[xy] *)
Definition vindex (verts : list pt) (p : pt) : option nat := find_idx (pt_eqb p) verts 0.
(* geom/dcel_input.go:getOrAddHalfEdge: k := [2]XY{segment.GetXY(0), segment.GetXY(1)}; e, ok := d.halfEdges[k];
   if !ok { e = &halfEdgeRecord{seq: segment} } *)
Definition he_lookup (es : list hrec) (seg : list pt) : option nat :=
  find_idx (fun h => he_key_eqb (h_seq h) seg) es 0.
Definition get_or_add (es : list hrec) (seg : list pt) : list hrec * nat :=
  match he_lookup es seg with
  | Some i => (es, i)
  | None => (es ++ [MkH seg 0 0 (false, false) (false, false)], length es)
  end.

Definition set_lab (l : lab) (op : bool) : lab := if op then (fst l, true) else (true, snd l).
Definition set_origin_twin (o t : nat) (h : hrec) : hrec := MkH (h_seq h) o t (h_srcE h) (h_srcF h).
Definition set_srcE (op : bool) (h : hrec) : hrec := MkH (h_seq h) (h_origin h) (h_twin h) (set_lab (h_srcE h) op) (h_srcF h).
Definition set_srcF (op : bool) (h : hrec) : hrec := MkH (h_seq h) (h_origin h) (h_twin h) (h_srcE h) (set_lab (h_srcF h) op).

(* what the callback of forEachNonInteractingSegment does with the edge: nothing (addGhosts), the labels of
   addLineString, the labels of addPolygon *)
Inductive ekind := KGhost | KLine | KRing.

(* geom/dcel_input.go:addOrGetEdge followed by the label assignments of the caller.
   None: "segment of length less than 2" (panic), or d.vertices[startXY] / d.vertices[endXY] is nil (the
   assignment startV.incidents[fwd] panics) *)
Definition add_edge_body (verts : list pt) (op : bool) (k : ekind) (st : bstate) (seg : list pt) (p0 : pt) : option bstate :=
  let rs := rev seg in
  let '(es1, f) := get_or_add (b_edges st) seg in           (* fwd := d.getOrAddHalfEdge(segment) *)
  let '(es2, r) := get_or_add es1 rs in                     (* rev := d.getOrAddHalfEdge(reverseSegment) *)
  match vindex verts p0, vindex verts (hd p0 rs) with       (* startV := d.vertices[startXY]; endV := d.vertices[endXY] *)
  | Some sv, Some ev =>
      (* fwd.origin = startV; rev.origin = endV; fwd.twin = rev; rev.twin = fwd *)
      let es3 := upd_nth r (set_origin_twin ev f) (upd_nth f (set_origin_twin sv r) es2) in
      match k with
      | KGhost => Some (MkB (b_vsrc st) es3)
      | KLine =>
          (* edge.start.src[operand] = true; edge.end.src[operand] = true; fwd.srcEdge, rev.srcEdge *)
          Some (MkB (upd_nth ev (fun l => set_lab l op) (upd_nth sv (fun l => set_lab l op) (b_vsrc st)))
                    (upd_nth r (set_srcE op) (upd_nth f (set_srcE op) es3)))
      | KRing =>
          (* ... and e.fwd.srcFace[operand] = true *)
          Some (MkB (upd_nth ev (fun l => set_lab l op) (upd_nth sv (fun l => set_lab l op) (b_vsrc st)))
                    (upd_nth f (set_srcF op) (upd_nth r (set_srcE op) (upd_nth f (set_srcE op) es3))))
      end
  | _, _ => None
  end.
Definition add_edge (verts : list pt) (op : bool) (k : ekind) (st : bstate) (seg : list pt) : option bstate :=
  match seg with
  | [] | [_] => None                                        (* n < 2: panic *)
  | p0 :: _ => add_edge_body verts op k st seg p0
  end.

Definition obind {A B} (x : option A) (f : A -> option B) : option B :=
  match x with Some a => f a | None => None end.
Definition add_chains (verts : list pt) (op : bool) (k : ekind) (st : bstate) (cs : list (list pt)) : option bstate :=
  fold_left (fun o c => obind o (fun s => add_edge verts op k s c)) cs (Some st).
(* forEachNonInteractingSegment(seq, interactions, callback); None: no interaction point after the start of
   a chain (the Go loop would slice seq[start:1] and panic) *)
Definition add_seq (I verts : list pt) (op : bool) (k : ekind) (st : bstate) (ps : list pt) : option bstate :=
  obind (chains_of I ps) (add_chains verts op k st).
Definition add_seqs (I verts : list pt) (op : bool) (k : ekind) (st : bstate) (pss : list (list pt)) : option bstate :=
  fold_left (fun o ps => obind o (fun s => add_seq I verts op k s ps)) pss (Some st).
(* geom/dcel_input.go:addLineString / addPolygon (poly = poly.ForceCCW(); for ring in poly.DumpRings()) *)
Definition add_elem (I verts : list pt) (op : bool) (st : bstate) (e : oelem) : option bstate :=
  match e with
  | OLine ps => add_seq I verts op KLine st ps
  | OPoly rings => add_seqs I verts op KRing st (force_ccw rings)
  end.
Definition add_elems (I verts : list pt) (op : bool) (st : bstate) (es : list oelem) : option bstate :=
  fold_left (fun o e => obind o (fun s => add_elem I verts op s e)) es (Some st).
(* geom/dcel_input.go:addPoint: v := d.vertices[xy]; v.src[operand] = true   (None: nil vertex record) *)
Definition add_point (verts : list pt) (op : bool) (st : bstate) (p : pt) : option bstate :=
  match vindex verts p with
  | Some v => Some (MkB (upd_nth v (fun l => set_lab l op) (b_vsrc st)) (b_edges st))
  | None => None
  end.
Definition add_points (verts : list pt) (op : bool) (st : bstate) (ps : list pt) : option bstate :=
  fold_left (fun o p => obind o (fun s => add_point verts op s p)) ps (Some st).

(* geom/dcel_input.go:addVertices: one record per interaction point; ids = positions after sorting *)
Definition ov_vertices (I : list pt) : list pt := sort_uniq_xys I.

(* addVertices; addGhosts; addGeometry(a, operandA); addGeometry(b, operandB) - on an explicit re-noded input *)
Definition build_state (I : list pt) (gh : list (list pt)) (ea : list oelem) (pa : list pt)
           (eb : list oelem) (pb : list pt) : option bstate :=
  let verts := ov_vertices I in
  let st0 := MkB (map (fun _ => (false, false)) verts) [] in
  obind (add_seqs I verts false KGhost st0 gh) (fun st1 =>
  obind (add_elems I verts false st1 ea) (fun st2 =>
  obind (add_points verts false st2 pa) (fun st3 =>
  obind (add_elems I verts true st3 eb) (fun st4 =>
  add_points verts true st4 pb)))).

Definition seq_second (s : list pt) : pt := nth 1 s (0, 0).
Definition seq_last (s : list pt) : pt := last s (0, 0).
Definition pe_of (h : hrec) : phedge :=
  MkPE (h_origin h) (h_twin h) (seq_second (h_seq h)) (seq_last (h_seq h)) (h_srcE h) (h_srcF h).
(* the DCEL just before fixVertices, as the pre-complex of Model/OverlayFixup.v *)
Definition to_precomplex (verts : list pt) (st : bstate) : precomplex :=
  MkPC (map (fun pl => MkPV (fst pl) (snd pl)) (combine verts (b_vsrc st))) (map pe_of (b_edges st)).

(* ================================================================ newDCELFromGeometries ========= *)
Record overlay := MkOv {
  ov_skel : overlay_skeleton;        (* ghosts, re-noded operands, interaction points *)
  ov_verts : list pt;                (* coordinates per vertex id *)
  ov_seqs : list (list pt);          (* point sequence per half-edge id *)
  ov_pre : precomplex;               (* after addGhosts / addGeometry *)
  ov_cx : complex }.                 (* after fixVertices / assignFaces / populateInSetLabels *)

(* geom/dcel.go:newDCELFromGeometries after findInteractionPoints: dcel.addVertices(interactions);
   dcel.addGhosts(ghosts, interactions); dcel.addGeometry(a, operandA, interactions);
   dcel.addGeometry(b, operandB, interactions); dcel.fixVertices(); dcel.assignFaces(); dcel.populateInSetLabels() *)
Definition overlay_dcel_of_skel (sk : overlay_skeleton) (a b : geom) : option overlay :=
  let r := sk_renoded sk in
  let I := sk_vertices sk in
  let verts := ov_vertices I in
  obind (build_state I (rn_ghosts r) (regroup (g_shapes a) (rn_a r)) (g_points a)
                     (regroup (g_shapes b) (rn_b r)) (g_points b)) (fun st =>
  let pc := to_precomplex verts st in
  obind (fixup pc) (fun c => Some (MkOv sk verts (map h_seq (b_edges st)) pc c))).
(* geom/dcel.go:newDCELFromGeometries *)
Definition overlay_dcel_full (a b : geom) : option overlay := overlay_dcel_of_skel (overlay_skeleton_of a b) a b.
Definition overlay_dcel (a b : geom) : option complex := option_map ov_cx (overlay_dcel_full a b).

(* ================================================================ extraction ==================== *)
(* geom/type_sequence.go:less (a longer sequence that extends the other one is the smaller) *)
Fixpoint seq_less (s o : list pt) : bool :=
  match s with
  | [] => false
  | x :: s' =>
      match o with
      | [] => true
      | y :: o' => if pt_eqb x y then seq_less s' o' else xy_less x y
      end
  end.
(* minI := 0; for i := range seqs { if seqs[i].less(seqs[minI]) { minI = i } } *)
Fixpoint argmin_from {A} (less : A -> A -> bool) (best : nat) (bx : A) (i : nat) (l : list A) : nat :=
  match l with
  | [] => best
  | x :: r => if less x bx then argmin_from less i x (S i) r else argmin_from less best bx (S i) r
  end.
Definition argmin {A} (less : A -> A -> bool) (l : list A) : nat :=
  match l with [] => O | x :: r => argmin_from less O x 1%nat r end.
(* extractPolygonRing after the walk: rotateSeqs(seqs, len(seqs) - minI), then buildRingSequence: every
   sequence without its last point, then the first point again *)
Definition ring_coords (seqs : list (list pt)) : list pt :=
  let m := argmin seq_less seqs in
  let body := flat_map (@removelast pt) (skipn m seqs ++ firstn m seqs) in
  match body with [] => [] | p :: _ => body ++ [p] end.

Definition sort_seqs (l : list (list pt)) : list (list pt) := OverlayRenode.isort seq_less l.
Fixpoint least_seq (cands : list (nat * list pt)) (best : option (nat * list pt)) : option (nat * list pt) :=
  match cands with
  | [] => best
  | c :: r =>
      match best with
      | None => least_seq r (Some c)
      | Some b => if seq_less (snd c) (snd b) then least_seq r (Some c) else least_seq r best
      end
  end.
(* orderPolygonRings: outer := the least ring among those with positive signed area, else the least ring;
   it is swapped to the front and rings[1:] are sorted.  None: no ring (extractPolygons returns the error
   "no rings to extract" before calling it) *)
Definition order_polygon_rings (rings : list (list pt)) : option (list (list pt)) :=
  let ix := indexed_from 0 rings in
  let outer := match least_seq (filter (fun ir => ring_is_ccw (snd ir)) ix) None with
               | Some o => Some o
               | None => least_seq ix None
               end in
  match outer with
  | None => None
  | Some (k, o) => Some (o :: sort_seqs (map snd (filter (fun ir => negb (Nat.eqb (fst ir) k)) ix)))
  end.

Definition mkv (p : pt) : vtx Q := Build_vtx (fst p) (snd p) 0 0.
Definition mk_line (ps : list pt) : lineT Q := MkLine XY (map mkv ps).
Definition mk_poly (rings : list (list pt)) : polyT Q := MkPoly XY (map mk_line rings).
Definition mk_point (p : pt) : pointT Q := MkPoint XY (Some (mkv p)).

Definition seq_of (ov : overlay) (i : nat) : list pt := nth i (ov_seqs ov) [].
Definition twin_of (ov : overlay) (i : nat) : nat := p_twin (ov_pre ov) i.

(* extractPolygons: per group of selected faces the rings found by the walk (Model/OverlayRings.v), as
   coordinate sequences, ordered; the polygons sorted by their exterior rings *)
Definition polygon_rings (o : setop) (ov : overlay) (grp : list nat) : option (list (list pt)) :=
  obind (group_rings o (ov_cx ov) grp) (fun rings =>
  order_polygon_rings (map (fun ring => ring_coords (map (seq_of ov) ring)) rings)).
Definition extract_areals (o : setop) (ov : overlay) : option (list (list (list pt))) :=
  obind (polygon_groups o (ov_cx ov)) (fun gs =>
  obind (all_some (map (polygon_rings o ov) gs)) (fun polys =>
  Some (OverlayRenode.isort (fun p q => seq_less (hd [] p) (hd [] q)) polys))).
(* extractLineStrings: if e.twin.seq.less(e.seq) { e = e.twin }; sorted *)
Definition extract_linears (o : setop) (ov : overlay) : list (list pt) :=
  sort_seqs (map (fun i => let s := seq_of ov i in let t := seq_of ov (twin_of ov i) in
                           if seq_less t s then t else s) (lines_selected o (ov_cx ov))).
(* extractPoints: sorted by XY.Less *)
Definition extract_points (o : setop) (ov : overlay) : list pt :=
  OverlayRenode.isort xy_less (map (fun v => nth v (ov_verts ov) (0, 0)) (points_selected o (ov_cx ov))).

(* geom/dcel_extract_geometry.go:extractGeometry *)
Definition extract_geometry (o : setop) (ov : overlay) : option geom :=
  obind (extract_areals o ov) (fun areals =>
  Some (assemble (map mk_poly areals) (map mk_line (extract_linears o ov)) (map mk_point (extract_points o ov)))).

(* geom/alg_set_op.go:setOp without the final Validate *)
Definition overlay_result (o : setop) (a b : geom) : option geom :=
  obind (overlay_dcel_full a b) (extract_geometry o).

(* the six public operations: the dispatch of alg_set_op.go (Model/SetOpSpec.v, Section Dispatch) around the
   composed engine; a [None] of the engine is reported as the error class EOther *)
Definition pipeline_engine (a : geom) (o : setop) (b : geom) : outcome geom :=
  match overlay_result o a b with Some g => Ok g | None => Err EOther end.
Definition pipeline_run (o : setop) (a b : geom) : outcome geom := run pipeline_engine o a b.
Definition pipeline_unary_union (g : geom) : outcome geom := unary_union pipeline_engine g.
Definition pipeline_union_many (gs : list geom) : outcome geom := union_many pipeline_engine gs.

(* ================================================================ face witnesses ================ *)
(* a point of the face on the LEFT of half edge e, close to the middle of its first piece (p, q):
   m + t * (-(qy - py), qx - px) for a step t > 0.  [face_witness_at] tries t = 1/2, 1/4, ... and takes the
   first t for which the point lies on no piece of the overlay and the open segment from m to it meets no
   piece either (so that it lies in the face incident to e, given that the faces are the regions bounded by
   the pieces: this last fact is NOT proved; the driver evaluates the label against inG at the witness) *)
Definition first_piece (s : list pt) : option seg :=
  match s with p :: q :: _ => Some (p, q) | _ => None end.
Definition left_point (s : seg) (t : Q) : pt :=
  let '(p, q) := s in
  (Qred ((fst p + fst q) / 2 - t * (snd q - snd p)), Qred ((snd p + snd q) / 2 + t * (fst q - fst p))).
Definition seg_mid (s : seg) : pt := (Qred ((fst (fst s) + fst (snd s)) / 2), Qred ((snd (fst s) + snd (snd s)) / 2)).
Definition all_pieces (ov : overlay) : list seg := flat_map (@ring_edges) (ov_seqs ov).
(* the segment from the middle of s to w touches the pieces only at the middle of s itself *)
Definition clear_of (pieces : list seg) (s : seg) (w : pt) : bool :=
  forallb (fun u => match seg_seg (seg_mid s, w) u with
                    | SSEmpty => true
                    | SSPoint x => pt_eqb x (seg_mid s)
                    | SSOverlap _ _ => false
                    end) pieces.
Fixpoint witness_search (pieces : list seg) (s : seg) (t : Q) (fuel : nat) : option pt :=
  match fuel with
  | O => None
  | S k => let w := left_point s t in
           if clear_of pieces s w then Some w else witness_search pieces s (t / 2) k
  end.
Definition face_witness_at (ov : overlay) (e : nat) : option pt :=
  obind (first_piece (seq_of ov e)) (fun s => witness_search (all_pieces ov) s (1 # 2) 64).
(* the witness of face f: through its cycle field *)
Definition face_witness (ov : overlay) (f : nat) : option pt :=
  match get_f (ov_cx ov) f with
  | Some fr => match f_cycle fr with Some e => face_witness_at ov e | None => None end
  | None => None
  end.
(* SPEC pipeline_face_label: the label of every face is the membership of its witness in the operand *)
Definition face_label_ok (a b : geom) (ov : overlay) (f : nat) : bool :=
  match face_witness ov f with
  | Some w => lab_eqb (face_in (ov_cx ov) f) (inG a w, inG b w)
  | None => match get_f (ov_cx ov) f with
            | Some fr => match f_cycle fr with None => true | Some _ => false end
            | None => false
            end
  end.
Definition face_labels_bad (a b : geom) (ov : overlay) : list nat :=
  filter (fun f => negb (face_label_ok a b ov f)) (seq 0 (nF (ov_cx ov))).

(* ================================================================ executable hypotheses ========= *)
(* the point sequences that reach forEachNonInteractingSegment, in the order of the calls: the ghosts, the
   elements of operand A (rings after ForceCCW), the elements of operand B *)
Definition elem_seqs (e : oelem) : list (list pt) :=
  match e with OLine ps => [ps] | OPoly rings => force_ccw rings end.
Definition inserted_seqs (gh : list (list pt)) (ea eb : list oelem) : list (list pt) :=
  gh ++ flat_map elem_seqs ea ++ flat_map elem_seqs eb.
(* ... and the chains that reach addOrGetEdge *)
Definition inserted_chains (I : list pt) (gh : list (list pt)) (ea eb : list oelem) : option (list (list pt)) :=
  opt_concat (map (chains_of I) (inserted_seqs gh ea eb)).
Definition pipeline_chains_of_skel (sk : overlay_skeleton) (a b : geom) : option (list (list pt)) :=
  let r := sk_renoded sk in
  inserted_chains (sk_vertices sk) (rn_ghosts r) (regroup (g_shapes a) (rn_a r)) (regroup (g_shapes b) (rn_b r)).
Definition pipeline_chains (a b : geom) : option (list (list pt)) :=
  pipeline_chains_of_skel (overlay_skeleton_of a b) a b.

Definition seq_eqb (s t : list pt) : bool :=
  Nat.eqb (length s) (length t) && forallb (fun pq => pt_eqb (fst pq) (snd pq)) (combine s t).
(* the half-edge table never maps two different point sequences to one key: among the chains and their
   reverses, two sequences with the same first two points are the same sequence.  (T4 of Props/C01_renode.v
   in its full form gives this for the chains of every re-noded input.) *)
Definition keys_consistent (cs : list (list pt)) : bool :=
  let S := cs ++ map (@rev pt) cs in
  forallb (fun s => forallb (fun t => negb (he_key_eqb s t) || seq_eqb s t) S) S.
(* a chain has two points at least, consecutive points differ, and it starts and ends at a vertex *)
Definition chain_shape_ok (verts : list pt) (c : list pt) : bool :=
  match c with
  | p0 :: _ :: _ =>
      forallb (fun s => negb (pt_eqb (fst s) (snd s))) (ring_edges c)
      && existsb (pt_eqb p0) verts && existsb (pt_eqb (last c p0)) verts
  | _ => false
  end.
(* the hypothesis of the composition theorems: shape (of the chain and of its reverse), no chain whose
   reverse has the same key, consistent keys *)
Definition chains_wf (verts : list pt) (cs : list (list pt)) : bool :=
  forallb (fun c => chain_shape_ok verts c && chain_shape_ok verts (rev c) && negb (he_key_eqb c (rev c))) cs
  && keys_consistent cs.
