(* The first phases of the overlay engine (geom/dcel.go:newDCELFromGeometries), in EXACT arithmetic
   over Q:  createGhosts / spanningTree  ->  reNodeGeometries (two passes)  ->  findInteractionPoints
   ->  forEachNonInteractingSegment (the point chains that become the DCEL's edges).

   Executable definitions only; lemmas are in Proofs/OverlayRenode_proofs.v, statements in
   Props/C01_renode.v.

   WHAT IS ABSTRACTED (and nothing else):
   - geom/dcel_node_set.go: the float snapping [nodeSet.insertOrGet] (buckets of width ulp*0x200, a
     new node is replaced by a node found in one of the nine neighbouring buckets) is abstracted to
     EQUALITY: over Q every computed point is exact, so [insertOrGet xy = xy] and two nodes are merged
     iff they are equal ([pt_eqb], Qeq on both ordinates).  The tolerance test of the point x line
     pass, [distBetweenXYAndLine(xy, ln) < ulp*0x200], is abstracted the same way to distance 0, i.e.
     [on_seg ln xy].
   - the R-tree range searches ([ptIndex.tree.RangeSearch(ln.box())], [lnIndex.tree.RangeSearch]) are
     replaced by a scan of all candidates: a point on a segment / a segment meeting a segment lies
     in / meets its box (completeness of RangeSearch is property C11).
   - [symmetricLineIntersection]: its result (empty | one point: crossing or touch | the two ends of a
     collinear overlap) is computed by the exact kernel classification [QKernel.seg_seg] on the
     canonicalised pair; the float case analysis of geom/line.go:intersectLine (four orientations,
     e/f) is transcribed separately as [go_intersect_line] and compared with it ([isect_agree_b]).
   - [spanningTree]'s nearest-first enumeration [tree.PrioritySearch(xyi.box(), ...)] is a section
     variable [prio] (the order in which the records are offered to the callback); the theorems hold
     for every enumeration that offers every record.  The executable instance sorts by exact squared
     distance, ties by index, and reports whether a tie occurred ([spanning_tree_tie]).
   - geom/alg_disjoint_set.go (union-find with ranks and path compression) is abstracted to the
     partition it represents: a label per item, [union] relabels. *)
From Coq Require Import QArith Qreduction List Bool ZArith Lia Arith.
From SF Require Import Base.GeomAST Base.QKernel Base.Planar.
Import ListNotations.
Open Scope Q_scope.

(* ------------------------------------------------------------------ points, order, sorting *)
(* geom/xy.go:Less *)
Definition xy_less (p q : pt) : bool :=
  qltb (fst p) (fst q) || (Qeq_bool (fst p) (fst q) && qltb (snd p) (snd q)).

(* geom/xy.go:distanceSquaredTo *)
Definition rn_dist2 (a p : pt) : Q :=
  (fst p - fst a) * (fst p - fst a) + (snd p - snd a) * (snd p - snd a).

(* sort.Slice with a comparator that is a strict weak order whose incomparable elements are equal
   values: the result is determined; insertion sort computes it *)
Section ISort.
  Variable A : Type.
  Variable less : A -> A -> bool.
  Fixpoint ins (x : A) (l : list A) : list A :=
    match l with
    | [] => [x]
    | y :: r => if less x y then x :: l else y :: ins x r
    end.
  Definition isort (l : list A) : list A := fold_right ins [] l.
End ISort.
Arguments ins {A}. Arguments isort {A}.

(* geom/util.go:uniquifyGroupedXYs *)
Fixpoint uniq_grouped (l : list pt) : list pt :=
  match l with
  | [] => []
  | x :: r =>
      match r with
      | [] => [x]
      | y :: _ => if pt_eqb x y then uniq_grouped r else x :: uniq_grouped r
      end
  end.

(* geom/util.go:sortAndUniquifyXYs *)
Definition sort_uniq_xys (l : list pt) : list pt := uniq_grouped (isort xy_less l).

(* ------------------------------------------------------------------ ghosts *)
(* geom/dcel_ghosts.go:appendXYForLineString (the start point of a non-empty line string) *)
Definition ls_start (l : lineT Q) : list pt :=
  match line_pts l with [] => [] | p :: _ => [p] end.
(* appendXYsForPolygon: the start point of the exterior ring, then of every interior ring *)
Definition poly_component_pts (y : polyT Q) : list pt := flat_map ls_start (poly_rings y).
(* appendComponentPoints *)
Fixpoint component_pts (g : geom) : list pt :=
  match g with
  | GPoint q => point_pts q
  | GMPoint _ qs => flat_map point_pts qs
  | GLine l => ls_start l
  | GMLine _ ls => flat_map ls_start ls
  | GPoly y => poly_component_pts y
  | GMPoly _ ys => flat_map poly_component_pts ys
  | GColl _ gs => flat_map component_pts gs
  end.

(* the disjoint set as the partition it represents: labels.(i) is the representative of i *)
Definition ds_new (n : nat) : list nat := seq 0 n.
Definition ds_find (ds : list nat) (i : nat) : nat := nth i ds i.
Definition ds_union (ds : list nat) (i j : nat) : list nat :=
  let a := ds_find ds i in
  let b := ds_find ds j in
  map (fun l => if Nat.eqb l b then a else l) ds.

Section SpanningTree.
  (* the order in which PrioritySearch(xys[i].box()) offers the record ids to the callback *)
  Variable prio : nat -> list nat.

  (* the callback of spanningTree: the first offered j with j <> i and find(i) <> find(j) *)
  Definition st_pick (ds : list nat) (i : nat) : option nat :=
    find (fun j => negb (Nat.eqb i j) && negb (Nat.eqb (ds_find ds i) (ds_find ds j))) (prio i).

  (* for i, xyi := range xys { if i == len(xys)-1 { continue }; PrioritySearch ... } *)
  Fixpoint st_loop (is : list nat) (ds : list nat) (acc : list (nat * nat)) : list nat * list (nat * nat) :=
    match is with
    | [] => (ds, acc)
    | i :: r =>
        match st_pick ds i with
        | Some j => st_loop r (ds_union ds i j) (acc ++ [(i, j)])
        | None => st_loop r ds acc
        end
    end.

  (* the edges of the tree as index pairs into the sorted, uniquified point list of length n *)
  Definition st_edges (n : nat) : list (nat * nat) :=
    if Nat.leb n 1 then [] else snd (st_loop (seq 0 (n - 1)) (ds_new n) []).
End SpanningTree.

(* executable enumeration order: by exact squared distance from xys[i], ties by index *)
Definition prio_by_dist (xys : list pt) (i : nat) : list nat :=
  let o := nth i xys (0, 0) in
  isort (fun j k => qltb (rn_dist2 o (nth j xys (0, 0))) (rn_dist2 o (nth k xys (0, 0))))
        (seq 0 (length xys)).

(* geom/dcel_ghosts.go:spanningTree; every ghost is a two-point line string *)
Definition spanning_tree_with (prio : list pt -> nat -> list nat) (pts : list pt) : list (list pt) :=
  if Nat.leb (length pts) 1 then [] else
  let xys := sort_uniq_xys pts in
  map (fun e => [nth (fst e) xys (0, 0); nth (snd e) xys (0, 0)]) (st_edges (prio xys) (length xys)).
Definition spanning_tree := spanning_tree_with prio_by_dist.

(* geom/dcel_ghosts.go:createGhosts *)
Definition create_ghosts (a b : geom) : list (list pt) :=
  spanning_tree (component_pts a ++ component_pts b).

(* did the distance order have to break a tie between two candidates that were both still eligible
   when a choice was made?  (then the R-tree's order, which the model does not fix, decides) *)
Definition st_tie_at (xys : list pt) (ds : list nat) (i : nat) : bool :=
  let o := nth i xys (0, 0) in
  let elig := filter (fun j => negb (Nat.eqb i j) && negb (Nat.eqb (ds_find ds i) (ds_find ds j)))
                     (seq 0 (length xys)) in
  match st_pick (prio_by_dist xys) ds i with
  | None => false
  | Some j =>
      existsb (fun k => negb (Nat.eqb k j) &&
                        Qeq_bool (rn_dist2 o (nth k xys (0, 0))) (rn_dist2 o (nth j xys (0, 0)))) elig
  end.
Fixpoint st_tie_loop (xys : list pt) (is : list nat) (ds : list nat) : bool :=
  match is with
  | [] => false
  | i :: r =>
      st_tie_at xys ds i ||
      match st_pick (prio_by_dist xys) ds i with
      | Some j => st_tie_loop xys r (ds_union ds i j)
      | None => st_tie_loop xys r ds
      end
  end.
Definition spanning_tree_tie (pts : list pt) : bool :=
  if Nat.leb (length pts) 1 then false else
  let xys := sort_uniq_xys pts in
  st_tie_loop xys (seq 0 (length xys - 1)) (ds_new (length xys)).

(* ------------------------------------------------------------------ line x line *)
(* geom/line.go:hasEndpoint *)
Definition has_endpoint (ln : seg) (p : pt) : bool := pt_eqb (fst ln) p || pt_eqb (snd ln) p.

(* geom/line.go:canonicalise, less, canonicaliseLinePair *)
Definition canon_line (ln : seg) : seg := if xy_less (snd ln) (fst ln) then (snd ln, fst ln) else ln.
Definition line_less (l m : seg) : bool :=
  if pt_eqb (fst l) (fst m) then xy_less (snd l) (snd m) else xy_less (fst l) (fst m).
Definition canon_pair (l m : seg) : seg * seg :=
  let l' := canon_line l in
  let m' := canon_line m in
  if line_less l' m' then (l', m') else (m', l').

(* geom/line.go:symmetricLineIntersection, as the list of its points:
   [] (empty) | [p] (ptA = ptB: crossing or touch point) | [p; q] (ends of a collinear overlap) *)
Definition sym_isect (l m : seg) : list pt :=
  let '(l', m') := canon_pair l m in ssr_points (seg_seg l' m').

(* ---- the float case analysis of geom/line.go:intersectLine, transcribed over Q ---- *)
Definition cmp_eqb (a b : comparison) : bool :=
  match a, b with Eq, Eq | Lt, Lt | Gt, Gt => true | _, _ => false end.
(* geom/line.go:onSegment (a bounding-box test; the three points are known to be collinear) *)
Definition rn_qmax (a b : Q) : Q := if Qle_bool a b then b else a.
Definition rn_qmin (a b : Q) : Q := if Qle_bool a b then a else b.
Definition go_on_segment (p q r : pt) : bool :=
  Qle_bool (fst r) (rn_qmax (fst p) (fst q)) && Qle_bool (rn_qmin (fst p) (fst q)) (fst r) &&
  Qle_bool (snd r) (rn_qmax (snd p) (snd q)) && Qle_bool (rn_qmin (snd p) (snd q)) (snd r).
(* rightmostThenHighestIndex / leftmostThenLowestIndex: index of the first maximal / minimal point *)
Fixpoint arg_best (better : pt -> pt -> bool) (best : nat) (bp : pt) (i : nat) (l : list pt) : nat :=
  match l with
  | [] => best
  | p :: r => if better p bp then arg_best better i p (S i) r else arg_best better best bp (S i) r
  end.
Definition rightmost_then_highest (ps : list pt) : nat :=
  match ps with [] => O | p :: r => arg_best (fun x b => xy_less b x) O p 1%nat r end.
Definition leftmost_then_lowest (ps : list pt) : nat :=
  match ps with [] => O | p :: r => arg_best (fun x b => xy_less x b) O p 1%nat r end.
Fixpoint remove_nth {A} (n : nat) (l : list A) : list A :=
  match n, l with
  | _, [] => []
  | O, _ :: r => r
  | S k, x :: r => x :: remove_nth k r
  end.
Definition go_intersect_line (ln other : seg) : option (pt * pt) :=
  let '(a, b) := ln in
  let '(c, d) := other in
  let o1 := orient a b c in
  let o2 := orient a b d in
  let o3 := orient c d a in
  let o4 := orient c d b in
  if negb (cmp_eqb o1 o2) && negb (cmp_eqb o3 o4) then
    if cmp_eqb o1 Eq then Some (c, c)
    else if cmp_eqb o2 Eq then Some (d, d)
    else if cmp_eqb o3 Eq then Some (a, a)
    else if cmp_eqb o4 Eq then Some (b, b)
    else
      let e := (snd c - snd d) * (fst a - fst c) + (fst d - fst c) * (snd a - snd c) in
      let f := (fst d - fst c) * (snd a - snd b) - (fst a - fst b) * (snd d - snd c) in
      let p := e / f in
      let pt := (Qred ((fst b - fst a) * p + fst a), Qred ((snd b - snd a) * p + snd a)) in
      Some (pt, pt)
  else if cmp_eqb o1 Eq && cmp_eqb o2 Eq then
    if negb (go_on_segment a b c) && negb (go_on_segment a b d) &&
       (negb (go_on_segment c d a) && negb (go_on_segment c d b)) then None
    else
      let pts := [a; b; c; d] in
      let pts := remove_nth (rightmost_then_highest pts) pts in
      let pts := remove_nth (leftmost_then_lowest pts) pts in
      match pts with
      | p0 :: p1 :: _ => Some (p0, p1)
      | _ => None
      end
  else None.
Definition go_sym_isect (l m : seg) : list pt :=
  let '(l', m') := canon_pair l m in
  match go_intersect_line l' m' with
  | None => []
  | Some (pa, pb) => if pt_eqb pa pb then [pa] else [pa; pb]
  end.
(* same point set up to Qeq (lists of length <= 2) *)
Definition pts_subset_b (l m : list pt) : bool := forallb (fun p => existsb (pt_eqb p) m) l.
Definition isect_agree_b (l m : seg) : bool :=
  pts_subset_b (go_sym_isect l m) (sym_isect l m) && pts_subset_b (sym_isect l m) (go_sym_isect l m).

(* ------------------------------------------------------------------ re-noding *)
(* geom/dcel_re_noding.go:reNodeGeometries, appendCutsForPointXLine: every node that is not an end of
   the line and lies on it (distance 0) cuts it *)
Definition cuts_point_x_line (nodes : list pt) (ln : seg) : list pt :=
  filter (fun xy => negb (has_endpoint ln xy) && on_seg ln xy) nodes.

(* appendCutsLineXLine with appendNewNode (insertOrGet = identity): ptA, and ptB when different,
   unless an end of ln *)
Definition cuts_of_isect (ln : seg) (ps : list pt) : list pt :=
  match ps with
  | [] => []
  | [pa] => if has_endpoint ln pa then [] else [pa]
  | pa :: pb :: _ =>
      (if has_endpoint ln pa then [] else [pa]) ++
      (if pt_eqb pa pb || has_endpoint ln pb then [] else [pb])
  end.
Definition cuts_line_x_line (lines : list seg) (ln : seg) : list pt :=
  flat_map (fun other => cuts_of_isect ln (sym_isect ln other)) lines.

(* the comparator of reNodeLineString's sort.Slice: squared distance from ln.a, ties by XY.Less *)
Definition cut_less (a p q : pt) : bool :=
  if Qeq_bool (rn_dist2 a p) (rn_dist2 a q) then xy_less p q
  else qltb (rn_dist2 a p) (rn_dist2 a q).
Definition sorted_cuts (cutf : seg -> list pt) (ln : seg) : list pt :=
  uniq_grouped (isort (cut_less (fst ln)) (cutf ln)).

(* reNodeLineString: for every non-degenerate line (getLine's ok) its first point and its sorted,
   uniquified cuts; finally the last point of the sequence *)
Fixpoint renode_body (cutf : seg -> list pt) (ps : list pt) : list pt :=
  match ps with
  | [] => []
  | a :: r =>
      match r with
      | [] => []
      | b :: _ => (if pt_eqb a b then [] else a :: sorted_cuts cutf (a, b)) ++ renode_body cutf r
      end
  end.
Definition renode_ls (cutf : seg -> list pt) (ps : list pt) : list pt :=
  match ps with
  | [] => []
  | p0 :: r => renode_body cutf ps ++ [last r p0]
  end.

(* the vertices and pieces one line is replaced by *)
Definition line_verts (cutf : seg -> list pt) (ln : seg) : list pt :=
  fst ln :: sorted_cuts cutf ln ++ [snd ln].
Definition line_pieces (cutf : seg -> list pt) (ln : seg) : list seg := ring_edges (line_verts cutf ln).

(* appendLines: the non-degenerate lines of a sequence *)
Definition nondeg (s : seg) : bool := negb (pt_eqb (fst s) (snd s)).
Definition lines_of (ps : list pt) : list seg := filter nondeg (ring_edges ps).

(* the linear elements of a geometry in the order reNodeGeometry / appendLines / findInteractionPoints
   walk them: every line string, every ring of every polygon (Polygon.Boundary() = its rings) *)
Fixpoint g_elems (g : geom) : list (list pt) :=
  match g with
  | GLine l => [line_pts l]
  | GMLine _ ls => map line_pts ls
  | GPoly y => map line_pts (poly_rings y)
  | GMPoly _ ys => flat_map (fun y => map line_pts (poly_rings y)) ys
  | GColl _ gs => flat_map g_elems gs
  | _ => []
  end.

Record renoded := MkRenoded {
  rn_a : list (list pt);        (* linear elements of operand A, re-noded *)
  rn_b : list (list pt);
  rn_ghosts : list (list pt) }.

(* both passes on explicit element lists; [nodes] = nodes.list() after the TransformXY pass = all
   control points of both operands and the ghosts *)
Definition renode_elems (nodes : list pt) (ea eb gh : list (list pt)) : renoded :=
  let f1 := cuts_point_x_line nodes in
  let ea1 := map (renode_ls f1) ea in
  let eb1 := map (renode_ls f1) eb in
  let gh1 := map (renode_ls f1) gh in
  let lines := flat_map lines_of (ea1 ++ eb1 ++ gh1) in
  let f2 := cuts_line_x_line lines in
  MkRenoded (map (renode_ls f2) ea1) (map (renode_ls f2) eb1) (map (renode_ls f2) gh1).

Definition all_nodes (a b : geom) (ghosts : list (list pt)) : list pt :=
  (concat (g_elems a) ++ g_points a) ++ (concat (g_elems b) ++ g_points b) ++ concat ghosts.

(* geom/dcel_re_noding.go:reNodeGeometries *)
Definition renode_geometries (a b : geom) (ghosts : list (list pt)) : renoded :=
  renode_elems (all_nodes a b ghosts) (g_elems a) (g_elems b) ghosts.

Definition rn_all (r : renoded) : list (list pt) := rn_a r ++ rn_b r ++ rn_ghosts r.
(* all pieces (consecutive control point pairs) of the re-noded elements *)
Definition rn_pieces (r : renoded) : list seg := flat_map ring_edges (rn_all r).

(* ------------------------------------------------------------------ fully noded, executable form *)
Definition is_end (s : seg) (p : pt) : bool := has_endpoint s p.
Definition seg_sameb (s t : seg) : bool :=
  (pt_eqb (fst s) (fst t) && pt_eqb (snd s) (snd t)) || (pt_eqb (fst s) (snd t) && pt_eqb (snd s) (fst t)).
(* two pieces are disjoint, or share only end points, or are the same segment *)
Definition meet_ok_b (s t : seg) : bool :=
  match seg_seg s t with
  | SSEmpty => true
  | SSPoint x => is_end s x && is_end t x
  | SSOverlap _ _ => seg_sameb s t
  end.
Definition noded_b (L : list seg) : bool := forallb (fun s => forallb (meet_ok_b s) L) L.
(* isolated points of the operands are vertices of every piece they lie on *)
Definition points_noded_b (P : list pt) (L : list seg) : bool :=
  forallb (fun p => forallb (fun s => negb (on_seg s p) || is_end s p) L) P.

(* ------------------------------------------------------------------ interaction points *)
(* geom/dcel_interaction_points.go.  adjacents: map[XY]xyPair as an association list *)
Record ip_state := MkIP { ip_adj : list (pt * (pt * pt)); ip_int : list pt }.

Fixpoint adj_lookup (m : list (pt * (pt * pt))) (xy : pt) : option (pt * pt) :=
  match m with
  | [] => None
  | (k, v) :: r => if pt_eqb k xy then Some v else adj_lookup r xy
  end.
Definition pair_eqb (u v : pt * pt) : bool := pt_eqb (fst u) (fst v) && pt_eqb (snd u) (snd v).
(* the canonicalised pair of the two neighbours *)
Definition adj_pair (prev next : pt) : pt * pt := if xy_less next prev then (next, prev) else (prev, next).

(* the loop "for i := 1; i+1 < n; i++" of addLineStringInteractions *)
Definition ip_middle (st : ip_state) (prev curr next : pt) : ip_state :=
  if pt_eqb prev next then MkIP (ip_adj st) (curr :: ip_int st)
  else
    let adj := adj_pair prev next in
    match adj_lookup (ip_adj st) curr with
    | Some existing => if pair_eqb existing adj then st else MkIP (ip_adj st) (curr :: ip_int st)
    | None => MkIP ((curr, adj) :: ip_adj st) (ip_int st)
    end.
Fixpoint ip_walk (st : ip_state) (ps : list pt) : ip_state :=
  match ps with
  | [] => st
  | prev :: r =>
      match r with
      | curr :: next :: _ => ip_walk (ip_middle st prev curr next) r
      | _ => st
      end
  end.
(* addLineStringInteractions: start point, end point, then the middle points *)
Definition ip_line_string (st : ip_state) (ps : list pt) : ip_state :=
  match ps with
  | [] => st
  | p0 :: r => ip_walk (MkIP (ip_adj st) (last r p0 :: p0 :: ip_int st)) ps
  end.
Definition ip_points (st : ip_state) (P : list pt) : ip_state := MkIP (ip_adj st) (rev P ++ ip_int st).

(* findInteractionPoints([a, b, ghosts]); the order inside one operand (points before or after
   lines) does not change the resulting SET (interaction_points_order_free) *)
Definition find_interaction_points (ea : list (list pt)) (pa : list pt) (eb : list (list pt)) (pb : list pt)
  (gh : list (list pt)) : list pt :=
  let st := fold_left ip_line_string ea (MkIP [] []) in
  let st := ip_points st pa in
  let st := fold_left ip_line_string eb st in
  let st := ip_points st pb in
  let st := fold_left ip_line_string gh st in
  ip_int st.

Definition is_interaction (I : list pt) (p : pt) : bool := existsb (pt_eqb p) I.

(* ------------------------------------------------------------------ edges of the DCEL *)
(* geom/dcel_input.go:forEachNonInteractingSegment: maximal chains between interaction points.
   [cur] is the chain being collected.  None: the Go loop would find no interaction point after the
   start of a chain (cannot happen: the last point of every element is an interaction point) *)
Fixpoint split_chains (isI : pt -> bool) (cur : list pt) (ps : list pt) : option (list (list pt)) :=
  match ps with
  | [] => match cur with [] | [_] => Some [] | _ => None end
  | p :: r =>
      let cur' := cur ++ [p] in
      if isI p && Nat.ltb 1 (length cur') then
        match split_chains isI [p] r with
        | Some cs => Some (cur' :: cs)
        | None => None
        end
      else split_chains isI cur' r
  end.
Definition chains_of (I : list pt) (ps : list pt) : option (list (list pt)) :=
  split_chains (is_interaction I) [] ps.

Fixpoint opt_concat {A} (l : list (option (list A))) : option (list A) :=
  match l with
  | [] => Some []
  | None :: _ => None
  | Some x :: r => match opt_concat r with Some y => Some (x ++ y) | None => None end
  end.

Record overlay_skeleton := MkSkel {
  sk_ghost_lines : list (list pt);      (* createGhosts *)
  sk_renoded : renoded;                 (* reNodeGeometries *)
  sk_vertices : list pt;                (* findInteractionPoints: the DCEL's vertices (a set, with repetition) *)
  sk_chains : option (list (list pt)) } (* addGhosts, addGeometry a, addGeometry b: one chain per addOrGetEdge call *).

(* geom/dcel.go:newDCELFromGeometries up to (excluding) fixVertices *)
Definition overlay_skeleton_of (a b : geom) : overlay_skeleton :=
  let ghosts := create_ghosts a b in
  let r := renode_geometries a b ghosts in
  let I := find_interaction_points (rn_a r) (g_points a) (rn_b r) (g_points b) (rn_ghosts r) in
  MkSkel ghosts r I (opt_concat (map (chains_of I) (rn_ghosts r ++ rn_a r ++ rn_b r))).

(* getOrAddHalfEdge: half edges are keyed by their first two points; the first chain registered under
   a key stays.  Every chain registers itself and its reverse. *)
Definition he_key_eqb (c d : list pt) : bool :=
  match c, d with
  | c0 :: c1 :: _, d0 :: d1 :: _ => pt_eqb c0 d0 && pt_eqb c1 d1
  | _, _ => false
  end.
Fixpoint half_edges_acc (acc : list (list pt)) (cs : list (list pt)) : list (list pt) :=
  match cs with
  | [] => acc
  | c :: r =>
      let acc1 := if existsb (he_key_eqb c) acc then acc else acc ++ [c] in
      let rc := rev c in
      let acc2 := if existsb (he_key_eqb rc) acc1 then acc1 else acc1 ++ [rc] in
      half_edges_acc acc2 r
  end.
Definition half_edges (cs : list (list pt)) : list (list pt) := half_edges_acc [] cs.

(* ------------------------------------------------------------------ T4, executable form *)
(* the ends of a chain are interaction points and no other of its points is *)
Definition chain_ok_b (isI : pt -> bool) (c : list pt) : bool :=
  match c with
  | [] | [_] => false
  | p0 :: r => isI p0 && isI (last r p0) && forallb (fun p => negb (isI p)) (removelast r)
  end.
