(* Property C01, third layer: extractPolygons of geom/dcel_extract_geometry.go on the abstract labelled
   half-edge complex of Model/OverlayComplex.v - grouping of the selected faces into polygons, the ring
   walk around each group, the exterior-versus-hole decision.

   Anchors (geom/dcel_extract_geometry.go):
     findFacesMakingPolygon   [face_group]: the selected faces reachable from a start face across edges
                              (adjacentFaces: the faces of the twins of the start face's cycle)
     extractPolygons          [polygon_groups]: faces in creation order, a not yet extracted selected face
                              starts a group; [group_boundary]: the half edges of the group's faces whose
                              twin's face is not selected start rings unless already seen; [collect]
     extractPolygonRing       [ring_succ]: e := e.twin.prev.twin, then e := e.prev.twin until the incident
                              face belongs to the group (sweep around the end vertex); [walk]: until the
                              start comes back
     orderPolygonRings        [order_rings]: the first ring with positive signed area becomes the exterior
                              ring; the others are holes (sorted afterwards: their order carries no information)
   The complex has no coordinates: the signed area of a ring is the sum of an abstract weight per half
   edge ([w i] = sum of x_k y_(k+1) - x_(k+1) y_k over the half edge's point sequence, supplied by the
   driver from the dump; twice the signed area of a closed ring is the sum of the weights of its edges).
   Iterations that the Go code runs until a pointer comes back are given fuel here (number of half
   edges / faces); running out of fuel is an explicit [None], never reached on the real dumps. *)
From Coq Require Import List Bool Arith QArith Lia.
From SF Require Import Model.SetOpSpec Model.OverlayComplex.
Import ListNotations.

Definition memb (x : nat) (l : list nat) : bool := existsb (Nat.eqb x) l.

(* ---------------------------------------------------------------- face groups *)
(* adjacentFaces(f): the faces on the other side of the half edges of f's cycle *)
Definition adj_faces (c : complex) (f : nat) : list nat :=
  flat_map (fun e => if Nat.eqb (e_face e) f
                     then match twin_face c e with Some g => [g] | None => [] end else []) (c_edges c).
(* one round of findFacesMakingPolygon: add the selected faces adjacent to the group *)
Definition expand (o : setop) (c : complex) (grp : list nat) : list nat :=
  fold_left (fun acc g => if sel_face o c g && negb (memb g acc) then acc ++ [g] else acc)
            (flat_map (adj_faces c) grp) grp.
Fixpoint iter {A} (n : nat) (f : A -> A) (x : A) : A := match n with O => x | S k => iter k f (f x) end.
(* every member selected; no selected face adjacent to the group is outside it *)
Definition group_ok (o : setop) (c : complex) (grp : list nat) : bool :=
  forallb (sel_face o c) grp
  && forallb (fun g => negb (sel_face o c g) || memb g grp) (flat_map (adj_faces c) grp).
Definition face_group (o : setop) (c : complex) (start : nat) : option (list nat) :=
  let g := iter (nF c) (expand o c) [start] in
  if group_ok o c g then Some g else None.
(* extractPolygons, outer loop *)
Fixpoint groups_from (o : setop) (c : complex) (fs done : list nat) : option (list (list nat)) :=
  match fs with
  | [] => Some []
  | f :: r =>
      if sel_face o c f && negb (memb f done) then
        match face_group o c f with
        | Some g => match groups_from o c r (g ++ done) with Some gs => Some (g :: gs) | None => None end
        | None => None
        end
      else groups_from o c r done
  end.
Definition polygon_groups (o : setop) (c : complex) : option (list (list nat)) :=
  groups_from o c (seq 0 (nF c)) [].

(* ---------------------------------------------------------------- the ring walk *)
(* i.prev.twin: the next half edge leaving the origin of i, in the rotation around that vertex *)
Definition rot (c : complex) (i : nat) : option nat :=
  match get_e c i with
  | Some e => match get_e c (e_prev e) with Some p => Some (e_twin p) | None => None end
  | None => None
  end.
(* for !faceSet[e.incident] { e = e.prev.twin } *)
Fixpoint sweep (c : complex) (grp : list nat) (i : nat) (fuel : nat) : option nat :=
  match fuel with
  | O => None
  | S k =>
      match get_e c i with
      | Some e => if memb (e_face e) grp then Some i
                  else match rot c i with Some j => sweep c grp j k | None => None end
      | None => None
      end
  end.
(* one step of extractPolygonRing *)
Definition ring_succ (c : complex) (grp : list nat) (i : nat) : option nat :=
  match get_e c i with
  | Some e => match rot c (e_twin e) with Some j => sweep c grp j (nE c) | None => None end
  | None => None
  end.
(* follow f from cur until the element whose successor is s *)
Fixpoint walk (f : nat -> option nat) (s cur : nat) (fuel : nat) : option (list nat) :=
  match fuel with
  | O => None
  | S k =>
      match f cur with
      | None => None
      | Some nx => if Nat.eqb nx s then Some [cur]
                   else match walk f s nx k with Some l => Some (cur :: l) | None => None end
      end
  end.
(* the half edges that can start a ring of the group: on a face of the group, other side not selected *)
Definition group_boundary (o : setop) (c : complex) (grp : list nat) : list nat :=
  map fst (filter (fun ie => memb (e_face (snd ie)) grp && negb (sel_twin_face o c (snd ie))) (edges_ix c)).
(* the [seen] bookkeeping: a candidate that is already on a ring starts none *)
Fixpoint collect (f : nat -> option nat) (cands seen : list nat) (fuel : nat) : option (list (list nat)) :=
  match cands with
  | [] => Some []
  | x :: r =>
      if memb x seen then collect f r seen fuel
      else match walk f x x fuel with
           | Some ring => match collect f r (ring ++ seen) fuel with Some rs => Some (ring :: rs) | None => None end
           | None => None
           end
  end.
Definition group_rings (o : setop) (c : complex) (grp : list nat) : option (list (list nat)) :=
  collect (ring_succ c grp) (group_boundary o c grp) [] (nE c).

(* ---------------------------------------------------------------- exterior ring and holes *)
Open Scope Q_scope.
Definition ring_weight (w : nat -> Q) (ring : list nat) : Q := fold_right (fun i acc => w i + acc) 0 ring.
Definition is_ccw (w : nat -> Q) (ring : list nat) : bool := negb (Qle_bool (ring_weight w ring) 0).
(* orderPolygonRings: the first counter-clockwise ring is moved to the front *)
Fixpoint take_first_ccw (w : nat -> Q) (rings : list (list nat)) : option (list nat * list (list nat)) :=
  match rings with
  | [] => None
  | r :: rest =>
      if is_ccw w r then Some (r, rest)
      else match take_first_ccw w rest with Some (x, others) => Some (x, r :: others) | None => None end
  end.
(* the planarity fact the extraction relies on, as an executable predicate evaluated on every real
   structure: exactly one ring of a polygon is counter-clockwise, the others are clockwise *)
Definition one_ccw (w : nat -> Q) (rings : list (list nat)) : bool :=
  Nat.eqb (length (filter (is_ccw w) rings)) 1
  && forallb (fun r => is_ccw w r || negb (Qle_bool 0 (ring_weight w r))) rings.

Record polygonR := MkPoly' { p_group : list nat; p_exterior : list nat; p_holes : list (list nat); p_one_ccw : bool }.
Definition polygon_of (o : setop) (c : complex) (w : nat -> Q) (grp : list nat) : option polygonR :=
  match group_rings o c grp with
  | Some rings =>
      match take_first_ccw w rings with
      | Some (ext, holes) => Some (MkPoly' grp ext holes (one_ccw w rings))
      | None => None
      end
  | None => None
  end.
Fixpoint all_some {A} (l : list (option A)) : option (list A) :=
  match l with
  | [] => Some []
  | Some x :: r => match all_some r with Some xs => Some (x :: xs) | None => None end
  | None :: _ => None
  end.
(* extractPolygons: one polygon per group *)
Definition extract_polygons (o : setop) (c : complex) (w : nat -> Q) : option (list polygonR) :=
  match polygon_groups o c with
  | Some gs => all_some (map (polygon_of o c w) gs)
  | None => None
  end.
