(* Property C15 - model of PointOnSurface over exact rationals.
   Transcribed from geom/alg_point_on_surface.go (nearestPointAccumulator, pointOnAreaSurface; with
   fix F150 the intercepts are sorted and not de-duplicated), type_point.go / type_multi_point.go / type_line_string.go /
   type_multi_line_string.go / type_polygon.go / type_multi_polygon.go /
   type_geometry_collection.go : PointOnSurface, type_geometry.go:PointOnSurface.

   Exactness: every quantity is a rational; the implementation's float arithmetic is exact for the
   row ordinate on lattice input (halves and quarters) and rounds the intercepts (one division per
   crossing) - the correspondence compares those within a stated tolerance.

   Centroid: the nearest-to-centroid rules need Centroid(), which for lines involves square roots.
   It is a function argument [cen] of the model (an oracle: the driver supplies the implementation's
   own centroids, property C14 is about their value); every theorem holds for every [cen].
   Squared distances to the target are exact. *)
From Coq Require Import QArith Qreduction List Bool ZArith Lia.
From SF Require Import Base.GeomAST Base.QKernel Base.Planar Model.Boundary.
Import ListNotations.
Open Scope Q_scope.

Definition empty_point : pointT Q := MkPoint XY None.                 (* Point{} *)
(* XY{x,y}.AsPoint() *)
Definition xy_point (p : pt) : pointT Q := MkPoint XY (Some (Build_vtx (fst p) (snd p) 0 0)).

Definition d2 (a b : pt) : Q :=                                        (* Sub, lengthSq *)
  (fst a - fst b) * (fst a - fst b) + (snd a - snd b) * (snd a - snd b).

(* ------------------------------------------------------------------ nearestPointAccumulator *)
(* state: (point, dist); alg_point_on_surface.go:consider *)
Definition nacc := (pointT Q * Q)%type.
Definition nacc0 : nacc := (empty_point, 0).
Definition consider (target : option pt) (st : nacc) (cand : pointT Q) : nacc :=
  match target with
  | None => st
  | Some t =>
      match point_xy cand with
      | None => st
      | Some c =>
          let d := d2 t c in
          if point_empty (fst st) || qltb d (snd st) then (cand, d) else st
      end
  end.
Definition consider_all (target : option pt) (st : nacc) (cs : list (pointT Q)) : nacc :=
  fold_left (consider target) cs st.

(* ------------------------------------------------------------------ pointOnAreaSurface *)
Definition qmin (a b : Q) : Q := if Qle_bool a b then a else b.
Definition qmax (a b : Q) : Q := if Qle_bool a b then b else a.
Definition qmin_list (d : Q) (l : list Q) : Q := fold_left qmin l d.
Definition qmax_list (d : Q) (l : list Q) : Q := fold_left qmax l d.

(* the least ordinate strictly above y (nextY; None is +Inf) *)
Definition next_above (y : Q) (ys : list Q) : option Q :=
  fold_left (fun acc v =>
               if qltb y v then
                 match acc with
                 | None => Some v
                 | Some n => if qltb v n then Some v else acc
                 end
               else acc) ys None.

(* the ordinate of the bisector: the middle of the envelope of the exterior ring, moved to the
   mean with the next higher control point when some control point of any ring is on it.
   None: the adjusted ordinate is +Inf (no control point above; only for a flat exterior ring) *)
Definition row_y (ymin ymax : Q) (ys : list Q) : option Q :=
  let mid := (ymin + ymax) * (1 # 2) in                                (* Add, Scale(0.5) *)
  if existsb (fun v => Qeq_bool v mid) ys then
    match next_above mid ys with
    | Some n => Some ((mid + n) / 2)
    | None => None
    end
  else Some mid.

(* getLine: consecutive control points, zero-length pairs skipped *)
Definition ring_lines (l : lineT Q) : list seg :=
  filter (fun s => negb (pt_eqb (fst s) (snd s))) (ring_edges (line_pts l)).

(* ln.intersectLine(bisector): inter.ptA.X when not empty (QKernel.seg_seg is the exact
   classification; for a collinear overlap - impossible here, see row_no_vertex - it reports the
   lexicographically first end) *)
Definition intercept (bis : seg) (e : seg) : list Q :=
  match seg_seg e bis with
  | SSEmpty => []
  | SSPoint p => [fst p]
  | SSOverlap p _ => [fst p]
  end.
Definition raw_intercepts (bis : seg) (rings : list (lineT Q)) : list Q :=
  flat_map (fun r => flat_map (intercept bis) (ring_lines r)) rings.

(* sort.Float64s(xIntercepts): ascending, equal values kept (the intercepts are NOT de-duplicated:
   fix F150) *)
Fixpoint qisert (x : Q) (l : list Q) : list Q :=
  match l with
  | [] => [x]
  | y :: r => if Qle_bool x y then x :: l else y :: qisert x r
  end.
Definition isort (l : list Q) : list Q := fold_right qisert [] l.

(* the loop over pairs: strictly wider replaces *)
Fixpoint best_pair (bestA bestB : Q) (xs : list Q) : Q * Q :=
  match xs with
  | a :: b :: r => if qltb (bestB - bestA) (b - a) then best_pair a b r else best_pair bestA bestB r
  | _ => (bestA, bestB)
  end.

(* everything the bisector construction computes, kept for the judge and the theorems *)
Record row_info := MkRow {
  r_y : Q;                  (* ordinate of the bisector *)
  r_bis : seg;              (* the bisector *)
  r_xs : list Q }.          (* the sorted xIntercepts *)

Definition poly_row (y : polyT Q) : option row_info :=
  match poly_rings y with
  | [] => None
  | shell :: _ =>
      match line_pts shell with
      | [] => None
      | p0 :: pr =>
          let xmin := qmin_list (fst p0) (map fst pr) in
          let xmax := qmax_list (fst p0) (map fst pr) in
          let ymin := qmin_list (snd p0) (map snd pr) in
          let ymax := qmax_list (snd p0) (map snd pr) in
          let ys := flat_map (fun r => map snd (line_pts r)) (poly_rings y) in
          match row_y ymin ymax ys with
          | None => None
          | Some my =>
              let bis := ((xmin - 1, my), (xmax + 1, my)) in
              Some (MkRow my bis (isort (raw_intercepts bis (poly_rings y))))
          end
      end
  end.

(* is the intercept list usable: len >= 2 and even *)
Definition xs_regular (xs : list Q) : bool :=
  (2 <=? length xs)%nat && Nat.even (length xs).

(* pointOnAreaSurface: (point, width). The fall-back point is ExteriorRing().StartPoint().Force2D() *)
Definition area_fallback (shell : lineT Q) : pointT Q * Q := (point2d (start_point shell), 0).
Definition point_on_area (y : polyT Q) : pointT Q * Q :=
  match poly_rings y with
  | [] => (empty_point, 0)                                   (* empty envelope: Point{}, 0 *)
  | shell :: _ =>
      match line_pts shell with
      | [] => (empty_point, 0)
      | _ =>
          match poly_row y with
          | None => area_fallback shell                      (* +Inf row: no intercepts *)
          | Some ri =>
              if xs_regular (r_xs ri) then
                match r_xs ri with
                | a :: b :: rest =>
                    let '(bestA, bestB) := best_pair a b rest in
                    if Qeq_bool bestA bestB then area_fallback shell       (* zero width (F150) *)
                    else (xy_point ((bestA + bestB) / 2, r_y ri), bestB - bestA)
                | _ => area_fallback shell
                end
              else area_fallback shell                       (* len < 2 or odd *)
          end
      end
  end.

(* type_multi_polygon.go:PointOnSurface (with fix F151: the first non-empty candidate is always
   taken, a later one replaces it only when strictly wider) *)
Definition mp_step (st : pointT Q * Q) (y : polyT Q) : pointT Q * Q :=
  let '(p, w) := point_on_area y in
  if point_empty p then st
  else if point_empty (fst st) || qltb (snd st) w then (p, w) else st.
Definition mpoly_pos (ys : list (polyT Q)) : pointT Q :=
  fst (fold_left mp_step ys (empty_point, 0)).

Section Pos.
  Variable cen : geom -> option pt.        (* Centroid().XY() *)

  (* control points other than the first and the last (i = 1 .. n-2) *)
  Definition inner_vs (l : lineT Q) : list (vtx Q) := removelast (tl (line_vs l)).
  Definition inner_points (l : lineT Q) : list (pointT Q) :=
    map (fun v => xy_point (vpt v)) (inner_vs l).
  Definition end_points2d (l : lineT Q) : list (pointT Q) :=
    [point2d (start_point l); point2d (end_point l)].

  (* type_line_string.go:PointOnSurface *)
  Definition line_pos (l : lineT Q) : pointT Q :=
    let t := cen (GLine l) in
    let st := consider_all t nacc0 (inner_points l) in
    if negb (point_empty (fst st)) then fst st
    else fst (consider_all t st (end_points2d l)).

  (* type_multi_line_string.go:PointOnSurface *)
  Definition mline_pos (ct : ctype) (ls : list (lineT Q)) : pointT Q :=
    let t := cen (GMLine ct ls) in
    let st := consider_all t nacc0 (flat_map inner_points ls) in
    if negb (point_empty (fst st)) then fst st
    else fst (consider_all t st (flat_map end_points2d ls)).

  (* type_multi_point.go:PointOnSurface *)
  Definition mpoint_pos (ct : ctype) (ps : list (pointT Q)) : pointT Q :=
    fst (consider_all (cen (GMPoint ct ps)) nacc0 (map point2d ps)).

  (* type_geometry.go:PointOnSurface on a non-collection *)
  Definition leaf_pos (g : geom) : pointT Q :=
    match g with
    | GPoint p => point2d p
    | GLine l => line_pos l
    | GPoly y => fst (point_on_area y)
    | GMPoint ct ps => mpoint_pos ct ps
    | GMLine ct ls => mline_pos ct ls
    | GMPoly _ ys => mpoly_pos ys
    | GColl _ _ => empty_point           (* never a leaf of walk *)
    end.

  (* type_geometry_collection.go:PointOnSurface *)
  Definition max_dim_nonempty (lv : list geom) : nat :=
    fold_left (fun d g => if is_empty g then d else Nat.max d (dimension g)) lv 0%nat.
  Definition coll_candidates (lv : list geom) : list geom :=
    filter (fun g => Nat.eqb (dimension g) (max_dim_nonempty lv)) lv.
  Definition coll_pos (g : geom) : pointT Q :=
    let lv := leaves g in
    fst (consider_all (cen g) nacc0 (map leaf_pos (coll_candidates lv))).

  Definition pos (g : geom) : pointT Q :=
    match g with
    | GColl _ _ => coll_pos g
    | _ => leaf_pos g
    end.
End Pos.

(* ------------------------------------------------------------------ executable statement *)
(* the property's clause about the returned point q for the input g *)
Definition point_is_vertex_of (g : geom) (p : pt) : bool :=
  existsb (fun v => pt_eqb p (vpt v)) (geom_vs g).

Definition pos_leaf_ok (g : geom) (p : pt) : bool :=
  match dim_ie g with
  | 2%nat => loc_eqb (locate g p) Interior
  | 1%nat => existsb (fun l => on_line l p) (g_lines g)
  | _ => existsb (pt_eqb p) (g_points g)
  end.

(* emptiness agrees; otherwise the point is on a leaf of the highest dimension among the non-empty
   leaves, strictly interior when that leaf is areal *)
Definition pos_ok (g : geom) (q : pointT Q) : bool :=
  if is_empty g then point_empty q
  else match point_xy q with
       | None => false
       | Some p =>
           let lv := leaves g in
           existsb (fun l => negb (is_empty l) && Nat.eqb (dim_ie l) (dim_ie g) && pos_leaf_ok l p) lv
       end.

(* the weaker clause that holds without any clearance: emptiness agrees and the point intersects a
   non-empty leaf of the highest dimension (used for polygons thinner than the float spacing) *)
Definition pos_intersects (g : geom) (q : pointT Q) : bool :=
  if is_empty g then point_empty q
  else match point_xy q with
       | None => false
       | Some p =>
           existsb (fun l => negb (is_empty l) && Nat.eqb (dim_ie l) (dim_ie g) && inG l p) (leaves g)
       end.

(* ------------------------------------------------------------------ hypotheses of pos_areal_interior *)
(* (consequences of polygon validity, stated with the model's own quantities; all but valid_nesting
   are decidable and are evaluated per case by the correspondence driver) *)
Definition memq (x : Q) (l : list Q) : bool := existsb (Qeq_bool x) l.
(* no two entries are equal: the rings meet the bisector in pairwise distinct points *)
Fixpoint nodupq (l : list Q) : bool :=
  match l with
  | [] => true
  | x :: r => negb (memq x r) && nodupq r
  end.
(* the edge has an end strictly on each side of the row y0 *)
Definition straddleb (e : seg) (y0 : Q) : bool :=
  (qltb (snd (fst e)) y0 && qltb y0 (snd (snd e))) || (qltb (snd (snd e)) y0 && qltb y0 (snd (fst e))).
(* abscissa of the point of the supporting line of e at height y0 *)
Definition cx (e : seg) (y0 : Q) : Q :=
  fst (fst e) + (y0 - snd (fst e)) * (fst (snd e) - fst (fst e)) / (snd (snd e) - snd (fst e)).
(* the bisector [x0,x1] reaches every crossing of the row by an edge (holes do not leave the
   envelope of the exterior ring) *)
Definition row_spans_edges (x0 x1 y0 : Q) (es : list seg) : bool :=
  forallb (fun e => if straddleb e y0 then Qle_bool x0 (cx e y0) && Qle_bool (cx e y0) x1 else true) es.
Definition row_spans (x0 x1 y0 : Q) (rings : list (lineT Q)) : bool :=
  forallb (fun r => row_spans_edges x0 x1 y0 (ring_lines r)) rings.
(* validity of the ring nesting in terms of crossing parity (Planar's definition of inside):
   off the rings, a point is inside at most one hole, and a point inside a hole is inside the
   exterior ring *)
Definition nesting_at (y : polyT Q) (p : pt) : Prop :=
  match poly_ring_segs y with
  | [] => True
  | sh :: hs =>
      let k := length (filter (fun h => edges_parity h p) hs) in
      (k <= 1)%nat /\ (k = 1%nat -> edges_parity sh p = true)
  end.
Definition valid_nesting (y : polyT Q) : Prop :=
  forall p, rings_boundary (poly_ring_segs y) p = false -> nesting_at y p.
(* the decidable hypotheses together, and the nesting condition at one point, for the driver *)
Definition row_hyps (y : polyT Q) : bool :=
  match poly_row y with
  | Some ri =>
      xs_regular (r_xs ri) &&
      row_spans (fst (fst (r_bis ri))) (fst (snd (r_bis ri))) (r_y ri) (poly_rings y) &&
      nodupq (raw_intercepts (r_bis ri) (poly_rings y))
  | None => false
  end.
Definition nesting_atb (y : polyT Q) (p : pt) : bool :=
  match poly_ring_segs y with
  | [] => true
  | sh :: hs =>
      let k := length (filter (fun h => edges_parity h p) hs) in
      Nat.leb k 1 && (negb (Nat.eqb k 1) || edges_parity sh p)
  end.

(* the bisector meets the rings in an even, non-zero number of points *)
Definition row_regular (y : polyT Q) : bool :=
  match poly_row y with Some ri => xs_regular (r_xs ri) | None => false end.
