(* Property C15 - executable helpers of the correspondence run (not part of the model):
   exact value of a float64 bit pattern, carrier change N -> Q of a dumped geometry, and the
   tolerant comparisons of the implementation's float choices with the exact model
   (nearest-to-centroid: the chosen candidate must be a candidate whose exact squared distance is
   minimal up to a relative 1e-12; widest interval: the chosen midpoint must be the midpoint of an
   interval of the model's row whose width is maximal up to 1e-12 * magnitude).
   Definitions only. *)
From Coq Require Import QArith Qabs Qreduction ZArith NArith List Bool.
From SF Require Import Base.GeomAST Base.QKernel Base.Planar Model.Boundary Model.PointOnSurface.
Import ListNotations.
Open Scope Q_scope.

(* ---- float64 bits -> exact rational (None: NaN or infinity) ---- *)
Definition f64_to_Q (b : N) : option Q :=
  let sign := N.testbit b 63 in
  let e := N.land (N.shiftr b 52) 2047 in
  let m := N.land b 4503599627370495 in
  if (e =? 2047)%N then None
  else
    let mant := if (e =? 0)%N then Z.of_N m else Z.of_N (m + 4503599627370496) in
    let ex := if (e =? 0)%N then (-1074)%Z else (Z.of_N e - 1075)%Z in
    let z := if sign then (- mant)%Z else mant in
    Some (Qred (if (0 <=? ex)%Z then inject_Z (z * 2 ^ ex)
                else Qmake z (Z.to_pos (2 ^ (- ex))))).
Definition f64_or0 (b : N) : Q := match f64_to_Q b with Some q => q | None => 0 end.
Definition f64_finite (b : N) : bool := match f64_to_Q b with Some _ => true | None => false end.

Definition vtx_q (v : vtx N) : vtx Q := Build_vtx (f64_or0 (vx v)) (f64_or0 (vy v)) (f64_or0 (vz v)) (f64_or0 (vm v)).
Definition point_q (p : pointT N) : pointT Q :=
  match p with MkPoint ct c => MkPoint ct (option_map vtx_q c) end.
Definition line_q (l : lineT N) : lineT Q :=
  match l with MkLine ct vs => MkLine ct (map vtx_q vs) end.
Definition poly_q (p : polyT N) : polyT Q :=
  match p with MkPoly ct rs => MkPoly ct (map line_q rs) end.
Fixpoint geom_q (g : geomT N) : geom :=
  match g with
  | GPoint p => GPoint (point_q p)
  | GLine l => GLine (line_q l)
  | GPoly p => GPoly (poly_q p)
  | GMPoint ct ps => GMPoint ct (map point_q ps)
  | GMLine ct ls => GMLine ct (map line_q ls)
  | GMPoly ct ps => GMPoly ct (map poly_q ps)
  | GColl ct gs => GColl ct (map geom_q gs)
  end.
(* every stored ordinate (X, Y, Z, M) finite *)
Definition all_finite (g : geomT N) : bool :=
  forallb (fun v => f64_finite (vx v) && f64_finite (vy v) && f64_finite (vz v) && f64_finite (vm v))
          (geom_vs g).

(* ---- magnitudes and tolerances ---- *)
Definition magnitude (g : geom) : Q :=
  fold_left (fun m v => qmax m (qmax (Qabs (vx v)) (Qabs (vy v)))) (geom_vs g) 1.
Definition q_close (a b tol : Q) : bool := Qle_bool (Qabs (a - b)) tol.
Definition pt_close (p q : pt) (tol : Q) : bool := q_close (fst p) (fst q) tol && q_close (snd p) (snd q) tol.

Definition vtx_eqb (a b : vtx Q) : bool :=
  Qeq_bool (vx a) (vx b) && Qeq_bool (vy a) (vy b) && Qeq_bool (vz a) (vz b) && Qeq_bool (vm a) (vm b).
Definition point_eqb (a b : pointT Q) : bool :=
  ct_eqb (point_ct a) (point_ct b) &&
  match point_c a, point_c b with
  | None, None => true
  | Some u, Some v => vtx_eqb u v
  | _, _ => false
  end.

(* ---- nearest-to-target ---- *)
Definition min_d2 (t : pt) (cs : list (pointT Q)) : option Q :=
  fold_left (fun acc c => match point_xy c with
                          | None => acc
                          | Some p => match acc with
                                      | None => Some (d2 t p)
                                      | Some m => Some (qmin m (d2 t p))
                                      end
                          end) cs None.

(* go is an acceptable outcome of considering the candidates cs, in any order of near-ties *)
Definition near_ok (target : option pt) (cs : list (pointT Q)) (go : pointT Q) : bool :=
  match target with
  | None => point_eqb go empty_point
  | Some t =>
      match min_d2 t cs with
      | None => point_eqb go empty_point
      | Some m =>
          existsb (fun c => point_eqb c go) cs &&
          match point_xy go with
          | Some p => Qle_bool (d2 t p) (m + (1 # 1000000000000) * (m + (1 # 1000000000000)))
          | None => false
          end
      end
  end.

Section Judge.
  Variable cen : geom -> option pt.

  (* the candidate list the last consider-loop of a lineal leaf works on *)
  Definition lineal_cands (t : option pt) (inner ends : list (pointT Q)) : list (pointT Q) :=
    match t with
    | None => []
    | Some _ => if existsb (fun c => negb (point_empty c)) inner then inner else ends
    end.

  (* candidates of a non-areal leaf *)
  Definition leaf_cands (g : geom) : list (pointT Q) :=
    match g with
    | GPoint p => [point2d p]
    | GMPoint _ ps => map point2d ps
    | GLine l => lineal_cands (cen g) (inner_points l) (end_points2d l)
    | GMLine _ ls => lineal_cands (cen g) (flat_map inner_points ls) (flat_map end_points2d ls)
    | _ => []
    end.
End Judge.

(* ---- widest interval ---- *)
Fixpoint pairs (xs : list Q) : list (Q * Q) :=
  match xs with
  | a :: b :: r => (a, b) :: pairs r
  | _ => []
  end.
(* (midpoint, width) of every interval of a regular row *)
Definition area_cands (y : polyT Q) : list (pt * Q) :=
  match poly_row y with
  | Some ri =>
      if xs_regular (r_xs ri)
      then map (fun ab => (((fst ab + snd ab) / 2, r_y ri), snd ab - fst ab)) (pairs (r_xs ri))
      else []
  | None => []
  end.
Definition best_width (cs : list (pt * Q)) : Q := fold_left (fun m c => qmax m (snd c)) cs 0.
Definition area_near_ok (cs : list (pt * Q)) (go : pointT Q) (tol : Q) : bool :=
  match go with
  | MkPoint XY (Some v) =>
      Qeq_bool (vz v) 0 && Qeq_bool (vm v) 0 &&
      existsb (fun c => pt_close (fst c) (vpt v) tol && Qle_bool (best_width cs - tol) (snd c)) cs
  | _ => false
  end.

(* Polygon: regular row -> near-widest midpoint; otherwise exactly the model's fall-back *)
Definition poly_pos_ok (y : polyT Q) (go : pointT Q) (tol : Q) : bool :=
  match area_cands y with
  | [] => point_eqb go (fst (point_on_area y))
  | cs => area_near_ok cs go tol
  end.
Definition mpoly_pos_ok (ys : list (polyT Q)) (go : pointT Q) (tol : Q) : bool :=
  match flat_map area_cands ys with
  | [] => point_eqb go empty_point
  | cs => area_near_ok cs go tol
  end.

(* hypotheses of the theorem pos_areal_interior, evaluated per polygon (see Proofs) *)
Definition lines_of_poly (y : polyT Q) : list seg := flat_map ring_lines (poly_rings y).

(* was the bisector moved off the centre row of the envelope (some control point on it) *)
Definition row_shifted (y : polyT Q) : bool :=
  match poly_rings y, poly_row y with
  | shell :: _, Some ri =>
      match line_pts shell with
      | p0 :: pr =>
          negb (Qeq_bool (r_y ri)
                  ((qmin_list (snd p0) (map snd pr) + qmax_list (snd p0) (map snd pr)) * (1 # 2)))
      | [] => false
      end
  | _, _ => false
  end.

(* non-lattice input only: the test "some control point has the ordinate of the envelope centre"
   is decided in rounded arithmetic by the implementation and exactly by the model; when a
   control point is within tol of the centre row the two may legitimately take different branches
   (the case is then judged by the SPEC checks only) *)
Definition row_fragile (y : polyT Q) (tol : Q) : bool :=
  match poly_rings y with
  | shell :: _ =>
      match line_pts shell with
      | p0 :: pr =>
          let mid := (qmin_list (snd p0) (map snd pr) + qmax_list (snd p0) (map snd pr)) * (1 # 2) in
          existsb (fun r => existsb (fun p => q_close (snd p) mid tol) (line_pts r)) (poly_rings y)
      | [] => false
      end
  | [] => false
  end.
