(* Property C15 - the ring-nesting hypothesis of pos_areal_interior as an EXECUTABLE predicate.
   Clauses of b-C03's verified reference ogc_valid (Model/ValidateSpec.v: hole_inside, not_nested,
   evaluated at every witness of the exact arrangement; Proofs/Validate_ogc.v proves that this
   decides them for ALL points of Q^2) plus the converse clause "no point of the exterior ring is
   strictly inside a hole", evaluated the same way.  Definitions only. *)
From Coq Require Import QArith Qreduction List Bool ZArith.
From SF Require Import Base.GeomAST Base.QKernel Base.Planar Model.ValidateSpec
  Model.Boundary Model.PointOnSurface.
Import ListNotations.
Open Scope Q_scope.

(* no point of the ring [shell] is strictly inside the ring h *)
Definition shell_outside (shell h : list pt) : bool :=
  everywhere [g_poly [h]; g_line h; g_line shell]
    (fun bs => match bs with
               | [inh; onh; onsh] => negb (onsh && inh && negb onh)
               | _ => true
               end).

Definition rings_of (y : polyT Q) : list (list pt) := map line_pts (poly_rings y).

(* rings closed; every hole in the closed exterior ring (ogc_valid's hole_inside); no hole enters
   another (ogc_valid's not_nested); the exterior ring does not enter a hole *)
Definition nest_okb (y : polyT Q) : bool :=
  match rings_of y with
  | [] => true
  | shell :: holes =>
      forallb pts_closed (shell :: holes)
      && forallb (hole_inside shell) holes
      && all_pairs not_nested holes
      && forallb (shell_outside shell) holes
  end.

(* all hypotheses of the interior theorem, executable *)
Definition interior_hyps (y : polyT Q) : bool := row_hyps y && nest_okb y.
