(* Property C15 - the nesting predicate with the clause "the exterior ring enters no hole" needed
   only for holes that TOUCH the exterior ring: when the two boundaries are disjoint the clause
   follows from ogc_valid's own clause hole_inside (Proofs/PosNesting2_proofs.v).  Definitions only. *)
From Coq Require Import QArith Qreduction List Bool ZArith.
From SF Require Import Base.GeomAST Base.QKernel Base.Planar Model.ValidateSpec
  Model.Boundary Model.PointOnSurface Model.PosNesting.
Import ListNotations.
Open Scope Q_scope.

(* no segment of a meets a segment of b *)
Definition rings_apart (a b : list pt) : bool :=
  forallb (fun e => forallb (fun f => match seg_seg e f with SSEmpty => true | _ => false end) (segs b)) (segs a).

(* the first vertex differs from a later one (a consequence of ring_def's distinct_2) *)
Definition pts_two (ps : list pt) : bool :=
  match ps with [] => false | a :: rest => existsb (fun q => negb (pt_eqb a q)) rest end.

Definition nest_okb2 (y : polyT Q) : bool :=
  match rings_of y with
  | [] => true
  | shell :: holes =>
      forallb pts_closed (shell :: holes)
      && forallb pts_two (shell :: holes)
      && forallb (hole_inside shell) holes
      && all_pairs not_nested holes
      && forallb (fun h => rings_apart shell h || shell_outside shell h) holes
  end.

(* ogc_valid's polygon clause, plus shell_outside for the holes that touch the exterior ring *)
Definition ogc_nest_okb (y : polyT Q) : bool :=
  match rings_of y with
  | [] => true
  | shell :: holes =>
      poly_def (shell :: holes)
      && forallb (fun h => rings_apart shell h || shell_outside shell h) holes
  end.
