(* Property C11 - model of package rtree (bulk loading, RangeSearch, PrioritySearch, Nearest,
   Count, Extent) over boxes with integer coordinates.  Definitions only; proofs are in
   Proofs/RTree_proofs.v.

   Conventions: Go's fixed array [4]entry + numEntries is a list of entries (the invariant states
   the 1..4 bound); an entry with child == nil is [ELeaf], one with a child is [EBranch].  Go's
   `error` travelling up the recursion is [option action] (None = nil).  Slice indices are [nat];
   every slice access is [nth_error] with an explicit [Panic PIndex] outcome. *)
From Coq Require Import ZArith List Bool Arith Lia.
From SF Require Import Base.Outcome.
Import ListNotations.
Open Scope Z_scope.

(* ------------------------------------------------------------------ boxes: rtree/box.go *)
Record box := MkBox { minx : Z; miny : Z; maxx : Z; maxy : Z }.
(* rtree/bulk.go:BulkItem *)
Record item := MkItem { ibox : box; iid : Z }.

(* rtree/bulk.go:fastMin / fastMax *)
Definition fmin (a b : Z) : Z := if a <? b then a else b.
Definition fmax (a b : Z) : Z := if a >? b then a else b.

(* rtree/box.go:combine *)
Definition combine (b1 b2 : box) : box :=
  MkBox (fmin (minx b1) (minx b2)) (fmin (miny b1) (miny b2))
        (fmax (maxx b1) (maxx b2)) (fmax (maxy b1) (maxy b2)).

(* rtree/box.go:overlap *)
Definition overlap (b1 b2 : box) : bool :=
  (minx b1 <=? maxx b2) && (maxx b1 >=? minx b2) &&
  (miny b1 <=? maxy b2) && (maxy b1 >=? miny b2).

(* rtree/box.go:squaredEuclideanDistance *)
Definition sqdist (b1 b2 : box) : Z :=
  let dx := fmax 0 (fmax (minx b1 - maxx b2) (minx b2 - maxx b1)) in
  let dy := fmax 0 (fmax (miny b1 - maxy b2) (miny b2 - maxy b1)) in
  dx * dx + dy * dy.

Definition box_eqb (a b : box) : bool :=
  (minx a =? minx b) && (miny a =? miny b) && (maxx a =? maxx b) && (maxy a =? maxy b).
Definition item_eqb (a b : item) : bool := box_eqb (ibox a) (ibox b) && (iid a =? iid b).
Definition inside (a b : box) : bool :=   (* a lies inside b *)
  (minx b <=? minx a) && (miny b <=? miny a) && (maxx a <=? maxx b) && (maxy a <=? maxy b).
Definition box_wf (b : box) : bool := (minx b <=? maxx b) && (miny b <=? maxy b).
Definition zero_box : box := MkBox 0 0 0 0.

(* ------------------------------------------------------------------ tree: rtree/rtree.go *)
Inductive entry :=
| ELeaf (b : box) (id : Z)              (* entry{box, child: nil, recordID} *)
| EBranch (b : box) (n : list entry).   (* entry{box, child: &node{entries}} *)
Definition node := list entry.
Record rtree := MkTree { root : option node; tcount : nat }.

Definition ebox (e : entry) : box := match e with ELeaf b _ => b | EBranch b _ => b end.
Definition is_leaf (e : entry) : bool := match e with ELeaf _ _ => true | _ => false end.

(* rtree/box.go:calculateBound (entries[0] of a node without entries is the zero entry) *)
Definition calc_bound (n : node) : box :=
  match n with
  | [] => zero_box
  | e :: r => fold_left (fun b e' => combine b (ebox e')) r (ebox e)
  end.

Fixpoint leaves (e : entry) : list item :=
  match e with
  | ELeaf b id => [MkItem b id]
  | EBranch _ n => flat_map leaves n
  end.
Definition leaves_node (n : node) : list item := flat_map leaves n.
Definition tree_leaves (t : rtree) : list item :=
  match root t with None => [] | Some n => leaves_node n end.

Fixpoint esize (e : entry) : nat :=       (* number of entries in the subtree, itself included *)
  match e with
  | ELeaf _ _ => 1
  | EBranch _ n => S (fold_right (fun e' s => esize e' + s)%nat O n)
  end.
Definition nsize (n : node) : nat := fold_right (fun e' s => esize e' + s)%nat O n.

(* The structural invariant (evaluated on the model's tree in the theorems and on the REAL tree,
   exported by the verif hook, in the correspondence run): every branch box is the exact bound of
   the child's entries, every node has 1..4 entries, leaf and branch entries are not mixed. *)
Definition node_shape (n : node) : bool :=
  (1 <=? length n)%nat && (length n <=? 4)%nat &&
  (forallb is_leaf n || forallb (fun e => negb (is_leaf e)) n).
Fixpoint entry_inv (e : entry) : bool :=
  match e with
  | ELeaf _ _ => true
  | EBranch b n => box_eqb b (calc_bound n) && node_shape n && forallb entry_inv n
  end.
Definition node_inv (n : node) : bool := node_shape n && forallb entry_inv n.
Definition tree_inv (t : rtree) : bool :=
  match root t with
  | None => (tcount t =? 0)%nat
  | Some n => node_inv n && (length (leaves_node n) =? tcount t)%nat
  end.

(* ------------------------------------------------------------------ callbacks *)
(* What a callback answers: nil, rtree.Stop, an error wrapping Stop (fmt.Errorf("%w", Stop)),
   or some other error (identified by a number). *)
Inductive action := Continue | Stop | WrappedStop | Fail (e : Z).
(* errors.Is(err, Stop) *)
Definition is_stop (a : action) : bool :=
  match a with Stop | WrappedStop => true | _ => false end.
(* what a search returns: nil or the callback's error unchanged *)
Inductive result := RNil | RErr (e : Z).
Definition result_eqb (a b : result) : bool :=
  match a, b with RNil, RNil => true | RErr x, RErr y => x =? y | _, _ => false end.
(* a callback script: answer as a function of the visit index (0-based) and the record id *)
Definition callback := nat -> Z -> action.
(* the Go `error` value produced by a callback answer *)
Definition err_of (a : action) : option action :=
  match a with Continue => None | _ => Some a end.
(* conversion at the top of a search: Stop (even wrapped) surfaces as nil, others unchanged *)
Definition surface (r : option action) : result :=
  match r with
  | None => RNil
  | Some (Fail e) => RErr e
  | Some _ => RNil
  end.

(* ------------------------------------------------------------------ RangeSearch *)
Section RangeSearch.
  Variable q : box.
  Variable cb : callback.

  (* rtree/rtree.go:RangeSearch, the closure `recurse`, AFTER fix F1: every non-nil callback
     error is returned up the whole recursion; k is the number of callback invocations so far;
     the result is the list of records passed to the callback during this call and the error. *)
  Fixpoint rs_entry (e : entry) (k : nat) : list item * option action :=
    match e with
    | ELeaf b id =>
        if overlap b q then ([MkItem b id], err_of (cb k id)) else ([], None)
    | EBranch b n =>
        if overlap b q then
          (fix loop (es : list entry) (k : nat) : list item * option action :=
             match es with
             | [] => ([], None)
             | e' :: es' =>
                 match rs_entry e' k with
                 | (v, None) => let (v', r) := loop es' (k + length v)%nat in (v ++ v', r)
                 | (v, Some a) => (v, Some a)
                 end
             end) n k
        else ([], None)
    end.
  Fixpoint rs_node (es : list entry) (k : nat) : list item * option action :=
    match es with
    | [] => ([], None)
    | e' :: es' =>
        match rs_entry e' k with
        | (v, None) => let (v', r) := rs_node es' (k + length v)%nat in (v ++ v', r)
        | (v, Some a) => (v, Some a)
        end
    end.
  (* if t.root == nil { return nil }; err := recurse(t.root); Stop -> nil *)
  Definition range_search (t : rtree) : list item * result :=
    match root t with
    | None => ([], RNil)
    | Some n => let (v, r) := rs_node n O in (v, surface r)
    end.

  (* The control flow of the pinned revision (defect F1): a callback answering Stop makes the
     closure return nil from the CURRENT node only, so the parent's loop carries on. *)
  Fixpoint rst_entry (e : entry) (k : nat) : list item * option action :=
    match e with
    | ELeaf b id =>
        if overlap b q then ([MkItem b id], err_of (cb k id)) else ([], None)
    | EBranch b n =>
        if overlap b q then
          (fix loop (es : list entry) (k : nat) : list item * option action :=
             match es with
             | [] => ([], None)
             | e' :: es' =>
                 match rst_entry e' k with
                 | (v, None) => let (v', r) := loop es' (k + length v)%nat in (v ++ v', r)
                 | (v, Some a) =>
                     match e' with
                     | ELeaf _ _ => if is_stop a then (v, None) else (v, Some a)
                     | EBranch _ _ => (v, Some a)
                     end
                 end
             end) n k
        else ([], None)
    end.
  Fixpoint rst_node (es : list entry) (k : nat) : list item * option action :=
    match es with
    | [] => ([], None)
    | e' :: es' =>
        match rst_entry e' k with
        | (v, None) => let (v', r) := rst_node es' (k + length v)%nat in (v ++ v', r)
        | (v, Some a) =>
            match e' with
            | ELeaf _ _ => if is_stop a then (v, None) else (v, Some a)
            | EBranch _ _ => (v, Some a)
            end
        end
    end.
  Definition range_search_today (t : rtree) : list item * result :=
    match root t with
    | None => ([], RNil)
    | Some n => let (v, r) := rst_node n O in (v, surface r)
    end.
End RangeSearch.

(* ------------------------------------------------------------------ PrioritySearch / Nearest *)
(* container/heap is abstracted: [pop q l] removes an entry of minimal squared distance to q. *)
Definition heap_pop := box -> list entry -> option (entry * list entry).

(* the concrete queue used when the model is executed: the first minimum of the list *)
Fixpoint pop_min_aux (q : box) (best : entry) (rest : list entry) (l : list entry)
  : entry * list entry :=
  match l with
  | [] => (best, rest)
  | e :: r =>
      if sqdist (ebox e) q <? sqdist (ebox best) q
      then pop_min_aux q e (best :: rest) r
      else pop_min_aux q best (e :: rest) r
  end.
Definition pop_min : heap_pop :=
  fun q l => match l with [] => None | e :: r => Some (pop_min_aux q e [] r) end.

Section PrioritySearch.
  Variable pop : heap_pop.
  Variable q : box.
  Variable cb : callback.

  (* rtree/nearest.go:PrioritySearch, the `for len(queue.entries) > 0` loop; one unit of fuel per
     popped entry (None = out of fuel, excluded by lemma for fuel > number of entries) *)
  Fixpoint ps_loop (fuel : nat) (queue : list entry) (k : nat) : option (list item * option action) :=
    match fuel with
    | O => None
    | S f =>
        match pop q queue with
        | None => Some ([], None)
        | Some (ELeaf b id, rest) =>
            match err_of (cb k id) with
            | None =>
                match ps_loop f rest (S k) with
                | None => None
                | Some (v, r) => Some (MkItem b id :: v, r)
                end
            | Some a => Some ([MkItem b id], Some a)
            end
        | Some (EBranch _ n, rest) => ps_loop f (rest ++ n) k      (* equeueNode(nearest.child) *)
        end
    end.
  Definition priority_search (t : rtree) : option (list item * result) :=
    match root t with
    | None => Some ([], RNil)
    | Some n =>
        match ps_loop (S (nsize n)) n O with
        | None => None
        | Some (v, r) => Some (v, surface r)
        end
    end.
End PrioritySearch.

(* rtree/nearest.go:Nearest: the callback records the id and answers Stop *)
Definition nearest (pop : heap_pop) (t : rtree) (q : box) : option (option item) :=
  match priority_search pop q (fun _ _ => Stop) t with
  | None => None
  | Some (v, _) => Some (fold_left (fun _ x => Some x) v None)
  end.

(* rtree/rtree.go:Count, Extent *)
Definition count (t : rtree) : nat := tcount t.
Definition extent (t : rtree) : option box :=
  match root t with
  | None => None
  | Some n => if (length n =? 0)%nat then None else Some (calc_bound n)
  end.

(* ------------------------------------------------------------------ bulk loading: rtree/bulk.go *)
Definition key (horizontal : bool) (it : item) : Z :=
  if horizontal then minx (ibox it) + maxx (ibox it) else miny (ibox it) + maxy (ibox it).

(* closure `less` of quickPartition *)
Definition less (l : list item) (i j : nat) (h : bool) : outcome bool :=
  match nth_error l i, nth_error l j with
  | Some a, Some b => Ok (key h a <? key h b)
  | _, _ => Panic PIndex
  end.
Fixpoint upd (l : list item) (i : nat) (x : item) : list item :=
  match l, i with
  | [], _ => []
  | _ :: r, O => x :: r
  | y :: r, S i' => y :: upd r i' x
  end.
(* closure `swap` of quickPartition *)
Definition swap (l : list item) (i j : nat) : outcome (list item) :=
  match nth_error l i, nth_error l j with
  | Some a, Some b => Ok (upd (upd l i b) j a)
  | _, _ => Panic PIndex
  end.
(* if less(i, j) { swap(i, j) } *)
Definition cswap (l : list item) (i j : nat) (h : bool) : outcome (list item) :=
  do c <- less l i j h; if (c : bool) then swap l i j else Ok l.

(* the linear congruential generator of quickPartition: uint32 state, rnd(n) = (state*n) >> 32 *)
Definition lcg_next (st : Z) : Z := (1664525 * st + 1013904223) mod 4294967296.
Definition lcg_pick (st : Z) (n : nat) : nat := Z.to_nat ((st * Z.of_nat n) / 4294967296).

(* for i := left; i < right; i++ { if less(i, right) { swap(i, j); j++ } }  - n iterations left *)
Fixpoint part_loop (n : nat) (l : list item) (i j right : nat) (h : bool)
  : outcome (list item * nat) :=
  match n with
  | O => Ok (l, j)
  | S n' =>
      do c <- less l i right h;
      if (c : bool)
      then do l' <- swap l i j; part_loop n' l' (S i) (S j) right h
      else part_loop n' l (S i) j right h
  end.

(* rtree/bulk.go:quickPartition, one iteration of the outer `for` loop in the general case
   (pivot selection, partition, restoring the pivot, choice of the side that holds the k-th
   element); [rec] stands for the next iteration. *)
Definition qp_body (rec : list item -> nat -> nat -> nat -> Z -> outcome (list item))
           (l : list item) (left right k : nat) (h : bool) (st : Z) : outcome (list item) :=
  let st' := lcg_next st in
  let pivot := (left + lcg_pick st' (right - left + 1))%nat in
  do l1 <- (if (pivot =? right)%nat then Ok l else swap l pivot right);
  do lj <- part_loop (right - left) l1 left left right h;
  let (l2, j) := (lj : list item * nat) in
  do l3 <- swap l2 right j;
  if (j - left <? k)%nat then rec l3 (j + 1)%nat right (k - (j - left + 1))%nat st'
  else if (k <? j - left)%nat then rec l3 left (j - 1)%nat k st'
  else Ok l3.

(* rtree/bulk.go:quickPartition, the outer `for` loop with its 2- and 3-element special cases.
   Indices are nat: the proof of [quick_partition_total] shows left <= j <= right and
   k <= right-left at every iteration, so no subtraction is truncated. *)
Fixpoint qp_loop (fuel : nat) (l : list item) (left right k : nat) (h : bool) (st : Z)
  : outcome (list item) :=
  match fuel with
  | O => Err EFuel
  | S f =>
      match (right - left)%nat with
      | 1%nat => cswap l right left h
      | 2%nat =>
          do l1 <- cswap l (left + 1)%nat left h;
          do c <- less l1 (left + 2)%nat (left + 1)%nat h;
          if (c : bool)
          then do l2 <- swap l1 (left + 2)%nat (left + 1)%nat; cswap l2 (left + 1)%nat left h
          else Ok l1
      | _ => qp_body (fun l' lf rg k' s' => qp_loop f l' lf rg k' h s') l left right k h st
      end
  end.
Definition quick_partition (l : list item) (k : nat) (h : bool) : outcome (list item) :=
  qp_loop (S (length l)) l 0 (length l - 1) k h 0.

(* rtree/bulk.go:itemsAreHorizontal *)
Definition items_are_horizontal (l : list item) : outcome bool :=
  match l with
  | [] => Panic PIndex
  | it :: r =>
      let b := fold_left (fun b it' => combine b (ibox it')) r (ibox it) in
      Ok (maxx b - minx b >? maxy b - miny b)
  end.

(* rtree/bulk.go:splitBulkItems2Ways *)
Definition split2 (l : list item) : outcome (list item * list item) :=
  do h <- items_are_horizontal l;
  let split := Nat.div2 (length l) in
  do l' <- quick_partition l split h;
  Ok (firstn split l', skipn split l').

(* rtree/bulk.go:bulkNode *)
Fixpoint bulk_node (rec : list item -> outcome node) (parts : list (list item)) : outcome node :=
  match parts with
  | [] => Ok []
  | p :: ps =>
      do c <- rec p;
      do r <- bulk_node rec ps;
      Ok (EBranch (calc_bound c) c :: r)
  end.

(* rtree/bulk.go:bulkInsert, on fuel (every recursive call is on a strictly shorter slice) *)
Fixpoint bulk_insert (fuel : nat) (items : list item) : outcome node :=
  match fuel with
  | O => Err EFuel
  | S f =>
      let n := length items in
      if (n =? 0)%nat then Panic POther
      else if (n <=? 4)%nat then Ok (map (fun it => ELeaf (ibox it) (iid it)) items)
      else if (n <=? 8)%nat then
        do ab <- split2 items;
        let (a, b) := (ab : list item * list item) in
        bulk_node (bulk_insert f) [a; b]
      else
        do hh <- split2 items;
        let (h1, h2) := (hh : list item * list item) in
        do q12 <- split2 h1;
        let (q1, q2) := (q12 : list item * list item) in
        do q34 <- split2 h2;
        let (q3, q4) := (q34 : list item * list item) in
        bulk_node (bulk_insert f) [q1; q2; q3; q4]
  end.

(* rtree/bulk.go:BulkLoad *)
Definition bulk_load (items : list item) : outcome rtree :=
  if (length items =? 0)%nat then Ok (MkTree None O)
  else do r <- bulk_insert (length items) items; Ok (MkTree (Some r) (length items)).

(* ------------------------------------------------------------------ executable specification *)
(* multiset difference l - v (None when v is not a sub-multiset of l) *)
Fixpoint remove1 (x : item) (l : list item) : option (list item) :=
  match l with
  | [] => None
  | y :: r => if item_eqb x y then Some r
              else match remove1 x r with None => None | Some r' => Some (y :: r') end
  end.
Fixpoint ms_diff (l v : list item) : option (list item) :=
  match v with
  | [] => Some l
  | x :: v' => match remove1 x l with None => None | Some l' => ms_diff l' v' end
  end.

(* position and answer of the first callback invocation that did not answer Continue *)
Fixpoint first_stop (cb : callback) (i : nat) (visits : list item) : option (nat * action) :=
  match visits with
  | [] => None
  | x :: r => match cb i (iid x) with
              | Continue => first_stop cb (S i) r
              | a => Some (i, a)
              end
  end.

(* RangeSearch: the callback saw each record overlapping q at most once and no other record; if
   every answer was Continue it saw all of them and nil is returned; otherwise the first
   non-Continue answer was the last invocation and the return value is nil for Stop / wrapped
   Stop and the callback's error otherwise. *)
Definition range_ok (items : list item) (q : box) (cb : callback)
           (visits : list item) (ret : result) : bool :=
  match ms_diff (filter (fun it => overlap (ibox it) q) items) visits with
  | None => false
  | Some rest =>
      match first_stop cb O visits with
      | None => (length rest =? 0)%nat && result_eqb ret RNil
      | Some (k, a) => (length visits =? S k)%nat && result_eqb ret (surface (Some a))
      end
  end.

Fixpoint sorted_by (f : item -> Z) (l : list item) : bool :=
  match l with
  | [] => true
  | x :: r => match r with [] => true | y :: _ => (f x <=? f y) && sorted_by f r end
  end.

(* PrioritySearch: each loaded record at most once and no other, distances non-decreasing, every
   record not (yet) visited is at least as far as every visited one, early stop respected as for
   RangeSearch, all records visited when never stopped. *)
Definition prio_ok (items : list item) (q : box) (cb : callback)
           (visits : list item) (ret : result) : bool :=
  match ms_diff items visits with
  | None => false
  | Some rest =>
      sorted_by (fun it => sqdist (ibox it) q) visits &&
      forallb (fun v => forallb (fun u => sqdist (ibox v) q <=? sqdist (ibox u) q) rest) visits &&
      match first_stop cb O visits with
      | None => (length rest =? 0)%nat && result_eqb ret RNil
      | Some (k, a) => (length visits =? S k)%nat && result_eqb ret (surface (Some a))
      end
  end.

(* Nearest: not found iff nothing is loaded; otherwise a loaded record at minimal distance *)
Definition nearest_ok (items : list item) (q : box) (r : option item) : bool :=
  match r with
  | None => (length items =? 0)%nat
  | Some x => existsb (item_eqb x) items &&
              forallb (fun y => sqdist (ibox x) q <=? sqdist (ibox y) q) items
  end.

(* Extent: absent iff nothing is loaded; otherwise contains every box and each of its four sides
   is attained by some loaded box (the exact bounding box) *)
Definition extent_ok (items : list item) (r : option box) : bool :=
  match r with
  | None => (length items =? 0)%nat
  | Some b =>
      negb (length items =? 0)%nat &&
      forallb (fun it => inside (ibox it) b) items &&
      existsb (fun it => minx (ibox it) =? minx b) items &&
      existsb (fun it => miny (ibox it) =? miny b) items &&
      existsb (fun it => maxx (ibox it) =? maxx b) items &&
      existsb (fun it => maxy (ibox it) =? maxy b) items
  end.
Definition count_ok (items : list item) (c : nat) : bool := (c =? length items)%nat.

(* quickPartition's contract (tree quality only): the k-th element separates *)
Definition qp_split_ok (h : bool) (l : list item) (k : nat) : bool :=
  match nth_error l k with
  | None => false
  | Some p =>
      forallb (fun x => key h x <=? key h p) (firstn k l) &&
      forallb (fun x => key h p <=? key h x) (skipn (S k) l)
  end.

(* script used by the correspondence run: Continue for the first k invocations, then a forever *)
Definition script (k : nat) (a : action) : callback :=
  fun i _ => if (i <? k)%nat then Continue else a.
