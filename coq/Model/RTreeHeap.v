(* Property C11 - the REAL priority queue of rtree/nearest.go inside the model: entriesQueue
   (Len/Less/Swap/Push/Pop on a slice) driven by Go's container/heap (Push = append + up,
   Pop = swap(0,n-1) + down + remove last; up and down transcribed from
   /usr/lib/go-1.23/src/container/heap/heap.go), and PrioritySearch / Nearest running on it.
   Definitions only; proofs are in Proofs/RTree_heap_proofs.v.

   The slice is a list, indices are nat, every access is nth_error; None = index out of range or
   out of fuel (both excluded by lemma).  Not modelled: int overflow of 2*i+1 (`j1 < 0`). *)
From Coq Require Import ZArith List Bool Arith Lia.
From SF Require Import Model.RTree.
Import ListNotations.

Section Heap.
  Variable origin : box.       (* entriesQueue.origin *)

  Definition dkey (e : entry) : Z := sqdist (ebox e) origin.

  (* rtree/nearest.go:entriesQueue.Less *)
  Definition q_less (l : list entry) (i j : nat) : option bool :=
    match nth_error l i, nth_error l j with
    | Some a, Some b => Some (dkey a <? dkey b)%Z
    | _, _ => None
    end.
  Fixpoint eupd (l : list entry) (i : nat) (x : entry) : list entry :=
    match l, i with
    | [], _ => []
    | _ :: r, O => x :: r
    | y :: r, S i' => y :: eupd r i' x
    end.
  (* rtree/nearest.go:entriesQueue.Swap *)
  Definition q_swap (l : list entry) (i j : nat) : option (list entry) :=
    match nth_error l i, nth_error l j with
    | Some a, Some b => Some (eupd (eupd l i b) j a)
    | _, _ => None
    end.

  (* container/heap:up.  i := (j - 1) / 2 is 0 for j = 0 in Go (division truncates towards zero)
     and in nat; the loop runs at most j times (fuel, excluded by lemma). *)
  Fixpoint up_loop (fuel : nat) (l : list entry) (j : nat) : option (list entry) :=
    match fuel with
    | O => None
    | S f =>
        let i := Nat.div2 (j - 1) in                       (* parent *)
        if (i =? j)%nat then Some l
        else match q_less l j i with
             | None => None
             | Some false => Some l                        (* !h.Less(j, i): break *)
             | Some true =>
                 match q_swap l i j with
                 | None => None
                 | Some l' => up_loop f l' i
                 end
             end
    end.
  Definition heap_up (l : list entry) (j : nat) : option (list entry) := up_loop (S j) l j.

  (* container/heap:down (its boolean result is not used by Pop) *)
  Fixpoint down_loop (fuel : nat) (l : list entry) (i n : nat) : option (list entry) :=
    match fuel with
    | O => None
    | S f =>
        let j1 := (2 * i + 1)%nat in
        if (n <=? j1)%nat then Some l                      (* j1 >= n: break *)
        else
          match (if (j1 + 1 <? n)%nat then q_less l (j1 + 1) j1 else Some false) with
          | None => None
          | Some c =>
              let j := if (c : bool) then (j1 + 1)%nat else j1 in   (* the smaller child *)
              match q_less l j i with
              | None => None
              | Some false => Some l                       (* !h.Less(j, i): break *)
              | Some true =>
                  match q_swap l i j with
                  | None => None
                  | Some l' => down_loop f l' j n
                  end
              end
          end
    end.
  Definition heap_down (l : list entry) (i n : nat) : option (list entry) := down_loop (S n) l i n.

  (* container/heap:Push with entriesQueue.Push = append *)
  Definition heap_push (l : list entry) (x : entry) : option (list entry) :=
    let l' := l ++ [x] in heap_up l' (length l' - 1).

  (* container/heap:Pop with entriesQueue.Pop = remove and return the last element *)
  Definition heap_pop_go (l : list entry) : option (entry * list entry) :=
    let n := (length l - 1)%nat in
    match q_swap l 0 n with
    | None => None
    | Some l1 =>
        match heap_down l1 0 n with
        | None => None
        | Some l2 =>
            match nth_error l2 n with
            | None => None
            | Some e => Some (e, firstn n l2)
            end
        end
    end.

  (* rtree/nearest.go:PrioritySearch, closure equeueNode *)
  Fixpoint enqueue (l : list entry) (n : list entry) : option (list entry) :=
    match n with
    | [] => Some l
    | e :: r => match heap_push l e with None => None | Some l' => enqueue l' r end
    end.

  Variable cb : callback.

  (* rtree/nearest.go:PrioritySearch, the loop `for len(queue.entries) > 0` *)
  Fixpoint psh_loop (fuel : nat) (queue : list entry) (k : nat) : option (list item * option action) :=
    match fuel with
    | O => None
    | S f =>
        if (length queue =? 0)%nat then Some ([], None)
        else
          match heap_pop_go queue with
          | None => None
          | Some (ELeaf b id, rest) =>
              match err_of (cb k id) with
              | None =>
                  match psh_loop f rest (S k) with
                  | None => None
                  | Some (v, r) => Some (MkItem b id :: v, r)
                  end
              | Some a => Some ([MkItem b id], Some a)
              end
          | Some (EBranch _ n, rest) =>
              match enqueue rest n with
              | None => None
              | Some queue' => psh_loop f queue' k
              end
          end
    end.
End Heap.

(* rtree/nearest.go:PrioritySearch on the real queue *)
Definition priority_search_heap (q : box) (cb : callback) (t : rtree) : option (list item * result) :=
  match root t with
  | None => Some ([], RNil)
  | Some n =>
      match enqueue q [] n with
      | None => None
      | Some queue =>
          match psh_loop q cb (S (nsize n)) queue O with
          | None => None
          | Some (v, r) => Some (v, surface r)
          end
      end
  end.

(* rtree/nearest.go:Nearest on the real queue *)
Definition nearest_heap (t : rtree) (q : box) : option (option item) :=
  match priority_search_heap q (fun _ _ => Stop) t with
  | None => None
  | Some (v, _) => Some (fold_left (fun _ x => Some x) v None)
  end.
