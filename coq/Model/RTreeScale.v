(* Property C11 - rescaled populations.  Definitions only; proofs are in Proofs/RTree_scale_proofs.v.

   (1) Scaling of boxes, items and trees by a factor s (the correspondence run multiplies an
       integer layout by an exact power of two 2^k; the theorems say that every modelled result is
       the same on the scaled population, so such a case is judged on its integer pre-image).
   (2) The order-generalised executable statements for PrioritySearch / Nearest: [le x y] says "x may
       be visited before y".  With [le x y := sqdist x q <=? sqdist y q] they are prio_ok / nearest_ok;
       where the float64 squared distances of the implementation underflow or overflow (|k| large)
       the run uses the weaker order "true distance says so OR the rounded float64 key says so". *)
From Coq Require Import ZArith List Bool Arith Lia.
From SF Require Import Base.Outcome Model.RTree.
Import ListNotations.
Open Scope Z_scope.

(* ------------------------------------------------------------------ scaling *)
Definition scale_box (s : Z) (b : box) : box :=
  MkBox (s * minx b) (s * miny b) (s * maxx b) (s * maxy b).
Definition scale_item (s : Z) (it : item) : item := MkItem (scale_box s (ibox it)) (iid it).
Fixpoint scale_entry (s : Z) (e : entry) : entry :=
  match e with
  | ELeaf b id => ELeaf (scale_box s b) id
  | EBranch b n => EBranch (scale_box s b) (map (scale_entry s) n)
  end.
Definition scale_node (s : Z) (n : node) : node := map (scale_entry s) n.
Definition scale_tree (s : Z) (t : rtree) : rtree :=
  MkTree (option_map (scale_node s) (root t)) (tcount t).

(* ------------------------------------------------------------------ order-generalised statements *)
Section Rel.
  Variable le : item -> item -> bool.      (* x may be visited before y *)

  Fixpoint pairwise (l : list item) : bool :=
    match l with
    | [] => true
    | x :: r => forallb (le x) r && pairwise r
    end.

  (* PrioritySearch: as prio_ok, the order clause being: every visited record may come before every
     record visited later and before every record not visited *)
  Definition prio_ok_rel (items : list item) (cb : callback) (visits : list item) (ret : result) : bool :=
    match ms_diff items visits with
    | None => false
    | Some rest =>
        pairwise visits &&
        forallb (fun v => forallb (le v) rest) visits &&
        match first_stop cb O visits with
        | None => (length rest =? 0)%nat && result_eqb ret RNil
        | Some (k, a) => (length visits =? S k)%nat && result_eqb ret (surface (Some a))
        end
    end.

  (* Nearest: as nearest_ok *)
  Definition nearest_ok_rel (items : list item) (r : option item) : bool :=
    match r with
    | None => (length items =? 0)%nat
    | Some x => existsb (item_eqb x) items && forallb (le x) items
    end.
End Rel.

(* the exact order of the property *)
Definition le_dist (q : box) (x y : item) : bool := sqdist (ibox x) q <=? sqdist (ibox y) q.
(* the order used where the implementation's float64 keys are rounded: [other] is the comparison of
   the rounded keys (computed by the driver in IEEE double arithmetic) *)
Definition le_or (q : box) (other : item -> item -> bool) (x y : item) : bool :=
  other x y || le_dist q x y.
