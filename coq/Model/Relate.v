(* Model of geom/de9im.go (matrix, RelateMatches) and geom/alg_relate.go (Relate, the nine named
   predicates).  The overlay engine behind Relate for two non-empty operands (geom/dcel*.go) is NOT
   modelled algorithmically: it is replaced by the exact reference semantics Planar.de9im_ref
   (DESIGN.md section 1, "M is replaced by an exact reference semantics"). *)
From Coq Require Import QArith List Bool ZArith NArith String Ascii.
From SF Require Import Base.GeomAST Base.QKernel Base.Planar Model.RelatePatterns.
Import ListNotations.
Local Close Scope Q_scope.
Local Open Scope nat_scope.

(* ------------------------------------------------------------------ strings as byte lists *)
Definition bytes := list N.
Definition str_bytes (s : string) : bytes := map N_of_ascii (list_ascii_of_string s).

Definition cF : N := 70.   (* 'F' *)
Definition c0 : N := 48.   (* '0' *)
Definition c1 : N := 49.   (* '1' *)
Definition c2 : N := 50.   (* '2' *)
Definition cT : N := 84.   (* 'T' *)
Definition cStar : N := 42. (* '*' *)

(* (bool, error) of RelateMatches: the error text is not modelled *)
Inductive rmres := RM (b : bool) | RMErr.

(* geom/de9im.go:RelateMatches, first switch: case 'F','0','1','2','T','*' *)
Definition pat_char_ok (p : N) : bool :=
  N.eqb p cF || N.eqb p c0 || N.eqb p c1 || N.eqb p c2 || N.eqb p cT || N.eqb p cStar.
(* second switch on the matrix character; None = default branch (error) *)
Definition mat_class (m : N) : option dimv :=
  if N.eqb m cF then Some DF else if N.eqb m c0 then Some D0
  else if N.eqb m c1 then Some D1 else if N.eqb m c2 then Some D2 else None.
Definition cell_match (d : dimv) (p : N) : bool :=
  match d with
  | DF => N.eqb p cF || N.eqb p cStar
  | D0 => N.eqb p c0 || N.eqb p cT || N.eqb p cStar
  | D1 => N.eqb p c1 || N.eqb p cT || N.eqb p cStar
  | D2 => N.eqb p c2 || N.eqb p cT || N.eqb p cStar
  end.

(* the loop `for i, m := range mat { p := pat[i] ... }` (both strings have length 9 there).
   A byte >= 0x80 of the matrix starts a rune that is none of F,0,1,2: the loop returns an error at
   that position, exactly as this byte-wise loop does. *)
Fixpoint rm_loop (mat pat : bytes) : rmres :=
  match mat, pat with
  | m :: mat', p :: pat' =>
      if pat_char_ok p then
        match mat_class m with
        | Some d => if cell_match d p then rm_loop mat' pat' else RM false
        | None => RMErr
        end
      else RMErr
  | _, _ => RM true
  end.

(* geom/de9im.go:RelateMatches *)
Definition relate_matches (mat pat : bytes) : rmres :=
  if negb (Nat.eqb (List.length mat) 9) then RMErr
  else if negb (Nat.eqb (List.length pat) 9) then RMErr
  else rm_loop mat pat.

(* geom/alg_relate.go:relateMatchesAnyPattern (after Relate has produced mat) *)
Fixpoint match_any (mat : bytes) (pats : list bytes) : rmres :=
  match pats with
  | [] => RM false
  | p :: r =>
      match relate_matches mat p with
      | RMErr => RMErr
      | RM true => RM true
      | RM false => match_any mat r
      end
  end.

(* the pattern lists of Model/RelatePatterns.v as byte strings (computed here once, so that the
   extracted code contains no Coq strings; bp_spec in Proofs/Relate_proofs.v restates the link) *)
Definition bp_equals : list bytes := Eval vm_compute in map str_bytes pats_equals.
Definition bp_disjoint : list bytes := Eval vm_compute in map str_bytes pats_disjoint.
Definition bp_touches : list bytes := Eval vm_compute in map str_bytes pats_touches.
Definition bp_contains : list bytes := Eval vm_compute in map str_bytes pats_contains.
Definition bp_covers : list bytes := Eval vm_compute in map str_bytes pats_covers.
Definition bp_within : list bytes := Eval vm_compute in map str_bytes pats_within.
Definition bp_coveredby : list bytes := Eval vm_compute in map str_bytes pats_coveredby.
Definition bp_crosses_lt : list bytes := Eval vm_compute in map str_bytes pats_crosses_lt.
Definition bp_crosses_gt : list bytes := Eval vm_compute in map str_bytes pats_crosses_gt.
Definition bp_crosses_11 : list bytes := Eval vm_compute in map str_bytes pats_crosses_11.
Definition bp_overlaps_00_22 : list bytes := Eval vm_compute in map str_bytes pats_overlaps_00_22.
Definition bp_overlaps_11 : list bytes := Eval vm_compute in map str_bytes pats_overlaps_11.

(* ------------------------------------------------------------------ the nine predicates,
   as functions of Relate's output, the two dimensions and the two emptiness flags *)
(* geom/alg_relate.go:Equals *)
Definition go_equals (mat : bytes) (ea eb : bool) : rmres :=
  if ea && eb then RM true else match_any mat bp_equals.
(* geom/alg_relate.go:Disjoint, Touches, Contains, Covers, Within, CoveredBy *)
Definition go_disjoint (mat : bytes) : rmres := match_any mat bp_disjoint.
Definition go_touches (mat : bytes) : rmres := match_any mat bp_touches.
Definition go_contains (mat : bytes) : rmres := match_any mat bp_contains.
Definition go_covers (mat : bytes) : rmres := match_any mat bp_covers.
Definition go_within (mat : bytes) : rmres := match_any mat bp_within.
Definition go_coveredby (mat : bytes) : rmres := match_any mat bp_coveredby.
(* geom/alg_relate.go:Crosses *)
Definition go_crosses (mat : bytes) (da db : nat) : rmres :=
  if Nat.ltb da db then match_any mat bp_crosses_lt
  else if Nat.ltb db da then match_any mat bp_crosses_gt
  else if Nat.eqb da 1 && Nat.eqb db 1 then match_any mat bp_crosses_11
  else RM false.
(* geom/alg_relate.go:Overlaps *)
Definition go_overlaps (mat : bytes) (da db : nat) : rmres :=
  if (Nat.eqb da 0 && Nat.eqb db 0) || (Nat.eqb da 2 && Nat.eqb db 2) then match_any mat bp_overlaps_00_22
  else if Nat.eqb da 1 && Nat.eqb db 1 then match_any mat bp_overlaps_11
  else RM false.

(* all nine, in the order Equals Disjoint Touches Contains Covers Within CoveredBy Crosses Overlaps *)
Definition go_preds (mat : bytes) (da db : nat) (ea eb : bool) : list rmres :=
  [go_equals mat ea eb; go_disjoint mat; go_touches mat; go_contains mat; go_covers mat;
   go_within mat; go_coveredby mat; go_crosses mat da db; go_overlaps mat da db].

(* ------------------------------------------------------------------ matrix <-> string *)
(* geom/de9im.go:matrix.code *)
Definition enc_dim (d : dimv) : N := match d with DF => cF | D0 => c0 | D1 => c1 | D2 => c2 end.
Definition enc_matrix (m : matrix) : bytes := map enc_dim (matrix_list m).

(* ------------------------------------------------------------------ dimensions, emptiness *)
Definition gis_empty (g : geom) : bool := is_empty g.

(* geom/type_geometry.go:Dimension; type_geometry_collection.go:Dimension (maximum over ALL members,
   empty ones included; 0 for a collection without members) *)
Fixpoint dimension (g : geom) : nat :=
  match g with
  | GPoint _ | GMPoint _ _ => 0
  | GLine _ | GMLine _ _ => 1
  | GPoly _ | GMPoly _ _ => 2
  | GColl _ gs => fold_right (fun x acc => Nat.max (dimension x) acc) 0 gs
  end.
(* geom/type_geometry_collection.go:highestDimensionIgnoreEmpties *)
Fixpoint dimension_ie (g : geom) : nat :=
  match g with
  | GColl _ gs => fold_right (fun x acc => Nat.max (dimension_ie x) acc) 0 gs
  | _ => if is_empty g then 0 else dimension g
  end.

(* g.Boundary().IsEmpty(): type_point.go, type_line_string.go (empty or closed -> empty),
   type_multi_line_string.go (mod-2 over the end points of the non-closed members),
   type_polygon.go / type_multi_polygon.go (the rings), type_geometry_collection.go (the non-empty
   boundaries of the members) *)
Definition mline_boundary_empty (ls : list (lineT Q)) : bool :=
  let ends := flat_map line_ends ls in
  negb (existsb (fun e => odd_ends ends e) ends).
Fixpoint boundary_empty (g : geom) : bool :=
  match g with
  | GPoint _ | GMPoint _ _ => true
  | GLine l => pts_closed (line_pts l)
  | GPoly y => forallb (@line_empty Q) (poly_rings y)
  | GMLine _ ls => mline_boundary_empty ls
  | GMPoly _ ys => forallb (fun y => forallb (@line_empty Q) (poly_rings y)) ys
  | GColl _ gs => if forallb (@is_empty Q) gs then true else forallb boundary_empty gs
  end.

(* ------------------------------------------------------------------ Relate *)
Definition m_all_F_but_EE : matrix := MkM DF DF DF DF DF DF DF DF D2.

(* geom/alg_relate.go:Relate, branch `a.IsEmpty() || b.IsEmpty()`; dimf is the dimension function
   consulted for the non-empty operand: [dimension] before the repair of F8, [dimension_ie] after *)
Definition relate_empty_branch (dimf : geom -> nat) (a b : geom) : matrix :=
  if is_empty a && is_empty b then m_all_F_but_EE
  else
    let flip := is_empty b in
    let ne := if flip then a else b in
    let im :=
      match dimf ne with
      | 0%nat => MkM DF DF DF DF DF DF D0 DF D2
      | 1%nat => MkM DF DF DF DF DF DF D1 (if boundary_empty ne then DF else D0) D2
      | 2%nat => MkM DF DF DF DF DF DF D2 D1 D2
      | _ => m_all_F_but_EE
      end in
    if flip then transpose im else im.

Definition relate_with (dimf : geom -> nat) (a b : geom) : matrix :=
  if is_empty a || is_empty b then relate_empty_branch dimf a b
  else de9im_ref a b.   (* reference semantics in place of newDCELFromGeometries + extractIntersectionMatrix *)

(* the code as pinned (F8 present) and as repaired *)
Definition relate_unfixed : geom -> geom -> matrix := relate_with dimension.
Definition relate : geom -> geom -> matrix := relate_with dimension_ie.

(* the nine predicates of a pair, through Relate's string *)
Definition preds_with (dimf : geom -> nat) (a b : geom) : list rmres :=
  go_preds (enc_matrix (relate_with dimf a b)) (dimf a) (dimf b) (is_empty a) (is_empty b).
Definition preds_unfixed := preds_with dimension.
Definition preds := preds_with dimension_ie.

(* ------------------------------------------------------------------ typed patterns (for the proofs) *)
Inductive pchar := PF | P0 | P1 | P2 | PT | PStar.
Definition pchar_of (p : N) : option pchar :=
  if N.eqb p cF then Some PF else if N.eqb p c0 then Some P0 else if N.eqb p c1 then Some P1
  else if N.eqb p c2 then Some P2 else if N.eqb p cT then Some PT else if N.eqb p cStar then Some PStar else None.
Definition pcell (d : dimv) (p : pchar) : bool :=
  match d, p with
  | _, PStar => true
  | DF, PF => true
  | D0, P0 | D0, PT => true
  | D1, P1 | D1, PT => true
  | D2, P2 | D2, PT => true
  | _, _ => false
  end.
Fixpoint pmatch (ds : list dimv) (ps : list pchar) : bool :=
  match ds, ps with
  | d :: ds', p :: ps' => pcell d p && pmatch ds' ps'
  | _, _ => true
  end.
Fixpoint parse_pat (bs : bytes) : option (list pchar) :=
  match bs with
  | [] => Some []
  | b :: r => match pchar_of b, parse_pat r with
              | Some p, Some ps => Some (p :: ps)
              | _, _ => None
              end
  end.
(* a pattern list in typed form; None if some pattern is not 9 valid characters *)
Fixpoint typed_pats (pats : list bytes) : option (list (list pchar)) :=
  match pats with
  | [] => Some []
  | s :: r => match parse_pat s, typed_pats r with
              | Some p, Some ps => if Nat.eqb (List.length p) 9 then Some (p :: ps) else None
              | _, _ => None
              end
  end.
Definition pmatch_any (m : matrix) (tps : list (list pchar)) : bool :=
  existsb (pmatch (matrix_list m)) tps.

(* all 4^9 matrices *)
Definition all_dims : list dimv := [DF; D0; D1; D2].
Definition all_matrices : list matrix :=
  flat_map (fun a => flat_map (fun b => flat_map (fun c => flat_map (fun d => flat_map (fun e =>
  flat_map (fun f => flat_map (fun g => flat_map (fun h => map (fun i => MkM a b c d e f g h i)
  all_dims) all_dims) all_dims) all_dims) all_dims) all_dims) all_dims) all_dims) all_dims.

(* ------------------------------------------------------------------ empty members *)
(* g without the empty members of its collections (at any depth) *)
Fixpoint strip_empty_members (g : geom) : geom :=
  match g with
  | GColl ct gs =>
      GColl ct (flat_map (fun x => if is_empty x then [] else [strip_empty_members x]) gs)
  | _ => g
  end.

(* ------------------------------------------------------------------ the property's domain *)
(* "GeometryCollections whose members are pairwise disjoint": the non-collection leaves of g share
   no point pairwise (decided on the witnesses of the two leaves' arrangement) *)
Fixpoint leaves (g : geom) : list geom :=
  match g with
  | GColl _ gs => flat_map leaves gs
  | _ => [g]
  end.
Definition share_point (a b : geom) : bool :=
  existsb (fun w => inG a (fst w) && inG b (fst w)) (pair_witnesses a b).
Fixpoint pairwise_disjoint (l : list geom) : bool :=
  match l with
  | [] => true
  | x :: r => forallb (fun y => negb (share_point x y)) r && pairwise_disjoint r
  end.
Definition members_disjoint (g : geom) : bool :=
  match g with
  | GColl _ _ => pairwise_disjoint (filter (fun x => negb (is_empty x)) (leaves g))
  | _ => true
  end.
