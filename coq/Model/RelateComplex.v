(* Property C02, the part of Go's Relate engine that turns the LABELLED overlay into the DE-9IM
   matrix: geom/dcel_extract_intersection_matrix.go, transcribed on the abstract complex of
   Model/OverlayComplex.v (C01) extended by the per-vertex location flags.

   Anchors:
     geom/dcel.go                                   location{interior,boundary}; vertexRecord.locations[2]
     geom/dcel_extract_intersection_matrix.go       extractIntersectionMatrix (three loops: vertices '0',
                                                    half edges '1', faces '2', each im.set OVERWRITES),
                                                    faceRecord.location, halfEdgeRecord.location,
                                                    vertexRecord.location (boundary flag first, then interior
                                                    flag, then the location of ONE incident half edge - the
                                                    first of a map range, i.e. an arbitrary one; panic if none)
     geom/de9im.go                                  newMatrix, matrix.set
   How the labels are computed (re-noding, radial sort, flood fill, mod-2 toggling of the flags in
   dcel_input.go) is NOT modelled: the labels are the input here.  Proofs/RelateComplex_proofs.v shows
   that correct labels give the reference matrix; the driver checks the labels of every real overlay
   (hook geom/verif_hooks_relate.go:VerifRelateOverlay) cell by cell against the definitional locate. *)
From Coq Require Import List Bool Arith Lia.
From SF Require Import Base.GeomAST Base.QKernel Base.Planar Model.SetOpSpec Model.OverlayComplex.
Import ListNotations.

(* geom/dcel.go: type location struct { interior, boundary bool }, one per operand *)
Record vloc := MkVL { vl_interior : bool; vl_boundary : bool }.
(* the complex of C01 together with the location flags of its vertices (same order as c_verts) *)
Record xcomplex := MkX { x_c : complex; x_locs : list (vloc * vloc) }.

Definition op_loc (l : vloc * vloc) (op : bool) : vloc := if op then snd l else fst l.  (* false = A, true = B *)

(* ---- the three location functions *)
(* faceRecord.location *)
Definition face_loc (f : faceR) (op : bool) : loc :=
  if lab_get (f_in f) op then Interior else Exterior.
(* halfEdgeRecord.location: e.incident.inSet, e.twin.incident.inSet, then e.inSet *)
Definition edge_loc (c : complex) (e : hedgeR) (op : bool) : loc :=
  let face1 := lab_get (face_in c (e_face e)) op in
  let face2 := lab_get (twin_face_in c e) op in
  if face1 && face2 then Interior
  else if xorb face1 face2 then Boundary
  else if lab_get (e_in e) op then Interior
  else Exterior.
(* the half edges starting at vertex i (vertexRecord.incidents) *)
Definition incidents (c : complex) (i : nat) : list hedgeR :=
  filter (fun e => Nat.eqb (e_origin e) i) (c_edges c).
(* vertexRecord.location; None = panic("point has no incidents").  Go takes the first half edge of a
   map range, i.e. any of them; here: the first in list order ([incidents_agree] below says when the
   choice does not matter) *)
Definition vertex_loc (c : complex) (i : nat) (l : vloc * vloc) (op : bool) : option loc :=
  if vl_boundary (op_loc l op) then Some Boundary
  else if vl_interior (op_loc l op) then Some Interior
  else match incidents c i with
       | e :: _ => Some (edge_loc c e op)
       | [] => None
       end.
(* all incident half edges of every unflagged vertex give the same location *)
Definition incidents_agree (x : xcomplex) : bool :=
  forallb (fun il =>
    let i := fst il in let l := snd il in
    forallb (fun op =>
      vl_boundary (op_loc l op) || vl_interior (op_loc l op) ||
      match incidents (x_c x) i with
      | [] => true
      | e :: r => forallb (fun e' => loc_eqb (edge_loc (x_c x) e' op) (edge_loc (x_c x) e op)) r
      end) [false; true])
    (indexed_from 0 (x_locs x)).

(* ---- the matrix *)
(* geom/de9im.go:matrix.set *)
Definition mset (m : matrix) (a b : loc) (d : dimv) : matrix :=
  match a, b with
  | Interior, Interior => MkM d (mIB m) (mIE m) (mBI m) (mBB m) (mBE m) (mEI m) (mEB m) (mEE m)
  | Interior, Boundary => MkM (mII m) d (mIE m) (mBI m) (mBB m) (mBE m) (mEI m) (mEB m) (mEE m)
  | Interior, Exterior => MkM (mII m) (mIB m) d (mBI m) (mBB m) (mBE m) (mEI m) (mEB m) (mEE m)
  | Boundary, Interior => MkM (mII m) (mIB m) (mIE m) d (mBB m) (mBE m) (mEI m) (mEB m) (mEE m)
  | Boundary, Boundary => MkM (mII m) (mIB m) (mIE m) (mBI m) d (mBE m) (mEI m) (mEB m) (mEE m)
  | Boundary, Exterior => MkM (mII m) (mIB m) (mIE m) (mBI m) (mBB m) d (mEI m) (mEB m) (mEE m)
  | Exterior, Interior => MkM (mII m) (mIB m) (mIE m) (mBI m) (mBB m) (mBE m) d (mEB m) (mEE m)
  | Exterior, Boundary => MkM (mII m) (mIB m) (mIE m) (mBI m) (mBB m) (mBE m) (mEI m) d (mEE m)
  | Exterior, Exterior => MkM (mII m) (mIB m) (mIE m) (mBI m) (mBB m) (mBE m) (mEI m) (mEB m) d
  end.
(* geom/de9im.go:newMatrix *)
Definition m_new : matrix := MkM DF DF DF DF DF DF DF DF DF.

(* one loop of extractIntersectionMatrix: im.set(locA, locB, d) for every cell of the list *)
Definition set_all (d : dimv) (cells : list (loc * loc)) (m : matrix) : matrix :=
  fold_left (fun m c => mset m (fst c) (snd c) d) cells m.
(* the three loops, on the location pairs of the vertices, half edges and faces *)
Definition matrix_of_cells (vs es fs : list (loc * loc)) : matrix :=
  set_all D2 fs (set_all D1 es (set_all D0 vs m_new)).

(* location pairs of the cells of a complex; None if some vertex location panics *)
Fixpoint all_some {A} (l : list (option A)) : option (list A) :=
  match l with
  | [] => Some []
  | None :: _ => None
  | Some x :: r => match all_some r with Some r' => Some (x :: r') | None => None end
  end.
Definition vertex_cells (x : xcomplex) : option (list (loc * loc)) :=
  all_some (map (fun il =>
    match vertex_loc (x_c x) (fst il) (snd il) false, vertex_loc (x_c x) (fst il) (snd il) true with
    | Some a, Some b => Some (a, b)
    | _, _ => None
    end) (indexed_from 0 (x_locs x))).
Definition edge_cells (x : xcomplex) : list (loc * loc) :=
  map (fun e => (edge_loc (x_c x) e false, edge_loc (x_c x) e true)) (c_edges (x_c x)).
Definition face_cells (x : xcomplex) : list (loc * loc) :=
  map (fun f => (face_loc f false, face_loc f true)) (c_faces (x_c x)).

(* geom/dcel_extract_intersection_matrix.go:extractIntersectionMatrix; None = panic *)
Definition matrix_of_complex (x : xcomplex) : option matrix :=
  match vertex_cells x with
  | Some vs => Some (matrix_of_cells vs (edge_cells x) (face_cells x))
  | None => None
  end.

(* ---- the complex with the operands exchanged *)
Definition swap_v (v : vertexR) : vertexR := MkV (lab_swap (v_src v)) (lab_swap (v_in v)).
Definition swap_e (e : hedgeR) : hedgeR :=
  MkE (e_origin e) (e_twin e) (e_next e) (e_prev e) (e_face e)
      (lab_swap (e_srcEdge e)) (lab_swap (e_srcFace e)) (lab_swap (e_in e)).
Definition swap_f (f : faceR) : faceR := MkF (f_cycle f) (lab_swap (f_in f)).
Definition swap_c (c : complex) : complex :=
  MkC (map swap_v (c_verts c)) (map swap_e (c_edges c)) (map swap_f (c_faces c)).
Definition swap_x (x : xcomplex) : xcomplex :=
  MkX (swap_c (x_c x)) (map (fun l => (snd l, fst l)) (x_locs x)).
