(* The DE-9IM pattern lists of the nine named predicates, transcribed from geom/alg_relate.go
   (the string literals passed to relateMatchesAnyPattern), in source order.  This is the only
   place where they are written down; Model/Relate.v and the theorems refer to these names. *)
From Coq Require Import String List.
Import ListNotations.
Open Scope string_scope.

(* geom/alg_relate.go:Equals *)
Definition pats_equals : list string := ["T*F**FFF*"].
(* geom/alg_relate.go:Disjoint *)
Definition pats_disjoint : list string := ["FF*FF****"].
(* geom/alg_relate.go:Touches *)
Definition pats_touches : list string := ["FT*******"; "F**T*****"; "F***T****"].
(* geom/alg_relate.go:Contains *)
Definition pats_contains : list string := ["T*****FF*"].
(* geom/alg_relate.go:Covers *)
Definition pats_covers : list string := ["T*****FF*"; "*T****FF*"; "***T**FF*"; "****T*FF*"].
(* geom/alg_relate.go:Within *)
Definition pats_within : list string := ["T*F**F***"].
(* geom/alg_relate.go:CoveredBy *)
Definition pats_coveredby : list string := ["T*F**F***"; "*TF**F***"; "**FT*F***"; "**F*TF***"].
(* geom/alg_relate.go:Crosses: dimA < dimB, dimA > dimB, dimA = dimB = 1 *)
Definition pats_crosses_lt : list string := ["T*T******"].
Definition pats_crosses_gt : list string := ["T*****T**"].
Definition pats_crosses_11 : list string := ["0********"].
(* geom/alg_relate.go:Overlaps: (0,0) or (2,2); (1,1) *)
Definition pats_overlaps_00_22 : list string := ["T*T***T**"].
Definition pats_overlaps_11 : list string := ["1*T***T**"].
