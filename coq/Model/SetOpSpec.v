(* Property C01 - overlay set operations: exact reference semantics and the modelled glue.

   The overlay engine itself (geom/dcel_re_noding.go, dcel_ghosts.go, dcel_input.go, dcel_fixup.go:
   float64 re-noding with ULP-scaled snapping, ghost spanning tree, half-edge construction, radial
   sort, face flood fill, ring walking) is NOT modelled.  It appears here as an abstract function
   [engine] (Section Dispatch).  What is modelled exactly:

   (1) GLUE   geom/alg_set_op.go: Union / Intersection / Difference / SymmetricDifference /
              UnaryUnion / UnionMany with their empty-operand dispatch, and the four selection
              functions or / and / andNot / xor;
              geom/dcel_extract_geometry.go:extractGeometry, the final switch ([assemble]).
   (2) SPEC   the set-theoretic statement of the property as an executable judgement over Q, on the
              slab-witness arrangement of Base/Planar.v (DESIGN.md 2.2a):
              [raw op a b p]        Boolean combination of the definitional memberships inG a p, inG b p;
              [witnesses_nb L P]    Planar.witnesses, every witness annotated with the witnesses of the
                                    cells of higher (or equal) dimension whose closure contains it;
              [in_closure X w]      X holds at w or at one of those incident cells: membership in the
                                    topological closure of a set X that is a union of arrangement cells;
              [expected op a b w]   plain form for union and intersection (closed sets), closure form
                                    for difference and symmetric difference;
              [judge ...]           result r agrees with [expected] at every witness of the arrangement
                                    of the segments of a, b AND r; exact area by slab decomposition;
                                    number of isolated points; no lower-dimensional part of r is
                                    covered twice or by a higher-dimensional part; canonical shape.
   (3) F20    the class predicate "some hole ring of an areal member of an operand meets the interior
              of another areal member of the same operand" and the location of its symptom; F20b, the
              wider class found by the correspondence (two areal members of one operand with
              intersecting interiors) with its symptom (the result is what the operation gives with
              that operand's areal part absent).
   (4) TRANSPORT  float64 bit patterns to exact dyadic rationals; snapping of a float result onto the
              exact arrangement of the operands within a stated tolerance (snap_geom is the reference;
              the driver chooses the candidate in float arithmetic and accepts it only by the exact
              test dist2 <= tol^2); exact clearance of the operands' arrangement (admission of
              general-position input).

   Incidence (Planar.v provides none; it is derived here from the same slab structure):
   - a slab witness on an edge piece (xm, y_j) is incident to the two trapezoids directly above and
     below it in its column;
   - a witness (x_i, y) on an event line is incident to: the pieces directly above and below it on
     the line (vertical edge pieces, or transparent face pieces); in each adjacent open slab, with the
     spanning segments ordered by their height at the middle of the slab, the edge piece of a
     segment s iff s(x_i) = y and the trapezoid between consecutive segments lo, hi iff
     lo(x_i) <= y <= hi(x_i) (below the lowest: y <= lo(x_i); above the highest: hi(x_i) <= y);
     beyond the first / last event line the unbounded cell.
   Spanning segments do not cross inside an open slab (every crossing is an event), so their order
   at the middle is their order at both ends, which makes the rule exact.  Proved about it: the
   annotated list is Planar's list (Proofs/SetOpSpec_proofs.v: witnesses_nb_strip).  NOT proved:
   sufficiency of one witness per cell (DESIGN.md section 4.1) - the label of C01 is "partial". *)
From Coq Require Import QArith Qreduction Qabs List Bool ZArith NArith Lia.
From SF Require Import Base.GeomAST Base.Outcome Base.QKernel Base.Planar.
Import ListNotations.
Open Scope Q_scope.

(* ================================================================ (1) glue ================= *)

Inductive setop := OpUnion | OpInter | OpDiff | OpSym.

(* geom/alg_set_op.go: or / and / andNot / xor on the pair of operand labels *)
Definition op_bool (o : setop) (x y : bool) : bool :=
  match o with
  | OpUnion => x || y
  | OpInter => x && y
  | OpDiff => x && negb y
  | OpSym => xorb x y
  end.

(* the zero Geometry{} : an empty GeometryCollection (type_geometry.go) *)
Definition empty_geom : geom := GColl XY [].
Definition g_empty (g : geom) : bool := is_empty g.

Section Dispatch.
  (* geom/alg_set_op.go:setOp(a, include, b) - overlay, extraction, validation; abstract *)
  Variable engine : geom -> setop -> geom -> outcome geom.

  (* alg_set_op.go:UnaryUnion *)
  Definition unary_union (g : geom) : outcome geom := engine g OpUnion empty_geom.
  (* alg_set_op.go:Union *)
  Definition union (a b : geom) : outcome geom :=
    if g_empty a && g_empty b then Ok empty_geom
    else if g_empty a then unary_union b
    else if g_empty b then unary_union a
    else engine a OpUnion b.
  (* alg_set_op.go:Intersection *)
  Definition intersection (a b : geom) : outcome geom :=
    if g_empty a || g_empty b then Ok empty_geom
    else engine a OpInter b.
  (* alg_set_op.go:Difference *)
  Definition difference (a b : geom) : outcome geom :=
    if g_empty a then Ok empty_geom
    else if g_empty b then unary_union a
    else engine a OpDiff b.
  (* alg_set_op.go:SymmetricDifference *)
  Definition sym_difference (a b : geom) : outcome geom :=
    if g_empty a && g_empty b then Ok empty_geom
    else if g_empty a then unary_union b
    else if g_empty b then unary_union a
    else engine a OpSym b.
  (* alg_set_op.go:UnionMany *)
  Definition union_many (gs : list geom) : outcome geom :=
    unary_union (new_collection 0 gs).

  Definition run (o : setop) (a b : geom) : outcome geom :=
    match o with
    | OpUnion => union a b
    | OpInter => intersection a b
    | OpDiff => difference a b
    | OpSym => sym_difference a b
    end.
End Dispatch.

(* which call the dispatch makes (observable form of the dispatch, used by the correspondence):
   DEmpty = returns Geometry{} ; DUnary g = UnaryUnion(g) ; DEngine = the overlay of both *)
Inductive dispatched := DEmpty | DUnaryA | DUnaryB | DEngine.
Definition dispatch (o : setop) (ea eb : bool) : dispatched :=
  match o with
  | OpUnion | OpSym => if ea && eb then DEmpty else if ea then DUnaryB else if eb then DUnaryA else DEngine
  | OpInter => if ea || eb then DEmpty else DEngine
  | OpDiff => if ea then DEmpty else if eb then DUnaryA else DEngine
  end.

(* dcel_extract_geometry.go:extractGeometry - the final switch over the three extracted lists *)
Definition assemble (areals : list (polyT Q)) (linears : list (lineT Q)) (points : list (pointT Q)) : geom :=
  match areals, linears, points with
  | _ :: _, [], [] =>
      match areals with
      | [y] => GPoly y
      | _ => new_multipoly 0 areals
      end
  | [], _ :: _, [] =>
      match linears with
      | [l] => GLine l
      | _ => new_multiline 0 linears
      end
  | [], [], _ :: _ =>
      match points with
      | [q] => GPoint q
      | _ => new_multipoint 0 points
      end
  | _, _, _ => new_collection 0 (map GPoly areals ++ map GLine linears ++ map GPoint points)
  end.

(* leaves of a result, as stored values *)
Fixpoint g_pointTs (g : geom) : list (pointT Q) :=
  match g with
  | GPoint q => [q]
  | GMPoint _ qs => qs
  | GColl _ gs => flat_map g_pointTs gs
  | _ => []
  end.
Definition reassemble (r : geom) : geom := assemble (g_polys r) (g_lines r) (g_pointTs r).

(* canonical shape of a result: what [assemble] can produce from non-empty members *)
Definition member_rank (g : geom) : nat :=
  match g with GPoly _ => 0 | GLine _ => 1 | GPoint _ => 2 | _ => 3 end%nat.
Fixpoint ranks_sorted (l : list nat) : bool :=
  match l with
  | a :: ((b :: _) as r) => Nat.leb a b && ranks_sorted r
  | _ => true
  end.
Definition shape_ok (r : geom) : bool :=
  match r with
  | GPoly y => negb (poly_empty y)
  | GLine l => negb (line_empty l)
  | GPoint q => negb (point_empty q)
  | GMPoly _ ys => Nat.leb 2 (length ys) && forallb (fun y => negb (poly_empty y)) ys
  | GMLine _ ls => Nat.leb 2 (length ls) && forallb (fun l => negb (line_empty l)) ls
  | GMPoint _ qs => Nat.leb 2 (length qs) && forallb (fun q => negb (point_empty q)) qs
  | GColl _ gs =>
      match gs with
      | [] => true
      | _ =>
        let rk := map member_rank gs in
        forallb (fun k => Nat.leb k 2) rk && ranks_sorted rk
        && forallb (fun g => negb (is_empty g)) gs
        && negb (Nat.eqb (hd 0%nat rk) (last rk 0%nat))      (* at least two dimensions *)
      end
  end.

(* ================================================================ (2) reference semantics == *)

(* membership through the prepared form of Planar.v (segment lists computed once) *)
Definition areal_p (pg : pgeom) (p : pt) : bool :=
  existsb (fun rs => rings_boundary rs p || rings_interior rs p) (pg_polys pg).
Definition lineal_p (pg : pgeom) (p : pt) : bool := existsb (fun es => on_edges es p) (pg_lines pg).
Definition mem_p (pg : pgeom) (p : pt) : bool :=
  areal_p pg p || lineal_p pg p || existsb (pt_eqb p) (pg_points pg).

Definition raw_f (o : setop) (fa fb : pt -> bool) (p : pt) : bool := op_bool o (fa p) (fb p).
Definition raw (o : setop) (a b : geom) : pt -> bool := raw_f o (inG a) (inG b).

(* ---- witnesses with incidence -------------------------------------------------------------- *)
Definition wit := (pt * dimv * list pt)%type.
Definition wpt (w : wit) : pt := fst (fst w).
Definition wdim (w : wit) : dimv := snd (fst w).
Definition wnb (w : wit) : list pt := snd w.
Definition strip (w : wit) : pt * dimv := fst w.

Definition spans (s : seg) (xm : Q) : bool :=
  negb (seg_vertical s) &&
  ((qltb (fst (fst s)) xm && qltb xm (fst (snd s))) || (qltb (fst (snd s)) xm && qltb xm (fst (fst s)))).
Definition spanning (L : list seg) (xm : Q) : list seg := filter (fun s => spans s xm) L.

(* (height at the middle of the slab, height at the end abscissa xe), increasing in the first
   component, one entry per distinct height at the middle *)
Fixpoint pinsert (x : Q * Q) (l : list (Q * Q)) : list (Q * Q) :=
  match l with
  | [] => [x]
  | y :: r => match fst x ?= fst y with
              | Lt => x :: l
              | Eq => l
              | Gt => y :: pinsert x r
              end
  end.
Definition slab_pairs (L : list seg) (xm xe : Q) : list (Q * Q) :=
  fold_right pinsert [] (map (fun s => (seg_y_at s xm, seg_y_at s xe)) (spanning L xm)).

(* cells of the column at xm (as Planar.column lays them out) whose closure contains (xe, y) *)
Fixpoint inc_gaps (xm y : Q) (prs : list (Q * Q)) : list pt :=
  match prs with
  | p1 :: ((p2 :: _) as r) =>
      (if Qeq_bool (snd p1) y then [(xm, fst p1)] else []) ++
      (if Qle_bool (snd p1) y && Qle_bool y (snd p2) then [(xm, qmid (fst p1) (fst p2))] else []) ++
      inc_gaps xm y r
  | [p1] =>
      (if Qeq_bool (snd p1) y then [(xm, fst p1)] else []) ++
      (if Qle_bool (snd p1) y then [(xm, Qred (fst p1 + 1))] else [])
  | [] => []
  end.
Definition inc_of_pairs (xm : Q) (prs : list (Q * Q)) (y : Q) : list pt :=
  match prs with
  | [] => [(xm, 0)]
  | p1 :: _ => (if Qle_bool y (snd p1) then [(xm, Qred (fst p1 - 1))] else []) ++ inc_gaps xm y prs
  end.
Definition slab_incident (L : list seg) (xm xe : Q) : Q -> list pt :=
  let prs := slab_pairs L xm xe in fun y => inc_of_pairs xm prs y.

(* every ordinate of a sorted column with the points directly below and above it *)
Fixpoint col_adj (x : Q) (below : pt) (ys : list Q) : list (Q * (pt * pt)) :=
  match ys with
  | [] => []
  | y :: r =>
      match r with
      | [] => [(y, (below, (x, Qred (y + 1))))]
      | y2 :: _ => let m := (x, qmid y y2) in (y, (below, m)) :: col_adj x m r
      end
  end.

(* Planar.column with incidence: [extra y] are the incident cells outside the column *)
Definition column_nb (x : Q) (ys : list Q) (at_y : Q -> dimv) (mid : Q -> Q -> dimv)
           (extra : Q -> list pt) : list wit :=
  match ys with
  | [] => [((x, 0), D2, extra 0)]
  | y1 :: _ =>
      let lo := Qred (y1 - 1) in
      let hi := Qred (last ys y1 + 1) in
      ((x, lo), D2, extra lo) :: ((x, hi), D2, extra hi)
      :: map (fun e => ((x, fst e), at_y (fst e), fst (snd e) :: snd (snd e) :: extra (fst e))) (col_adj x (x, lo) ys)
      ++ map (fun w => (fst w, snd w, extra (snd (fst w)))) (gaps_between x ys mid)
  end.

Definition slab_witnesses_nb (L : list seg) (x0 x1 : Q) : list wit :=
  let xm := qmid x0 x1 in
  column_nb xm (slab_heights L xm) (fun _ => D1) (fun _ _ => D2) (fun _ => []).

Definition event_witnesses_nb (L : list seg) (V : list pt) (x : Q) (extra : Q -> list pt) : list wit :=
  let vy := vertex_ordinates V x in
  column_nb x (line_ordinates L V x)
            (fun y => if existsb (Qeq_bool y) vy then D0 else D1)
            (fun y1 y2 => if vertical_covers L x y1 y2 then D1 else D2) extra.

Fixpoint slabs_between_nb (L : list seg) (xs : list Q) : list wit :=
  match xs with
  | x0 :: ((x1 :: _) as r) => slab_witnesses_nb L x0 x1 ++ slabs_between_nb L r
  | _ => []
  end.

(* event lines from left to right; [left] gives the incident cells on the left of the current line *)
Fixpoint events_nb (L : list seg) (V : list pt) (left : Q -> list pt) (wr : pt) (xs : list Q) : list wit :=
  match xs with
  | [] => []
  | x :: r =>
      match r with
      | [] => event_witnesses_nb L V x (fun y => left y ++ [wr])
      | x2 :: _ =>
          let xm := qmid x x2 in
          let right := slab_incident L xm x in
          event_witnesses_nb L V x (fun y => left y ++ right y)
          ++ events_nb L V (slab_incident L xm x2) wr r
      end
  end.

Definition wits_of (L : list seg) (V : list pt) (xs : list Q) : list wit :=
  match xs with
  | [] => [((0, 0), D2, [])]
  | x0 :: _ =>
      let wl := (Qred (x0 - 1), 0) in
      let wr := (Qred (last xs x0 + 1), 0) in
      (wl, D2, []) :: (wr, D2, [])
      :: events_nb L V (fun _ => [wl]) wr xs ++ slabs_between_nb L xs
  end.
Definition witnesses_nb (L : list seg) (P : list pt) : list wit :=
  let V := vertex_set L P in wits_of L V (events V).

(* ---- the arrangement of a list of geometries ------------------------------------------------ *)
(* one representative per segment up to orientation and Qeq (ordinates are normalised first) *)
Definition seg_canon (s : seg) : seg :=
  let a := pt_red (fst s) in
  let b := pt_red (snd s) in
  if pt_leb a b then (a, b) else (b, a).
Fixpoint lex_eqb (a b : list Z) : bool :=
  match a, b with
  | [], [] => true
  | x :: a', y :: b' => Z.eqb x y && lex_eqb a' b'
  | _, _ => false
  end.
Section Dedup.
  Variable A : Type.
  Variable key : A -> list Z.
  (* removes repetitions from a list in which equal keys are adjacent *)
  Fixpoint kdedup (l : list A) : list A :=
    match l with
    | x :: ((y :: _) as r) => if lex_eqb (key x) (key y) then kdedup r else x :: kdedup r
    | _ => l
    end.
End Dedup.
Arguments kdedup {A} _ _.
Definition ctx_segs (gs : list geom) : list seg :=
  kdedup seg_key (ksort seg_key (map seg_canon (flat_map arr_segments gs))).
Definition ctx_pts (gs : list geom) : list pt :=
  kdedup pt_key (ksort pt_key (map pt_red (flat_map arr_points gs))).
Definition ctx_witnesses (gs : list geom) : list wit := witnesses_nb (ctx_segs gs) (ctx_pts gs).
(* the arrangement of a list of geometries, computed once *)
Record arrangement := MkArr { ar_segs : list seg; ar_pts : list pt; ar_events : list Q;
                              ar_wits : list wit; ar_cells : list (pt * Q) }.

(* ---- closure and the expected set ------------------------------------------------------------ *)
Definition in_closure (X : pt -> bool) (w : wit) : bool := X (wpt w) || existsb X (wnb w).

Definition expected_f (o : setop) (fa fb : pt -> bool) (w : wit) : bool :=
  match o with
  | OpUnion | OpInter => raw_f o fa fb (wpt w)
  | OpDiff | OpSym => in_closure (raw_f o fa fb) w
  end.
Definition expected (o : setop) (a b : geom) : wit -> bool := expected_f o (inG a) (inG b).

(* membership expected of UnionMany / UnaryUnion *)
Definition many_f (fs : list (pt -> bool)) (p : pt) : bool := existsb (fun f => f p) fs.
Definition expected_many (gs : list geom) (w : wit) : bool := existsb (fun g => inG g (wpt w)) gs.

(* witnesses at which the result and the expected set differ *)
Definition disagreements (W : list wit) (fr : pt -> bool) (e : wit -> bool) : list wit :=
  filter (fun w => negb (Bool.eqb (fr (wpt w)) (e w))) W.
Definition agrees (W : list wit) (fr : pt -> bool) (e : wit -> bool) : bool :=
  forallb (fun w => Bool.eqb (fr (wpt w)) (e w)) W.

(* two geometries have the same point set, judged on their common arrangement *)
Definition same_set (g h : geom) : bool :=
  forallb (fun w => Bool.eqb (inG g (wpt w)) (inG h (wpt w))) (ctx_witnesses [g; h]).

(* ---- exact area by slab decomposition --------------------------------------------------------- *)
(* the trapezoid between consecutive heights y1 < y2 (taken at the middle of the slab) of a slab of
   width w has area w * (y2 - y1): the heights at the middle are the mean heights *)
Fixpoint gap_cells (x w : Q) (ys : list Q) : list (pt * Q) :=
  match ys with
  | y1 :: ((y2 :: _) as r) => ((x, qmid y1 y2), w * (y2 - y1)) :: gap_cells x w r
  | _ => []
  end.
(* the bounded trapezoids of the slab decomposition: (witness, area) *)
Fixpoint slab_cells (L : list seg) (xs : list Q) : list (pt * Q) :=
  match xs with
  | x0 :: ((x1 :: _) as r) =>
      gap_cells (qmid x0 x1) (x1 - x0) (slab_heights L (qmid x0 x1)) ++ slab_cells L r
  | _ => []
  end.
Definition cells_area (cells : list (pt * Q)) (f : pt -> bool) : Q :=
  fold_right (fun c acc => (if f (fst c) then snd c else 0) + acc) 0 cells.
Definition area_of (L : list seg) (P : list pt) (f : pt -> bool) : Q :=
  cells_area (slab_cells L (events (vertex_set L P))) f.
Definition arrange (gs : list geom) : arrangement :=
  let L := ctx_segs gs in
  let P := ctx_pts gs in
  let V := vertex_set L P in
  let xs := events V in
  MkArr L P xs (wits_of L V xs) (slab_cells L xs).
Definition ctx_area (gs : list geom) (f : pt -> bool) : Q := Qred (area_of (ctx_segs gs) (ctx_pts gs) f).
Definition arr_area (ar : arrangement) (f : pt -> bool) : Q := Qred (cells_area (ar_cells ar) f).

(* shoelace area of a canonical result (valid: rings simple, members interior-disjoint):
   |shell| - sum |holes| per polygon *)
Fixpoint shoelace2 (ps : list pt) : Q :=
  match ps with
  | a :: ((b :: _) as r) => (fst a * snd b - fst b * snd a) + shoelace2 r
  | _ => 0
  end.
Definition ring_area_abs (l : lineT Q) : Q := Qabs (shoelace2 (line_pts l)) / 2.
Definition poly_area (y : polyT Q) : Q :=
  match poly_rings y with
  | [] => 0
  | sh :: holes => ring_area_abs sh - fold_right (fun h acc => ring_area_abs h + acc) 0 holes
  end.
Definition result_area (r : geom) : Q := Qred (fold_right (fun y acc => poly_area y + acc) 0 (g_polys r)).

(* ---- isolated points and redundancy ---------------------------------------------------------- *)
Definition is_d0 (d : dimv) : bool := match d with D0 => true | _ => false end.
Definition is_d1 (d : dimv) : bool := match d with D1 => true | _ => false end.
Definition is_d2 (d : dimv) : bool := match d with D2 => true | _ => false end.
(* vertices of the arrangement that are isolated points of the closure of X *)
Definition isolated_count (W : list wit) (X : pt -> bool) : nat :=
  length (filter (fun w => is_d0 (wdim w) && X (wpt w) && negb (existsb X (wnb w))) W).

Definition proper_seg (s : seg) : bool := negb (pt_eqb (fst s) (snd s)).
Definition line_cover_count (pg : pgeom) (p : pt) : nat :=
  length (flat_map (fun es => filter (fun s => proper_seg s && on_seg s p) es) (pg_lines pg)).
Definition in_areal (r : geom) (p : pt) : bool := existsb (fun y => in_poly y p) (g_polys r).
Definition in_lineal (r : geom) (p : pt) : bool := existsb (fun l => on_line l p) (g_lines r).
(* no piece of a line of r is covered twice or lies in an areal part of r; no point of r is
   repeated or lies on a line or in an areal part of r *)
Definition nonredundant (W : list wit) (pg : pgeom) : bool :=
  forallb (fun w => negb (is_d1 (wdim w)) ||
                    (let c := line_cover_count pg (wpt w) in
                     Nat.leb c 1 && (Nat.eqb c 0 || negb (areal_p pg (wpt w))))) W
  && forallb (fun p => negb (areal_p pg p) && negb (lineal_p pg p)
                       && Nat.eqb (length (filter (pt_eqb p) (pg_points pg))) 1) (pg_points pg).

(* every ring of every polygon is a closed vertex list (first = last): the hypothesis under which the
   witnesses decide every point of the plane (Proofs/Planar_slab*.v); true of every valid polygon *)
Definition rings_closed_b (g : geom) : bool :=
  forallb (fun y => forallb (fun r => pts_closed (line_pts r)) (poly_rings y)) (g_polys g).

(* ---- the judgement ------------------------------------------------------------------------------ *)
Record verdict := MkVerdict {
  v_agree : bool;            (* membership agrees at every witness *)
  v_area : bool;             (* shoelace area of r = slab area of the expected set *)
  v_points : bool;           (* number of point members of r = isolated points of the expected set *)
  v_nonred : bool;
  v_shape : bool;
  v_bad : list wit           (* the disagreeing witnesses *)
}.
Definition verdict_ok (v : verdict) : bool :=
  v_agree v && v_area v && v_points v && v_nonred v && v_shape v.

(* ar must be the arrangement of a list of geometries containing the operands and r;
   e is the expected membership, X the raw set whose closure is expected *)
Definition judge_with (ar : arrangement) (r : geom) (e : wit -> bool) (X : pt -> bool) : verdict :=
  let pg := prep r in
  let W := ar_wits ar in
  let bad := disagreements W (mem_p pg) e in
  MkVerdict (match bad with [] => true | _ => false end)
            (* the closure of X has the trapezoids of X: an open cell meeting cl(X) lies in X *)
            (Qeq_bool (result_area r) (arr_area ar X))
            (Nat.eqb (length (pg_points pg)) (isolated_count W X))
            (nonredundant W pg)
            (shape_ok r)
            bad.

Definition judge (o : setop) (a b r : geom) : verdict :=
  judge_with (arrange [a; b; r]) r (expected o a b) (raw o a b).
Definition judge_many (gs : list geom) (r : geom) : verdict :=
  judge_with (arrange (r :: gs)) r (expected_many gs) (fun p => existsb (fun g => inG g p) gs).

(* ================================================================ (3) F20 ================== *)
(* polygons of g with their index *)
Fixpoint indexed {A} (k : nat) (l : list A) : list (nat * A) :=
  match l with [] => [] | x :: r => (k, x) :: indexed (S k) r end.
Definition hole_rings (y : polyT Q) : list (list seg) := tl (poly_ring_segs y).
(* the ring h (a list of edges) meets the interior of polygon y: decided on the arrangement of h
   and the rings of y, whose cells on h are exactly its vertices and edge pieces *)
Definition ring_meets_interior (h : list seg) (y : polyT Q) : bool :=
  existsb (fun w => on_edges h (fst w) && poly_interior y (fst w))
          (witnesses (canon_segs (map seg_canon (h ++ concat (poly_ring_segs y)))) []).
(* some hole ring of an areal member of g meets the interior of another areal member of g *)
Definition same_operand_hole_meets_sibling_interior (g : geom) : bool :=
  let ys := indexed 0 (g_polys g) in
  existsb (fun iy =>
    existsb (fun h =>
      existsb (fun jz => negb (Nat.eqb (fst iy) (fst jz)) && ring_meets_interior h (snd jz)) ys)
      (hole_rings (snd iy))) ys.
(* p lies in the closed region bounded by a hole ring of one areal member of g and in another
   areal member of g: the place where the symptom of F20 (hole not filled) shows *)
Definition in_covered_hole (g : geom) (p : pt) : bool :=
  let ys := indexed 0 (g_polys g) in
  existsb (fun iy =>
    existsb (fun h => (on_edges h p || edges_parity h p) &&
      existsb (fun jz => negb (Nat.eqb (fst iy) (fst jz)) && in_poly (snd jz) p) ys)
      (hole_rings (snd iy))) ys.

(* F20b (found by the correspondence of C01; same root cause, wider class): two areal members of one
   operand have intersecting interiors.  Decided on the arrangement of the two members' rings: two
   open sets that are unions of cells meet iff they share a cell, hence a witness. *)
Definition interiors_meet (y z : polyT Q) : bool :=
  existsb (fun w => poly_interior y (fst w) && poly_interior z (fst w))
          (witnesses (canon_segs (map seg_canon (concat (poly_ring_segs y) ++ concat (poly_ring_segs z)))) []).
Definition same_operand_areal_members_overlap (g : geom) : bool :=
  let ys := indexed 0 (g_polys g) in
  existsb (fun iy => existsb (fun jz => Nat.ltb (fst iy) (fst jz) && interiors_meet (snd iy) (snd jz)) ys) ys.
(* the membership the result would have at p if the areal part of an operand were absent there:
   xa / xb tell which operand is taken as absent *)
Definition raw_absent (o : setop) (a b : geom) (xa xb : bool) (p : pt) : bool :=
  op_bool o (if xa && in_areal a p then false else inG a p) (if xb && in_areal b p then false else inG b p).

(* ================================================================ transport helpers ======== *)
(* float64 bit pattern -> exact dyadic rational (None for NaN / infinities) *)
Definition f64_to_Q (b : N) : option Q :=
  let sign := N.testbit b 63 in
  let e := N.land (N.shiftr b 52) 2047 in
  let m := N.land b 4503599627370495 in
  if (e =? 2047)%N then None
  else
    let mant := if (e =? 0)%N then Z.of_N m else Z.of_N (m + 4503599627370496) in
    let ex := if (e =? 0)%N then (-1074)%Z else (Z.of_N e - 1075)%Z in
    let z := if sign then (- mant)%Z else mant in
    Some (Qred (if (0 <=? ex)%Z then inject_Z (z * 2 ^ ex)
                else Qmake z (Z.to_pos (2 ^ (- ex))))).
Definition f64_or0 (b : N) : Q := match f64_to_Q b with Some q => q | None => 0 end.
Definition f64_finite (b : N) : bool := match f64_to_Q b with Some _ => true | None => false end.

Section MapXY.
  Variables (A B : Type) (f : A -> A -> B * B) (z : B).
  Definition vtx_mapxy (v : vtx A) : vtx B :=
    let xy := f (vx v) (vy v) in Build_vtx (fst xy) (snd xy) z z.
  Definition point_mapxy (p : pointT A) : pointT B :=
    match p with MkPoint ct c => MkPoint ct (option_map vtx_mapxy c) end.
  Definition line_mapxy (l : lineT A) : lineT B :=
    match l with MkLine ct vs => MkLine ct (map vtx_mapxy vs) end.
  Definition poly_mapxy (p : polyT A) : polyT B :=
    match p with MkPoly ct rs => MkPoly ct (map line_mapxy rs) end.
  Fixpoint geom_mapxy (g : geomT A) : geomT B :=
    match g with
    | GPoint p => GPoint (point_mapxy p)
    | GLine l => GLine (line_mapxy l)
    | GPoly p => GPoly (poly_mapxy p)
    | GMPoint ct ps => GMPoint ct (map point_mapxy ps)
    | GMLine ct ls => GMLine ct (map line_mapxy ls)
    | GMPoly ct ps => GMPoly ct (map poly_mapxy ps)
    | GColl ct gs => GColl ct (map geom_mapxy gs)
    end.
End MapXY.
Definition geom_of_bits (g : geomT N) : geom :=
  geom_mapxy N Q (fun x y => (f64_or0 x, f64_or0 y)) 0 g.
Definition xy_finite (g : geomT N) : bool :=
  forallb (fun v => f64_finite (vx v) && f64_finite (vy v)) (geom_vs g).

(* ---- snapping a float result onto the exact arrangement of the operands ---------------------- *)
Definition dist2 (p q : pt) : Q :=
  (fst p - fst q) * (fst p - fst q) + (snd p - snd q) * (snd p - snd q).
(* the point of the closed segment s closest to p (exact) *)
Definition seg_closest (s : seg) (p : pt) : pt :=
  let '(a, b) := s in
  let dx := fst b - fst a in
  let dy := snd b - snd a in
  let d := dx * dx + dy * dy in
  if Qeq_bool d 0 then a
  else
    let t := ((fst p - fst a) * dx + (snd p - snd a) * dy) / d in
    if Qle_bool t 0 then a else if Qle_bool 1 t then b
    else pt_red (fst a + t * dx, snd a + t * dy).
(* nearest candidate (first among equals) *)
Fixpoint nearest (p : pt) (cands : list pt) (best : option (pt * Q)) : option (pt * Q) :=
  match cands with
  | [] => best
  | c :: r =>
      let d := dist2 c p in
      nearest p r (match best with
                   | None => Some (c, d)
                   | Some (_, bd) => if qltb d bd then Some (c, d) else best
                   end)
  end.
(* a vertex of the arrangement within tol wins; else the closest point of a segment within tol;
   else the point stays (and the judgement decides) *)
Definition snap_pt (tol2 : Q) (V : list pt) (L : list seg) (p : pt) : pt :=
  if existsb (pt_eqb p) V then pt_red p else
  match nearest p V None with
  | Some (v, d) =>
      if Qle_bool d tol2 then pt_red v else
      match nearest p (map (fun s => seg_closest s p) L) None with
      | Some (c, d') => if Qle_bool d' tol2 then pt_red c else pt_red p
      | None => pt_red p
      end
  | None => pt_red p
  end.
Definition snap_geom (tol2 : Q) (V : list pt) (L : list seg) (g : geom) : geom :=
  geom_mapxy Q Q (fun x y => snap_pt tol2 V L (x, y)) 0 g.
(* number of vertices of g that are not (exactly) vertices of the arrangement / moved by snapping *)
Definition moved_count (g g' : geom) : nat :=
  length (filter (fun vv => negb (pt_eqb (vpt (fst vv)) (vpt (snd vv)))) (combine (geom_vs g) (geom_vs g'))).

Definition qmax (a b : Q) : Q := if Qle_bool a b then b else a.
Definition magnitude (gs : list geom) : Q :=
  fold_right (fun v acc => qmax (qmax (Qabs (vx v)) (Qabs (vy v))) acc) 1 (flat_map (@geom_vs Q) gs).
(* vertices and segments of the exact arrangement of the operands *)
Definition operand_segs (gs : list geom) : list seg := ctx_segs gs.
Definition operand_vertices (gs : list geom) : list pt :=
  kdedup pt_key (ksort pt_key (map pt_red (vertex_set (ctx_segs gs) (ctx_pts gs)))).

(* clearance of the arrangement of the operands (quantifier of C01 for general-position input):
   every two distinct vertices, and every vertex and every segment not passing through it, are at
   squared distance at least thr2 *)
Definition seg_dist2 (s : seg) (p : pt) : Q := dist2 (seg_closest s p) p.
Definition clearance_ok (thr2 : Q) (L : list seg) (V : list pt) : bool :=
  forallb (fun v => forallb (fun s => on_seg s v || Qle_bool thr2 (seg_dist2 s v)) L
                    && forallb (fun u => pt_eqb u v || Qle_bool thr2 (dist2 u v)) V) V.

(* exact bounding box (None for an empty geometry) *)
Definition bbox (g : geom) : option (Q * Q * Q * Q) :=
  match geom_vs g with
  | [] => None
  | v :: r => Some (fold_right (fun u b =>
                 let '(x0, y0, x1, y1) := b in
                 ((if Qle_bool (vx u) x0 then vx u else x0), (if Qle_bool (vy u) y0 then vy u else y0),
                  (if Qle_bool x1 (vx u) then vx u else x1), (if Qle_bool y1 (vy u) then vy u else y1)))
                 (vx v, vy v, vx v, vy v) r)
  end.
