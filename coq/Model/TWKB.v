(* Model of the TWKB codec, integer layer.  Carrier: Z = the already quantised ordinate
   int64(math.Round(f * 10^prec)); the float <-> integer step is Model/TWKBQuant.v.
   Anchors: geom/twkb.go, geom/twkb_write.go (twkbWriter), geom/twkb_parser.go (twkbParser).
   The model follows the code WITH the repairs fixes/F5, F6, F7, F15, F16, F17, F18, F31, F70, F71, F72 applied
   (each place is marked "fix Fnn"; F7 and F31 are C08's patches); the unrepaired behaviours are re-found by the
   correspondence run on the unfixed tree.
   Representation choices (all behaviour-preserving):
   - a point of a point array is the list of its `dimensions` integers; the writer's and the
     parser's running reference point is such a list too (Go: [4]int64 of which the first
     `dimensions` entries are used);
   - int64 arithmetic that can wrap in Go (delta = ival - ref, ref += delta, bboxMax - bboxMin,
     min + delta, int(uint64 count), pos + int(size)) is wrapped here with wrap64;
   - the parser state is the unread input, the position in the parser's own slice, and the number
     of bytes requested so far by count-sized make() calls (for C08). *)
From Coq Require Import NArith ZArith List Bool Lia.
From SF Require Import Base.Outcome Base.Bytes Base.GeomAST Base.Varint.
Import ListNotations.

Notation zgeom := (geomT Z).

(* ordinates of a vertex in wire order: X Y [Z] [M] *)
Definition vords (ct : ctype) (v : vtx Z) : list Z :=
  vx v :: vy v :: (if has_z ct then [vz v] else []) ++ (if has_m ct then [vm v] else []).

(* twkb_parser.go:nextPoint  c.XY.X = coords[0]; c.XY.Y = coords[1]; switch hasZ/hasM ...
   an index outside the coords slice would be a run-time panic *)
Definition ovtx {F} (zero : F) (ct : ctype) (l : list F) : outcome (vtx F) :=
  match ct, l with
  | XY, [x; y] => Ok (Build_vtx x y zero zero)
  | XYZ, [x; y; z] => Ok (Build_vtx x y z zero)
  | XYM, [x; y; m] => Ok (Build_vtx x y zero m)
  | XYZM, [x; y; z; m] => Ok (Build_vtx x y z m)
  | _, _ => Panic PIndex
  end.

(* twkb.go: twkbGeometryType *)
Definition kind_of (t : gtype) : N :=
  match t with
  | TPoint => 1 | TLine => 2 | TPoly => 3 | TMPoint => 4 | TMLine => 5 | TMPoly => 6 | TColl => 7
  end%N.

(* ================================================================== writer *)

(* MarshalTWKB arguments: precXY, the options TWKBPrecisionZ/M (None = option not given),
   TWKBSizeHeader, TWKBBoundingBoxHeader, TWKBCloseRings, TWKBIDList *)
Record topts := {
  o_pxy : Z; o_pz : option Z; o_pm : option Z;
  o_size : bool; o_bbox : bool; o_close : bool; o_ids : list Z }.

(* twkb_write.go:newtwkbWriter *)
Record wcfg := {
  w_hasz : bool; w_hasm : bool; w_pxy : Z; w_pz : Z; w_pm : Z;
  w_size : bool; w_bbox : bool; w_close : bool; w_ids : list Z }.
Definition w_ct (c : wcfg) : ctype := mk_ct (w_hasz c) (w_hasm c).
Definition w_hasext (c : wcfg) : bool := w_hasz c || w_hasm c.
Definition w_hasids (c : wcfg) : bool := match w_ids c with [] => false | _ => true end.
(* twkb_write.go:copytwkbWriter: size inherited, no bbox, no ids *)
Definition sub_cfg (c : wcfg) : wcfg :=
  {| w_hasz := w_hasz c; w_hasm := w_hasm c; w_pxy := w_pxy c; w_pz := w_pz c; w_pm := w_pm c;
     w_size := w_size c; w_bbox := false; w_close := w_close c; w_ids := [] |}.

(* mutable writer state: refpoint, bboxValid, (bboxMin, bboxMax) per dimension *)
Record wst := { ws_ref : list Z; ws_valid : bool; ws_bb : list (Z * Z) }.
Definition init_wst (dims : nat) : wst :=
  {| ws_ref := repeat 0%Z dims; ws_valid := false; ws_bb := repeat (0, 0)%Z dims |}.

(* writePointArray, the bounding-box switch:
     case !w.bboxValid: min = max = ival; case ival < min: min = ival; case ival > max: max = ival *)
Definition bb_upd (valid : bool) (mm : Z * Z) (v : Z) : Z * Z :=
  if negb valid then (v, v)
  else let (mn, mx) := mm in
       if (v <? mn)%Z then (v, mx) else if (mx <? v)%Z then (mn, v) else (mn, mx).

(* writePointArray, one point: per dimension  ival -= refpoint[d]; PutVarint(ival); refpoint[d] += ival *)
Fixpoint wr_ords (valid : bool) (pt ref : list Z) (bb : list (Z * Z))
  : list N * list Z * list (Z * Z) :=
  match pt, ref, bb with
  | v :: pt', r :: ref', m :: bb' =>
      let d := wrap64 (v - r) in
      let '(bs, refo, bbo) := wr_ords valid pt' ref' bb' in
      (sv_enc d ++ bs, wrap64 (r + d) :: refo, bb_upd valid m v :: bbo)
  | _, _, _ => ([], [], [])
  end.

(* writePointArray. fix F18: a scaled ordinate outside int64 is an error (before the repair the
   float -> int64 conversion produced an arbitrary value). bboxValid becomes true after the first
   point of a call. *)
Fixpoint wr_points (st : wst) (pts : list (list Z)) : outcome (list N * wst) :=
  match pts with
  | [] => Ok ([], st)
  | p :: r =>
      if forallb in_i64b p then
        let '(bs, ref', bb') := wr_ords (ws_valid st) p (ws_ref st) (ws_bb st) in
        do (bs2, st2) <- wr_points {| ws_ref := ref'; ws_valid := true; ws_bb := bb' |} r;
        Ok (bs ++ bs2, st2)
      else Err EOther
  end.

Definition count_bytes {A} (l : list A) : list N := uv_enc (N.of_nat (length l)).

(* writeLineStringCoords *)
Definition wr_line (ct : ctype) (st : wst) (l : lineT Z) : outcome (list N * wst) :=
  let pts := map (vords ct) (line_vs l) in
  do (bs, st') <- wr_points st pts;
  Ok (count_bytes pts ++ bs, st').

(* writeRing: the final point is omitted unless closeRings *)
Definition ring_pts (close : bool) (pts : list (list Z)) : list (list Z) :=
  if negb close && (2 <=? length pts)%nat then firstn (length pts - 1) pts else pts.
Definition wr_ring (close : bool) (ct : ctype) (st : wst) (l : lineT Z) : outcome (list N * wst) :=
  let pts := ring_pts close (map (vords ct) (line_vs l)) in
  do (bs, st') <- wr_points st pts;
  Ok (count_bytes pts ++ bs, st').

(* a state-threading loop over members *)
Fixpoint wr_seq {A} (f : wst -> A -> outcome (list N * wst)) (st : wst) (l : list A)
  : outcome (list N * wst) :=
  match l with
  | [] => Ok ([], st)
  | x :: r =>
      do (b1, s1) <- f st x;
      do (b2, s2) <- wr_seq f s1 r;
      Ok (b1 ++ b2, s2)
  end.

(* writePolygonRings *)
Definition wr_poly (close : bool) (ct : ctype) (st : wst) (p : polyT Z) : outcome (list N * wst) :=
  do (bs, st') <- wr_seq (wr_ring close ct) st (poly_rings p);
  Ok (count_bytes (poly_rings p) ++ bs, st').

(* writeTypeAndPrecision: byte(encodeZigZagInt64(precXY) << 4) | byte(kind) *)
Definition typeprec (pxy : Z) (kind : N) : N := ((zz_enc pxy * 16) mod 256 + kind)%N.
(* writeInitialHeaders: twkbHasBBox=1 twkbHasSize=2 twkbHasIDs=4 twkbHasExtPrec=8 *)
Definition meta_byte (c : wcfg) : N :=
  ((if w_bbox c then 1 else 0) + (if w_size c then 2 else 0) +
   (if w_hasids c then 4 else 0) + (if w_hasext c then 8 else 0))%N.
(* writeExtendedPrecision: hasZ -> 0x01 | precZ<<2 ; hasM -> 0x02 | precM<<5 *)
Definition ext_byte (c : wcfg) : N :=
  ((if w_hasz c then 1 + 4 * Z.to_N (w_pz c) else 0) +
   (if w_hasm c then 2 + 32 * Z.to_N (w_pm c) else 0))%N.
(* writeBBoxHeader: min and max-min per dimension *)
Definition bbox_bytes (bb : list (Z * Z)) : list N :=
  flat_map (fun mm => sv_enc (fst mm) ++ sv_enc (wrap64 (snd mm - fst mm))) bb.

(* writeIsEmptyHeader + formTWKB of an empty geometry: type byte and the twkbIsEmpty=16 flag.
   fix F70: writeAdditionalHeaders writes nothing after an empty header (before the repair a
   requested size/bbox header was appended although the flags do not announce it, which
   corrupted every collection with an empty member under TWKBSizeHeader) *)
Definition empty_doc (c : wcfg) (kind : N) : list N := [typeprec (w_pxy c) kind; 16%N].

(* writeInitialHeaders + writeAdditionalHeaders + formTWKB of a non-empty geometry *)
Definition form (c : wcfg) (kind : N) (st : wst) (contents : list N) : list N :=
  let bboxb := if w_bbox c then bbox_bytes (ws_bb st) else [] in
  [typeprec (w_pxy c) kind; meta_byte c] ++
  (if w_hasext c then [ext_byte c] else []) ++
  (if w_size c then uv_enc (N.of_nat (length bboxb + length contents)) else []) ++
  bboxb ++ contents.

(* writeIDList *)
Definition wr_ids (c : wcfg) (num : nat) : outcome (list N) :=
  if negb (w_hasids c) then Ok []
  else if negb (Nat.eqb num (length (w_ids c))) then Err EOther
  else Ok (flat_map sv_enc (w_ids c)).

(* fix F6: the bounding box of a sub-writer is merged into its parent *)
Definition merge_bb (st sub : wst) : wst :=
  if negb (ws_valid sub) then st
  else {| ws_ref := ws_ref st; ws_valid := true;
          ws_bb := if negb (ws_valid st) then ws_bb sub
                   else map (fun ab => (Z.min (fst (fst ab)) (fst (snd ab)),
                                        Z.max (snd (fst ab)) (snd (snd ab))))
                            (combine (ws_bb st) (ws_bb sub)) |}.

(* writeMultiPoint's loop. fix F5: an empty Point inside a non-empty MultiPoint cannot be
   expressed in TWKB and is refused (before the repair its zero coordinates were written) *)
Definition wr_mpoint_member (ct : ctype) (st : wst) (p : pointT Z) : outcome (list N * wst) :=
  match point_c p with
  | None => Err EOther
  | Some v => wr_points st [vords ct v]
  end.

(* twkbWriter.writeGeometry: returns the document and the writer's final state *)
Fixpoint twrite (c : wcfg) (g : zgeom) {struct g} : outcome (list N * wst) :=
  let ct := w_ct c in
  let st0 := init_wst (dim ct) in
  let kind := kind_of (geom_type g) in
  if negb (ct_eqb (geom_ct g) ct) then Err ECollDims
  else if is_empty g then Ok (empty_doc c kind, st0)
  else
    match g with
    | GPoint p =>
        match point_c p with
        | None => Ok (empty_doc c kind, st0)
        | Some v => do (bs, st) <- wr_points st0 [vords ct v]; Ok (form c kind st bs, st)
        end
    | GLine l => do (bs, st) <- wr_line ct st0 l; Ok (form c kind st bs, st)
    | GPoly p => do (bs, st) <- wr_poly (w_close c) ct st0 p; Ok (form c kind st bs, st)
    | GMPoint _ ps =>
        do ids <- wr_ids c (length ps);
        do (bs, st) <- wr_seq (wr_mpoint_member ct) st0 ps;
        Ok (form c kind st (count_bytes ps ++ ids ++ bs), st)
    | GMLine _ ls =>
        do ids <- wr_ids c (length ls);
        do (bs, st) <- wr_seq (wr_line ct) st0 ls;
        Ok (form c kind st (count_bytes ls ++ ids ++ bs), st)
    | GMPoly _ ps =>
        do ids <- wr_ids c (length ps);
        do (bs, st) <- wr_seq (wr_poly (w_close c) ct) st0 ps;
        Ok (form c kind st (count_bytes ps ++ ids ++ bs), st)
    | GColl _ gs =>
        do ids <- wr_ids c (length gs);
        do (bs, st) <-
          (fix go (st : wst) (l : list zgeom) : outcome (list N * wst) :=
             match l with
             | [] => Ok ([], st)
             | x :: r =>
                 do (b1, s1) <- twrite (sub_cfg c) x;
                 do (b2, s2) <- go (merge_bb st s1) r;
                 Ok (b1 ++ b2, s2)
             end) st0 gs;
        Ok (form c kind st (count_bytes gs ++ ids ++ bs), st)
    end.

Definition prec_bad (lo p : Z) : bool := ((p <? lo) || (7 <? p))%Z.

(* NumPoints / NumLineStrings / NumPolygons / NumGeometries *)
Definition member_count (g : zgeom) : nat :=
  match g with
  | GMPoint _ l => length l
  | GMLine _ l => length l
  | GMPoly _ l => length l
  | GColl _ l => length l
  | _ => 1%nat
  end.

(* MarshalTWKB. fix F15: an ID list on a Point, LineString or Polygon is refused (before the
   repair the flag was set, no IDs were written and the output could not be decoded) *)
Definition tmarshal (o : topts) (g : zgeom) : outcome (list N) :=
  let ct := geom_ct g in
  let pz := if has_z ct then match o_pz o with Some z => z | None => o_pxy o end else 0%Z in
  let pm := if has_m ct then match o_pm o with Some m => m | None => o_pxy o end else 0%Z in
  if prec_bad (-8) (o_pxy o) || prec_bad 0 pz || prec_bad 0 pm then Err EOther
  else if match o_ids o, geom_type g with
          | _ :: _, (TPoint | TLine | TPoly) => true
          | _, _ => false
          end then Err EOther
  (* fix F72: the ID count is checked here too, because an empty geometry is written as a bare
     "is empty" header and never reaches writeIDList (before the repair MULTIPOINT EMPTY with two
     IDs was accepted and the IDs were dropped) *)
  else if match o_ids o with
          | [] => false
          | ids => negb (Nat.eqb (member_count g) (length ids))
          end then Err EOther
  else
    do (bs, _) <- twrite {| w_hasz := has_z ct; w_hasm := has_m ct; w_pxy := o_pxy o; w_pz := pz;
                            w_pm := pm; w_size := o_size o; w_bbox := o_bbox o;
                            w_close := o_close o; w_ids := o_ids o |} g;
    Ok bs.

(* ================================================================== parser *)

Record pst := { s_in : list N; s_pos : N; s_alloc : N }.
Inductive tres (A : Type) :=
| TOk (a : A) (s : pst)
| TErr (e : errc) (alloc : N)
| TPanic (p : panicc) (alloc : N).
Arguments TOk {A} a s. Arguments TErr {A} e alloc. Arguments TPanic {A} p alloc.
Definition TP (A : Type) := pst -> tres A.

Definition tret {A} (a : A) : TP A := fun s => TOk a s.
Definition tfail {A} (e : errc) : TP A := fun s => TErr e (s_alloc s).
Definition tbind {A B} (m : TP A) (f : A -> TP B) : TP B := fun s =>
  match m s with
  | TOk a s' => f a s'
  | TErr e a => TErr e a
  | TPanic p a => TPanic p a
  end.
Notation "'doT' x <- m ; k" := (tbind m (fun x => k))
  (at level 200, x pattern, m at level 100, k at level 200, right associativity).
Definition tlift {A} (o : outcome A) : TP A := fun s =>
  match o with Ok a => TOk a s | Err e => TErr e (s_alloc s) | Panic p => TPanic p (s_alloc s) end.

(* make([]T, n) for a count n taken from the input; the size in bytes is recorded *)
Definition talloc (n : N) : TP unit := fun s =>
  TOk tt {| s_in := s_in s; s_pos := s_pos s; s_alloc := (s_alloc s + n)%N |}.

Definition advance (s : pst) (rest : list N) : pst :=
  {| s_in := rest; s_pos := (s_pos s + N.of_nat (length (s_in s) - length rest))%N;
     s_alloc := s_alloc s |}.

(* if len(p.twkb) <= p.pos { error }; b := p.twkb[p.pos]; p.pos++ *)
Definition rd_byte : TP N := fun s =>
  match s_in s with
  | [] => TErr EEOF (s_alloc s)
  | b :: r => TOk b (advance s r)
  end.
(* parseUnsignedVarint / parseSignedVarint: n == 0 -> "buffer too small", n < 0 -> "overflow" *)
Definition rd_uv : TP N := fun s =>
  match uv_dec (s_in s) with
  | VOk v rest => TOk v (advance s rest)
  | VShort => TErr EEOF (s_alloc s)
  | VOverflow => TErr ESyntax (s_alloc s)
  end.
Definition rd_sv : TP Z := fun s =>
  match sv_dec (s_in s) with
  | SOk v rest => TOk v (advance s rest)
  | SShort => TErr EEOF (s_alloc s)
  | SOverflow => TErr ESyntax (s_alloc s)
  end.

(* what parseHeaders leaves in the parser *)
Record thdr := {
  h_kind : N; h_pxy : Z;
  h_hasbbox : bool; h_hassize : bool; h_hasids : bool; h_hasext : bool; h_empty : bool;
  h_hasz : bool; h_hasm : bool; h_pz : N; h_pm : N;
  h_size : Z;            (* p.size = position after the size varint + announced byte count *)
  h_bbox : list Z }.     (* p.bbox = min0, delta0, min1, delta1, ... *)
Definition h_ct (h : thdr) : ctype := mk_ct (h_hasz h) (h_hasm h).

Definition bit (b : N) (k : N) : bool := ((b / k) mod 2 =? 1)%N.

(* parseSize (with fix F31: the announced byte count is compared, unsigned, with the bytes
   that are left before p.size = p.pos + int(bytesRemaining) is formed; before the repair a
   count of 2^63 or more wrapped to a negative int and was accepted) *)
Definition parse_size : TP Z :=
  doT rem <- rd_uv;
  fun s =>
    if (N.of_nat (length (s_in s)) <? rem)%N then TErr EEOF (s_alloc s)
    else TOk (Z.of_N (s_pos s) + Z.of_N rem)%Z s.

Fixpoint rd_svs (n : nat) : TP (list Z) :=
  match n with
  | O => tret []
  | S k => doT v <- rd_sv; doT r <- rd_svs k; tret (v :: r)
  end.

(* parseHeaders = parseTypeAndPrecision; parseMetadataHeader; parseExtendedPrecision; parseSize;
   parseBBox *)
Definition parse_headers : TP thdr :=
  doT tp <- rd_byte;
  let kind := (tp mod 16)%N in
  let pxy := zz_dec (tp / 16) in
  doT mh <- rd_byte;
  let hasbbox := bit mh 1 in let hassize := bit mh 2 in let hasids := bit mh 4 in
  let hasext := bit mh 8 in let isempty := bit mh 16 in
  if hasids && ((kind =? 1) || (kind =? 2) || (kind =? 3))%N then tfail ESyntax
  else
    doT ext <- (if hasext then
                  doT e <- rd_byte;
                  let hz := bit e 1 in let hm := bit e 2 in
                  tret (hz, hm, if hz then ((e / 4) mod 8)%N else 0%N,
                                if hm then ((e / 32) mod 8)%N else 0%N)
                else tret (false, false, 0%N, 0%N));
    let '(hz, hm, pz, pm) := ext in
    doT size <- (if hassize then parse_size else tret 0%Z);
    doT bbox <- (if hasbbox then rd_svs (2 * dim (mk_ct hz hm)) else tret []);
    tret {| h_kind := kind; h_pxy := pxy; h_hasbbox := hasbbox; h_hassize := hassize;
            h_hasids := hasids; h_hasext := hasext; h_empty := isempty;
            h_hasz := hz; h_hasm := hm; h_pz := pz; h_pm := pm; h_size := size; h_bbox := bbox |}.

(* one point of parsePointArray: refpoint[d] += val, per dimension *)
Fixpoint rd_pt (ref : list Z) : TP (list Z) :=
  match ref with
  | [] => tret []
  | r :: ref' => doT d <- rd_sv; doT rest <- rd_pt ref'; tret (wrap64 (r + d) :: rest)
  end.
Fixpoint rd_pts (n : nat) (ref : list Z) : TP (list (list Z) * list Z) :=
  match n with
  | O => tret ([], ref)
  | S k => doT p <- rd_pt ref; doT r <- rd_pts k p; tret (p :: fst r, snd r)
  end.

(* checkCount (fix F7): an element count read from the input is compared with the bytes that are
   left, divided by the minimum size of one element, before anything is allocated or looped over
   (before the repair a huge count paniced in makeslice, or reserved gigabytes and killed the
   process). *)
Definition check_count (cnt : N) (minb : nat) : TP unit := fun s =>
  if (N.of_nat (length (s_in s) / minb) <? cnt)%N then TErr EEOF (s_alloc s) else TOk tt s.

(* parsePointCountAndArray: checkCount(numPoints, dimensions), then parsePointArray(int(numPoints))
   with its make([]float64, numPoints*dimensions). After the check the count is at most the
   length of a Go slice, so int(numPoints) is exact. *)
Definition parse_count_array (ref : list Z) : TP (list (list Z) * list Z * Z) :=
  doT cnt <- rd_uv;
  doT _ <- check_count cnt (length ref);
  doT _ <- talloc (8 * cnt * N.of_nat (length ref));
  doT r <- rd_pts (N.to_nat cnt) ref;
  tret (fst r, snd r, Z.of_N cnt).

(* parseIDList(count): checkCount(count, 1), then make([]int64, int(count)) *)
Definition parse_ids (cnt : N) : TP (list Z) :=
  doT _ <- check_count cnt 1;
  doT _ <- talloc (8 * cnt);
  rd_svs (N.to_nat cnt).

(* the count, the optional ID list and the member-count check that start every Multi* /
   collection body; minb = least number of bytes of one member *)
Definition count_and_ids (hasids : bool) (minb : nat) : TP (Z * list Z) :=
  doT cnt <- rd_uv;
  doT ids <- (if hasids then parse_ids cnt else tret []);
  doT _ <- check_count cnt minb;
  tret (Z.of_N cnt, ids).

(* a loop `for i := 0; i < n; i++` whose body threads the reference point; every iteration
   consumes input or fails, so the fuel (input length + 1) is never the reason to stop *)
Fixpoint tloop {A} (fuel : nat) (n : Z) (step : list Z -> TP (A * list Z)) (ref : list Z)
  : TP (list A * list Z) :=
  if (n <=? 0)%Z then tret ([], ref)
  else match fuel with
       | O => tfail EFuel
       | S f =>
           doT a <- step ref;
           doT r <- tloop f (n - 1) step (snd a);
           tret (fst a :: fst r, snd r)
       end.
Definition tloop_in {A} (n : Z) (step : list Z -> TP (A * list Z)) (ref : list Z)
  : TP (list A * list Z) := fun s => tloop (S (length (s_in s))) n step ref s.

(* The geometry-building part of the parser is parametric in the ordinate carrier F and in the
   conversion [deq prec k] = float64(k) / math.Pow10(prec):
     F = Z, deq = (fun _ k => k)  is the integer layer (the theorems);
     F = N (IEEE bits), deq = dequant (Model/TWKBQuant.v) is UnmarshalTWKB itself. *)
Section Parser.
  Variable F : Type.
  Variable fzero : F.
  Variable feqb : F -> F -> bool.          (* Go's == on the converted coordinates *)
  Variable deq : Z -> Z -> F.

  (* precision per wire dimension: scalings[d] *)
  Definition precs (h : thdr) : list Z :=
    h_pxy h :: h_pxy h :: (if h_hasz h then [Z.of_N (h_pz h)] else []) ++
                          (if h_hasm h then [Z.of_N (h_pm h)] else []).
  Fixpoint deq_pt (ps : list Z) (pt : list Z) : list F :=
    match ps, pt with
    | p :: ps', k :: pt' => deq p k :: deq_pt ps' pt'
    | _, _ => []
    end.

  Fixpoint vtxs_of (ct : ctype) (pts : list (list F)) : outcome (list (vtx F)) :=
    match pts with
    | [] => Ok []
    | p :: r => do v <- ovtx fzero ct p; do vs <- vtxs_of ct r; Ok (v :: vs)
    end.

  (* nextPoint *)
  Definition next_point (h : thdr) (ref : list Z) : TP (pointT F * list Z) :=
    let ct := h_ct h in
    (* parsePointArray(1): make([]float64, dimensions) has a fixed size and is not counted *)
    doT r <- rd_pts 1 ref;
    match fst r with
    | [p] => doT v <- tlift (ovtx fzero ct (deq_pt (precs h) p)); tret (MkPoint ct (Some v), snd r)
    | _ => fun s => TPanic PIndex (s_alloc s)
    end.

  (* nextLineString *)
  Definition next_line (h : thdr) (ref : list Z) : TP (lineT F * list Z) :=
    let ct := h_ct h in
    doT r <- parse_count_array ref;
    let '(pts, ref', _) := r in
    doT vs <- tlift (vtxs_of ct (map (deq_pt (precs h)) pts));
    tret (MkLine ct vs, ref').

  Fixpoint pt_eqb (a b : list F) : bool :=
    match a, b with
    | [], [] => true
    | x :: a', y :: b' => feqb x y && pt_eqb a' b'
    | _, _ => false
    end.

  (* nextPolygon, ring re-closure: if numPoints >= 2 and the final point differs from the first
     in some dimension, the first point is appended *)
  Definition reclose (n : Z) (pts : list (list F)) : list (list F) :=
    if (2 <=? n)%Z then
      match pts with
      | p0 :: (_ :: _) as tl => if pt_eqb p0 (last tl p0) then pts else pts ++ [p0]
      | _ => pts
      end
    else pts.

  Definition next_ring (h : thdr) (ref : list Z) : TP (lineT F * list Z) :=
    let ct := h_ct h in
    doT r <- parse_count_array ref;
    let '(pts, ref', n) := r in
    doT vs <- tlift (vtxs_of ct (reclose n (map (deq_pt (precs h)) pts)));
    tret (MkLine ct vs, ref').

  (* nextPolygon. fix F16: a polygon without rings takes the parser's coordinates type (before
     the repair NewPolygon(nil) was XY and the enclosing MultiPolygon lost Z/M of all members) *)
  Definition next_poly (h : thdr) (ref : list Z) : TP (polyT F * list Z) :=
    doT cnt <- rd_uv;
    doT r <- tloop_in (Z.of_N cnt) (next_ring h) ref;
    match fst r with
    | [] => tret (MkPoly (h_ct h) [], snd r)
    | rings => tret (new_polygon fzero rings, snd r)
    end.

  Definition plain_empty (t : gtype) (ct : ctype) : geomT F :=
    match t with
    | TPoint => GPoint (MkPoint ct None)
    | TLine => GLine (MkLine ct [])
    | TPoly => GPoly (MkPoly ct [])
    | TMPoint => GMPoint ct []
    | TMLine => GMLine ct []
    | TMPoly => GMPoly ct []
    | TColl => GColl ct []
    end.

  (* twkbParser.nextGeometry: result = geometry, parsed headers, ID list *)
  Fixpoint rd_geom (fuel : nat) : TP (geomT F * thdr * list Z) :=
    match fuel with
    | O => tfail EFuel
    | S f =>
        doT h <- parse_headers;
        let ct := h_ct h in
        let ref0 := repeat 0%Z (dim ct) in
        let emp := h_empty h in
        match h_kind h with
        | 1%N =>
            if emp then tret (GPoint (MkPoint ct None), h, [])
            else doT r <- next_point h ref0; tret (GPoint (fst r), h, [])
        | 2%N =>
            if emp then tret (GLine (MkLine ct []), h, [])
            else doT r <- next_line h ref0; tret (GLine (fst r), h, [])
        | 3%N =>
            (* parsePolygon: NewPolygon(nil) *)
            if emp then tret (GPoly (MkPoly XY []), h, [])
            else doT r <- next_poly h ref0; tret (GPoly (fst r), h, [])
        | 4%N =>
            if emp then tret (GMPoint XY [], h, [])
            else
              doT ci <- count_and_ids (h_hasids h) (dim ct);
              doT r <- tloop_in (fst ci) (next_point h) ref0;
              tret (new_multipoint fzero (fst r), h, snd ci)
        | 5%N =>
            if emp then tret (GMLine XY [], h, [])
            else
              doT ci <- count_and_ids (h_hasids h) 1;
              doT r <- tloop_in (fst ci) (next_line h) ref0;
              tret (new_multiline fzero (fst r), h, snd ci)
        | 6%N =>
            if emp then tret (GMPoly XY [], h, [])
            else
              doT ci <- count_and_ids (h_hasids h) 1;
              doT r <- tloop_in (fst ci) (next_poly h) ref0;
              tret (new_multipoly fzero (fst r), h, snd ci)
        | 7%N =>
            if emp then tret (GColl XY [], h, [])
            else
              doT ci <- count_and_ids (h_hasids h) 2;
              (* subParser := newTWKBParser(p.twkb[p.pos:]); p.pos += nbytes.
                 fix F17: a member written as a bare "empty" header carries no coordinates type
                 and takes the collection's (before the repair it was XY and
                 NewGeometryCollection then dropped Z/M of every member) *)
              let step (_ : list Z) : TP (geomT F * list Z) := fun s =>
                match rd_geom f {| s_in := s_in s; s_pos := 0; s_alloc := s_alloc s |} with
                | TOk (g, hs, _) s' =>
                    TOk (if h_empty hs then force_geom fzero ct g else g, [])
                        {| s_in := s_in s'; s_pos := (s_pos s + s_pos s')%N; s_alloc := s_alloc s' |}
                | TErr e a => TErr e a
                | TPanic p a => TPanic p a
                end in
              doT r <- tloop_in (fst ci) step [];
              tret (new_collection fzero (fst r), h, snd ci)
        | _ => tfail EGeomType
        end
    end.

  Definition dec_full (bs : list N) : tres (geomT F * thdr * list Z) :=
    rd_geom (S (length bs)) {| s_in := bs; s_pos := 0; s_alloc := 0 |}.
End Parser.
Arguments plain_empty {F} _ _.

(* the integer layer *)
Definition tdec_full (bs : list N) : tres (zgeom * thdr * list Z) :=
  dec_full Z 0%Z Z.eqb (fun _ k => k) bs.

(* what a caller can observe of a decode: UnmarshalTWKB's geometry plus the header facts the
   header-only readers expose *)
Record tinfo := {
  i_kind : N; i_pxy : Z; i_ct : ctype; i_pz : N; i_pm : N; i_empty : bool;
  i_size : option Z; i_bbox : option (list Z); i_ids : option (list Z) }.
Definition info_of (h : thdr) (ids : list Z) : tinfo :=
  {| i_kind := h_kind h; i_pxy := h_pxy h; i_ct := h_ct h; i_pz := h_pz h; i_pm := h_pm h;
     i_empty := h_empty h;
     i_size := if h_hassize h then Some (h_size h) else None;
     i_bbox := if h_hasbbox h then Some (h_bbox h) else None;
     i_ids := if h_hasids h then Some ids else None |}.

(* UnmarshalTWKB (NoValidate) *)
Definition tdec (bs : list N) : outcome (zgeom * tinfo) :=
  match tdec_full bs with
  | TOk (g, h, ids) _ => Ok (g, info_of h ids)
  | TErr e _ => Err e
  | TPanic p _ => Panic p
  end.
Definition tdec_alloc (bs : list N) : N :=
  match tdec_full bs with TOk _ s => s_alloc s | TErr _ a => a | TPanic _ a => a end.

Definition run {A} (p : TP A) (bs : list N) : outcome A :=
  match p {| s_in := bs; s_pos := 0; s_alloc := 0 |} with
  | TOk a _ => Ok a
  | TErr e _ => Err e
  | TPanic p _ => Panic p
  end.

(* UnmarshalTWKBSize *)
Definition tread_size (bs : list N) : outcome (option Z) :=
  run (doT h <- parse_headers; tret (if h_hassize h then Some (h_size h) else None)) bs.

(* UnmarshalTWKBEnvelope / parseBBoxHeader: per dimension (bbox[2d], bbox[2d] + bbox[2d+1]);
   NewEnvelope / NewInterval order the two bounds. Indexing p.bbox out of range would panic. *)
Fixpoint bbox_pairs (dims : nat) (l : list Z) : outcome (list (Z * Z)) :=
  match dims with
  | O => Ok []
  | S k =>
      match l with
      | mn :: dl :: r =>
          let mx := wrap64 (mn + dl) in
          do rest <- bbox_pairs k r; Ok ((Z.min mn mx, Z.max mn mx) :: rest)
      | _ => Panic PIndex
      end
  end.
Definition tread_env (bs : list N) : outcome (option (ctype * list (Z * Z))) :=
  run (doT h <- parse_headers;
       if h_hasbbox h then
         doT ps <- tlift (bbox_pairs (dim (h_ct h)) (h_bbox h)); tret (Some (h_ct h, ps))
       else tret None) bs.

(* UnmarshalTWKBIDList *)
Definition tread_ids (bs : list N) : outcome (option (list Z)) :=
  run (doT h <- parse_headers;
       if h_hasids h then
         doT cnt <- rd_uv; doT ids <- parse_ids cnt; tret (Some ids)
       else tret None) bs.

(* ================================================================== specification *)

(* The two tolerated losses. A geometry without any ordinate decodes as the plain empty
   geometry of its type: XY at top level, the collection's type as a collection member. *)
Fixpoint tol_member (g : zgeom) : zgeom :=
  if is_empty g then plain_empty (geom_type g) (geom_ct g)
  else match g with
       | GColl ct gs => GColl ct (map tol_member gs)
       | _ => g
       end.
Definition tolerated (g : zgeom) : zgeom :=
  if is_empty g then plain_empty (geom_type g) XY else tol_member g.

(* envelope and Z/M ranges of integer points: (min, max) per dimension *)
Definition env_step (acc : option (list (Z * Z))) (p : list Z) : option (list (Z * Z)) :=
  match acc with
  | None => Some (map (fun v => (v, v)) p)
  | Some mm => Some (map (fun x => (Z.min (fst (fst x)) (snd x), Z.max (snd (fst x)) (snd x)))
                         (combine mm p))
  end.
Definition env_of (pts : list (list Z)) : option (list (Z * Z)) := fold_left env_step pts None.
Definition geom_pts (g : zgeom) : list (list Z) := map (vords (geom_ct g)) (geom_vs g).

(* the header facts the property promises for MarshalTWKB(g, o) *)
Definition expected_info (o : topts) (g : zgeom) (len : nat) : tinfo :=
  let ct := geom_ct g in
  if is_empty g then
    {| i_kind := kind_of (geom_type g); i_pxy := o_pxy o; i_ct := XY; i_pz := 0; i_pm := 0;
       i_empty := true; i_size := None; i_bbox := None; i_ids := None |}
  else
    {| i_kind := kind_of (geom_type g); i_pxy := o_pxy o; i_ct := ct;
       i_pz := if has_z ct then Z.to_N (match o_pz o with Some z => z | None => o_pxy o end) else 0;
       i_pm := if has_m ct then Z.to_N (match o_pm o with Some m => m | None => o_pxy o end) else 0;
       i_empty := false;
       i_size := if o_size o then Some (Z.of_nat len) else None;
       i_bbox := if o_bbox o then
                   match env_of (geom_pts g) with
                   | Some mm => Some (flat_map (fun x => [fst x; wrap64 (snd x - fst x)]) mm)
                   | None => Some []
                   end
                 else None;
       i_ids := match o_ids o with [] => None | ids => Some ids end |}.

Definition prec_of (o : topts) (sel : option Z) (has : bool) : Z :=
  if has then match sel with Some z => z | None => o_pxy o end else 0%Z.
(* ---- the domain of the round-trip theorem ---- *)
Definition two63N : N := 9223372036854775808%N.
Definition cnt_ok {A} (l : list A) : bool := (N.of_nat (length l) <? two63N)%N.
Definition vtx_i64 (v : vtx Z) : bool :=
  in_i64b (vx v) && in_i64b (vy v) && in_i64b (vz v) && in_i64b (vm v).
Definition vtx_eqb (a b : vtx Z) : bool :=
  ((vx a =? vx b) && (vy a =? vy b) && (vz a =? vz b) && (vm a =? vm b))%Z.
Definition line_dom (l : lineT Z) : bool := cnt_ok (line_vs l) && forallb vtx_i64 (line_vs l).

(* Ring hypothesis (finding F19, inherent to TWKB's implicit ring closure): without
   TWKBCloseRings the writer drops the final vertex and the reader appends the first vertex
   again only when the last transmitted vertex differs from it. A ring therefore survives iff
   it has exactly one vertex, or at least three with last = first and the vertex before the last
   different from the first (after rounding!). With TWKBCloseRings: one vertex, or
   last = first. *)
Definition ring_dom (close : bool) (l : lineT Z) : bool :=
  line_dom l &&
  match line_vs l with
  | [] => false            (* a ring has at least one vertex (valid rings have four) *)
  | [_] => true
  | v0 :: tl =>
      vtx_eqb v0 (last tl v0) &&
      (close || negb (vtx_eqb v0 (last (removelast tl) v0)) && (2 <=? length tl)%nat)
  end.
(* the weaker ring condition every valid polygon meets: closed (before and hence after rounding) *)
Definition ring_closed (l : lineT Z) : bool :=
  line_dom l &&
  match line_vs l with
  | [] => false
  | [_] => true
  | v0 :: tl => vtx_eqb v0 (last tl v0)
  end.
Definition poly_dom (rp : lineT Z -> bool) (p : polyT Z) : bool :=
  cnt_ok (poly_rings p) && forallb rp (poly_rings p).
Fixpoint geom_dom (rp : lineT Z -> bool) (g : zgeom) : bool :=
  match g with
  | GPoint p => match point_c p with None => true | Some v => vtx_i64 v end
  | GLine l => line_dom l
  | GPoly p => poly_dom rp p
  | GMPoint _ ps =>
      cnt_ok ps &&
      (* finding F5: an empty Point inside a non-empty MultiPoint is refused by the writer *)
      (forallb point_empty ps ||
       forallb (fun p => match point_c p with None => false | Some v => vtx_i64 v end) ps)
  | GMLine _ ls => cnt_ok ls && forallb line_dom ls
  | GMPoly _ ps => cnt_ok ps && forallb (poly_dom rp) ps
  | GColl _ gs => cnt_ok gs && forallb (geom_dom rp) gs
  end.

Definition opts_dom (o : topts) (g : zgeom) : bool :=
  negb (prec_bad (-8) (o_pxy o)) &&
  negb (prec_bad 0 (prec_of o (o_pz o) (has_z (geom_ct g)))) &&
  negb (prec_bad 0 (prec_of o (o_pm o) (has_m (geom_ct g)))) &&
  forallb in_i64b (o_ids o) &&
  match o_ids o with
  | [] => true
  | ids =>
      match g with
      | GMPoint _ _ | GMLine _ _ | GMPoly _ _ | GColl _ _ => Nat.eqb (member_count g) (length ids)
      | _ => false
      end
  end.

Definition wf_twkb (o : topts) (g : zgeom) : bool :=
  consistent (Z.eqb 0) g && geom_dom (ring_dom (o_close o)) g && opts_dom o g.
(* the same domain without the F19 hypothesis (rings merely closed): used by the driver to
   classify a failure as the known ring-closure ambiguity and nothing else *)
Definition wf_twkb_noring (o : topts) (g : zgeom) : bool :=
  consistent (Z.eqb 0) g && geom_dom ring_closed g && opts_dom o g.
(* rings closed in X and Y only (what Validate asks): the class of finding F73, a closing vertex
   whose Z or M differs from the first vertex's cannot be carried by the implicit closure *)
Definition ring_closed_xy (l : lineT Z) : bool :=
  line_dom l &&
  match line_vs l with
  | [] => false
  | [_] => true
  | v0 :: tl => ((vx v0 =? vx (last tl v0)) && (vy v0 =? vy (last tl v0)))%Z
  end.
Definition wf_twkb_xyring (o : topts) (g : zgeom) : bool :=
  consistent (Z.eqb 0) g && geom_dom ring_closed_xy g && opts_dom o g.

(* "out-of-range precisions and mismatched ID counts are rejected with an error" (and, with
   fix F15, an ID list on a type that cannot carry one) *)
Definition must_reject (o : topts) (g : zgeom) : bool :=
  let ct := geom_ct g in
  prec_bad (-8) (o_pxy o) || prec_bad 0 (prec_of o (o_pz o) (has_z ct)) ||
  prec_bad 0 (prec_of o (o_pm o) (has_m ct)) ||
  match o_ids o with
  | [] => false
  | ids =>
      match g with
      | GMPoint _ _ | GMLine _ _ | GMPoly _ _ | GColl _ _ =>
          negb (Nat.eqb (member_count g) (length ids))
      | _ => true
      end
  end.

(* ---- decidable equality of decoded values (for the executable statement) ---- *)
Definition ovtx_eqb (a b : option (vtx Z)) : bool :=
  match a, b with
  | None, None => true
  | Some x, Some y => vtx_eqb x y
  | _, _ => false
  end.
Fixpoint list_eqb {A} (f : A -> A -> bool) (a b : list A) : bool :=
  match a, b with
  | [], [] => true
  | x :: a', y :: b' => f x y && list_eqb f a' b'
  | _, _ => false
  end.
Definition point_eqb (a b : pointT Z) : bool :=
  ct_eqb (point_ct a) (point_ct b) && ovtx_eqb (point_c a) (point_c b).
Definition line_eqb (a b : lineT Z) : bool :=
  ct_eqb (line_ct a) (line_ct b) && list_eqb vtx_eqb (line_vs a) (line_vs b).
Definition poly_eqb (a b : polyT Z) : bool :=
  ct_eqb (poly_ct a) (poly_ct b) && list_eqb line_eqb (poly_rings a) (poly_rings b).
Fixpoint geom_eqb (a b : zgeom) {struct a} : bool :=
  match a, b with
  | GPoint p, GPoint q => point_eqb p q
  | GLine p, GLine q => line_eqb p q
  | GPoly p, GPoly q => poly_eqb p q
  | GMPoint c ps, GMPoint d qs => ct_eqb c d && list_eqb point_eqb ps qs
  | GMLine c ps, GMLine d qs => ct_eqb c d && list_eqb line_eqb ps qs
  | GMPoly c ps, GMPoly d qs => ct_eqb c d && list_eqb poly_eqb ps qs
  | GColl c gs, GColl d hs =>
      ct_eqb c d &&
      (fix go (l : list zgeom) (m : list zgeom) : bool :=
         match l, m with
         | [], [] => true
         | x :: l', y :: m' => geom_eqb x y && go l' m'
         | _, _ => false
         end) gs hs
  | _, _ => false
  end.
Definition oeqb {A} (f : A -> A -> bool) (a b : option A) : bool :=
  match a, b with
  | None, None => true
  | Some x, Some y => f x y
  | _, _ => false
  end.
Definition info_eqb (a b : tinfo) : bool :=
  (i_kind a =? i_kind b)%N && (i_pxy a =? i_pxy b)%Z && ct_eqb (i_ct a) (i_ct b) &&
  (i_pz a =? i_pz b)%N && (i_pm a =? i_pm b)%N && Bool.eqb (i_empty a) (i_empty b) &&
  oeqb Z.eqb (i_size a) (i_size b) && oeqb (list_eqb Z.eqb) (i_bbox a) (i_bbox b) &&
  oeqb (list_eqb Z.eqb) (i_ids a) (i_ids b).

(* S: the property's executable statement about a byte string b offered as the TWKB of the
   (quantised) geometry g under options o: b decodes, to the tolerated image of g, with truthful
   headers. Evaluated by the driver on the IMPLEMENTATION's bytes. *)
Definition twkb_ok (o : topts) (g : zgeom) (b : list N) : bool :=
  match tdec b with
  | Ok (g', i) => geom_eqb g' (tolerated g) && info_eqb i (expected_info o g (length b))
  | _ => false
  end.
