(* Model of the TWKB quantisation layer in exact integer arithmetic on IEEE-754 binary64 bit
   patterns (carrier N, as in Model/WKB.v).
     writer: ival := int64(math.Round(fval * scalings[d]))        geom/twkb_write.go:writePointArray
     parser: coords[c] = float64(refpoint[d]) / scalings[d]       geom/twkb_parser.go:parsePointArray
     scalings[d] = twkbScaling(prec) = math.Pow10(|prec|)         (exact; divide/multiply swapped for prec < 0: fix F71)
   Every float operation of the implementation is one correctly rounded IEEE operation
   (round to nearest, ties to even); it is modelled as the exact rational result followed by
   [rne]. No floating-point primitive is used: the functions are ordinary Gallina and are extracted.
   Their agreement with the hardware is checked bit for bit by the correspondence run. *)
From Coq Require Import NArith ZArith List Bool Lia.
From SF Require Import Base.Outcome Base.GeomAST Base.Varint Model.TWKB.
Import ListNotations.
Local Open Scope Z_scope.

Definition p52 : Z := 4503599627370496.
Definition p53 : Z := 9007199254740992.

(* finite double -> (negative?, m, e) with value = (-1)^s * m * 2^e; None for Inf/NaN *)
Definition fdec (b : N) : option (bool * Z * Z) :=
  let z := Z.of_N b in
  let s := (z / 9223372036854775808) mod 2 =? 1 in
  let ex := (z / p52) mod 2048 in
  let fr := z mod p52 in
  if ex =? 2047 then None
  else if ex =? 0 then Some (s, fr, -1074)
  else Some (s, fr + p52, ex - 1075).

(* floor(n / (d * 2^e)) and the remainder test, for n, d > 0 *)
Definition scaled (n d e : Z) : Z * Z :=   (* numerator, denominator of n / (d 2^e) *)
  if 0 <=? e then (n, d * 2 ^ e) else (n * 2 ^ (- e), d).

(* round to nearest even of the positive rational n/d to binary64: Some (m, e) with
   value m * 2^e, 2^52 <= m < 2^53 (or e = -1074 and m < 2^52: subnormal / zero);
   None on overflow *)
Definition rne (n d : Z) : option (Z * Z) :=
  let lg := Z.log2 n - Z.log2 d in
  let e1 := lg - 52 in
  let '(n1, d1) := scaled n d e1 in
  let e2 := if p52 <=? n1 / d1 then e1 else e1 - 1 in
  let e := Z.max e2 (-1074) in
  let '(n2, d2) := scaled n d e in
  let q := n2 / d2 in
  let r := n2 mod d2 in
  let q' := if (d2 <? 2 * r) || ((d2 =? 2 * r) && Z.odd q) then q + 1 else q in
  let '(m, e') := if q' =? p53 then (p52, e + 1) else (q', e) in
  if 971 <? e' then None else Some (m, e').

(* (m, e) -> bit pattern *)
Definition fenc (neg : bool) (m e : Z) : N :=
  Z.to_N ((if neg then 9223372036854775808 else 0) +
          (if m <? p52 then m else (e + 1075) * p52 + (m - p52))).

(* twkbScaling(p) (fix F71) = math.Pow10(|p|), an exact integer for |p| <= 8. For p >= 0 the writer
   multiplies by it and the parser divides; for p < 0 (only possible for X/Y) the writer divides and
   the parser multiplies. (Before the repair both used 10^p, which is not representable for p < 0:
   a value on the grid could come back one ulp off.) *)
Definition pow10abs (p : Z) : Z * Z := (10 ^ Z.abs p, 0).

(* exact product / quotient of two dyadics as a rational n/d, n, d > 0 *)
Definition dy_mul (a b : Z * Z) : Z * Z :=
  let e := snd a + snd b in
  if 0 <=? e then (fst a * fst b * 2 ^ e, 1) else (fst a * fst b, 2 ^ (- e)).
Definition dy_div (a b : Z * Z) : Z * Z :=
  let e := snd a - snd b in
  if 0 <=? e then (fst a * 2 ^ e, fst b) else (fst a, fst b * 2 ^ (- e)).

(* math.Round of a positive dyadic: nearest integer, halves away from zero *)
Definition round_half_away (m e : Z) : Z :=
  if 0 <=? e then m * 2 ^ e
  else let d := 2 ^ (- e) in
       let q := m / d in let r := m mod d in
       if d <=? 2 * r then q + 1 else q.

(* writer side. fix F18: NaN/Inf or a rounded value outside int64 is an error *)
Definition quant (p : Z) (bits : N) : outcome Z :=
  match fdec bits with
  | Some (s, m, e) =>
      if m =? 0 then Ok 0
      else
        let '(n, d) := if 0 <=? p then dy_mul (m, e) (pow10abs p) else dy_div (m, e) (pow10abs p) in
        match rne n d with
        | None => Err EOther
        | Some (m', e') =>
            let k := round_half_away m' e' in
            let k := if s then - k else k in
            if in_i64b k then Ok k else Err EOther
        end
  | None => Err EOther
  end.

(* parser side: float64(k) / scale *)
Definition dequant (p : Z) (k : Z) : N :=
  if k =? 0 then 0%N
  else
    match rne (Z.abs k) 1 with
    | Some fk =>
        let '(n, d) := if 0 <=? p then dy_div fk (pow10abs p) else dy_mul fk (pow10abs p) in
        match rne n d with
        | Some (m, e) => fenc (k <? 0) m e
        | None => if k <? 0 then 18442240474082181120%N else 9218868437227405312%N  (* +-Inf *)
        end
    | None => 0%N
    end.

(* ---- lifting to geometries ---- *)
Section Lift.
  Variables (A B : Type) (fxy fz fm : A -> outcome B) (zero : B).
  Definition q_vtx (ct : ctype) (v : vtx A) : outcome (vtx B) :=
    do x <- fxy (vx v); do y <- fxy (vy v);
    do z <- (if has_z ct then fz (vz v) else Ok zero);
    do m <- (if has_m ct then fm (vm v) else Ok zero);
    Ok (Build_vtx x y z m).
  Fixpoint omapl {X Y} (f : X -> outcome Y) (l : list X) : outcome (list Y) :=
    match l with
    | [] => Ok []
    | x :: r => do y <- f x; do ys <- omapl f r; Ok (y :: ys)
    end.
  Definition q_point (p : pointT A) : outcome (pointT B) :=
    let 'MkPoint ct c := p in
    match c with
    | None => Ok (MkPoint ct None)
    | Some v => do v' <- q_vtx ct v; Ok (MkPoint ct (Some v'))
    end.
  Definition q_line (l : lineT A) : outcome (lineT B) :=
    let 'MkLine ct vs := l in do vs' <- omapl (q_vtx ct) vs; Ok (MkLine ct vs').
  Definition q_poly (p : polyT A) : outcome (polyT B) :=
    let 'MkPoly ct rs := p in do rs' <- omapl q_line rs; Ok (MkPoly ct rs').
  Fixpoint q_geom (g : geomT A) : outcome (geomT B) :=
    match g with
    | GPoint p => do p' <- q_point p; Ok (GPoint p')
    | GLine l => do l' <- q_line l; Ok (GLine l')
    | GPoly p => do p' <- q_poly p; Ok (GPoly p')
    | GMPoint ct ps => do ps' <- omapl q_point ps; Ok (GMPoint ct ps')
    | GMLine ct ls => do ls' <- omapl q_line ls; Ok (GMLine ct ls')
    | GMPoly ct ps => do ps' <- omapl q_poly ps; Ok (GMPoly ct ps')
    | GColl ct gs =>
        do gs' <- (fix go (l : list (geomT A)) : outcome (list (geomT B)) :=
                     match l with
                     | [] => Ok []
                     | x :: r => do y <- q_geom x; do ys <- go r; Ok (y :: ys)
                     end) gs;
        Ok (GColl ct gs')
    end.
End Lift.

Definition eff_prec (o : topts) (sel : option Z) (has : bool) : Z :=
  if has then match sel with Some z => z | None => o_pxy o end else 0.

(* the integers the writer derives from a float geometry under options o *)
Definition quant_geom (o : topts) (g : geomT N) : outcome zgeom :=
  let ct := geom_ct g in
  q_geom N Z (quant (o_pxy o)) (quant (eff_prec o (o_pz o) (has_z ct)))
         (quant (eff_prec o (o_pm o) (has_m ct))) 0 g.

(* MarshalTWKB on floats: precision checks come first, then the writer runs *)
Definition marshal_f (o : topts) (g : geomT N) : outcome (list N) :=
  let ct := geom_ct g in
  if prec_bad (-8) (o_pxy o) || prec_bad 0 (eff_prec o (o_pz o) (has_z ct))
     || prec_bad 0 (eff_prec o (o_pm o) (has_m ct)) then Err EOther
  else do gi <- quant_geom o g; tmarshal o gi.

(* UnmarshalTWKB (NoValidate) on floats: the parser of Model/TWKB.v with float64(k)/scale as
   the conversion and float equality in the ring re-closure test *)
Definition unmarshal_f (bs : list N) : outcome (geomT N * tinfo) :=
  match dec_full N 0%N N.eqb dequant bs with
  | TOk (g, h, ids) _ => Ok (g, info_of h ids)
  | TErr e _ => Err e
  | TPanic p _ => Panic p
  end.

(* ---- the rounding statement of the property, in exact arithmetic ----
   [rounded_ok p x k]: k is x * 10^p rounded to the nearest integer, up to the rounding error of
   the two float operations involved (relative 2^-52 of |x * 10^p|, which is 0 whenever
   |x * 10^p| < 2^52 and x * 10^p is itself a double... the slack is stated explicitly):
       | k - x * 10^p |  <=  1/2 + |x * 10^p| * 2^-51 *)
Definition rounded_ok (p : Z) (bits : N) (k : Z) : bool :=
  match fdec bits with
  | None => false
  | Some (s, m, e) =>
      (* x * 10^p = sx * m * 2^e * 10^p  as a rational num/den *)
      let sx := if s then -1 else 1 in
      let '(n0, d0) := if 0 <=? p then (m * 10 ^ p, 1) else (m, 10 ^ (- p)) in
      let '(n, d) := if 0 <=? e then (n0 * 2 ^ e, d0) else (n0, d0 * 2 ^ (- e)) in
      (* | k d - sx n | * 2^52 <= d * 2^51 + 2 n   (all scaled by d * 2^52) *)
      Z.abs (k * d - sx * n) * 2 ^ 52 <=? d * 2 ^ 51 + 2 * n
  end.
(* exact tie: x * 10^p lies exactly half way between two integers *)
Definition is_tie (p : Z) (bits : N) : bool :=
  match fdec bits with
  | None => false
  | Some (s, m, e) =>
      let '(n0, d0) := if 0 <=? p then (m * 10 ^ p, 1) else (m, 10 ^ (- p)) in
      let '(n, d) := if 0 <=? e then (n0 * 2 ^ e, d0) else (n0, d0 * 2 ^ (- e)) in
      ((2 * n) mod d =? 0) && negb (n mod d =? 0)
  end.

(* the mathematically ideal decoding of the integer k at precision p: the double nearest to
   k / 10^p (one exact rational, one rounding) *)
Definition ideal_dequant (p : Z) (k : Z) : N :=
  if k =? 0 then 0%N
  else
    let '(n, d) := if 0 <=? p then (Z.abs k, 10 ^ p) else (Z.abs k * 10 ^ (- p), 1) in
    match rne n d with
    | Some (m, e) => fenc (k <? 0) m e
    | None => 0%N
    end.

(* "decoded = original rounded to p places": the float geometry the property promises for the
   quantised input gi under options o *)
Definition expected_geom (o : topts) (gi : zgeom) : geomT N :=
  let ct := geom_ct gi in
  match q_geom Z N (fun k => Ok (ideal_dequant (o_pxy o) k))
               (fun k => Ok (ideal_dequant (eff_prec o (o_pz o) (has_z ct)) k))
               (fun k => Ok (ideal_dequant (eff_prec o (o_pm o) (has_m ct)) k)) 0%N (tolerated gi) with
  | Ok g' => g'
  | _ => GColl XY []
  end.

(* every integer the writer derives is the correctly rounded x * 10^p (up to float slack) *)
Definition vtx_rounding_ok (o : topts) (ct : ctype) (v : vtx N) : bool :=
  let chk p x := match quant p x with Ok k => rounded_ok p x k | _ => true end in
  chk (o_pxy o) (vx v) && chk (o_pxy o) (vy v) &&
  (if has_z ct then chk (eff_prec o (o_pz o) true) (vz v) else true) &&
  (if has_m ct then chk (eff_prec o (o_pm o) true) (vm v) else true).
Definition rounding_ok (o : topts) (g : geomT N) : bool :=
  forallb (vtx_rounding_ok o (geom_ct g)) (geom_vs g).
Definition vtx_has_tie (o : topts) (ct : ctype) (v : vtx N) : bool :=
  is_tie (o_pxy o) (vx v) || is_tie (o_pxy o) (vy v) ||
  (has_z ct && is_tie (eff_prec o (o_pz o) true) (vz v)) ||
  (has_m ct && is_tie (eff_prec o (o_pm o) true) (vm v)).
Definition has_tie (o : topts) (g : geomT N) : bool :=
  existsb (vtx_has_tie o (geom_ct g)) (geom_vs g).
