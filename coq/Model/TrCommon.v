(* Property C17 - shared pieces of the transform models: exact value of a binary64 bit pattern,
   vertices over Q, consecutive segments of a vertex list, boolean multiset comparison.
   Definitions only (executable); lemmas are in Proofs/Tr*_proofs.v. *)
From Coq Require Import ZArith NArith QArith Qround Qabs List Bool Lia Permutation.
From SF Require Import Base.GeomAST.
Import ListNotations.

(* ---- IEEE-754 binary64 bit pattern -> exact dyadic rational (None for NaN and +-Inf) ---- *)
(* m / 2^k in lowest terms without a gcd: strip the common factors of two *)
Fixpoint strip2 (m : positive) (k : N) : positive * N :=
  match m with
  | xO m' => if N.eqb k 0 then (m, k) else strip2 m' (N.pred k)
  | _ => (m, k)
  end.

Definition f64_to_Q (b : N) : option Q :=
  let neg := N.testbit b 63 in
  let e := N.land (N.shiftr b 52) 2047 in
  let m := N.land b 4503599627370495 in
  if N.eqb e 2047 then None
  else
    let mant : N := if N.eqb e 0 then m else (m + 4503599627370496)%N in
    let mag : Q :=
      match mant with
      | N0 => 0
      | Npos mp =>
          if N.leb 1075 e then inject_Z (Z.shiftl (Zpos mp) (Z.of_N (e - 1075)))
          else
            let k := if N.eqb e 0 then 1074%N else (1075 - e)%N in
            let '(m', k') := strip2 mp k in
            Zpos m' # (Pos.shiftl 1 k')
      end in
    Some (if neg then Qopp mag else mag).

Definition opt_map2 {A B} (f : A -> option B) : list A -> option (list B) :=
  fix go l := match l with
              | [] => Some []
              | x :: r => match f x, go r with
                          | Some y, Some r' => Some (y :: r')
                          | _, _ => None
                          end
              end.

(* a whole geometry from bit patterns to exact rationals; None when some ordinate is not finite *)
Definition vtx_to_Q (v : vtx N) : option (vtx Q) :=
  match f64_to_Q (vx v), f64_to_Q (vy v), f64_to_Q (vz v), f64_to_Q (vm v) with
  | Some x, Some y, Some z, Some m => Some (Build_vtx x y z m)
  | _, _, _, _ => None
  end.
Definition point_to_Q (p : pointT N) : option (pointT Q) :=
  match p with
  | MkPoint ct None => Some (MkPoint ct None)
  | MkPoint ct (Some v) => match vtx_to_Q v with Some v' => Some (MkPoint ct (Some v')) | None => None end
  end.
Definition line_to_Q (l : lineT N) : option (lineT Q) :=
  let 'MkLine ct vs := l in
  match opt_map2 vtx_to_Q vs with Some vs' => Some (MkLine ct vs') | None => None end.
Definition poly_to_Q (p : polyT N) : option (polyT Q) :=
  let 'MkPoly ct rs := p in
  match opt_map2 line_to_Q rs with Some rs' => Some (MkPoly ct rs') | None => None end.
Fixpoint geom_to_Q (g : geomT N) : option (geomT Q) :=
  match g with
  | GPoint p => option_map GPoint (point_to_Q p)
  | GLine l => option_map GLine (line_to_Q l)
  | GPoly p => option_map GPoly (poly_to_Q p)
  | GMPoint ct ps => option_map (GMPoint ct) (opt_map2 point_to_Q ps)
  | GMLine ct ls => option_map (GMLine ct) (opt_map2 line_to_Q ls)
  | GMPoly ct ps => option_map (GMPoly ct) (opt_map2 poly_to_Q ps)
  | GColl ct gs => option_map (GColl ct) (opt_map2 geom_to_Q gs)
  end.

(* ---- consecutive segments of a vertex list, of a geometry ---- *)
Section Segs.
  Variable F : Type.
  Fixpoint line_segs (vs : list (vtx F)) : list (vtx F * vtx F) :=
    match vs with
    | a :: ((b :: _) as r) => (a, b) :: line_segs r
    | _ => []
    end.
  Definition lineT_segs (l : lineT F) := line_segs (line_vs l).
  Definition poly_segs (p : polyT F) := flat_map lineT_segs (poly_rings p).
  Fixpoint geom_segs (g : geomT F) : list (vtx F * vtx F) :=
    match g with
    | GPoint _ => []
    | GLine l => lineT_segs l
    | GPoly p => poly_segs p
    | GMPoint _ _ => []
    | GMLine _ ls => flat_map lineT_segs ls
    | GMPoly _ ps => flat_map poly_segs ps
    | GColl _ gs => flat_map geom_segs gs
    end.
  Definition swap_seg (s : vtx F * vtx F) := (snd s, fst s).

  (* the same multiset of segments up to direction: l1 is a permutation of l2 with some segments flipped *)
  Definition undirected_perm (l1 l2 : list (vtx F * vtx F)) : Prop :=
    exists l2', Forall2 (fun s s' => s' = s \/ s' = swap_seg s) l2 l2' /\ Permutation l1 l2'.

  (* boolean multiset equality modulo a boolean equivalence *)
  Variable A : Type.
  Variable eqb : A -> A -> bool.
  Fixpoint remove_one (x : A) (l : list A) : option (list A) :=
    match l with
    | [] => None
    | y :: r => if eqb x y then Some r
                else match remove_one x r with Some r' => Some (y :: r') | None => None end
    end.
  Fixpoint perm_b (l1 l2 : list A) : bool :=
    match l1 with
    | [] => match l2 with [] => true | _ => false end
    | x :: r => match remove_one x l2 with Some l2' => perm_b r l2' | None => false end
    end.
End Segs.
Arguments line_segs {F} _. Arguments lineT_segs {F} _. Arguments poly_segs {F} _.
Arguments geom_segs {F} _. Arguments swap_seg {F} _. Arguments undirected_perm {F} _ _.
Arguments remove_one {A} _ _ _. Arguments perm_b {A} _ _ _.

(* ---- vertices over Q ---- *)
Definition qv := vtx Q.
Definition veqb (a b : qv) : bool :=
  Qeq_bool (vx a) (vx b) && Qeq_bool (vy a) (vy b) && Qeq_bool (vz a) (vz b) && Qeq_bool (vm a) (vm b).
(* Go: a.XY == b.XY *)
Definition xy_eqb (a b : qv) : bool := Qeq_bool (vx a) (vx b) && Qeq_bool (vy a) (vy b).
Definition seg_eqb_undirected (s t : qv * qv) : bool :=
  (veqb (fst s) (fst t) && veqb (snd s) (snd t)) || (veqb (fst s) (snd t) && veqb (snd s) (fst t)).

Definition list_eqb {A} (e : A -> A -> bool) : list A -> list A -> bool :=
  fix go l1 l2 := match l1, l2 with
                  | [], [] => true
                  | x :: r, y :: s => e x y && go r s
                  | _, _ => false
                  end.
Definition pointQ_eqb (p q : pointT Q) : bool :=
  match p, q with
  | MkPoint c1 None, MkPoint c2 None => ct_eqb c1 c2
  | MkPoint c1 (Some v), MkPoint c2 (Some w) => ct_eqb c1 c2 && veqb v w
  | _, _ => false
  end.
Definition lineQ_eqb (l1 l2 : lineT Q) : bool :=
  ct_eqb (line_ct l1) (line_ct l2) && list_eqb veqb (line_vs l1) (line_vs l2).
Definition polyQ_eqb (p1 p2 : polyT Q) : bool :=
  ct_eqb (poly_ct p1) (poly_ct p2) && list_eqb lineQ_eqb (poly_rings p1) (poly_rings p2).
Fixpoint geomQ_eqb (g h : geomT Q) : bool :=
  match g, h with
  | GPoint p, GPoint q => pointQ_eqb p q
  | GLine l, GLine k => lineQ_eqb l k
  | GPoly p, GPoly q => polyQ_eqb p q
  | GMPoint c ps, GMPoint d qs => ct_eqb c d && list_eqb pointQ_eqb ps qs
  | GMLine c ls, GMLine d ks => ct_eqb c d && list_eqb lineQ_eqb ls ks
  | GMPoly c ps, GMPoly d qs => ct_eqb c d && list_eqb polyQ_eqb ps qs
  | GColl c gs, GColl d hs =>
      ct_eqb c d && (fix go l1 l2 := match l1, l2 with
                                     | [], [] => true
                                     | x :: r, y :: s => geomQ_eqb x y && go r s
                                     | _, _ => false
                                     end) gs hs
  | _, _ => false
  end.

(* squared euclidean distance and cross product in the XY plane *)
Definition d2 (a b : qv) : Q := (vx b - vx a) * (vx b - vx a) + (vy b - vy a) * (vy b - vy a).
Definition cross3 (a b p : qv) : Q := (vx b - vx a) * (vy p - vy a) - (vy b - vy a) * (vx p - vx a).
