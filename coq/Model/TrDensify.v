(* Property C17 - Densify over exact rationals.
   Anchors: geom/alg_densify.go:densify (per segment: subsections = int(ceil(dist/maxDist)), points
   j/subsections for 0 < j < subsections through interpolateCoords, end point of the last segment
   appended); geom/alg_linear_interpolation.go:lerp, interpolateCoords; type_line_string.go,
   type_polygon.go, type_multi_line_string.go, type_multi_polygon.go,
   type_geometry_collection.go, type_geometry.go:Densify.
   The subdivision count is a function [kf] of the two end points: the theorems about
   positions hold for every [kf]; the gap theorem needs  kf a b * d >= |ab|  and the exact count
   [k_exact] (the real-number value of ceil(|ab| / d), computed without square roots) has it. *)
From Coq Require Import ZArith QArith Qround List Bool.
From SF Require Import Base.Outcome Base.GeomAST Model.TrCommon.
Import ListNotations.

(* alg_linear_interpolation.go:lerp - the same branches; in exact arithmetic every branch equals
   a + t*(b-a) (Proofs: lerpQ_exact) *)
Definition Qmaxq (a b : Q) : Q := if Qle_bool a b then b else a.
Definition Qminq (a b : Q) : Q := if Qle_bool a b then a else b.
Definition lerpQ (a b t : Q) : Q :=
  if (Qle_bool a 0 && Qle_bool 0 b) || (Qle_bool 0 a && Qle_bool b 0) then t * b + (1 - t) * a
  else if Qeq_bool t 1 then b
  else
    let x := a + t * (b - a) in
    if Bool.eqb (negb (Qle_bool t 1)) (negb (Qle_bool b a)) then Qmaxq b x else Qminq b x.

(* alg_linear_interpolation.go:interpolateCoords (Z and M are interpolated whatever the
   coordinates type; unused ones are 0 and stay 0) *)
Definition interp_coords (c0 c1 : qv) (t : Q) : qv :=
  Build_vtx (lerpQ (vx c0) (vx c1) t) (lerpQ (vy c0) (vy c1) t)
            (lerpQ (vz c0) (vz c1) t) (lerpQ (vm c0) (vm c1) t).

Section Densify.
  Variable kf : qv -> qv -> Z.   (* subsections of the segment c0 -> c1 *)

  (* for j := j0; j < j0 + cnt; j++ { interpolateCoords(c0, c1, j / k) } *)
  Fixpoint inserted (c0 c1 : qv) (k : Z) (j : nat) (cnt : nat) : list qv :=
    match cnt with
    | O => []
    | S c => interp_coords c0 c1 (inject_Z (Z.of_nat j) / inject_Z k) :: inserted c0 c1 k (S j) c
    end.

  (* alg_densify.go:densify, the loop over segments followed by the last point *)
  Fixpoint densify_seq (vs : list qv) : list qv :=
    match vs with
    | a :: ((b :: _) as r) =>
        a :: inserted a b (kf a b) 1 (Z.to_nat (kf a b - 1)) ++ densify_seq r
    | _ => vs
    end.
End Densify.

(* ceil(|ab| / d) for d > 0 without square roots: the least k >= 0 with k^2 >= |ab|^2 / d^2 *)
Definition k_exact (d : Q) (a b : qv) : Z := Z.sqrt_up (Qceiling (d2 a b / (d * d))).

(* geometry level; maxDist <= 0 panics wherever a sequence or a point is reached *)
Section DensifyGeom.
  Variable kf : qv -> qv -> Z.
  Variable d : Q.
  Definition dens_line (l : lineT Q) : outcome (lineT Q) :=
    if Qle_bool d 0 then Panic POther
    else let 'MkLine ct vs := l in Ok (MkLine ct (densify_seq kf vs)).
  Fixpoint omapl {A B} (f : A -> outcome B) (l : list A) : outcome (list B) :=
    match l with
    | [] => Ok []
    | x :: r => match f x with
                | Ok y => match omapl f r with Ok r' => Ok (y :: r') | Err e => Err e | Panic p => Panic p end
                | Err e => Err e
                | Panic p => Panic p
                end
    end.
  Definition dens_poly (p : polyT Q) : outcome (polyT Q) :=
    let 'MkPoly ct rs := p in
    match omapl dens_line rs with Ok rs' => Ok (MkPoly ct rs') | Err e => Err e | Panic x => Panic x end.
  Fixpoint dens_geom (g : geomT Q) : outcome (geomT Q) :=
    match g with
    | GPoint _ | GMPoint _ _ => if Qle_bool d 0 then Panic POther else Ok g
    | GLine l => match dens_line l with Ok l' => Ok (GLine l') | Err e => Err e | Panic x => Panic x end
    | GPoly p => match dens_poly p with Ok p' => Ok (GPoly p') | Err e => Err e | Panic x => Panic x end
    | GMLine ct ls => match omapl dens_line ls with Ok r => Ok (GMLine ct r) | Err e => Err e | Panic x => Panic x end
    | GMPoly ct ps => match omapl dens_poly ps with Ok r => Ok (GMPoly ct r) | Err e => Err e | Panic x => Panic x end
    | GColl ct gs =>
        match (fix go (l : list (geomT Q)) : outcome (list (geomT Q)) :=
                 match l with
                 | [] => Ok []
                 | x :: r => match dens_geom x with
                             | Ok y => match go r with Ok r' => Ok (y :: r') | Err e => Err e | Panic p => Panic p end
                             | Err e => Err e
                             | Panic p => Panic p
                             end
                 end) gs with
        | Ok r => Ok (GColl ct r)
        | Err e => Err e
        | Panic x => Panic x
        end
    end.
End DensifyGeom.

(* ---- executable statement on an observed output (float implementation): tolerance eps ---- *)
Section DensifySpec.
  Variable eps : Q.
  Variable d : Q.
  Definition Qabsq (x : Q) : Q := if Qle_bool 0 x then x else - x.
  Definition close (scale x y : Q) : bool := Qle_bool (Qabsq (x - y)) (eps * scale).
  (* magnitude of a segment's ordinates, never 0 *)
  Definition seg_scale (a b : qv) : Q :=
    1 + Qabsq (vx a) + Qabsq (vy a) + Qabsq (vx b) + Qabsq (vy b).
  Definition zm_scale (a b : qv) : Q :=
    1 + Qabsq (vz a) + Qabsq (vm a) + Qabsq (vz b) + Qabsq (vm b).
  (* p is a + s*(b-a) in all four ordinates, up to eps *)
  Definition at_param (a b : qv) (s : Q) (p : qv) : bool :=
    close (seg_scale a b) (vx p) (vx a + s * (vx b - vx a))
    && close (seg_scale a b) (vy p) (vy a + s * (vy b - vy a))
    && close (zm_scale a b) (vz p) (vz a + s * (vz b - vz a))
    && close (zm_scale a b) (vm p) (vm a + s * (vm b - vm a)).
  (* gap: |pq|^2 <= d^2 (1+eps)^2 *)
  Definition gap_ok (p q : qv) : bool := Qle_bool (d2 p q) (d * d * (1 + eps) * (1 + eps)).

  (* the points between a and b: k-1 of them at parameters j/k, k read off their number *)
  Fixpoint mids_ok (a b : qv) (k : Z) (j : nat) (ms : list qv) : bool :=
    match ms with
    | [] => true
    | p :: r => at_param a b (inject_Z (Z.of_nat j) / inject_Z k) p && mids_ok a b k (S j) r
    end.
  Fixpoint gaps_ok (prev : qv) (l : list qv) : bool :=
    match l with
    | [] => true
    | p :: r => gap_ok prev p && gaps_ok p r
    end.

  (* walk along the input; for each segment a->b take output points up to the first that is
     the vertex b itself (exact comparison: original vertices are copied, not recomputed) *)
  Fixpoint take_until (b : qv) (out : list qv) (acc : list qv) : option (list qv * list qv) :=
    match out with
    | [] => None
    | p :: r => if veqb p b then Some (rev acc, out) else take_until b r (p :: acc)
    end.
  Fixpoint dens_spec_walk (vs : list qv) (out : list qv) : bool :=
    match vs with
    | [] => match out with [] => true | _ => false end
    | a :: r =>
        match out with
        | [] => false
        | a' :: out1 =>
            veqb a a' &&
            match r with
            | [] => match out1 with [] => true | _ => false end
            | b :: _ =>
                match take_until b out1 [] with
                | None => false
                | Some (ms, out2) =>
                    let k := Z.of_nat (S (length ms)) in
                    mids_ok a b k 1 ms && gaps_ok a (ms ++ [b]) && dens_spec_walk r out2
                end
            end
        end
    end.
End DensifySpec.
