(* Property C17 - ForceCW / ForceCCW / IsCW / IsCCW over exact rationals.
   Anchors: geom/type_polygon.go:signedAreaOfLinearRing (shoelace sum / 2), IsCW, IsCCW,
   ForceCW, ForceCCW, forceOrientation; type_multi_polygon.go, type_geometry_collection.go,
   type_geometry.go: the same five functions by recursion over members (non-areal types: IsCW =
   IsCCW = true, forceOrientation = identity). *)
From Coq Require Import ZArith QArith List Bool.
From SF Require Import Base.GeomAST Model.TrCommon Model.TrReverse.
Import ListNotations.

Definition Qltb (a b : Q) : bool := negb (Qle_bool b a).

(* sum over consecutive points of (x1 + x0) * (y1 - y0) *)
Fixpoint shoelace (vs : list qv) : Q :=
  match vs with
  | a :: ((b :: _) as r) => (vx b + vx a) * (vy b - vy a) + shoelace r
  | _ => 0
  end.
(* type_polygon.go:signedAreaOfLinearRing (transform = nil) *)
Definition signed_area (l : lineT Q) : Q := shoelace (line_vs l) / 2.

Definition ring_is_cw (l : lineT Q) : bool := Qltb (signed_area l) 0.
Definition ring_is_ccw (l : lineT Q) : bool := Qltb 0 (signed_area l).

(* IsCW: for i, ring := range rings { isCW := area < 0; if (i == 0) != isCW { return false } } *)
Fixpoint rings_all (test : lineT Q -> bool) (first : bool) (rs : list (lineT Q)) : bool :=
  match rs with
  | [] => true
  | r :: rest => if Bool.eqb first (test r) then rings_all test false rest else false
  end.
Definition poly_is_cw (p : polyT Q) : bool := rings_all ring_is_cw true (poly_rings p).
Definition poly_is_ccw (p : polyT Q) : bool := rings_all ring_is_ccw true (poly_rings p).

(* forceOrientation: alreadyCW := area < 0; keep the ring iff (i == 0) == (alreadyCW == forceCW) *)
Fixpoint rings_force (force_cw : bool) (first : bool) (rs : list (lineT Q)) : list (lineT Q) :=
  match rs with
  | [] => []
  | r :: rest =>
      (if Bool.eqb first (Bool.eqb (ring_is_cw r) force_cw) then r else rev_line r)
        :: rings_force force_cw false rest
  end.
Definition poly_force_orient (force_cw : bool) (p : polyT Q) : polyT Q :=
  let 'MkPoly ct rs := p in MkPoly ct (rings_force force_cw true rs).
Definition poly_force_cw (p : polyT Q) := if poly_is_cw p then p else poly_force_orient true p.
Definition poly_force_ccw (p : polyT Q) := if poly_is_ccw p then p else poly_force_orient false p.

(* type_geometry.go:IsCW / IsCCW *)
Fixpoint geom_is (ptest : polyT Q -> bool) (g : geomT Q) : bool :=
  match g with
  | GPoly p => ptest p
  | GMPoly _ ps => forallb ptest ps
  | GColl _ gs => forallb (geom_is ptest) gs
  | _ => true
  end.
Definition geom_is_cw := geom_is poly_is_cw.
Definition geom_is_ccw := geom_is poly_is_ccw.

(* type_geometry.go:forceOrientation *)
Fixpoint geom_force_orient (force_cw : bool) (g : geomT Q) : geomT Q :=
  match g with
  | GPoly p => GPoly (poly_force_orient force_cw p)
  | GMPoly ct ps => GMPoly ct (map (poly_force_orient force_cw) ps)
  | GColl ct gs => GColl ct (map (geom_force_orient force_cw) gs)
  | _ => g
  end.
(* type_geometry.go:ForceCW / ForceCCW *)
Definition geom_force_cw (g : geomT Q) := if geom_is_cw g then g else geom_force_orient true g.
Definition geom_force_ccw (g : geomT Q) := if geom_is_ccw g then g else geom_force_orient false g.

(* the hypothesis of the contract: every exterior ring has a non-zero signed area (true of every
   valid polygon). What the code does otherwise is part of the theorems (Props/C17.v). *)
Definition poly_ext_nonzero (p : polyT Q) : bool :=
  match poly_rings p with
  | [] => true
  | r :: _ => negb (Qeq_bool (signed_area r) 0)
  end.
Fixpoint geom_ext_nonzero (g : geomT Q) : bool :=
  match g with
  | GPoly p => poly_ext_nonzero p
  | GMPoly _ ps => forallb poly_ext_nonzero ps
  | GColl _ gs => forallb geom_ext_nonzero gs
  | _ => true
  end.

(* ---- executable statement on an observed output ---- *)
(* same vertices (as a multiset), same segments up to direction, same type / coordinates type *)
Definition same_pointset_b (g out : geomT Q) : bool :=
  perm_b seg_eqb_undirected (geom_segs out) (geom_segs g)
  && perm_b veqb (geom_vs out) (geom_vs g)
  && gtype_eqb (geom_type out) (geom_type g)
  && ct_eqb (geom_ct out) (geom_ct g).
