(* Property C17 - InterpolatePoint / InterpolateEvenlySpacedPoints over exact rationals, the
   square root being a function [sq] supplied from outside: the theorems hold for every
   non-negative [sq] and speak about the lengths [sq (d2 a b)]; [qsqrt] below is exact on
   squares of rationals (so on axis-parallel and 3-4-5 type segments the lengths are the true
   ones) and a 2^-64 relative under-approximation otherwise (used by the correspondence run).
   Anchors: geom/alg_linear_interpolation.go:newLinearInterpolator (cumulative table),
   interpolate (clamp, sort.SearchFloat64s = smallest index with cumulative >= frac*total,
   in-segment fraction, interpolateCoords); type_line_string.go:InterpolatePoint,
   InterpolateEvenlySpacedPoints. *)
From Coq Require Import ZArith QArith Qround List Bool.
From SF Require Import Base.Outcome Base.GeomAST Model.TrCommon Model.TrDensify.
Import ListNotations.

(* square root on Q: exact on squares of rationals, else rounded down at 2^-64 relative *)
Definition qsqrt (q : Q) : Q :=
  match Qnum q with
  | Zpos n =>
      let m := Qden q in
      (* sqrt(n/m) = sqrt(n*m)/m = sqrt(n*m*4^64) / (m*2^64) *)
      Qred (Z.sqrt (Zpos n * Zpos m * 2 ^ 128) # (m * 2 ^ 64))
  | _ => 0
  end.

Inductive interp_res :=
| IPoint (v : qv)        (* a point with coordinates *)
| IUndef                 (* 0/0: the implementation yields NaN ordinates *)
| IPanic.                (* index out of range *)

Section Interp.
  Variable sq : Q -> Q.
  Definition dist (a b : qv) : Q := sq (d2 a b).

  (* newLinearInterpolator: the table of segment lengths (Go stores their running sums, the
     cumulative table; the walk below re-creates the running sum). Qred only normalises the
     representation of a fraction (Qred q == q); it keeps the extracted model fast. *)
  Definition seg_lens (vs : list qv) : list Q := map (fun s => dist (fst s) (snd s)) (line_segs vs).
  (* total = cumulative[n-2] (0 for a single point) *)
  Fixpoint sumq (l : list Q) : Q :=
    match l with
    | [] => 0
    | x :: r => Qred (x + sumq r)
    end.
  Definition path_len (vs : list qv) : Q := sumq (seg_lens vs).

  Definition clamp01 (f : Q) : Q := Qmaxq 0 (Qminq 1 f).

  (* interpolate: walk along the cumulative table; prevcum = cumulative[idx-1] (0 for idx = 0),
     lens = the lengths of the segments of vs. [fixed] selects the repaired code
     (fixes/F9.patch): a zero-length segment returns its start point instead of dividing 0 by 0.
     Falling off the end is seq.Get(idx+1) out of range. *)
  Fixpoint walk (fixed : bool) (target prevcum : Q) (vs : list qv) (lens : list Q) : interp_res :=
    match vs, lens with
    | a :: ((b :: _) as r), len :: lens' =>
        let c := Qred (prevcum + len) in
        if Qle_bool target c then
          if Qeq_bool len 0 then (if fixed then IPoint a else IUndef)
          else IPoint (interp_coords a b ((target - prevcum) / len))
        else walk fixed target c r lens'
    | _, _ => IPanic
    end.

  Definition interpolate_tab (fixed : bool) (vs : list qv) (lens : list Q) (f : Q) : interp_res :=
    walk fixed (clamp01 f * sumq lens) 0 vs lens.
  Definition interpolate (fixed : bool) (vs : list qv) (f : Q) : interp_res :=
    interpolate_tab fixed vs (seg_lens vs) f.

  (* type_line_string.go:InterpolatePoint: None = the empty point *)
  Definition interpolate_point (fixed : bool) (vs : list qv) (f : Q) : option interp_res :=
    match vs with
    | [] => None
    | _ => Some (interpolate fixed vs f)
    end.

  (* type_line_string.go:InterpolateEvenlySpacedPoints *)
  Fixpoint fracs (n1 : Z) (i : nat) (cnt : nat) : list Q :=
    match cnt with
    | O => []
    | S c => (inject_Z (Z.of_nat i) / inject_Z n1) :: fracs n1 (S i) c
    end.
  Definition evenly_spaced (fixed : bool) (vs : list qv) (n : Z) : list (option interp_res) :=
    if Z.leb n 0 then []
    else match vs with
         | [] => repeat None (Z.to_nat n)
         | _ => let lens := seg_lens vs in   (* one interpolator for all points *)
                if Z.eqb n 1 then [Some (interpolate_tab fixed vs lens (1 # 2))]
                else map (fun f => Some (interpolate_tab fixed vs lens f)) (fracs (n - 1) 0 (Z.to_nat n))
         end.

  (* ---- executable statement on an observed point p (float implementation), tolerance eps ---- *)
  Variable eps : Q.
  (* p lies on segment a->b at parameter s in [0,1] (s from the projection), the arc length up to p
     is target, and Z/M are interpolated at the same parameter *)
  Definition on_seg_at (a b p : qv) (len prevcum target total : Q) : bool :=
    if Qeq_bool (d2 a b) 0 then
      at_param eps a b 0 p && close eps (1 + total) prevcum target
      || at_param eps a b 1 p && close eps (1 + total) prevcum target
    else
      let s := ((vx p - vx a) * (vx b - vx a) + (vy p - vy a) * (vy b - vy a)) / d2 a b in
      Qle_bool (- eps) s && Qle_bool s (1 + eps)
      && at_param eps a b s p
      && close eps (1 + total) (prevcum + s * len) target.
  Fixpoint on_some_seg (p : qv) (target total prevcum : Q) (vs : list qv) (lens : list Q) : bool :=
    match vs, lens with
    | a :: ((b :: _) as r), len :: lens' =>
        on_seg_at a b p len prevcum target total
        || on_some_seg p target total (Qred (prevcum + len)) r lens'
    | _, _ => false
    end.
  Definition interp_spec_tab (vs : list qv) (lens : list Q) (f : Q) (p : qv) : bool :=
    let total := sumq lens in
    on_some_seg p (clamp01 f * total) total 0 vs lens.
  Definition interp_spec_b (vs : list qv) (f : Q) (p : qv) : bool := interp_spec_tab vs (seg_lens vs) f p.

  (* the target is within rounding of a cumulative breakpoint (near-tie detector) *)
  Fixpoint near_break (target total prevcum : Q) (lens : list Q) : bool :=
    match lens with
    | len :: lens' =>
        let c := Qred (prevcum + len) in
        close eps (1 + total) c target || near_break target total c lens'
    | [] => false
    end.
End Interp.
