(* Property C17 - the executable statements of the contracts, applied to one observed case of the
   implementation (inputs and outputs as IEEE-754 bit patterns). Used by the correspondence
   driver (extracted); every field is a boolean named after the check it decides. *)
From Coq Require Import ZArith NArith QArith Qround Qabs List Bool.
From SF Require Import Base.Outcome Base.GeomAST Model.TrCommon Model.TrReverse Model.TrSnap Model.TrForce
  Model.TrSimplify Model.TrDensify Model.TrInterp.
Import ListNotations.

(* rounding allowances *)
Definition eps12 : Q := 1 # 1000000000000.
Definition eps9 : Q := 1 # 1000000000.
Definition eps14 : Q := 1 # 100000000000000.

(* ---- Reverse, on bit patterns (payload compared bit for bit) ---- *)
Definition veqbN (a b : vtx N) : bool :=
  N.eqb (vx a) (vx b) && N.eqb (vy a) (vy b) && N.eqb (vz a) (vz b) && N.eqb (vm a) (vm b).
Definition seg_eqbN (s t : vtx N * vtx N) : bool := veqbN (fst s) (fst t) && veqbN (snd s) (snd t).

(* out has exactly the flipped segments of g, exactly the vertices of g, and the same type *)
Definition rev_spec_b (g out : geomT N) : bool :=
  perm_b seg_eqbN (geom_segs out) (map swap_seg (geom_segs g))
  && perm_b veqbN (geom_vs out) (geom_vs g)
  && gtype_eqb (geom_type out) (geom_type g)
  && ct_eqb (geom_ct out) (geom_ct g)
  && Bool.eqb (is_empty out) (is_empty g).

(* ---- SnapToGrid, scalar ---- *)
Record snap_verdict := {
  sv_finite : bool;      (* finite in, finite out *)
  sv_odd : bool;         (* snap(-x) = -snap(x) *)
  sv_half : bool;        (* |snap(x) - x| <= step/2 (plus rounding) *)
  sv_grid : bool;        (* snap(x) is a multiple of the step (up to rounding) *)
  sv_idem_dom : bool;    (* |x| * 10^dp < 2^40 *)
  sv_idem : bool;        (* snap(snap(x)) = snap(x) *)
  sv_near_tie : bool;    (* x/step is within rounding of k + 1/2, but not exactly on it *)
  sv_model : bool        (* the exact model's answer agrees up to rounding *)
}.

Definition two40 : Q := inject_Z (2 ^ 40).

(* distance of |q| from the nearest k + 1/2 *)
Definition tie_dist (q : Q) : Q :=
  let a := Qabs q in
  Qabs (a - inject_Z (Qfloor a) - (1 # 2)).

Definition snap_judge (dp : Z) (xb yb ynegb yyb : N) : option snap_verdict :=
  match f64_to_Q xb with
  | None => None
  | Some x =>
    match f64_to_Q yb, f64_to_Q ynegb, f64_to_Q yyb with
    | Some y, Some yneg, Some yy =>
      let s := x / grid_step dp in
      let td := tie_dist s in
      let scale := if Qle_bool 1 (Qabs s) then Qabs s else 1 in
      let exact_tie := Qeq_bool td 0 in
      (* the float product/quotient x*10^dp carries a relative error of a few 2^-53 *)
      let near := Qle_bool td (eps14 * scale) && negb exact_tie in
      (* an exact tie is decided by the model only when the scaled value is computed exactly by the
         implementation: 10^|dp| is a binary64 value for |dp| <= 22 and the quotient k + 1/2 is one when small *)
      let tie_undecided := exact_tie && negb (Z.leb (Z.abs dp) 22 && Qle_bool (Qabs s) two40) in
      Some {| sv_finite := true;
              sv_odd := Qeq_bool yneg (- y);
              sv_half := snap_half_step_b eps12 x y dp;
              sv_grid := snap_on_grid_b eps9 y dp;
              sv_idem_dom := negb (Qle_bool two40 (Qabs s));
              sv_idem := Qeq_bool yy y;
              sv_near_tie := near || tie_undecided;
              sv_model := snap_close_b eps12 x y dp |}
    | _, _, _ =>
      Some {| sv_finite := false; sv_odd := false; sv_half := false; sv_grid := false;
              sv_idem_dom := false; sv_idem := false; sv_near_tie := false; sv_model := false |}
    end
  end.

(* ================= ForceCW / ForceCCW ================= *)
Record force_verdict := {
  fv_model_cw : bool;      (* model's ForceCW output = observed *)
  fv_model_ccw : bool;
  fv_in_cw : bool;         (* model's IsCW / IsCCW of the input (compared with the observed flags) *)
  fv_in_ccw : bool;
  fv_nonzero : bool;       (* every exterior ring of the input has non-zero exact area *)
  fv_out_cw : bool;        (* exact IsCW of the observed ForceCW output *)
  fv_out_ccw : bool;
  fv_same_cw : bool;       (* observed output has the same vertices / undirected segments / type *)
  fv_same_ccw : bool
}.
Definition force_judge (g fcw fccw : geomT N) : option force_verdict :=
  match geom_to_Q g, geom_to_Q fcw, geom_to_Q fccw with
  | Some gq, Some cw, Some ccw =>
      Some {| fv_model_cw := geomQ_eqb (geom_force_cw gq) cw;
              fv_model_ccw := geomQ_eqb (geom_force_ccw gq) ccw;
              fv_in_cw := geom_is_cw gq;
              fv_in_ccw := geom_is_ccw gq;
              fv_nonzero := geom_ext_nonzero gq;
              fv_out_cw := geom_is_cw cw;
              fv_out_ccw := geom_is_ccw ccw;
              fv_same_cw := same_pointset_b gq cw;
              fv_same_ccw := same_pointset_b gq ccw |}
  | _, _, _ => None
  end.

(* ================= shapes: all lines of a geometry in storage order ================= *)
Fixpoint geom_lines (g : geomT Q) : list (lineT Q) :=
  match g with
  | GLine l => [l]
  | GPoly p => poly_rings p
  | GMLine _ ls => ls
  | GMPoly _ ps => flat_map (@poly_rings Q) ps
  | GColl _ gs => flat_map geom_lines gs
  | _ => []
  end.
(* the geometry with every vertex list emptied: equal skeletons = same tree, same types, same
   coordinate types, same member and ring counts, same points *)
Definition skel_line (l : lineT Q) : lineT Q := MkLine (line_ct l) [].
Definition skel_poly (p : polyT Q) : polyT Q := MkPoly (poly_ct p) (map skel_line (poly_rings p)).
Definition skel_point (p : pointT Q) : pointT Q :=
  match p with
  | MkPoint ct None => MkPoint ct None
  | MkPoint ct (Some _) => MkPoint ct (Some (Build_vtx 0 0 0 0))
  end.
Fixpoint skeleton (g : geomT Q) : geomT Q :=
  match g with
  | GPoint p => GPoint (skel_point p)
  | GMPoint ct ps => GMPoint ct (map skel_point ps)
  | GLine l => GLine (skel_line l)
  | GPoly p => GPoly (skel_poly p)
  | GMLine ct ls => GMLine ct (map skel_line ls)
  | GMPoly ct ps => GMPoly ct (map skel_poly ps)
  | GColl ct gs => GColl ct (map skeleton gs)
  end.
Definition same_shape_b (g h : geomT Q) : bool := geomQ_eqb (skeleton g) (skeleton h).

Definition forall2b {A B} (f : A -> B -> bool) : list A -> list B -> bool :=
  fix go l1 l2 := match l1, l2 with
                  | [], [] => true
                  | x :: r, y :: s => f x y && go r s
                  | _, _ => false
                  end.

Definition vclose (eps : Q) (scale zscale : Q) (p q : qv) : bool :=
  close eps scale (vx p) (vx q) && close eps scale (vy p) (vy q)
  && close eps zscale (vz p) (vz q) && close eps zscale (vm p) (vm q).
Definition vs_scale (vs : list qv) : Q := fold_left (fun acc v => Qred (acc + Qabsq (vx v) + Qabsq (vy v))) vs 1.
Definition vs_zscale (vs : list qv) : Q := fold_left (fun acc v => Qred (acc + Qabsq (vz v) + Qabsq (vm v))) vs 1.

(* ================= Densify ================= *)
Record dens_verdict := {
  dv_panic_model : bool;   (* the model panics (d <= 0 reaching a sequence or a point) *)
  dv_shape : bool;         (* observed output has the input's shape *)
  dv_spec : bool;          (* originals kept in order, inserted points at j/k on their segment, gaps <= d (rounding) *)
  dv_near_tie : bool;      (* some |ab|/d is within rounding of an integer: the count may differ by one *)
  dv_model : bool          (* model output = observed, vertex by vertex up to rounding *)
}.
Definition kf_near_tie (eps d : Q) (a b : qv) : bool :=
  let k := inject_Z (k_exact d a b) in
  let l2 := d2 a b in
  let dd := d * d in
  negb (Qeq_bool l2 0) &&
  (Qle_bool (k * k * dd * (1 - eps)) l2 || Qle_bool l2 ((k - 1) * (k - 1) * dd * (1 + eps))).
Definition dens_judge (g : geomT N) (db : N) (out : option (geomT N)) : option dens_verdict :=
  match geom_to_Q g, f64_to_Q db with
  | Some gq, Some d =>
      let m := dens_geom (k_exact d) d gq in
      match out with
      | None => Some {| dv_panic_model := is_panic m; dv_shape := true; dv_spec := true;
                        dv_near_tie := false; dv_model := is_panic m |}
      | Some o =>
          match geom_to_Q o with
          | None => Some {| dv_panic_model := is_panic m; dv_shape := false; dv_spec := false;
                            dv_near_tie := false; dv_model := false |}
          | Some oq =>
              let ins := geom_lines gq in
              let outs := geom_lines oq in
              Some {| dv_panic_model := is_panic m;
                      dv_shape := same_shape_b gq oq;
                      dv_spec := forall2b (fun l k => dens_spec_walk eps12 d (line_vs l) (line_vs k)) ins outs;
                      dv_near_tie := existsb (fun l => existsb (fun s => kf_near_tie eps9 d (fst s) (snd s))
                                                               (line_segs (line_vs l))) ins;
                      dv_model := match m with
                                  | Ok mq => same_shape_b mq oq &&
                                             forall2b (fun l k =>
                                                         let sc := vs_scale (line_vs l) in
                                                         let zs := vs_zscale (line_vs l) in
                                                         forall2b (vclose eps12 sc zs) (line_vs l) (line_vs k))
                                                      (geom_lines mq) outs
                                  | _ => false
                                  end |}
          end
      end
  | _, _ => None
  end.

(* ================= Simplify ================= *)
(* robustness detector for the comparison with the float implementation (not part of the proved
   model): replays the loops and reports whether some decision was within rounding of flipping -
   the threshold test, or the choice of the farthest vertex *)
(* a cheap square root for the detector: the argument is first cut to 64 leading bits of numerator
   and denominator (relative error < 2^-62), an even power of two is split off, and qsqrt runs on
   small numbers *)
Definition qsqrt_fast (q : Q) : Q :=
  match Qnum q with
  | Zpos n =>
      let m := Qden q in
      let a := Z.max 0 (Z.log2 (Zpos n) - 64) in
      let b0 := Z.max 0 (Z.log2 (Zpos m) - 64) in
      let b := if Z.even (a - b0) then b0 else (b0 + 1)%Z in
      let n' := Z.shiftr (Zpos n) a in
      let m' := Z.to_pos (Z.max 1 (Z.shiftr (Zpos m) b)) in
      let h := ((a - b) / 2)%Z in
      let root := qsqrt (n' # m') in
      Qred (if (0 <=? h)%Z then root * inject_Z (2 ^ h) else root / inject_Z (2 ^ (- h)))
  | _ => 0
  end.

Section Robust.
  Variable t : Q.
  Variable delta : Q.   (* relative rounding allowance *)
  Variable noise : Q.   (* absolute rounding allowance: a few ulps of the ordinates' magnitude *)
  (* a distance whose square is d2v is within the allowances of the distance r >= 0 *)
  Definition near_dist (d2v r : Q) : bool :=
    let eta := delta * r + noise in
    Qle_bool d2v ((r + eta) * (r + eta)) && (Qle_bool r eta || Qle_bool ((r - eta) * (r - eta)) d2v).
  (* some candidate other than the winner comes within rounding of the maximum; the bounds
     lo = (sb - eta)^2 (none when sb <= eta) and hi = (sb + eta)^2 are computed once per scan *)
  Fixpoint scan_amb (a b : qv) (mids : list qv) (best : Q) (lo : option Q) (hi : Q) (seen_winner : bool) : bool :=
    match mids with
    | [] => false
    | p :: r =>
        let d := pd2 a b p in
        if Qeq_bool d best && negb seen_winner then scan_amb a b r best lo hi true
        else (Qle_bool d hi && match lo with None => true | Some l => Qle_bool l d end)
             || scan_amb a b r best lo hi seen_winner
    end.
  Definition scan_amb_start (a b : qv) (mids : list qv) (best : Q) : bool :=
    let sb := qsqrt_fast best in
    let eta := Qred (delta * sb + noise) in
    scan_amb a b mids best
             (if Qle_bool sb eta then None else Some (Qred ((sb - eta) * (sb - eta))))
             (Qred ((sb + eta) * (sb + eta))) false.
  (* the threshold test maxDist <= t is within rounding of flipping *)
  Definition thr_amb (best : Q) (mids : list qv) : bool :=
    match mids with
    | [] => false
    | _ => near_dist best (if Qle_bool 0 t then t else 0)
    end.
  Fixpoint inner_amb (fuel : nat) (a : qv) (mids : list qv) (b : qv) (after : list qv) : bool * option (qv * list qv) :=
    match fuel with
    | O => (true, None)
    | S f =>
        match scan_max a b [] mids 0 None with
        | (best, bi) =>
            let bestr := Qred best in   (* same number, small representation *)
            let amb := thr_amb bestr mids
                       || (negb (Qeq_bool bestr 0) && scan_amb_start a b mids bestr) in
            if thr_ok t best then (amb, Some (b, after))
            else match bi with
                 | None => (amb, Some (b, after))
                 | Some (pre, p, suf) =>
                     let '(amb', r) := inner_amb f a pre p (suf ++ b :: after) in (amb || amb', r)
                 end
        end
    end.
  Fixpoint outer_amb (fuel : nat) (a : qv) (tail : list qv) : bool :=
    match fuel with
    | O => true
    | S f =>
        match unsnoc tail with
        | None => false
        | Some (mids, e) =>
            match inner_amb (S (length mids)) a mids e [] with
            | (amb, Some (b, after)) => amb || outer_amb f b after
            | (_, None) => true
            end
        end
    end.
  Definition rdp_ambiguous (vs : list qv) : bool :=
    match vs with
    | a :: (_ :: _ :: _) as tail => outer_amb (length vs) a tail
    | _ => false
    end.
End Robust.

(* ---- the Simplify contract on an observed (NoValidate) output, by structure ----
   a line: the output is an RDP-simplification of the input for the (relaxed) threshold, or it is
   empty and the collapse is justified: the input is empty, or some admissible simplification of it
   fails LineString validation (closed, and everything within t of the start point);
   a ring: kept with at least 4 points, or dropped and some admissible simplification has at most 3;
   members that became empty are omitted from Multi* results; collections keep their members. *)
Section SimpSpec.
  Variable t : Q.
  Definition last_or (a : qv) (l : list qv) : qv := last l a.
  Definition line_collapse_ok (vs : list qv) : bool :=
    match vs with
    | [] => true
    | [a] => true
    | a :: r => xy_eqb a (last_or a r) && rdp_rel_b t vs [a; last_or a r]
    end.
  Definition ring_collapse_ok (vs : list qv) : bool :=
    match vs with
    | [] => true
    | [a] => true
    | a :: r =>
        let z := last_or a r in
        rdp_rel_b t vs [a; z] || existsb (fun x => rdp_rel_b t vs [a; x; z]) (removelast r)
    end.
  Definition line_spec (i o : lineT Q) : bool :=
    ct_eqb (line_ct i) (line_ct o) &&
    match line_vs o with
    | [] => line_collapse_ok (line_vs i)
    | ovs => rdp_rel_b t (line_vs i) ovs
    end.
  Definition ring_kept (i o : lineT Q) : bool :=
    ct_eqb (line_ct i) (line_ct o) && Nat.leb 4 (length (line_vs o)) && rdp_rel_b t (line_vs i) (line_vs o).
  (* interior rings: each is kept as the next output ring, or dropped with justification *)
  Fixpoint holes_spec (ins outs : list (lineT Q)) : bool :=
    match ins with
    | [] => match outs with [] => true | _ => false end
    | i :: ins' =>
        match outs with
        | o :: outs' => (ring_kept i o && holes_spec ins' outs') || (ring_collapse_ok (line_vs i) && holes_spec ins' outs)
        | [] => ring_collapse_ok (line_vs i) && holes_spec ins' []
        end
    end.
  Definition poly_spec (p q : polyT Q) : bool :=
    ct_eqb (poly_ct p) (poly_ct q) &&
    match poly_rings p, poly_rings q with
    | [], [] => true
    | e :: _, [] => ring_collapse_ok (line_vs e)          (* exterior collapsed: the empty polygon *)
    | e :: hs, e' :: hs' => ring_kept e e' && holes_spec hs hs'
    | [], _ :: _ => false
    end.
  (* members of a Multi*: kept as the next output member, or omitted because they became empty *)
  Fixpoint mline_spec (ins outs : list (lineT Q)) : bool :=
    match ins with
    | [] => match outs with [] => true | _ => false end
    | i :: ins' =>
        match outs with
        | o :: outs' => (negb (line_empty o) && line_spec i o && mline_spec ins' outs')
                        || (line_collapse_ok (line_vs i) && mline_spec ins' outs)
        | [] => line_collapse_ok (line_vs i) && mline_spec ins' []
        end
    end.
  Definition poly_vanishes (p : polyT Q) : bool :=
    match poly_rings p with [] => true | e :: _ => ring_collapse_ok (line_vs e) end.
  Fixpoint mpoly_spec (ins outs : list (polyT Q)) : bool :=
    match ins with
    | [] => match outs with [] => true | _ => false end
    | i :: ins' =>
        match outs with
        | o :: outs' => (negb (poly_empty o) && poly_spec i o && mpoly_spec ins' outs')
                        || (poly_vanishes i && mpoly_spec ins' outs)
        | [] => poly_vanishes i && mpoly_spec ins' []
        end
    end.
  Fixpoint simp_spec (g o : geomT Q) : bool :=
    match g, o with
    | GPoint p, GPoint q => pointQ_eqb p q
    | GMPoint c ps, GMPoint d qs => ct_eqb c d && list_eqb pointQ_eqb ps qs
    | GLine l, GLine k => line_spec l k
    | GPoly p, GPoly q => poly_spec p q
    | GMLine c ls, GMLine d ks => ct_eqb c d && mline_spec ls ks
    | GMPoly c ps, GMPoly d qs => ct_eqb c d && mpoly_spec ps qs
    | GColl c gs, GColl d os =>
        ct_eqb c d && (fix go (l1 l2 : list (geomT Q)) : bool :=
                         match l1, l2 with
                         | [], [] => true
                         | x :: r, y :: s => simp_spec x y && go r s
                         | _, _ => false
                         end) gs os
    | _, _ => false
    end.
End SimpSpec.

Record simp_verdict := {
  mv_spec : bool;          (* observed (NoValidate) lines are subsequences with end points kept, dropped vertices within t *)
  mv_ct : bool;            (* coordinates type kept *)
  mv_ambiguous : bool;     (* a decision of the exact algorithm is within rounding of flipping *)
  mv_model : bool;         (* model output (NoValidate) = observed *)
  mv_hang : bool           (* today's code does not terminate on this input (negative threshold) *)
}.
Definition no_gate_p (_ : polyT Q) := true.
Definition no_gate_m (_ : list (polyT Q)) := true.
Definition simp_judge (g : geomT N) (tb : N) (out : geomT N) : option simp_verdict :=
  match geom_to_Q g, f64_to_Q tb, geom_to_Q out with
  | Some gq, Some t, Some oq =>
      let trel := t * (1 + eps9) + eps9 in
      Some {| mv_spec := simp_spec trel gq oq;
              mv_ct := ct_eqb (geom_ct gq) (geom_ct oq) && gtype_eqb (geom_type gq) (geom_type oq);
              mv_ambiguous := existsb (fun l => rdp_ambiguous t eps9 (eps12 * vs_scale (line_vs l)) (line_vs l)) (geom_lines gq);
              mv_model := match simplify_geom t no_gate_p no_gate_m false gq with
                          | Ok mq => geomQ_eqb mq oq
                          | _ => false
                          end;
              mv_hang := negb (Qle_bool 0 t) |}
  | _, _, _ => None
  end.

(* ================= InterpolatePoint / InterpolateEvenlySpacedPoints ================= *)
Record interp_verdict := {
  iv_finite : bool;        (* observed point has finite ordinates (or is empty for an empty line) *)
  iv_spec : bool;          (* on the line at arc-length fraction clamp(f), Z/M interpolated *)
  iv_near_break : bool;    (* target within rounding of a cumulative breakpoint *)
  iv_model : bool          (* model = observed up to rounding *)
}.
Definition res_close (vs : list qv) (m : option interp_res) (o : pointT Q) : bool :=
  match m, o with
  | None, MkPoint _ None => true
  | Some (IPoint v), MkPoint _ (Some w) => vclose eps9 (vs_scale vs) (vs_zscale vs) v w
  | _, _ => false
  end.
Definition interp_one (ct : ctype) (vs : list qv) (lens : list Q) (f : Q) (o : pointT Q) : interp_verdict :=
  let m := match vs with [] => None | _ => Some (interpolate_tab true vs lens f) end in
  let total := sumq lens in
  {| iv_finite := true;
     iv_spec := ct_eqb (point_ct o) ct &&
                match vs, o with
                | [], MkPoint _ None => true
                | _ :: _, MkPoint _ (Some p) => interp_spec_tab eps9 vs lens f p
                | _, _ => false
                end;
     iv_near_break := near_break eps9 (clamp01 f * total) total 0 lens;
     iv_model := res_close vs m o |}.
Definition bad_interp : interp_verdict :=
  {| iv_finite := false; iv_spec := false; iv_near_break := false; iv_model := false |}.
Definition interp_judge (l : geomT N) (fb : N) (out : geomT N) : option interp_verdict :=
  match geom_to_Q l, f64_to_Q fb with
  | Some (GLine (MkLine ct vs)), Some f =>
      match geom_to_Q out with
      | Some (GPoint o) => Some (interp_one ct vs (seg_lens qsqrt vs) f o)
      | _ => Some bad_interp
      end
  | _, _ => None
  end.
(* evenly spaced: one verdict per point, plus the count *)
Definition even_fracs (n : Z) : list Q :=
  if Z.leb n 0 then [] else if Z.eqb n 1 then [1 # 2] else fracs (n - 1) 0 (Z.to_nat n).
Definition even_judge (l : geomT N) (n : Z) (out : geomT N) : option (bool * list interp_verdict) :=
  match geom_to_Q l with
  | Some (GLine (MkLine ct vs)) =>
      match out with
      | GMPoint oct ps =>
          let fs := even_fracs n in
          let lens := seg_lens qsqrt vs in
          Some (Nat.eqb (length ps) (length fs) && ct_eqb oct ct,
                map (fun fp => match point_to_Q (snd fp) with
                               | Some o => interp_one ct vs lens (fst fp) o
                               | None => bad_interp
                               end) (combine fs ps))
      | _ => Some (false, [])
      end
  | _ => None
  end.

(* ================= SnapToGrid on whole geometries ================= *)
(* same shape; Z and M bit-identical; every X and Y satisfies the scalar contract *)
Definition snapg_vtx (dp : Z) (v w : vtx N) : bool * bool :=
  (N.eqb (vz v) (vz w) && N.eqb (vm v) (vm w),
   match f64_to_Q (vx v), f64_to_Q (vy v), f64_to_Q (vx w), f64_to_Q (vy w) with
   | Some x, Some y, Some x', Some y' =>
       snap_half_step_b eps12 x x' dp && snap_on_grid_b eps9 x' dp
       && snap_half_step_b eps12 y y' dp && snap_on_grid_b eps9 y' dp
   | _, _, _, _ => false
   end).
Definition snapg_judge (dp : Z) (g out : geomT N) : option (bool * bool * bool) :=
  match geom_to_Q g, geom_to_Q out with
  | Some gq, Some oq =>
      let vs := geom_vs g in
      let ws := geom_vs out in
      let pairs := map (fun p => snapg_vtx dp (fst p) (snd p)) (combine vs ws) in
      Some (same_shape_b gq oq && Nat.eqb (length vs) (length ws)
            && forall2b (fun l k => Nat.eqb (length (line_vs l)) (length (line_vs k))) (geom_lines gq) (geom_lines oq),
            forallb fst pairs, forallb snd pairs)
  | _, _ => None
  end.
