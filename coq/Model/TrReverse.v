(* Property C17 - Reverse, for every geometry type and every ordinate carrier F.
   Anchors: geom/type_sequence.go:Reverse (copies point i from point n-1-i, all ordinates of a
   point together), type_line_string.go:Reverse, type_polygon.go:Reverse (each ring, ring order
   kept), type_multi_*.go:Reverse (member order kept), type_point.go / type_multi_point.go:Reverse
   (identity), type_geometry_collection.go:Reverse (returned as is when IsEmpty, else members
   reversed in place), type_geometry.go:Reverse (dispatch). *)
From Coq Require Import List Bool.
From SF Require Import Base.GeomAST.
Import ListNotations.

Section Rev.
  Variable F : Type.
  (* type_sequence.go:Reverse + type_line_string.go:Reverse *)
  Definition rev_line (l : lineT F) : lineT F := let 'MkLine ct vs := l in MkLine ct (rev vs).
  (* type_polygon.go:Reverse *)
  Definition rev_poly (p : polyT F) : polyT F := let 'MkPoly ct rs := p in MkPoly ct (map rev_line rs).
  (* type_geometry.go:Reverse *)
  Fixpoint rev_geom (g : geomT F) : geomT F :=
    match g with
    | GPoint p => GPoint p
    | GLine l => GLine (rev_line l)
    | GPoly p => GPoly (rev_poly p)
    | GMPoint ct ps => GMPoint ct ps
    | GMLine ct ls => GMLine ct (map rev_line ls)
    | GMPoly ct ps => GMPoly ct (map rev_poly ps)
    | GColl ct gs => if is_empty (GColl ct gs) then GColl ct gs else GColl ct (map rev_geom gs)
    end.
End Rev.
Arguments rev_line {F} _. Arguments rev_poly {F} _. Arguments rev_geom {F} _.
