(* Property C17 - Simplify (Ramer-Douglas-Peucker as written: iterative, the far end of the
   current span is pulled back to the farthest vertex until every vertex of the span is within the
   threshold, then the span's end becomes the new start) over exact rationals.
   Anchors: geom/alg_simplify.go:ramerDouglasPeucker, perpendicularDistance;
   type_line_string.go:Simplify; type_polygon.go:Simplify; type_multi_line_string.go:Simplify;
   type_multi_polygon.go:Simplify; type_geometry_collection.go:Simplify; type_geometry.go:Simplify.
   Distances are compared through their squares (all quantities are >= 0): d > m  <->  d^2 > m^2. *)
From Coq Require Import ZArith QArith List Bool.
From SF Require Import Base.Outcome Base.GeomAST Model.TrCommon Model.TrForce.
Import ListNotations.

(* alg_simplify.go:perpendicularDistance, squared: the distance from p to the infinite line through
   a and b; when a and b coincide (XY), the distance from p to a *)
Definition pd2 (a b p : qv) : Q :=
  if xy_eqb a b then d2 a p else (cross3 a b p * cross3 a b p) / d2 a b.

Section RDP.
  Variable t : Q.   (* threshold *)
  (* maxDist <= threshold, on squares; false for a negative threshold (maxDist >= 0) *)
  Definition thr_ok (best2 : Q) : bool := Qle_bool 0 t && Qle_bool best2 (t * t).

  (* the scan "for i := start+1; i < newEnd; i++ { if d > maxDist { maxDistIdx, maxDist = i, d } }":
     strict comparison, so the first farthest vertex wins and vertices at distance 0 never win.
     Returns the maximum and the split  mids = pre ++ p :: suf  at the winner. *)
  Fixpoint scan_max (a b : qv) (pre mids : list qv) (best : Q) (bi : option (list qv * qv * list qv))
    : Q * option (list qv * qv * list qv) :=
    match mids with
    | [] => (best, bi)
    | p :: r =>
        let d := pd2 a b p in
        if Qltb best d then scan_max a b (pre ++ [p]) r d (Some (pre, p, r))
        else scan_max a b (pre ++ [p]) r best bi
    end.

  (* the inner "for { ... }": a = seq[start], mids = seq[start+1 .. newEnd-1], b = seq[newEnd],
     after = seq[newEnd+1 .. end]. Returns the final seq[newEnd] and what follows it.
     [fixed = false] is today's code: with no winner (maxDistIdx = 0) and a failed threshold test
     (possible only for a negative or NaN threshold) newEnd becomes 0 and the loop never ends (None).
     [fixed = true] breaks in that situation (fixes/F130.patch); both agree whenever 0 <= t. *)
  Fixpoint inner (fixed : bool) (fuel : nat) (a : qv) (mids : list qv) (b : qv) (after : list qv)
    : option (qv * list qv) :=
    match fuel with
    | O => None
    | S f =>
        match scan_max a b [] mids 0 None with
        | (best, bi) =>
            if thr_ok best then Some (b, after)
            else match bi with
                 | None => if fixed then Some (b, after) else None
                 | Some (pre, p, suf) => inner fixed f a pre p (suf ++ b :: after)
                 end
        end
    end.

  Fixpoint unsnoc {A} (l : list A) : option (list A * A) :=
    match l with
    | [] => None
    | [x] => Some ([], x)
    | x :: r => match unsnoc r with Some (m, e) => Some (x :: m, e) | None => None end
    end.

  (* the outer "for start < end": a = seq[start], tail = seq[start+1 .. end] *)
  Fixpoint outer (fixed : bool) (fuel : nat) (a : qv) (tail : list qv) : option (list qv) :=
    match fuel with
    | O => None
    | S f =>
        match unsnoc tail with
        | None => Some [a]                       (* start = end: append the end point *)
        | Some (mids, e) =>
            match inner fixed (S (length mids)) a mids e [] with
            | None => None
            | Some (b, after) =>
                match outer fixed f b after with
                | Some out => Some (a :: out)
                | None => None
                end
            end
        end
    end.

  (* alg_simplify.go:ramerDouglasPeucker *)
  Definition rdp_gen (fixed : bool) (vs : list qv) : option (list qv) :=
    match vs with
    | a :: (_ :: _ :: _) as tail => outer fixed (length vs) a tail
    | _ => Some vs                                (* seq.Length() <= 2: all points *)
    end.
  Definition rdp_unfixed := rdp_gen false.
  (* total version: the fixed code; equal to today's code for 0 <= t (Props: rdp_unfixed_agrees) *)
  Definition rdp (vs : list qv) : list qv :=
    match rdp_gen true vs with Some r => r | None => vs end.

  (* ---- the contract, as a relation between input and output vertex lists ---- *)
  Definition within (a b p : qv) : Prop := pd2 a b p <= t * t.
  (* out keeps the first and the last vertex, is a subsequence, and every dropped vertex lies
     within t of the line through the two retained vertices that bracket it *)
  Inductive RdpRel : list qv -> list qv -> Prop :=
  | RR_one : forall a, RdpRel [a] [a]
  | RR_step : forall a mids b rest out,
      Forall (within a b) mids -> RdpRel (b :: rest) (b :: out) ->
      RdpRel (a :: mids ++ b :: rest) (a :: b :: out).

  (* executable version of the same relation (backtracks over which copy of a repeated vertex
     was the retained one); vertices are compared by value (veqb: Qeq on all four ordinates) *)
  Definition within_b (a b p : qv) : bool := Qle_bool (pd2 a b p) (t * t).
  Fixpoint rr_scan (a : qv) (out : list qv) (inp : list qv) : bool :=
    match inp, out with
    | x :: r, b :: out' =>
        (veqb x b && match out' with [] => match r with [] => true | _ => false end
                                    | _ => rr_scan b out' r end)
        || (within_b a b x && rr_scan a out r)
    | _, _ => false
    end.
  (* what rdp_rel_b decides: RdpRel with "the same vertex" read as "equal ordinates" and the
     distances taken to the output's (retained) vertices *)
  Inductive RdpRelV : list qv -> list qv -> Prop :=
  | RV_one : forall a a', veqb a a' = true -> RdpRelV [a] [a']
  | RV_step : forall a a' mids b b' rest out,
      veqb a a' = true -> Forall (fun p => within_b a' b' p = true) mids ->
      RdpRelV (b :: rest) (b' :: out) ->
      RdpRelV (a :: mids ++ b :: rest) (a' :: b' :: out).

  Definition rdp_rel_b (inp out : list qv) : bool :=
    match inp, out with
    | [a], [a'] => veqb a a'
    | a :: r, a' :: (_ :: _) as out' => veqb a a' && rr_scan a' out' r
    | _, _ => false
    end.

  (* ---- geometry level ---- *)
  (* type_line_string.go:Validate over finite values: empty, or at least two distinct XY *)
  Definition line_valid_vs (vs : list qv) : bool :=
    match vs with
    | [] => true
    | a :: r => existsb (fun p => negb (xy_eqb p a)) r
    end.

  (* type_line_string.go:Simplify *)
  Definition simplify_line (l : lineT Q) : lineT Q :=
    let 'MkLine ct vs := l in
    let vs' := rdp vs in
    if line_valid_vs vs' then MkLine ct vs' else MkLine ct [].

  (* the validation gates (polygon and multipolygon validity are property C03's subject; here
     they are the code's own Validate call, abstract) *)
  Variable poly_valid : polyT Q -> bool.
  Variable mpoly_valid : list (polyT Q) -> bool.
  Variable validate : bool.   (* false: NoValidate{} was passed *)

  Definition collapsed (r : lineT Q) : bool := Nat.ltb (length (line_vs r)) 4.

  (* type_polygon.go:Simplify *)
  Definition simplify_poly (p : polyT Q) : outcome (polyT Q) :=
    let 'MkPoly ct rs := p in
    let ext := match rs with [] => MkLine ct [] | r :: _ => simplify_line r end in
    if collapsed ext then Ok (MkPoly ct [])
    else
      let holes := filter (fun r => negb (collapsed r)) (map simplify_line (tl rs)) in
      let simpl := new_polygon 0 (ext :: holes) in
      if validate then (if poly_valid simpl then Ok simpl else Err EValidate) else Ok simpl.

  Fixpoint omap_list {A B} (f : A -> outcome B) (l : list A) : outcome (list B) :=
    match l with
    | [] => Ok []
    | x :: r => match f x with
                | Ok y => match omap_list f r with Ok r' => Ok (y :: r') | Err e => Err e | Panic p => Panic p end
                | Err e => Err e
                | Panic p => Panic p
                end
    end.

  (* type_multi_line_string.go:Simplify *)
  Definition simplify_mline (ct : ctype) (ls : list (lineT Q)) : geomT Q :=
    let lss := filter (fun l => negb (line_empty l)) (map simplify_line ls) in
    force_geom 0 ct (new_multiline 0 lss).

  (* type_multi_polygon.go:Simplify *)
  Definition simplify_mpoly (ct : ctype) (ps : list (polyT Q)) : outcome (geomT Q) :=
    match omap_list simplify_poly ps with
    | Ok ps' =>
        let polys := filter (fun p => negb (poly_empty p)) ps' in
        let simpl := new_multipoly 0 polys in
        let polys' := match simpl with GMPoly _ qs => qs | _ => [] end in
        if validate && negb (mpoly_valid polys') then Err EValidate
        else Ok (force_geom 0 ct simpl)
    | Err e => Err e
    | Panic p => Panic p
    end.

  (* type_geometry.go:Simplify, type_geometry_collection.go:Simplify *)
  Fixpoint simplify_geom (g : geomT Q) : outcome (geomT Q) :=
    match g with
    | GPoint _ | GMPoint _ _ => Ok g
    | GLine l => Ok (GLine (simplify_line l))
    | GPoly p => match simplify_poly p with Ok p' => Ok (GPoly p') | Err e => Err e | Panic x => Panic x end
    | GMLine ct ls => Ok (simplify_mline ct ls)
    | GMPoly ct ps => simplify_mpoly ct ps
    | GColl ct gs =>
        match (fix go (l : list (geomT Q)) : outcome (list (geomT Q)) :=
                 match l with
                 | [] => Ok []
                 | x :: r => match simplify_geom x with
                             | Ok y => match go r with Ok r' => Ok (y :: r') | Err e => Err e | Panic p => Panic p end
                             | Err e => Err e
                             | Panic p => Panic p
                             end
                 end) gs with
        | Ok gs' => Ok (force_geom 0 ct (new_collection 0 gs'))
        | Err e => Err e
        | Panic p => Panic p
        end
    end.
End RDP.
