(* Property C17 - SnapToGrid, exact model over Q.
   Anchor: geom/snap_to_grid.go:snapToGridFloat64 - three paths (dp > 0: Round(f*10^dp)/10^dp,
   dp < 0: Round(f/10^-dp)*10^-dp, dp = 0: Round(f)); math.Round rounds half away from zero.
   The two float guards of the Go code (scaled value overflows: return the input; scaled value
   underflows to zero: return zero) have no counterpart in exact arithmetic: in the first case the
   input already is a grid point (a binary64 value f with |f|*10^dp > MaxFloat64 and dp <= 320 is an
   integer multiple of 10^-dp), in the second the exact rounding gives zero as well. The float
   implementation is tied to this model by the correspondence run, with the tolerance stated there. *)
From Coq Require Import ZArith QArith Qround Qabs Bool.

(* math.Round on exact values: nearest integer, halfway cases away from zero *)
Definition round_half_away (q : Q) : Z :=
  if Qle_bool 0 q then Qfloor (q + (1 # 2)) else (- Qfloor (- q + (1 # 2)))%Z.

Definition pow10 (p : positive) : Q := inject_Z (10 ^ Zpos p).

Definition snapQ (x : Q) (dp : Z) : Q :=
  match dp with
  | Zpos p => inject_Z (round_half_away (x * pow10 p)) / pow10 p
  | Zneg p => inject_Z (round_half_away (x / pow10 p)) * pow10 p
  | Z0 => inject_Z (round_half_away x)
  end.

(* the grid spacing 10^-dp *)
Definition grid_step (dp : Z) : Q :=
  match dp with
  | Zpos p => / pow10 p
  | Zneg p => pow10 p
  | Z0 => 1
  end.

(* ---- executable statement of the contract on an observed (input, output) pair of the float
   implementation; all arithmetic exact, eps_rel is the rounding allowance ---- *)
(* |y - x| <= step/2 * (1 + eps) + |x| * eps : "no ordinate moves by more than half a step (plus rounding)" *)
Definition snap_half_step_b (eps : Q) (x y : Q) (dp : Z) : bool :=
  Qle_bool (Qabs (y - x)) ((1 # 2) * grid_step dp * (1 + eps) + Qabs x * eps).
(* y is on the grid up to rounding: y/step is within eps*max(1,|y/step|) of an integer *)
Definition snap_on_grid_b (eps : Q) (y : Q) (dp : Z) : bool :=
  let s := y / grid_step dp in
  let k := round_half_away s in
  Qle_bool (Qabs (s - inject_Z k)) (eps * (if Qle_bool 1 (Qabs s) then Qabs s else 1)).
(* the exact model's answer is within the same allowance of the observed one *)
Definition snap_close_b (eps : Q) (x y : Q) (dp : Z) : bool :=
  Qle_bool (Qabs (y - snapQ x dp)) (grid_step dp * eps + Qabs x * eps).
