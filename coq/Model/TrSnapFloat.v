(* Property C17 - SnapToGrid on binary64 itself: a transcription of
   geom/snap_to_grid.go:snapToGridFloat64 with Coq's primitive floats (IEEE-754 binary64,
   round-to-nearest-even: the arithmetic the Go code runs on), evaluated by vm_compute.
   math.Pow10 is transcribed from Go's tables (math/pow10.go: pow10postab32[n/32] * pow10tab[n%32],
   +Inf above 308; decimal literals are rounded to the nearest binary64 by Go's compiler and by
   Coq's parser alike); math.Round from the reference formulation in math/floor.go
   ("t := Trunc(x); if Abs(x-t) >= 0.5 { return t + Copysign(1, x) }; return t").
   [fixed = false] is the code before fixes/F10.patch (guard "scaled > MaxFloat64"),
   [fixed = true] after it (guard "IsInf(scaled, 0) || IsNaN(scaled)"). *)
From Coq Require Import Floats ZArith Bool List.
Import ListNotations.
Open Scope float_scope.

Definition two52 : float := 0x1p52.
Definition max_float64 : float := 0x1.fffffffffffffp1023.
Definition f_is_nan (x : float) : bool := negb (x =? x).
Definition f_is_inf (x : float) : bool := abs x =? infinity.
Definition f_is_finite (x : float) : bool := negb (f_is_nan x) && negb (f_is_inf x).

(* math.Trunc *)
Definition f_trunc (x : float) : float :=
  let a := abs x in
  if a <? two52 then
    let t := (a + two52) - two52 in            (* nearest integer of a, exact *)
    let fl := if a <? t then t - 1 else t in   (* floor of a *)
    if x <? 0 then - fl else if x =? 0 then x else fl
  else x.

(* math.Round: half away from zero *)
Definition f_round (x : float) : float :=
  let t := f_trunc x in
  if 0.5 <=? abs (x - t) then (if x <? 0 then t - 1 else t + 1) else t.

(* math.Pow10 for n >= 0 *)
Definition pow10tab (i : Z) : float :=
  match i with
  | 0%Z => 1e0 | 1%Z => 1e1 | 2%Z => 1e2 | 3%Z => 1e3 | 4%Z => 1e4 | 5%Z => 1e5 | 6%Z => 1e6 | 7%Z => 1e7
  | 8%Z => 1e8 | 9%Z => 1e9 | 10%Z => 1e10 | 11%Z => 1e11 | 12%Z => 1e12 | 13%Z => 1e13 | 14%Z => 1e14
  | 15%Z => 1e15 | 16%Z => 1e16 | 17%Z => 1e17 | 18%Z => 1e18 | 19%Z => 1e19 | 20%Z => 1e20 | 21%Z => 1e21
  | 22%Z => 1e22 | 23%Z => 1e23 | 24%Z => 1e24 | 25%Z => 1e25 | 26%Z => 1e26 | 27%Z => 1e27 | 28%Z => 1e28
  | 29%Z => 1e29 | 30%Z => 1e30 | _ => 1e31
  end.
Definition pow10postab32 (i : Z) : float :=
  match i with
  | 0%Z => 1e0 | 1%Z => 1e32 | 2%Z => 1e64 | 3%Z => 1e96 | 4%Z => 1e128 | 5%Z => 1e160 | 6%Z => 1e192
  | 7%Z => 1e224 | 8%Z => 1e256 | _ => 1e288
  end.
Definition f_pow10 (n : Z) : float :=
  if (n <=? 308)%Z then pow10postab32 (n / 32) * pow10tab (n mod 32) else infinity.

(* geom/snap_to_grid.go:snapToGridFloat64 *)
Definition snap_f (fixed : bool) (f : float) (dp : Z) : float :=
  if (0 <? dp)%Z then
    let scale := f_pow10 dp in
    let scaled := f * scale in
    if (if fixed then f_is_inf scaled || f_is_nan scaled else max_float64 <? scaled) then f
    else f_round scaled / scale
  else if (dp <? 0)%Z then
    let scale := f_pow10 (- dp) in
    let scaled := f / scale in
    if scaled =? 0 then 0 else f_round scaled * scale
  else f_round f.

(* same binary64 value: equal and of the same sign (zeros), or both NaN *)
Definition f_same (a b : float) : bool :=
  (f_is_nan a && f_is_nan b) || ((a =? b) && ((1 / a) =? (1 / b))).

(* indices of the observed cases (dp, x, y) the model disagrees with *)
Fixpoint snapf_mismatches (fixed : bool) (i : Z) (cases : list (Z * (float * float))) : list Z :=
  match cases with
  | [] => []
  | (dp, (x, y)) :: r =>
      if f_same (snap_f fixed x dp) y then snapf_mismatches fixed (i + 1) r
      else i :: snapf_mismatches fixed (i + 1) r
  end.
