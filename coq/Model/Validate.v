(* Property C03 - model of geometry validation (DESIGN.md section 3, C03).
   Executable transcription of the Go validation code over exact arithmetic.  Ordinates are
   integers tagged with the float classes NaN / +Inf / -Inf ([ord]); after the finiteness checks
   every computation is done over Q (lattice inputs: every float product and sum of the Go code is
   exact for |c| <= 2^10; derived points - proper crossing points, midpoints - are exact rationals
   here and rounded doubles in Go, which only matters for equality tests between derived points).

   Abstractions, all stated here and exercised by the correspondence run:
   - every R-tree range search is replaced by the scan of all candidates (property C11 proves
     RangeSearch complete and exact; every callback below rejects box-disjoint pairs by itself);
   - rtree.Stop / early error returns only cut work: the accumulated state is absorbing
     ([IMulti], [simple = false]);
   - the envelope of the single intersection points seen so far (hasIntersectionBetweenLines) is
     represented by its three observable states: empty / one point / more than a point;
   - Go map iteration order (graph.hasCycle) is fixed to list order; [has_cycle_spec]
     (Proofs/Validate_proofs.v) shows the verdict does not depend on it;
   - the error value is projected to its rule class; the correspondence compares nil / non-nil.

   Two versions of the nested-ring probe exist: [nested_v0] is the code of the pinned tree
   (start vertex only; defect F3), [nested_v1] follows fixes/F3.patch.  [poly_validate] is the
   fixed algorithm, [poly_validate_v0] the pinned one. *)
From Coq Require Import QArith Qreduction List Bool ZArith Lia Arith.
From SF Require Import Base.QKernel.
Import ListNotations.
Open Scope Q_scope.

(* ---------------------------------------------------------------- ordinates and verdicts *)
Inductive ord := OFin (z : Z) | ONaN | OPInf | ONInf.
Definition oxy := (ord * ord)%type.

(* geom/errors.go: ruleViolation; RPanic marks states in which the Go code would panic
   (index out of range / explicit panic) - none is reachable, see Validate_proofs *)
Inductive rule :=
| RNaN | RInf | RTwoPoints | RRingEmpty | RRingClosed | RRingSimple | RRingNested
| RInteriorInExterior | RInteriorConnected | RRingsMultiTouch | RPolysMultiTouch | RPanic.
(* None = nil error = valid *)
Definition verdict := option rule.

Definition ord_is_nan (o : ord) : bool := match o with ONaN => true | _ => false end.
Definition ord_is_inf (o : ord) : bool := match o with OPInf | ONInf => true | _ => false end.

(* geom/xy.go:validate *)
Definition xy_validate (p : oxy) : verdict :=
  if ord_is_nan (fst p) || ord_is_nan (snd p) then Some RNaN
  else if ord_is_inf (fst p) || ord_is_inf (snd p) then Some RInf
  else None.

(* geom/type_sequence.go:validate - the first failing XY decides *)
Fixpoint seq_validate (vs : list oxy) : verdict :=
  match vs with
  | [] => None
  | v :: r => match xy_validate v with Some e => Some e | None => seq_validate r end
  end.

(* the exact value of a finite ordinate *)
Definition ord_q (o : ord) : option Q := match o with OFin z => Some (inject_Z z) | _ => None end.
Definition oxy_pt (p : oxy) : option pt :=
  match ord_q (fst p), ord_q (snd p) with Some x, Some y => Some (x, y) | _, _ => None end.
Fixpoint fin_pts (vs : list oxy) : option (list pt) :=
  match vs with
  | [] => Some []
  | v :: r => match oxy_pt v, fin_pts r with Some p, Some ps => Some (p :: ps) | _, _ => None end
  end.

(* ---------------------------------------------------------------- kernel as written in Go *)
(* geom/alg_orientation.go:orientation  cp = (q-p) x (s-q); Gt = leftTurn, Eq = collinear, Lt = rightTurn *)
Definition orientation (p q s : pt) : comparison :=
  qsgn ((fst q - fst p) * (snd s - snd q) - (snd q - snd p) * (fst s - fst q)).
Definition is_eq (c : comparison) : bool := match c with Eq => true | _ => false end.
Definition is_lt (c : comparison) : bool := match c with Lt => true | _ => false end.
Definition cmp_eqb (a b : comparison) : bool :=
  match a, b with Eq, Eq | Lt, Lt | Gt, Gt => true | _, _ => false end.

(* geom/xy.go:Less *)
Definition xy_less (p q : pt) : bool :=
  if Qeq_bool (fst p) (fst q) then qltb (snd p) (snd q) else qltb (fst p) (fst q).

(* geom/line.go:onSegment - bounding box test (all three points are collinear at the call sites) *)
Definition on_segment_bb (p q r : pt) : bool :=
  qbetween (fst p) (fst q) (fst r) && qbetween (snd p) (snd q) (snd r).

(* geom/line.go:rightmostThenHighestIndex / leftmostThenLowestIndex: index of the first maximum /
   minimum in the lexicographic order *)
Definition xy_gt (best p : pt) : bool :=      (* ps[i].X > ps[rpi].X || (ps[i].X == ps[rpi].X && ps[i].Y > ps[rpi].Y) *)
  qltb (fst best) (fst p) || (Qeq_bool (fst p) (fst best) && qltb (snd best) (snd p)).
Fixpoint rth_from (best : pt) (besti i : nat) (ps : list pt) : nat :=
  match ps with
  | [] => besti
  | p :: r => if xy_gt best p then rth_from p i (S i) r else rth_from best besti (S i) r
  end.
Definition rightmost_then_highest_index (ps : list pt) : nat :=
  match ps with [] => O | p :: r => rth_from p 0 1 r end.
Fixpoint ltl_from (best : pt) (besti i : nat) (ps : list pt) : nat :=
  match ps with
  | [] => besti
  | p :: r => if xy_less p best then ltl_from p i (S i) r else ltl_from best besti (S i) r
  end.
Definition leftmost_then_lowest_index (ps : list pt) : nat :=
  match ps with [] => O | p :: r => ltl_from p 0 1 r end.
Fixpoint remove_nth {A} (i : nat) (l : list A) : list A :=
  match l, i with
  | [], _ => []
  | _ :: r, O => r
  | x :: r, S k => x :: remove_nth k r
  end.

(* geom/line.go:lineWithLineIntersection *)
Inductive il := ILEmpty | ILSome (a b : pt).

(* geom/line.go:intersectLine, the block for four collinear end points: empty when no end point
   lies in the bounding box of the other line; otherwise the two points that remain when the
   rightmost-then-highest and then the leftmost-then-lowest are removed *)
Definition collinear_intersection (a b c d : pt) : il :=
  if negb (on_segment_bb a b c) && negb (on_segment_bb a b d)
     && negb (on_segment_bb c d a) && negb (on_segment_bb c d b)
  then ILEmpty
  else
    let pts := [a; b; c; d] in
    let pts := remove_nth (rightmost_then_highest_index pts) pts in
    let pts := remove_nth (leftmost_then_lowest_index pts) pts in
    match pts with
    | x :: y :: _ => ILSome x y
    | _ => ILEmpty          (* dead: two of four points always remain *)
    end.

(* geom/line.go:intersectLine (both lines non-degenerate: the invariant of type line) *)
Definition intersect_line (l1 l2 : seg) : il :=
  let '(a, b) := l1 in
  let '(c, d) := l2 in
  let o1 := orientation a b c in
  let o2 := orientation a b d in
  let o3 := orientation c d a in
  let o4 := orientation c d b in
  if negb (cmp_eqb o1 o2) && negb (cmp_eqb o3 o4) then
    if is_eq o1 then ILSome c c
    else if is_eq o2 then ILSome d d
    else if is_eq o3 then ILSome a a
    else if is_eq o4 then ILSome b b
    else
      let e := (snd c - snd d) * (fst a - fst c) + (fst d - fst c) * (snd a - snd c) in
      let f := (fst d - fst c) * (snd a - snd b) - (fst a - fst b) * (snd d - snd c) in
      let p := e / f in
      let x := (Qred ((fst b - fst a) * p + fst a), Qred ((snd b - snd a) * p + snd a)) in
      ILSome x x
  else if is_eq o1 && is_eq o2 then collinear_intersection a b c d
  else ILEmpty.

(* geom/type_sequence.go:getLine over all i, keeping the valid ones = LineString.asLines *)
Fixpoint as_lines (ps : list pt) : list seg :=
  match ps with
  | a :: ((b :: _) as r) => if pt_eqb a b then as_lines r else (a, b) :: as_lines r
  | _ => []
  end.

(* ---------------------------------------------------------------- LineString *)
(* geom/type_line_string.go:hasAtLeast2DistinctPointsInSeq (finite ordinates) *)
Definition has_2_distinct (ps : list pt) : bool :=
  match ps with
  | [] => false
  | first :: r => existsb (fun p => negb (pt_eqb p first)) r
  end.

Definition nonfinite_rule (vs : list oxy) : rule :=
  match seq_validate vs with Some e => e | None => RPanic end.

(* geom/type_line_string.go:Validate.  [fin_pts vs = None] iff seq.validate fails
   (lemma fin_pts_seq_validate) *)
Definition ls_validate (vs : list oxy) : verdict :=
  match vs with
  | [] => None
  | _ =>
      match fin_pts vs with
      | None => Some (nonfinite_rule vs)
      | Some ps => if has_2_distinct ps then None else Some RTwoPoints
      end
  end.

(* geom/type_line_string.go:IsClosed *)
Definition is_closed (ps : list pt) : bool :=
  match ps with
  | [] => false
  | a :: _ => pt_eqb a (last ps a)
  end.

(* geom/type_line_string.go:IsSimple, in terms of the list of valid lines: previousLine/nextLine
   of a valid line are its neighbours in that list, first/last are its ends
   ([is_simple_idx] below is the index-walking transcription; the driver runs both). *)
Definition pair_simple (closed : bool) (m k l : nat) (sk sl : seg) : bool :=
  match intersect_line sk sl with
  | ILEmpty => true
  | ILSome pa pb =>
      if negb (pt_eqb pa pb) then false                      (* overlapping segments *)
      else if Nat.eqb l (S k) then true                      (* j == next *)
      else if closed && Nat.eqb k 0 && Nat.eqb (S l) m then true   (* first and last of a closed line *)
      else false
  end.
Fixpoint simple_against (closed : bool) (m k l : nat) (sk : seg) (rest : list seg) : bool :=
  match rest with
  | [] => true
  | sl :: r => pair_simple closed m k l sk sl && simple_against closed m k (S l) sk r
  end.
Fixpoint simple_from (closed : bool) (m k : nat) (L : list seg) : bool :=
  match L with
  | [] => true
  | sk :: r => simple_against closed m k (S k) sk r && simple_from closed m (S k) r
  end.
Definition is_simple (ps : list pt) : bool :=
  let L := as_lines ps in simple_from (is_closed ps) (length L) 0 L.

(* geom/type_line_string.go:IsRing *)
Definition is_ring (ps : list pt) : bool := is_closed ps && is_simple ps.

(* ---- index-walking transcription of IsSimple (getLine / firstAndLastLines / previousLine /
   nextLine exactly as in type_sequence.go) *)
Definition get_line (ps : list pt) (i : nat) : option seg :=
  match i with
  | O => None
  | S k => match nth_error ps k, nth_error ps i with
           | Some a, Some b => if pt_eqb a b then None else Some (a, b)
           | _, _ => None
           end
  end.
Definition first_line (ps : list pt) : option nat :=
  find (fun i => match get_line ps i with Some _ => true | None => false end) (seq 1 (length ps - 1)).
Definition last_line (ps : list pt) : option nat :=
  find (fun i => match get_line ps i with Some _ => true | None => false end) (rev (seq 1 (length ps - 1))).
Fixpoint previous_line (ps : list pt) (i : nat) : option nat :=
  match i with
  | O => None
  | S k => match get_line ps k with Some _ => Some k | None => previous_line ps k end
  end.
Fixpoint next_line_fuel (ps : list pt) (fuel i : nat) : option nat :=
  match fuel with
  | O => None
  | S f => match get_line ps i with Some _ => Some i | None => next_line_fuel ps f (S i) end
  end.
Definition next_line (ps : list pt) (i : nat) : option nat := next_line_fuel ps (length ps - S i) (S i).
Definition opt_nat_eqb (o : option nat) (j : nat) : bool :=
  match o with Some k => Nat.eqb k j | None => false end.
Definition is_simple_idx (ps : list pt) : bool :=
  match first_line ps, last_line ps with
  | Some first, Some last =>
      let n := length ps in
      forallb (fun i =>
        match get_line ps i with
        | None => true
        | Some ln =>
            let prev := previous_line ps i in
            let next := next_line ps i in
            forallb (fun j =>
              if Nat.leb j i then true else
              match get_line ps j with
              | None => true
              | Some other =>
                  match intersect_line ln other with
                  | ILEmpty => true
                  | ILSome pa pb =>
                      if negb (pt_eqb pa pb) then false
                      else if opt_nat_eqb prev j || opt_nat_eqb next j then true
                      else if is_closed ps && Nat.eqb i first && Nat.eqb j last then true
                      else false
                  end
              end) (seq 0 n)
        end) (seq 0 n)
  | _, _ => true
  end.

(* ---------------------------------------------------------------- point against ring *)
Inductive side := SInterior | SBoundary | SExterior.
Definition side_eqb (a b : side) : bool :=
  match a, b with
  | SInterior, SInterior | SBoundary, SBoundary | SExterior, SExterior => true
  | _, _ => false
  end.

(* geom/alg_point_in_ring.go:hasCrossing  (crossing, onLine) *)
Definition has_crossing (p : pt) (ln : seg) : bool * bool :=
  let '(a, b) := ln in
  let '(lower, upper) := if qltb (snd b) (snd a) then (b, a) else (a, b) in
  let o := orientation lower upper p in
  (Qle_bool (snd lower) (snd p) && qltb (snd p) (snd upper) && is_lt o,
   on_segment_bb a b p && is_eq o).

(* geom/alg_point_in_ring.go:relatePointToRing and relatePointToPolygon: the same scan over the
   valid lines of one ring / of all rings of a polygon (parity of crossings; boundary wins) *)
Fixpoint relate_lines (p : pt) (ls : list seg) (odd : bool) : side :=
  match ls with
  | [] => if odd then SInterior else SExterior
  | ln :: r =>
      let '(cr, on) := has_crossing p ln in
      if on then SBoundary else relate_lines p r (xorb odd cr)
  end.
Definition relate_point_to_ring (p : pt) (ring : list pt) : side := relate_lines p (as_lines ring) false.

(* ---------------------------------------------------------------- line set against line set *)
(* geom/alg_intersects.go:hasIntersectionBetweenLines with populateExtension: the envelope of the
   intersection points, as its three observable states *)
Inductive isum := INone | ISingle (p : pt) | IMulti.
Definition isum_step (acc : isum) (la lb : seg) : isum :=
  match acc with
  | IMulti => IMulti
  | _ =>
    match intersect_line la lb with
    | ILEmpty => acc
    | ILSome pa pb =>
        if negb (pt_eqb pa pb) then IMulti
        else match acc with
             | INone => ISingle pa
             | ISingle q => if pt_eqb q pa then ISingle q else IMulti
             | IMulti => IMulti
             end
    end
  end.
Definition inter_summary (l1 l2 : list seg) : isum :=
  fold_left (fun acc la => fold_left (fun acc' lb => isum_step acc' la lb) l1 acc) l2 INone.

(* ---------------------------------------------------------------- touch graph (geom/graph.go) *)
Definition graph := list (nat * nat).
Definition nat_mem (x : nat) (l : list nat) : bool := existsb (Nat.eqb x) l.
Fixpoint nat_nodup (l : list nat) : list nat :=
  match l with
  | [] => []
  | x :: r => if nat_mem x r then nat_nodup r else x :: nat_nodup r
  end.
Definition g_vertices (g : graph) : list nat := nat_nodup (flat_map (fun e => [fst e; snd e]) g).
Definition g_adj (g : graph) (v : nat) : list nat :=
  nat_nodup (flat_map (fun e => if Nat.eqb (fst e) v then [snd e]
                                else if Nat.eqb (snd e) v then [fst e] else []) g).
Definition nat_remove (x : nat) (l : list nat) : list nat := filter (fun y => negb (Nat.eqb x y)) l.

(* graph.go:dfsHasCycle.  [visited] is the current DFS path (the Go code deletes v from it on the
   way back), [unvisited] is global.  Returns (cycle found, unvisited afterwards).
   [dfs_nbs] is the loop over the neighbours of v; [rec] is the recursive call. *)
Fixpoint dfs_nbs (rec : nat -> list nat -> bool * list nat) (parent : option nat)
                 (visited' : list nat) (nbs unv : list nat) : bool * list nat :=
  match nbs with
  | [] => (false, unv)
  | nb :: rest =>
      if opt_nat_eqb parent nb then dfs_nbs rec parent visited' rest unv
      else if nat_mem nb visited' then (true, unv)
      else let '(b, unv2) := rec nb unv in
           if b then (true, unv2) else dfs_nbs rec parent visited' rest unv2
  end.
Fixpoint dfs (g : graph) (fuel : nat) (parent : option nat) (v : nat)
             (visited unvisited : list nat) : bool * list nat :=
  match fuel with
  | O => (false, unvisited)
  | S f =>
      let visited' := v :: visited in
      dfs_nbs (fun nb u => dfs g f (Some v) nb visited' u) parent visited'
              (g_adj g v) (nat_remove v unvisited)
  end.
Fixpoint cycle_loop (g : graph) (fuel : nat) (todo unv : list nat) : bool :=
  match todo with
  | [] => false
  | v :: r =>
      if nat_mem v unv then
        let '(b, unv') := dfs g fuel None v [] unv in
        if b then true else cycle_loop g fuel r unv'
      else cycle_loop g fuel r unv
  end.
(* graph.go:hasCycle *)
Definition has_cycle (g : graph) : bool :=
  let vs := g_vertices g in cycle_loop g (S (length vs)) vs vs.

(* ---------------------------------------------------------------- Polygon *)
(* geom/type_polygon.go:validateRing on finite points (the LineString.Validate part on raw
   ordinates is [ring_check] below) *)
Definition ring_geom_validate (ps : list pt) : verdict :=
  if negb (has_2_distinct ps) then Some RTwoPoints
  else if negb (is_closed ps) then Some RRingClosed
  else if negb (is_simple ps) then Some RRingSimple
  else None.

Definition ring_check (r : list oxy) : rule + list pt :=
  match r with
  | [] => inl RRingEmpty
  | _ => match fin_pts r with
         | None => inl (nonfinite_rule r)
         | Some ps => match ring_geom_validate ps with Some e => inl e | None => inr ps end
         end
  end.
Fixpoint rings_check (rs : list (list oxy)) : rule + list (list pt) :=
  match rs with
  | [] => inr []
  | r :: rest =>
      match ring_check r with
      | inl e => inl e
      | inr ps => match rings_check rest with inl e => inl e | inr pss => inr (ps :: pss) end
      end
  end.

(* nested-ring probe of the pinned tree: start vertices only (type_polygon.go:Validate, lines 89-99) *)
Definition nested_v0 (ri rj : list pt) : option bool :=
  match ri, rj with
  | istart :: _, jstart :: _ =>
      Some (side_eqb (relate_point_to_ring istart rj) SInterior
            || side_eqb (relate_point_to_ring jstart ri) SInterior)
  | _, _ => None                                   (* GetXY(0) on an empty ring: panic *)
  end.
(* probe after fixes/F3.patch: the first vertex that is not on the other ring decides *)
Fixpoint first_off_boundary (vs : list pt) (other : list seg) : side :=
  match vs with
  | [] => SBoundary
  | v :: r => match relate_lines v other false with
              | SBoundary => first_off_boundary r other
              | s => s
              end
  end.
Definition nested_v1 (ri rj : list pt) : option bool :=
  match ri, rj with
  | _ :: _, _ :: _ =>
      Some (side_eqb (first_off_boundary ri (as_lines rj)) SInterior
            || side_eqb (first_off_boundary rj (as_lines ri)) SInterior)
  | _, _ => None
  end.

Record pstate := MkPS { ps_next : nat; ps_ivs : list (pt * nat); ps_edges : graph }.
Fixpoint lookup_pt (p : pt) (d : list (pt * nat)) : option nat :=
  match d with
  | [] => None
  | (q, k) :: r => if pt_eqb q p then Some k else lookup_pt p r
  end.

Section PolygonValidate.
  Variable nested : list pt -> list pt -> option bool.

  (* the callback of the range search for the pair (i, j), j < i *)
  Definition pair_step (i j : nat) (ri rj : list pt) (st : pstate) : rule + pstate :=
    match (if Nat.ltb 0 i && Nat.ltb 0 j then nested ri rj else Some false) with
    | None => inl RPanic
    | Some true => inl RRingNested
    | Some false =>
        match inter_summary (as_lines ri) (as_lines rj) with
        | INone => inr st
        | IMulti => inl RRingsMultiTouch
        | ISingle p =>
            let '(iv, next, ivs) :=
              match lookup_pt p (ps_ivs st) with
              | Some k => (k, ps_next st, ps_ivs st)
              | None => (ps_next st, S (ps_next st), (p, ps_next st) :: ps_ivs st)
              end in
            inr (MkPS next ivs ((iv, j) :: (iv, i) :: ps_edges st))
        end
    end.
  Fixpoint loop_j (i : nat) (ri : list pt) (below : list (nat * list pt)) (st : pstate) : rule + pstate :=
    match below with
    | [] => inr st
    | (j, rj) :: r =>
        match pair_step i j ri rj st with
        | inl e => inl e
        | inr st' => loop_j i ri r st'
        end
    end.
  Fixpoint loop_i (i : nat) (below : list (nat * list pt)) (rest : list (list pt)) (st : pstate) : rule + pstate :=
    match rest with
    | [] => inr st
    | ri :: r =>
        match loop_j i ri below st with
        | inl e => inl e
        | inr st' => loop_i (S i) (below ++ [(i, ri)]) r st'
        end
    end.

  (* the hole-in-shell probe loop (type_polygon.go:Validate, lines 127-140): true = no violation *)
  Fixpoint hole_in_shell (shell : list seg) (vs : list pt) : bool :=
    match vs with
    | [] => true
    | v :: r => match relate_lines v shell false with
                | SExterior => false
                | SInterior => true
                | SBoundary => hole_in_shell shell r
                end
    end.

  (* geom/type_polygon.go:Validate after the rings have been validated one by one *)
  Definition poly_geom_validate (rings : list (list pt)) : verdict :=
    match rings with
    | [] => None
    | shell :: holes =>
        match loop_i 0 [] rings (MkPS (length rings) [] []) with
        | inl e => Some e
        | inr st =>
            if negb (forallb (hole_in_shell (as_lines shell)) holes) then Some RInteriorInExterior
            else if has_cycle (ps_edges st) then Some RInteriorConnected
            else None
        end
    end.

  Definition poly_validate_with (rs : list (list oxy)) : verdict :=
    match rs with
    | [] => None
    | _ => match rings_check rs with
           | inl e => Some e
           | inr rings => poly_geom_validate rings
           end
    end.
End PolygonValidate.

Definition poly_validate_v0 := poly_validate_with nested_v0.     (* pinned tree *)
Definition poly_validate := poly_validate_with nested_v1.        (* after fixes/F3.patch *)

(* ---------------------------------------------------------------- MultiPolygon *)
(* Polygon.Boundary().asLines() *)
Definition poly_lines (rings : list (list pt)) : list seg := flat_map as_lines rings.

(* geom/alg_intersection.go:intersectionOfIndexedLines, projected to (some point part, some line part) *)
Definition boundary_inter (b1 b2 : list seg) : bool * bool :=
  fold_left (fun acc la => fold_left (fun acc' lb =>
      match intersect_line la lb with
      | ILEmpty => acc'
      | ILSome pa pb => if pt_eqb pa pb then (true, snd acc') else (fst acc', true)
      end) b2 acc) b1 (false, false).

(* geom/util.go:sortAndUniquifyXYs *)
Fixpoint xy_insert (p : pt) (l : list pt) : list pt :=
  match l with
  | [] => [p]
  | q :: r => if xy_less q p then q :: xy_insert p r else p :: l
  end.
Fixpoint xy_uniq (l : list pt) : list pt :=
  match l with
  | a :: ((b :: _) as r) => if pt_eqb a b then xy_uniq r else a :: xy_uniq r
  | _ => l
  end.
Definition sort_uniq_xys (l : list pt) : list pt := xy_uniq (fold_right xy_insert [] l).

Definition midpoint (a b : pt) : pt := (Qred ((fst a + fst b) * (1 # 2)), Qred ((snd a + snd b) * (1 # 2))).
Fixpoint midpoints (l : list pt) : list pt :=
  match l with
  | a :: ((b :: _) as r) => midpoint a b :: midpoints r
  | _ => []
  end.

(* geom/type_multi_polygon.go:validatePolyNotInsidePoly *)
Fixpoint inter_pts_with (p1 : list seg) (l2 : seg) : option (list pt) :=
  match p1 with
  | [] => Some []
  | l1 :: r =>
      match intersect_line l1 l2 with
      | ILEmpty => inter_pts_with r l2
      | ILSome pa pb =>
          if pt_eqb pa pb then match inter_pts_with r l2 with Some l => Some (pa :: l) | None => None end
          else None                                     (* explicit panic in the Go code *)
      end
  end.
Fixpoint poly_not_inside_poly (p1 p2 : list seg) : verdict :=
  match p2 with
  | [] => None
  | l2 :: r =>
      match inter_pts_with p1 l2 with
      | None => Some RPanic
      | Some [] => poly_not_inside_poly p1 r
      | Some pts =>
          let pts := sort_uniq_xys (pts ++ [fst l2; snd l2]) in
          if existsb (fun m => side_eqb (relate_lines m p1 false) SInterior) (midpoints pts)
          then Some RPolysMultiTouch
          else poly_not_inside_poly p1 r
      end
  end.

(* the callback of checkMultiPolygonConstraints for the pair (i, j) of non-empty polygons *)
Definition mpoly_pair (pi pj : list (list pt)) : verdict :=
  let bi := poly_lines pi in
  let bj := poly_lines pj in
  let '(has_pt, has_ls) := boundary_inter bi bj in
  if has_ls then Some RPolysMultiTouch
  else if negb has_pt then
    (* fast case: one probe each way *)
    match pi, pj with
    | (istart :: _) :: _, (jstart :: _) :: _ =>
        if negb (side_eqb (relate_lines istart bj false) SExterior) then Some RPolysMultiTouch
        else if negb (side_eqb (relate_lines jstart bi false) SExterior) then Some RPolysMultiTouch
        else None
    | _, _ => Some RPanic
    end
  else
    match poly_not_inside_poly bi bj with
    | Some e => Some e
    | None => poly_not_inside_poly bj bi
    end.
Fixpoint mpoly_against (pi : list (list pt)) (below : list (list (list pt))) : verdict :=
  match below with
  | [] => None
  | pj :: r =>
      match pj with
      | [] => mpoly_against pi r                     (* empty polygons are not in the tree *)
      | _ => match mpoly_pair pi pj with Some e => Some e | None => mpoly_against pi r end
      end
  end.
Fixpoint mpoly_constraints (below rest : list (list (list pt))) : verdict :=
  match rest with
  | [] => None
  | pi :: r =>
      match (match pi with [] => None | _ => mpoly_against pi below end) with
      | Some e => Some e
      | None => mpoly_constraints (below ++ [pi]) r
      end
  end.

Section MultiPolygonValidate.
  Variable nested : list pt -> list pt -> option bool.
  (* each polygon validated, keeping its finite rings *)
  Fixpoint polys_check (ps : list (list (list oxy))) : rule + list (list (list pt)) :=
    match ps with
    | [] => inr []
    | p :: rest =>
        match p with
        | [] => match polys_check rest with inl e => inl e | inr l => inr ([] :: l) end
        | _ =>
          match rings_check p with
          | inl e => inl e
          | inr rings =>
              match poly_geom_validate nested rings with
              | Some e => inl e
              | None => match polys_check rest with inl e => inl e | inr l => inr (rings :: l) end
              end
          end
        end
    end.
  (* geom/type_multi_polygon.go:Validate *)
  Definition mpoly_validate_with (ps : list (list (list oxy))) : verdict :=
    match polys_check ps with
    | inl e => Some e
    | inr polys => mpoly_constraints [] polys
    end.
End MultiPolygonValidate.

(* ---------------------------------------------------------------- all types *)
Inductive vgeom :=
| VPoint (p : option oxy)
| VLine (vs : list oxy)
| VPoly (rs : list (list oxy))
| VMPoint (ps : list (option oxy))
| VMLine (ls : list (list oxy))
| VMPoly (ps : list (list (list oxy)))
| VColl (gs : list vgeom).

(* geom/type_point.go:Validate *)
Definition point_validate (p : option oxy) : verdict :=
  match p with None => None | Some c => xy_validate c end.

Fixpoint first_err {A} (f : A -> verdict) (l : list A) : verdict :=
  match l with
  | [] => None
  | x :: r => match f x with Some e => Some e | None => first_err f r end
  end.

Section Validate.
  Variable nested : list pt -> list pt -> option bool.
  (* geom/type_geometry.go:Validate and the Validate methods of the seven types *)
  Fixpoint validate_with (g : vgeom) : verdict :=
    match g with
    | VPoint p => point_validate p
    | VLine vs => ls_validate vs
    | VPoly rs => poly_validate_with nested rs
    | VMPoint ps => first_err point_validate ps
    | VMLine ls => first_err ls_validate ls
    | VMPoly ps => mpoly_validate_with nested ps
    | VColl gs => (fix go (l : list vgeom) : verdict :=
                     match l with
                     | [] => None
                     | x :: r => match validate_with x with Some e => Some e | None => go r end
                     end) gs
    end.
End Validate.
Definition validate_v0 := validate_with nested_v0.
Definition validate := validate_with nested_v1.

Definition is_valid (g : vgeom) : bool := match validate g with None => true | Some _ => false end.
Definition is_valid_v0 (g : vgeom) : bool := match validate_v0 g with None => true | Some _ => false end.

(* ---------------------------------------------------------------- representation changes *)
(* a closed vertex list started at its next vertex: drop the first vertex, close with the new
   first one; started at its k-th vertex: k such steps *)
Definition rot1 {A} (r : list A) : list A :=
  match r with
  | _ :: ((b :: _) as t) => t ++ [b]
  | _ => r
  end.
Definition rotate_ring {A} (k : nat) (r : list A) : list A := Nat.iter k rot1 r.
Definition reverse_ring {A} (r : list A) : list A := rev r.
