(* Property C03 - the reference statement [ogc_valid]: an executable, definitional reading of the
   OGC validity rules, written against the exact kernel (QKernel.seg_seg, on_seg) and the point-set
   semantics of Base/Planar.v (crossing parity, slab arrangement).  It shares no code with the
   algorithmic model in Model/Validate.v except the ordinate type and the conversion to Q:
   - no special-purpose probes: containment is tested at ALL vertices and edge midpoints;
   - ring simplicity is the definition (two segments share a point only if they are consecutive
     and the point is their common end, or they are the first and last segment of a closed line
     and the point is the closing vertex);
   - two rings share at most one point (exact intersection sets);
   - interior connectedness is decided on the faces of the exact arrangement (Planar_C03);
   - MultiPolygon: boundaries share no segment piece, interiors share no arrangement cell. *)
From Coq Require Import QArith Qreduction List Bool ZArith Lia Arith.
From SF Require Import Base.GeomAST Base.QKernel Base.Planar Base.Planar_C03 Model.Validate.
Import ListNotations.
Open Scope Q_scope.

(* consecutive repeated vertices removed (they do not change the curve) *)
Fixpoint dedup_consec (ps : list pt) : list pt :=
  match ps with
  | a :: ((b :: _) as r) => if pt_eqb a b then dedup_consec r else a :: dedup_consec r
  | _ => ps
  end.

Definition distinct_2 (ps : list pt) : bool :=
  existsb (fun p => existsb (fun q => negb (pt_eqb p q)) ps) ps.

Definition closed_def (ps : list pt) : bool :=
  match ps with [] => false | a :: _ => pt_eqb a (last ps a) end.

(* two segments of the curve, at positions k < l of its m segments *)
Definition seg_pair_ok (closed : bool) (m k l : nat) (sk sl : seg) : bool :=
  match seg_seg sk sl with
  | SSEmpty => true
  | SSOverlap _ _ => false
  | SSPoint p =>
      (Nat.eqb l (S k) && pt_eqb p (snd sk))
      || (closed && Nat.eqb k 0 && Nat.eqb (S l) m && pt_eqb p (fst sk))
  end.
Fixpoint pairs_ok_from (closed : bool) (m k : nat) (L : list seg) : bool :=
  match L with
  | [] => true
  | sk :: r =>
      forallb (fun jl => seg_pair_ok closed m k (fst jl) sk (snd jl)) (index_from (S k) r)
      && pairs_ok_from closed m (S k) r
  end.
Definition simple_def (ps : list pt) : bool :=
  let L := ring_edges (dedup_consec ps) in
  pairs_ok_from (closed_def ps) (length L) 0 L.

(* a linear ring: at least two distinct points, closed, simple *)
Definition ring_def (ps : list pt) : bool := distinct_2 ps && closed_def ps && simple_def ps.

(* all common points of two rings (as lists of points, with repetition); None = they share a
   piece of positive length *)
Fixpoint common_points (A B : list seg) : option (list pt) :=
  match A with
  | [] => Some []
  | s :: r =>
      match common_points r B with
      | None => None
      | Some acc =>
          fold_left (fun o t =>
            match o with
            | None => None
            | Some l => match seg_seg s t with
                        | SSEmpty => Some l
                        | SSPoint p => Some (p :: l)
                        | SSOverlap _ _ => None
                        end
            end) B (Some acc)
      end
  end.
Definition at_most_one_point (l : list pt) : bool :=
  match l with [] => true | p :: r => forallb (pt_eqb p) r end.
Definition rings_touch_ok (A B : list seg) : bool :=
  match common_points A B with None => false | Some l => at_most_one_point l end.

Fixpoint all_pairs {A} (f : A -> A -> bool) (l : list A) : bool :=
  match l with
  | [] => true
  | x :: r => forallb (f x) r && all_pairs f r
  end.

(* vertices and edge midpoints of a ring *)
Definition probe_points (ps : list pt) : list pt :=
  ps ++ map (fun s => (qmid (fst (fst s)) (fst (snd s)), qmid (snd (fst s)) (snd (snd s)))) (ring_edges ps).

Definition edges_of (ps : list pt) : list seg := ring_edges (dedup_consec ps).

(* a polygon given by its rings (finite points, shell first) *)
Definition poly_def (rings : list (list pt)) : bool :=
  match rings with
  | [] => true
  | shell :: holes =>
      forallb ring_def rings
      && all_pairs (fun a b => rings_touch_ok (edges_of a) (edges_of b)) rings
      && forallb (fun h => forallb (fun p => negb (ring_strict_out (edges_of shell) p)) (probe_points h)) holes
      && all_pairs (fun h k =>
                   forallb (fun p => negb (ring_strict_in (edges_of k) p)) (probe_points h)
                   && forallb (fun p => negb (ring_strict_in (edges_of h) p)) (probe_points k)) holes
      && interior_connected (map edges_of rings)
  end.

(* no two boundary segments of different polygons share a piece of positive length *)
Definition boundaries_finite (A B : list (list pt)) : bool :=
  forallb (fun s => forallb (fun t => match seg_seg s t with SSOverlap _ _ => false | _ => true end)
                            (flat_map edges_of B)) (flat_map edges_of A).

Definition mpoly_pair_def (A B : list (list pt)) : bool :=
  match A, B with
  | [], _ | _, [] => true
  | _, _ => boundaries_finite A B && negb (interiors_meet (map edges_of A) (map edges_of B))
  end.

Definition mpoly_def (polys : list (list (list pt))) : bool :=
  forallb poly_def polys && all_pairs mpoly_pair_def polys.

(* ---- raw ordinates ---- *)
Fixpoint all_fin {A B} (f : A -> option B) (l : list A) : option (list B) :=
  match l with
  | [] => Some []
  | x :: r => match f x, all_fin f r with Some y, Some ys => Some (y :: ys) | _, _ => None end
  end.

Definition line_def (vs : list oxy) : bool :=
  match vs with
  | [] => true
  | _ => match fin_pts vs with Some ps => distinct_2 ps | None => false end
  end.
Definition point_def (p : option oxy) : bool :=
  match p with None => true | Some c => match oxy_pt c with Some _ => true | None => false end end.
Definition poly_def_o (rs : list (list oxy)) : bool :=
  forallb (fun r => match r with [] => false | _ => true end) rs
  && match all_fin fin_pts rs with Some rings => poly_def rings | None => false end.
Definition mpoly_def_o (ps : list (list (list oxy))) : bool :=
  forallb (forallb (fun r => match r with [] => false | _ => true end)) ps
  && match all_fin (all_fin fin_pts) ps with Some polys => mpoly_def polys | None => false end.

Fixpoint ogc_valid (g : vgeom) : bool :=
  match g with
  | VPoint p => point_def p
  | VLine vs => line_def vs
  | VPoly rs => poly_def_o rs
  | VMPoint ps => forallb point_def ps
  | VMLine ls => forallb line_def ls
  | VMPoly ps => mpoly_def_o ps
  | VColl gs => forallb ogc_valid gs
  end.
