(* Property C03 - the reference statement [ogc_valid]: an executable, definitional reading of the
   OGC validity rules, written against the exact kernel (QKernel.seg_seg, on_seg) and the point-set
   semantics of Base/Planar.v (crossing parity, slab arrangement).  It shares no code with the
   algorithmic model in Model/Validate.v except the ordinate type and the conversion to Q:
   - no special-purpose probes: "every point of a hole is inside or on the shell", "no point of a
     hole is strictly inside another hole", "no point is interior to two members" are evaluated at
     every witness of the exact arrangement; Proofs/Validate_ogc.v proves (slab sufficiency,
     Proofs/Planar_slab.v) that this decides the statement for ALL points of Q^2;
   - ring simplicity is the definition (two segments share a point only if they are consecutive
     and the point is their common end, or they are the first and last segment of a closed line
     and the point is the closing vertex);
   - two rings share at most one point (exact intersection sets);
   - interior connectedness is decided on the faces of the exact arrangement (Planar_C03);
   - MultiPolygon: boundaries share no segment piece, interiors share no arrangement cell. *)
From Coq Require Import QArith Qreduction List Bool ZArith Lia Arith.
From SF Require Import Base.GeomAST Base.QKernel Base.Planar Base.Planar_C03 Model.Validate.
Import ListNotations.
Open Scope Q_scope.

(* consecutive repeated vertices removed (they do not change the curve) *)
Fixpoint dedup_consec (ps : list pt) : list pt :=
  match ps with
  | a :: ((b :: _) as r) => if pt_eqb a b then dedup_consec r else a :: dedup_consec r
  | _ => ps
  end.

Definition distinct_2 (ps : list pt) : bool :=
  existsb (fun p => existsb (fun q => negb (pt_eqb p q)) ps) ps.

Definition closed_def (ps : list pt) : bool :=
  match ps with [] => false | a :: _ => pt_eqb a (last ps a) end.

(* two segments of the curve, at positions k < l of its m segments *)
Definition seg_pair_ok (closed : bool) (m k l : nat) (sk sl : seg) : bool :=
  match seg_seg sk sl with
  | SSEmpty => true
  | SSOverlap _ _ => false
  | SSPoint p =>
      (Nat.eqb l (S k) && pt_eqb p (snd sk))
      || (closed && Nat.eqb k 0 && Nat.eqb (S l) m && pt_eqb p (fst sk))
  end.
Fixpoint pairs_ok_from (closed : bool) (m k : nat) (L : list seg) : bool :=
  match L with
  | [] => true
  | sk :: r =>
      forallb (fun jl => seg_pair_ok closed m k (fst jl) sk (snd jl)) (index_from (S k) r)
      && pairs_ok_from closed m (S k) r
  end.
Definition simple_def (ps : list pt) : bool :=
  let L := ring_edges (dedup_consec ps) in
  pairs_ok_from (closed_def ps) (length L) 0 L.

(* a linear ring: at least two distinct points, closed, simple *)
Definition ring_def (ps : list pt) : bool := distinct_2 ps && closed_def ps && simple_def ps.

(* all common points of two rings (as lists of points, with repetition); None = they share a
   piece of positive length *)
Fixpoint common_points (A B : list seg) : option (list pt) :=
  match A with
  | [] => Some []
  | s :: r =>
      match common_points r B with
      | None => None
      | Some acc =>
          fold_left (fun o t =>
            match o with
            | None => None
            | Some l => match seg_seg s t with
                        | SSEmpty => Some l
                        | SSPoint p => Some (p :: l)
                        | SSOverlap _ _ => None
                        end
            end) B (Some acc)
      end
  end.
Definition at_most_one_point (l : list pt) : bool :=
  match l with [] => true | p :: r => forallb (pt_eqb p) r end.
Definition rings_touch_ok (A B : list seg) : bool :=
  match common_points A B with None => false | Some l => at_most_one_point l end.

Fixpoint all_pairs {A} (f : A -> A -> bool) (l : list A) : bool :=
  match l with
  | [] => true
  | x :: r => forallb (f x) r && all_pairs f r
  end.

(* ---- geometries of the point-set semantics (Base/Planar.v) built from vertex lists ---- *)
Definition mkv (p : pt) : vtx Q := Build_vtx (fst p) (snd p) 0 0.
Definition ring_line (ps : list pt) : lineT Q := MkLine XY (map mkv ps).
Definition g_line (ps : list pt) : geom := GLine (ring_line ps).                       (* the curve *)
Definition g_poly (rings : list (list pt)) : geom := GPoly (MkPoly XY (map ring_line rings)).
Definition g_bdry (rings : list (list pt)) : geom := GMLine XY (map ring_line rings).  (* all rings *)
Definition segs (ps : list pt) : list seg := line_segs (ring_line ps).

(* a boolean combination F of the memberships in the geometries gs holds at every witness of their
   common arrangement (Validate_ogc.everywhere_spec: iff it holds at every point of Q^2) *)
Definition everywhere (gs : list geom) (F : list bool -> bool) : bool :=
  forallb (fun w => F (map (fun g => inG g (fst w)) gs))
          (witnesses (flat_map arr_segments gs) (flat_map arr_points gs)).

(* every point of the curve h is inside or on the ring shell *)
Definition hole_inside (shell h : list pt) : bool :=
  everywhere [g_poly [shell]; g_line h]
    (fun bs => match bs with [ins; onh] => negb onh || ins | _ => true end).
(* no point of the ring h is strictly inside the ring k, and no point of k strictly inside h *)
Definition not_nested (h k : list pt) : bool :=
  everywhere [g_poly [k]; g_line k; g_poly [h]; g_line h]
    (fun bs => match bs with
               | [ink; onk; inh; onh] => negb (onh && ink && negb onk) && negb (onk && inh && negb onh)
               | _ => true
               end).
(* no point is interior to both polygons *)
Definition interiors_disjoint (A B : list (list pt)) : bool :=
  everywhere [g_poly A; g_bdry A; g_poly B; g_bdry B]
    (fun bs => match bs with [ia; ba; ib; bb] => negb (ia && negb ba && ib && negb bb) | _ => true end).

(* a polygon given by its rings (finite points, shell first) *)
Definition poly_def (rings : list (list pt)) : bool :=
  match rings with
  | [] => true
  | shell :: holes =>
      forallb ring_def rings
      && all_pairs (fun a b => rings_touch_ok (segs a) (segs b)) rings
      && forallb (hole_inside shell) holes
      && all_pairs not_nested holes
      && interior_connected (map segs rings)
  end.

(* no two boundary segments of different polygons share a piece of positive length *)
Definition boundaries_finite (A B : list (list pt)) : bool :=
  forallb (fun s => forallb (fun t => match seg_seg s t with SSOverlap _ _ => false | _ => true end)
                            (flat_map segs B)) (flat_map segs A).

Definition mpoly_pair_def (A B : list (list pt)) : bool :=
  match A, B with
  | [], _ | _, [] => true
  | _, _ => boundaries_finite A B && interiors_disjoint A B
  end.

Definition mpoly_def (polys : list (list (list pt))) : bool :=
  forallb poly_def polys && all_pairs mpoly_pair_def polys.

(* ---- raw ordinates ---- *)
Fixpoint all_fin {A B} (f : A -> option B) (l : list A) : option (list B) :=
  match l with
  | [] => Some []
  | x :: r => match f x, all_fin f r with Some y, Some ys => Some (y :: ys) | _, _ => None end
  end.

Definition line_def (vs : list oxy) : bool :=
  match vs with
  | [] => true
  | _ => match fin_pts vs with Some ps => distinct_2 ps | None => false end
  end.
Definition point_def (p : option oxy) : bool :=
  match p with None => true | Some c => match oxy_pt c with Some _ => true | None => false end end.
Definition poly_def_o (rs : list (list oxy)) : bool :=
  forallb (fun r => match r with [] => false | _ => true end) rs
  && match all_fin fin_pts rs with Some rings => poly_def rings | None => false end.
Definition mpoly_def_o (ps : list (list (list oxy))) : bool :=
  forallb (forallb (fun r => match r with [] => false | _ => true end)) ps
  && match all_fin (all_fin fin_pts) ps with Some polys => mpoly_def polys | None => false end.

Fixpoint ogc_valid (g : vgeom) : bool :=
  match g with
  | VPoint p => point_def p
  | VLine vs => line_def vs
  | VPoly rs => poly_def_o rs
  | VMPoint ps => forallb point_def ps
  | VMLine ls => forallb line_def ls
  | VMPoly ps => mpoly_def_o ps
  | VColl gs => forallb ogc_valid gs
  end.
