(* Model of the WKB codec.  Carrier: N = raw IEEE-754 bit pattern of each float64.
   Anchors: geom/wkb_marshal.go, geom/wkb_parser.go, AppendWKB of every type.
   The decoder is a transcription of wkbParser in an outcome monad whose state is the unread
   input plus a counter of bytes requested by count-sized `make` calls (property C08). *)
From Coq Require Import NArith List Bool Lia.
From SF Require Import Base.Outcome Base.Bytes Base.GeomAST.
Import ListNotations.
Local Open Scope N_scope.

Notation fbits := N (only parsing).
Notation geom := (geomT N).

(* math.IsNaN on a bit pattern: exponent all ones, mantissa non-zero *)
Definition is_nan (b : N) : bool :=
  ((b / 4503599627370496) mod 2048 =? 2047) && negb (b mod 4503599627370496 =? 0).
(* bits of Go's math.NaN() = 0x7FF8000000000001 *)
Definition go_nan : N := 9221120237041090561.

(* wkb_marshal.go:writeGeomType  gt := [...]uint32{7,1,2,3,4,5,6}[geomType] *)
Definition gcode (t : gtype) : N :=
  match t with
  | TColl => 7 | TPoint => 1 | TLine => 2 | TPoly => 3 | TMPoint => 4 | TMLine => 5 | TMPoly => 6
  end.

Definition vtx_floats (ct : ctype) (v : vtx N) : list N :=
  vx v :: vy v :: (if has_z ct then [vz v] else []) ++ (if has_m ct then [vm v] else []).

(* ------------------------------------------------------------------ encoder *)
Section Enc.
  (* per-element byte order oracle; Go itself always writes native order (LE on this host) *)
  Variable bo : list nat -> endian.

  Definition bo_byte (e : endian) : N := match e with BE => 0 | LE => 1 end.
  Definition header (e : endian) (t : gtype) (ct : ctype) : list N :=
    bo_byte e :: put e 4 (ct_code ct * 1000 + gcode t).
  Definition enc_floats (e : endian) (fs : list N) : list N := flat_map (put e 8) fs.
  Definition enc_seq (e : endian) (l : lineT N) : list N :=
    let 'MkLine ct vs := l in
    put e 4 (N.of_nat (length vs)) ++ enc_floats e (flat_map (vtx_floats ct) vs).

  (* type_point.go:AppendWKB: empty point = NaN in every ordinate *)
  Definition enc_point (e : endian) (p : pointT N) : list N :=
    let 'MkPoint ct c := p in
    header e TPoint ct ++
    match c with
    | None => enc_floats e (repeat go_nan (dim ct))
    | Some v => enc_floats e (vtx_floats ct v)
    end.
  Definition enc_line (e : endian) (l : lineT N) : list N :=
    header e TLine (line_ct l) ++ enc_seq e l.
  Definition enc_poly (e : endian) (p : polyT N) : list N :=
    let 'MkPoly ct rs := p in
    header e TPoly ct ++ put e 4 (N.of_nat (length rs)) ++ flat_map (enc_seq e) rs.

  (* members of a Multi*/collection: member i at path p is written with byte order bo (i :: p) *)
  Fixpoint enc_members {A} (f : endian -> A -> list N) (path : list nat) (i : nat) (l : list A)
    : list N :=
    match l with
    | [] => []
    | x :: r => f (bo (i :: path)) x ++ enc_members f path (S i) r
    end.

  Fixpoint enc_at (path : list nat) (g : geom) : list N :=
    let e := bo path in
    match g with
    | GPoint p => enc_point e p
    | GLine l => enc_line e l
    | GPoly p => enc_poly e p
    | GMPoint ct ps =>
        header e TMPoint ct ++ put e 4 (N.of_nat (length ps)) ++ enc_members enc_point path 0 ps
    | GMLine ct ls =>
        header e TMLine ct ++ put e 4 (N.of_nat (length ls)) ++ enc_members enc_line path 0 ls
    | GMPoly ct ps =>
        header e TMPoly ct ++ put e 4 (N.of_nat (length ps)) ++ enc_members enc_poly path 0 ps
    | GColl ct gs =>
        header e TColl ct ++ put e 4 (N.of_nat (length gs)) ++
        (fix go (i : nat) (l : list geom) : list N :=
           match l with
           | [] => []
           | x :: r => enc_at (i :: path) x ++ go (S i) r
           end) 0%nat gs
    end.
End Enc.

Definition enc_bo (bo : list nat -> endian) (g : geom) : list N := enc_at bo [] g.
(* what Go produces on a little-endian host *)
Definition enc (g : geom) : list N := enc_bo (fun _ => LE) g.

(* ------------------------------------------------------------------ decoder *)
(* parser state: unread bytes, and the bytes requested so far by count-sized `make` calls.
   Failures keep the allocation counter so that C08 can bound it on every path. *)
Definition st := (list N * N)%type.
Inductive pres (A : Type) :=
| POk (a : A) (s : st)
| PErr (e : errc) (alloc : N)
| PPanic (p : panicc) (alloc : N).
Arguments POk {A} a s. Arguments PErr {A} e alloc. Arguments PPanic {A} p alloc.
Definition P (A : Type) := st -> pres A.

Definition pret {A} (a : A) : P A := fun s => POk a s.
Definition pfail {A} (e : errc) : P A := fun s => PErr e (snd s).
Definition pbind {A B} (m : P A) (f : A -> P B) : P B := fun s =>
  match m s with
  | POk a s' => f a s'
  | PErr e a => PErr e a
  | PPanic p a => PPanic p a
  end.
Notation "'doP' x <- m ; k" := (pbind m (fun x => k))
  (at level 200, x pattern, m at level 100, k at level 200, right associativity).
Definition plift {A} (o : outcome A) : P A := fun s =>
  match o with Ok a => POk a s | Err e => PErr e (snd s) | Panic p => PPanic p (snd s) end.
Definition remaining : P nat := fun s => POk (length (fst s)) s.
Definition palloc (n : N) : P unit := fun s => POk tt (fst s, snd s + n).

Definition rd_u (k : nat) (e : endian) : P N := fun s =>
  match take k (fst s) with
  | None => PErr EEOF (snd s)
  | Some (h, t) => POk (get e h) (t, snd s)
  end.
Definition rd_byte : P N := fun s =>
  match fst s with
  | [] => PErr EEOF (snd s)
  | b :: r => POk b (r, snd s)
  end.

(* wkbParser.parseByteOrder + parseGeomAndCoordType *)
Definition rd_header : P (endian * gtype * ctype) :=
  doP b <- rd_byte;
  doP e <- (if b =? 0 then pret BE else if b =? 1 then pret LE else pfail EByteOrder);
  doP code <- rd_u 4 e;
  doP t <- (match code mod 1000 with
            | 1 => pret TPoint | 2 => pret TLine | 3 => pret TPoly | 4 => pret TMPoint
            | 5 => pret TMLine | 6 => pret TMPoly | 7 => pret TColl
            | _ => pfail EGeomType
            end);
  doP ct <- (match ct_of_code (code / 1000) with
             | Some c => pret c
             | None => pfail ECoordType
             end);
  pret (e, t, ct).

Definition rd_vtx (e : endian) (ct : ctype) : P (vtx N) :=
  doP x <- rd_u 8 e;
  doP y <- rd_u 8 e;
  doP z <- (if has_z ct then rd_u 8 e else pret 0);
  doP m <- (if has_m ct then rd_u 8 e else pret 0);
  pret (Build_vtx x y z m).

(* wkbParser.parsePoint *)
Definition rd_point (e : endian) (ct : ctype) : P (pointT N) :=
  doP v <- rd_vtx e ct;
  if is_nan (vx v) && is_nan (vy v) then pret (MkPoint ct None)
  else if is_nan (vx v) || is_nan (vy v) then pfail EMixedNaN
  else pret (MkPoint ct (Some v)).

Fixpoint rd_vtxs (n : nat) (e : endian) (ct : ctype) : P (list (vtx N)) :=
  match n with
  | O => pret []
  | S n' =>
      doP v <- rd_vtx e ct;
      doP vs <- rd_vtxs n' e ct;
      pret (v :: vs)
  end.

(* wkbParser.parseLineString: the length check precedes the allocation; a non-native byte
   order copies the payload once more before flipping it *)
Definition rd_seq (e : endian) (ct : ctype) : P (lineT N) :=
  doP n <- rd_u 4 e;
  let need := 8 * (n * N.of_nat (dim ct)) in
  doP len <- remaining;
  if N.of_nat len <? need then pfail EEOF
  else
    doP _ <- palloc (need + match e with LE => 0 | BE => need end);
    doP vs <- rd_vtxs (N.to_nat n) e ct;
    pret (MkLine ct vs).

(* a count-controlled loop; every iteration consumes input or fails, fuel = input length *)
Fixpoint loopN {A} (fuel : nat) (n : N) (step : P A) (acc : list A) : P (list A) :=
  if n =? 0 then pret (rev acc)
  else match fuel with
       | O => pfail EFuel
       | S f => doP a <- step; loopN f (n - 1) step (a :: acc)
       end.
Definition loop {A} (n : N) (step : P A) : P (list A) :=
  doP len <- remaining; loopN (S len) n step [].

(* wkbParser.parsePolygon *)
Definition rd_poly (e : endian) (ct : ctype) : P (polyT N) :=
  doP n <- rd_u 4 e;
  if n =? 0 then pret (MkPoly ct [])
  else doP rs <- loop n (rd_seq e ct); pret (new_polygon 0 rs).

Definition as_point (g : geom) : outcome (pointT N) :=
  match g with GPoint p => Ok p | _ => Err EMemberType end.
Definition as_line (g : geom) : outcome (lineT N) :=
  match g with GLine l => Ok l | _ => Err EMemberType end.
Definition as_poly (g : geom) : outcome (polyT N) :=
  match g with GPoly p => Ok p | _ => Err EMemberType end.

Definition member {A} (inner : P geom) (cast : geom -> outcome A) : P A :=
  doP g <- inner; plift (cast g).

(* wkbParser.run / inner / parseGeomRoot and the Multi*/collection parsers *)
Fixpoint rd_geom (fuel : nat) : P geom :=
  match fuel with
  | O => pfail EFuel
  | S f =>
      doP hdr <- rd_header;
      let '(e, t, ct) := hdr in
      match t with
      | TPoint => doP p <- rd_point e ct; pret (GPoint p)
      | TLine => doP l <- rd_seq e ct; pret (GLine l)
      | TPoly => doP p <- rd_poly e ct; pret (GPoly p)
      | TMPoint =>
          doP n <- rd_u 4 e;
          if n =? 0 then pret (GMPoint ct [])
          else doP ps <- loop n (member (rd_geom f) as_point); pret (new_multipoint 0 ps)
      | TMLine =>
          doP n <- rd_u 4 e;
          if n =? 0 then pret (GMLine ct [])
          else doP ls <- loop n (member (rd_geom f) as_line); pret (new_multiline 0 ls)
      | TMPoly =>
          doP n <- rd_u 4 e;
          if n =? 0 then pret (GMPoly ct [])
          else doP ps <- loop n (member (rd_geom f) as_poly); pret (new_multipoly 0 ps)
      | TColl =>
          doP n <- rd_u 4 e;
          if n =? 0 then pret (GColl ct [])
          else
            let step : P geom :=
              doP g <- rd_geom f;
              if ct_eqb (geom_ct g) ct then pret g else pfail ECollDims in
            doP gs <- loop n step; pret (new_collection 0 gs)
      end
  end.

(* UnmarshalWKB with NoValidate: value, unread rest, count-sized allocation *)
Definition dec_full (bs : list N) : pres geom := rd_geom (S (length bs)) (bs, 0).
Definition dec (bs : list N) : outcome (geom * list N) :=
  match dec_full bs with
  | POk g s => Ok (g, fst s)
  | PErr e _ => Err e
  | PPanic p _ => Panic p
  end.
Definition dec_alloc (bs : list N) : N :=
  match dec_full bs with POk _ s => snd s | PErr _ a => a | PPanic _ a => a end.

(* database adapters: Value = AsBinary; Scan into a concrete type rejects other types *)
Definition scan (t : gtype) (bs : list N) : outcome geom :=
  do (g, _) <- dec bs;
  if gtype_eqb (geom_type g) t then Ok g else Err EMemberType.

(* ------------------------------------------------------------------ well-formedness *)
(* The domain of the round-trip theorem: every node carries the same coordinates type and unused
   Z/M fields are zero (true of everything the constructors build), ordinates are 64-bit
   patterns, member counts fit a uint32, and a non-empty point has non-NaN X and Y (the format
   reserves NaN,NaN for the empty point). *)
Definition two64 : N := 18446744073709551616.
Definition two32 : N := 4294967296.
Definition vtx_bits_ok (v : vtx N) : bool :=
  (vx v <? two64) && (vy v <? two64) && (vz v <? two64) && (vm v <? two64).
Definition count_ok {A} (l : list A) : bool := N.of_nat (length l) <? two32.
Definition point_wf (p : pointT N) : bool :=
  match point_c p with
  | None => true
  | Some v => vtx_bits_ok v && negb (is_nan (vx v)) && negb (is_nan (vy v))
  end.
Definition line_wf (l : lineT N) : bool :=
  count_ok (line_vs l) && forallb vtx_bits_ok (line_vs l).
Definition poly_wf (p : polyT N) : bool :=
  count_ok (poly_rings p) && forallb line_wf (poly_rings p).
Fixpoint geom_wf (g : geom) : bool :=
  match g with
  | GPoint p => point_wf p
  | GLine l => line_wf l
  | GPoly p => poly_wf p
  | GMPoint _ ps => count_ok ps && forallb point_wf ps
  | GMLine _ ls => count_ok ls && forallb line_wf ls
  | GMPoly _ ps => count_ok ps && forallb poly_wf ps
  | GColl _ gs => count_ok gs && forallb geom_wf gs
  end.
Definition wf_wkb (g : geom) : bool := consistent (N.eqb 0) g && geom_wf g.
