(* Model of the WKT writer, lexer and parser.  Carrier: N = raw IEEE-754 bit pattern.
   Anchors: geom/wkt_write.go, geom/wkt_lexer.go, geom/wkt_parser.go, AppendWKT/appendWKTBody of
   every type (type_*.go), geom/type_geometry.go:AsText/AppendWKT, geom/float_helpers.go:appendFloat.

   Text alphabet: a character, or ONE opaque symbol [Num bits] standing for the decimal spelling of
   the double with these bits, or ONE opaque symbol [Bad] standing for a stretch of text on which
   text/scanner reports a LEXICAL error (a malformed numeric literal such as 09, 1e, 0x, 1__0, or
   an invalid UTF-8 sequence; NUL is a character of the alphabet and a lexical error, too).
   Spelling and reading of numbers is Go's strconv (an oracle; its round trip is checked by the
   harness on every float class, not proved here); which stretches are malformed literals is
   text/scanner's verdict (an oracle: the harness asks text/scanner itself).

   A byte buffer under construction ([]byte with append at the end) is a list with the MOST RECENT
   byte first, so that append is cons and the look-behind of appendWKTEmpty is the head. *)
From Coq Require Import NArith List Bool Ascii String.
From SF Require Import Base.Outcome Base.GeomAST.
Import ListNotations.
Local Open Scope N_scope.

Notation wgeom := (geomT N) (only parsing).

Inductive ch := C (a : ascii) | Num (bits : N) | Bad.
Definition la (x : string) : list ascii := list_ascii_of_string x.
(* string constants are expanded to character lists at definition time, so that Coq's string type
   does not reach the extracted code *)
Notation "'L' x" := (ltac:(let v := eval compute in (la x) in exact v)) (at level 0, x at level 0, only parsing).
Definition str (x : list ascii) : list ch := map C x.

(* ------------------------------------------------------------------ float bit patterns *)
Definition wk_two63 : N := 9223372036854775808.
Definition wk_two64 : N := 18446744073709551616.
Definition wk_inf : N := 9218868437227405312.      (* 0x7FF0000000000000 *)
Definition wk_nan : N := 9221120237041090561.      (* math.NaN() *)
Definition f_abs (b : N) : N := if b <? wk_two63 then b else b - wk_two63.
Definition f_is_inf (b : N) : bool := f_abs b =? wk_inf.
Definition f_is_nan (b : N) : bool := wk_inf <? f_abs b.
Definition f_finite (b : N) : bool := (b <? wk_two64) && (f_abs b <? wk_inf).
(* f *= -1 on a non-NaN value: the sign bit flips (so that "-0" gives negative zero) *)
Definition f_neg (b : N) : N := if b <? wk_two63 then b + wk_two63 else b - wk_two63.

(* ------------------------------------------------------------------ writer *)
Definition buf := list ch.                  (* reversed: head = last byte written *)
Definition app_ch (dst : buf) (c : ascii) : buf := C c :: dst.
Definition app_str (dst : buf) (x : list ascii) : buf := rev_append (str x) dst.
(* float_helpers.go:appendFloat = strconv.AppendFloat(dst, f, 'f', -1, 64) *)
Definition app_float (dst : buf) (b : N) : buf := Num b :: dst.

Definition kw_name (t : gtype) : list ascii :=
  match t with
  | TPoint => L "POINT" | TLine => L "LINESTRING" | TPoly => L "POLYGON" | TMPoint => L "MULTIPOINT"
  | TMLine => L "MULTILINESTRING" | TMPoly => L "MULTIPOLYGON" | TColl => L "GEOMETRYCOLLECTION"
  end.
(* wkt_write.go:appendWKTHeader  [4]string{"", " Z ", " M ", " ZM "}[ctype] *)
Definition ct_tag (ct : ctype) : list ascii :=
  match ct with XY => [] | XYZ => L " Z " | XYM => L " M " | XYZM => L " ZM " end.
Definition w_header (dst : buf) (t : gtype) (ct : ctype) : buf :=
  app_str (app_str dst (kw_name t)) (ct_tag ct).

(* wkt_write.go:appendWKTCoords *)
Definition w_coords (dst : buf) (ct : ctype) (v : vtx N) (parens : bool) : buf :=
  let dst := if parens then app_ch dst "("%char else dst in
  let dst := app_float dst (vx v) in
  let dst := app_ch dst " "%char in
  let dst := app_float dst (vy v) in
  let dst := if has_z ct then app_float (app_ch dst " "%char) (vz v) else dst in
  let dst := if has_m ct then app_float (app_ch dst " "%char) (vm v) else dst in
  if parens then app_ch dst ")"%char else dst.

(* wkt_write.go:appendWKTEmpty: a space unless the buffer is empty or ends in '(' ',' ' ' *)
Definition w_empty (dst : buf) : buf :=
  let dst :=
    match dst with
    | [] => dst
    | C c :: _ => if Ascii.eqb c "(" || Ascii.eqb c "," || Ascii.eqb c " " then dst else app_ch dst " "%char
    | Num _ :: _ => app_ch dst " "%char          (* last byte is a digit *)
    | Bad :: _ => app_ch dst " "%char            (* (the writer never produces it) *)
    end in
  app_str dst (L "EMPTY").

Section Join.
  Context {A : Type} (f : buf -> A -> buf).
  (* for i, x := range xs { if i > 0 { dst = append(dst, ',') }; dst = f(dst, x) } *)
  Fixpoint w_join (first : bool) (dst : buf) (xs : list A) : buf :=
    match xs with
    | [] => dst
    | x :: r => w_join false (f (if first then dst else app_ch dst ","%char) x) r
    end.
  (* type_polygon.go: dst = f(dst, r); if i+1 < len(rings) { dst = append(dst, ',') } *)
  Fixpoint w_join_after (dst : buf) (xs : list A) : buf :=
    match xs with
    | [] => dst
    | x :: r =>
        let dst := f dst x in
        let dst := match r with [] => dst | _ :: _ => app_ch dst ","%char end in
        w_join_after dst r
    end.
End Join.

(* wkt_write.go:appendWKTSequence *)
Definition w_sequence (dst : buf) (ct : ctype) (vs : list (vtx N)) (parens : bool) : buf :=
  let dst := app_ch dst "("%char in
  let dst := w_join (fun d v => w_coords d ct v parens) true dst vs in
  app_ch dst ")"%char.

(* type_point.go:appendWKTBody *)
Definition w_point_body (dst : buf) (p : pointT N) : buf :=
  match p with
  | MkPoint _ None => w_empty dst
  | MkPoint ct (Some v) => w_coords dst ct v true
  end.
(* type_line_string.go:appendWKTBody *)
Definition w_line_body (dst : buf) (l : lineT N) : buf :=
  match l with
  | MkLine _ [] => w_empty dst
  | MkLine ct vs => w_sequence dst ct vs false
  end.
(* type_polygon.go:appendWKTBody *)
Definition w_poly_body (dst : buf) (p : polyT N) : buf :=
  match p with
  | MkPoly _ [] => w_empty dst
  | MkPoly _ rs => app_ch (w_join_after w_line_body (app_ch dst "("%char) rs) ")"
  end.

(* the shared shape of MultiPoint/MultiLineString/MultiPolygon/GeometryCollection.AppendWKT *)
Definition w_members {A} (f : buf -> A -> buf) (dst : buf) (xs : list A) : buf :=
  match xs with
  | [] => w_empty dst
  | _ :: _ => app_ch (w_join f true (app_ch dst "("%char) xs) ")"
  end.

(* AppendWKT of every type; type_geometry.go:AppendWKT dispatches on the type *)
Fixpoint w_geom (dst : buf) (g : wgeom) : buf :=
  match g with
  | GPoint p => w_point_body (w_header dst TPoint (point_ct p)) p
  | GLine l => w_line_body (w_header dst TLine (line_ct l)) l
  | GPoly p => w_poly_body (w_header dst TPoly (poly_ct p)) p
  | GMPoint ct ps => w_members w_point_body (w_header dst TMPoint ct) ps
  | GMLine ct ls => w_members w_line_body (w_header dst TMLine ct) ls
  | GMPoly ct ps => w_members w_poly_body (w_header dst TMPoly ct) ps
  | GColl ct gs => w_members (fun d x => w_geom d x) (w_header dst TColl ct) gs
  end.

(* AppendWKT(prefix) and AsText = string(AppendWKT(nil)) *)
Definition append_wkt (prefix : list ch) (g : wgeom) : list ch := rev (w_geom (rev prefix) g).
Definition as_text (g : wgeom) : list ch := append_wkt [] g.

(* The Go type Geometry has one more value than the seven concrete types: the zero Geometry{}
   (gtype = TypeGeometryCollection, nil payload). *)
Inductive anygeom := ZeroGeometry | Geo (g : wgeom).
Definition any_value (a : anygeom) : wgeom := match a with ZeroGeometry => GColl XY [] | Geo g => g end.
(* type_geometry.go:AsText goes through MustAsGeometryCollection, which maps nil to GeometryCollection{} *)
Definition as_text_any (a : anygeom) : list ch := as_text (any_value a).
(* type_geometry.go:AppendWKT before the repair F4: the payload pointer is cast to a GeometryCollection pointer and its AppendWKT is called, which
   dereferences the nil payload *)
Definition append_wkt_any_unfixed (prefix : list ch) (a : anygeom) : outcome (list ch) :=
  match a with ZeroGeometry => Panic PNilDeref | Geo g => Ok (append_wkt prefix g) end.
(* after F4: g.MustAsGeometryCollection().AppendWKT(dst) *)
Definition append_wkt_any (prefix : list ch) (a : anygeom) : outcome (list ch) :=
  Ok (append_wkt prefix (any_value a)).

(* ------------------------------------------------------------------ lexer *)
(* A token is its text (wkt_lexer.go returns scn.TokenText()), or a number literal.  [TBad] is not
   a token: it marks the place in the stream where wkt_lexer.go:next returns the error text/scanner
   reported through scn.Error ("invalid token ...").  The Go lexer is lazy; the model lexes up to
   the first lexical error and leaves the mark there, so that the parser meets the error exactly
   when (and only if) it asks for that token - as in the code. *)
Inductive tok := T (s : list ascii) | TNum (b : N) | TBad.

Definition code (c : ascii) : N := N_of_ascii c.
Definition is_upper (c : ascii) : bool := (65 <=? code c) && (code c <=? 90).
Definition is_lower (c : ascii) : bool := (97 <=? code c) && (code c <=? 122).
Definition is_letter (c : ascii) : bool := is_upper c || is_lower c || (code c =? 95).
Definition is_digit (c : ascii) : bool := (48 <=? code c) && (code c <=? 57).
(* text/scanner.GoWhitespace = 1<<'\t' | 1<<'\n' | 1<<'\r' | 1<<' ' *)
Definition is_ws (c : ascii) : bool :=
  (code c =? 9) || (code c =? 10) || (code c =? 13) || (code c =? 32).
Definition to_upper (c : ascii) : ascii := if is_lower c then ascii_of_N (code c - 32) else c.
Definition to_lower (c : ascii) : ascii := if is_upper c then ascii_of_N (code c + 32) else c.

Definition flush (cur : list ascii) : list tok :=
  match cur with [] => [] | _ :: _ => [T (rev cur)] end.

(* would the next symbol continue the spelling of a number? (outside the abstraction) *)
Definition glue_after (r : list ch) : bool :=
  match r with
  | [] => false
  | C c :: _ => is_letter c || is_digit c || Ascii.eqb c "."
  | Num b :: _ => b <? wk_two63
  | Bad :: _ => false
  end.

(* text/scanner with Mode = ScanInts|ScanFloats|ScanIdents on the alphabet WKT uses.
   cur = identifier in progress (reversed).  Err EOther marks texts the opaque-number alphabet
   cannot express (digits glued to a number symbol, raw digits, non-ASCII).  At a lexical error
   (NUL, [Bad]) the token stream ends with the mark [TBad]: nothing behind it is ever read. *)
Fixpoint lex_go (cur : list ascii) (s : list ch) : outcome (list tok) :=
  match s with
  | [] => Ok (flush cur)
  | C c :: r =>
      if is_letter c then lex_go (c :: cur) r
      else if is_digit c then
        match cur with [] => Err EOther | _ :: _ => lex_go (c :: cur) r end
      else if code c =? 0 then Ok (flush cur ++ [TBad])    (* "invalid character NUL" *)
      else if 128 <=? code c then Err EOther
      else if Ascii.eqb c "." && (match r with Num _ :: _ => true | _ => false end) then Err EOther
      else
        do ts <- lex_go [] r;
        Ok (flush cur ++ (if is_ws c then [] else [T [c]]) ++ ts)
  | Num b :: r =>
      if glue_after r then Err EOther
      else if b <? wk_two63 then
        match cur with
        | _ :: _ => Err EOther
        | [] => do ts <- lex_go [] r; Ok (TNum b :: ts)
        end
      else                                                  (* "-" then the magnitude *)
        do ts <- lex_go [] r;
        Ok (flush cur ++ T ["-"%char] :: TNum (b - wk_two63) :: ts)
  | Bad :: _ => Ok (flush cur ++ [TBad])                   (* scn.Error called: next returns the error *)
  end.
Definition lex (s : list ch) : outcome (list tok) := lex_go [] s.

(* ------------------------------------------------------------------ parser *)
Definition TM (A : Type) := list tok -> outcome (A * list tok).
Definition tret {A} (a : A) : TM A := fun ts => Ok (a, ts).
Definition tfail {A} (e : errc) : TM A := fun _ => Err e.
Definition tbind {A B} (m : TM A) (f : A -> TM B) : TM B := fun ts =>
  match m ts with
  | Ok (a, r) => f a r
  | Err e => Err e
  | Panic p => Panic p
  end.
Notation "'doT' x <- m ; k" := (tbind m (fun x => k))
  (at level 200, x pattern, m at level 100, k at level 200, right associativity).

(* wkt_lexer.go:next / peek: a token, wktUnexpectedEOF (EEOF), or the scanner's error (ESyntax) *)
Definition t_next : TM tok := fun ts =>
  match ts with [] => Err EEOF | TBad :: _ => Err ESyntax | t :: r => Ok (t, r) end.
Definition t_peek : TM tok := fun ts =>
  match ts with [] => Err EEOF | TBad :: _ => Err ESyntax | t :: _ => Ok (t, ts) end.

Fixpoint leqb (a b : list ascii) : bool :=
  match a, b with
  | [], [] => true
  | x :: a', y :: b' => Ascii.eqb x y && leqb a' b'
  | _, _ => false
  end.
Definition tok_is (x : list ascii) (t : tok) : bool :=
  match t with T l => leqb l x | TNum _ => false | TBad => false end.

(* nextGeomTag: strings.ToUpper on the type keyword only; "Z" "M" "ZM" compared as they are *)
Definition next_geom_tag : TM (list ascii * ctype) :=
  doT t <- t_next;
  let name := match t with T l => map to_upper l | TNum _ => [] | TBad => [] end in
  doT p <- t_peek;
  let ct := if tok_is (L "Z") p then XYZ else if tok_is (L "M") p then XYM
            else if tok_is (L "ZM") p then XYZM else XY in
  doT _ <- (match ct with XY => tret p | _ => t_next end);
  tret (name, ct).

(* true = "(" *)
Definition next_empty_or_lparen : TM bool :=
  doT t <- t_next;
  if tok_is (L "EMPTY") t then tret false else if tok_is (L "(") t then tret true else tfail ESyntax.
Definition next_rparen : TM unit :=
  doT t <- t_next; if tok_is (L ")") t then tret tt else tfail ESyntax.
(* true = "," *)
Definition next_comma_or_rparen : TM bool :=
  doT t <- t_next;
  if tok_is (L ")") t then tret false else if tok_is (L ",") t then tret true else tfail ESyntax.

(* strconv.ParseFloat on a token text: a number literal gives its value (an out-of-range literal
   is carried as an infinity and rejected below, as Go rejects it with ErrRange); the words nan,
   inf, infinity in any case are accepted by strconv; anything else is a syntax error *)
Definition strconv_parse (t : tok) : outcome N :=
  match t with
  | TNum b => Ok b
  | T l =>
      let u := map to_lower l in
      if leqb u (L "nan") then Ok wk_nan
      else if leqb u (L "inf") || leqb u (L "infinity") then Ok wk_inf
      else Err ESyntax
  | TBad => Err ESyntax                                      (* never handed out by t_next *)
  end.

(* nextSignedNumericLiteral *)
Definition next_signed : TM N :=
  doT t <- t_next;
  let negative := tok_is (L "-") t in
  doT t <- (if negative then t_next else tret t);
  match strconv_parse t with
  | Ok f =>
      if f_is_nan f || f_is_inf f then tfail ESyntax       (* NaNs and Infs are not allowed *)
      else tret (if negative then f_neg f else f)
  | Err e => tfail e
  | Panic p => fun _ => Panic p
  end.

(* nextPoint / nextPointAppend + Sequence.Get: X Y [Z] [M] in this order, unused fields zero *)
Definition next_point (ct : ctype) : TM (vtx N) :=
  doT x <- next_signed;
  doT y <- next_signed;
  doT z <- (if has_z ct then next_signed else tret 0);
  doT m <- (if has_m ct then next_signed else tret 0);
  tret (Build_vtx x y z m).

(* the loop shape shared by all list productions:
     item; for { tok := nextCommaOrRightParen(); if tok == "," { item } else break }
   (the Multi*/collection parsers write it as for { item; tok; if tok != "," break }: the same
   sequence of lexer calls).  Every iteration consumes tokens; fuel = number of tokens. *)
Fixpoint sep_loop {A} (fuel : nat) (item : TM A) : TM (list A) :=
  match fuel with
  | O => tfail EFuel
  | S f =>
      doT x <- item;
      doT more <- next_comma_or_rparen;
      if more then (doT xs <- sep_loop f item; tret (x :: xs)) else tret [x]
  end.

(* nextPointText *)
Definition next_point_text (ct : ctype) : TM (pointT N) :=
  doT lp <- next_empty_or_lparen;
  if lp then
    doT v <- next_point ct;
    doT _ <- next_rparen;
    tret (MkPoint ct (Some v))
  else tret (MkPoint ct None).

(* nextLineStringText *)
Definition next_line_text (fuel : nat) (ct : ctype) : TM (lineT N) :=
  doT lp <- next_empty_or_lparen;
  if lp then doT vs <- sep_loop fuel (next_point ct); tret (MkLine ct vs)
  else tret (MkLine ct []).

(* nextPolygonOrMultiLineStringText *)
Definition next_lines_text (fuel : nat) (ct : ctype) : TM (list (lineT N)) :=
  doT lp <- next_empty_or_lparen;
  if lp then sep_loop fuel (next_line_text fuel ct) else tret [].

(* nextPolygonText *)
Definition next_poly_text (fuel : nat) (ct : ctype) : TM (polyT N) :=
  doT rs <- next_lines_text fuel ct;
  match rs with [] => tret (MkPoly ct []) | _ :: _ => tret (new_polygon 0 rs) end.

(* nextMultiPointStylePoint: parentheses optional (PostGIS) *)
Definition next_mp_point (ct : ctype) : TM (pointT N) :=
  doT t <- t_peek;
  if tok_is (L "(") t then
    doT _ <- t_next;
    doT v <- next_point ct;
    doT _ <- next_rparen;
    tret (MkPoint ct (Some v))
  else if tok_is (L "EMPTY") t then
    doT _ <- t_next; tret (MkPoint ct None)
  else
    doT v <- next_point ct; tret (MkPoint ct (Some v)).

(* checkCoordinateTypesInGeometryCollection *)
Definition coll_cts_ok (ct : ctype) (gs : list wgeom) : bool :=
  (match ct with XY => true | _ => forallb (fun g => ct_eqb (geom_ct g) ct) gs end) &&
  match gs with
  | [] => true
  | g0 :: r => forallb (fun g => ct_eqb (geom_ct g) (geom_ct g0)) r
  end.

Definition gtype_of_name (l : list ascii) : option gtype :=
  if leqb l (L "POINT") then Some TPoint
  else if leqb l (L "LINESTRING") then Some TLine
  else if leqb l (L "POLYGON") then Some TPoly
  else if leqb l (L "MULTIPOINT") then Some TMPoint
  else if leqb l (L "MULTILINESTRING") then Some TMLine
  else if leqb l (L "MULTIPOLYGON") then Some TMPoly
  else if leqb l (L "GEOMETRYCOLLECTION") then Some TColl
  else None.

(* nextGeometryTaggedText and the Multi*/collection productions *)
Fixpoint parse_geom (fuel : nat) : TM wgeom :=
  match fuel with
  | O => tfail EFuel
  | S f =>
      doT hdr <- next_geom_tag;
      let '(name, ct) := hdr in
      match gtype_of_name name with
      | None => tfail ESyntax
      | Some TPoint => doT p <- next_point_text ct; tret (GPoint p)
      | Some TLine => doT l <- next_line_text f ct; tret (GLine l)
      | Some TPoly => doT p <- next_poly_text f ct; tret (GPoly p)
      | Some TMPoint =>
          doT lp <- next_empty_or_lparen;
          if lp then doT ps <- sep_loop f (next_mp_point ct); tret (new_multipoint 0 ps)
          else tret (GMPoint ct [])
      | Some TMLine =>
          doT ls <- next_lines_text f ct;
          match ls with [] => tret (GMLine ct []) | _ :: _ => tret (new_multiline 0 ls) end
      | Some TMPoly =>
          doT lp <- next_empty_or_lparen;
          if lp then doT ps <- sep_loop f (next_poly_text f ct); tret (new_multipoly 0 ps)
          else tret (GMPoly ct [])
      | Some TColl =>
          doT lp <- next_empty_or_lparen;
          doT gs <- (if lp then sep_loop f (parse_geom f) else tret []);
          if coll_cts_ok ct gs then
            match gs with [] => tret (GColl ct []) | _ :: _ => tret (new_collection 0 gs) end
          else tfail ECollDims
      end
  end.

(* UnmarshalWKT(..., NoValidate{}): one geometry, then
     if tok, err := p.lexer.next(); err == nil { return wantButGot("EOF", tok) }
     else if !errors.Is(err, wktUnexpectedEOF) { return err }
   Only the end-of-input error means success; any other lexer error is returned. *)
Definition eof_check {A} (a : A) (r : list tok) : outcome A :=
  match t_next r with
  | Ok _ => Err ESyntax                                      (* wantButGot("EOF", tok) *)
  | Err EEOF => Ok a
  | Err e => Err e
  | Panic p => Panic p
  end.
Definition parse (ts : list tok) : outcome wgeom :=
  match parse_geom (S (List.length ts)) ts with
  | Ok (g, r) => eof_check g r
  | Err e => Err e
  | Panic p => Panic p
  end.
Definition unmarshal_wkt (s : list ch) : outcome wgeom := do ts <- lex s; parse ts.

(* ------------------------------------------------------------------ specification side *)
(* finite ordinates (only the ordinates the node's coordinates type uses) *)
Definition vtx_fin (ct : ctype) (v : vtx N) : bool :=
  f_finite (vx v) && f_finite (vy v) &&
  (negb (has_z ct) || f_finite (vz v)) && (negb (has_m ct) || f_finite (vm v)).
Definition point_fin (p : pointT N) : bool :=
  match p with MkPoint _ None => true | MkPoint ct (Some v) => vtx_fin ct v end.
Definition line_fin (l : lineT N) : bool := let 'MkLine ct vs := l in forallb (vtx_fin ct) vs.
Definition poly_fin (p : polyT N) : bool := forallb line_fin (poly_rings p).
Fixpoint geom_fin (g : wgeom) : bool :=
  match g with
  | GPoint p => point_fin p
  | GLine l => line_fin l
  | GPoly p => poly_fin p
  | GMPoint _ ps => forallb point_fin ps
  | GMLine _ ls => forallb line_fin ls
  | GMPoly _ ps => forallb poly_fin ps
  | GColl _ gs => forallb geom_fin gs
  end.
Definition wkt_dom (g : wgeom) : bool := geom_fin g && consistent (N.eqb 0) g.

(* The OGC grammar as a token-level printer, parametric in the two spelling freedoms the parser
   grants on valid documents: the case of every type keyword and the parentheses of every
   non-empty MultiPoint member (paths as in Model/WKB.v: member i of the node at p is i :: p). *)
Record spelling := {
  sp_kw : list nat -> gtype -> list ascii;
  sp_bare : list nat -> bool }.
Definition sp_default : spelling :=
  {| sp_kw := fun _ t => kw_name t; sp_bare := fun _ => false |}.
Definition spelling_ok (sp : spelling) : Prop :=
  forall p t, map to_upper (sp_kw sp p t) = kw_name t.

Definition ts_ (x : list ascii) : tok := T x.
Definition toks_num (b : N) : list tok :=
  if b <? wk_two63 then [TNum b] else [ts_ (L "-"); TNum (b - wk_two63)].
Definition toks_vtx (ct : ctype) (v : vtx N) : list tok :=
  toks_num (vx v) ++ toks_num (vy v) ++
  (if has_z ct then toks_num (vz v) else []) ++ (if has_m ct then toks_num (vm v) else []).
Definition toks_tag (ct : ctype) : list tok :=
  match ct with XY => [] | XYZ => [ts_ (L "Z")] | XYM => [ts_ (L "M")] | XYZM => [ts_ (L "ZM")] end.
(* x1 , x2 , ... , xn ) *)
Fixpoint sep_close (xs : list (list tok)) : list tok :=
  match xs with
  | [] => [ts_ (L ")")]
  | [x] => x ++ [ts_ (L ")")]
  | x :: r => x ++ ts_ (L ",") :: sep_close r
  end.
Definition toks_list (xs : list (list tok)) : list tok :=
  match xs with [] => [ts_ (L "EMPTY")] | _ :: _ => ts_ (L "(") :: sep_close xs end.
Definition toks_point_body (bare : bool) (p : pointT N) : list tok :=
  match p with
  | MkPoint _ None => [ts_ (L "EMPTY")]
  | MkPoint ct (Some v) => if bare then toks_vtx ct v else ts_ (L "(") :: toks_vtx ct v ++ [ts_ (L ")")]
  end.
Definition toks_line_body (l : lineT N) : list tok :=
  let 'MkLine ct vs := l in toks_list (map (toks_vtx ct) vs).
Definition toks_poly_body (p : polyT N) : list tok :=
  toks_list (map toks_line_body (poly_rings p)).
Fixpoint mapi_from {A B} (i : nat) (f : nat -> A -> B) (l : list A) : list B :=
  match l with [] => [] | x :: r => f i x :: mapi_from (S i) f r end.

Fixpoint toks_at (sp : spelling) (path : list nat) (g : wgeom) : list tok :=
  T (sp_kw sp path (geom_type g)) :: toks_tag (geom_ct g) ++
  match g with
  | GPoint p => toks_point_body false p
  | GLine l => toks_line_body l
  | GPoly p => toks_poly_body p
  | GMPoint _ ps => toks_list (mapi_from 0 (fun i p => toks_point_body (sp_bare sp (i :: path)) p) ps)
  | GMLine _ ls => toks_list (map toks_line_body ls)
  | GMPoly _ ps => toks_list (map toks_poly_body ps)
  | GColl _ gs =>
      toks_list ((fix go (i : nat) (l : list wgeom) : list (list tok) :=
                    match l with
                    | [] => []
                    | x :: r => toks_at sp (i :: path) x :: go (S i) r
                    end) 0%nat gs)
  end.
Definition toks (sp : spelling) (g : wgeom) : list tok := toks_at sp [] g.

(* Whitespace spellings of a token sequence: every token followed by a run of blanks. *)
Definition tok_text (t : tok) : list ch :=
  match t with T l => map C l | TNum b => [Num b] | TBad => [Bad] end.
Definition spell (pre : list ascii) (items : list (tok * list ascii)) : list ch :=
  map C pre ++ flat_map (fun it => tok_text (fst it) ++ map C (snd it)) items.
(* a token the lexer can produce: an identifier, one punctuation character, a non-negative number
   (the error mark TBad is not a token) *)
Definition tok_wf (t : tok) : bool :=
  match t with
  | T [] => false
  | T (c :: r) =>
      if is_letter c then forallb (fun x => is_letter x || is_digit x) r
      else match r with
           | [] => negb (is_digit c) && negb (is_ws c) && negb (code c =? 0) && (code c <? 128)
           | _ :: _ => false
           end
  | TNum b => b <? wk_two63
  | TBad => false
  end.
Definition tok_alnum_start (t : tok) : bool :=
  match t with T (c :: _) => is_letter c | T [] => false | TNum _ => true | TBad => false end.
Definition tok_alnum_end (t : tok) : bool :=
  match t with T (c :: _) => is_letter c | T [] => false | TNum _ => true | TBad => false end.
Definition tok_dot (t : tok) : bool := match t with T [c] => Ascii.eqb c "." | _ => false end.
(* a character that ends a word or number and is a token (or a blank) by itself *)
Definition delim (c : ascii) : bool :=
  negb (is_letter c) && negb (is_digit c) && negb (code c =? 0) && negb (128 <=? code c) &&
  negb (Ascii.eqb c ".").
(* text that cannot continue a word or number standing before it: empty, or starting with a
   delimiter character or with a lexical error *)
Definition starts_delim (r : list ch) : bool :=
  match r with [] => true | C c :: _ => delim c | Num _ :: _ => false | Bad :: _ => true end.
(* the spelling ends in a word, a number or "." with no blank behind it *)
Fixpoint ends_open (items : list (tok * list ascii)) : bool :=
  match items with
  | [] => false
  | [(t, w)] => match w with [] => tok_alnum_end t || tok_dot t | _ :: _ => false end
  | _ :: r => ends_open r
  end.
(* the symbols at which the lexer returns its error: NUL, a malformed literal / invalid UTF-8 *)
Definition lex_error_ch (c : ch) : bool :=
  match c with C a => code a =? 0 | Num _ => false | Bad => true end.
(* blanks only; at least one blank where two neighbours would otherwise run together *)
Fixpoint spell_ok (items : list (tok * list ascii)) : bool :=
  match items with
  | [] => true
  | (t, w) :: r =>
      tok_wf t && forallb is_ws w &&
      match r with
      | [] => true
      | (t', _) :: _ =>
          match w with
          | [] => negb ((tok_alnum_end t || tok_dot t) && (tok_alnum_start t' || tok_dot t'))
          | _ :: _ => true
          end
      end && spell_ok r
  end.
