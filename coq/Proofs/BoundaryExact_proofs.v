(* Property C15 - the witness-evaluated statement "Boundary(g) is exactly the boundary set of g"
   (Model/Boundary.v: boundary_exact, the SPEC check of the correspondence run) decides the
   statement for ALL points of Q^2: slab-witness sufficiency (Proofs/Planar_slab.v:
   witnesses_sufficient) for the non-face witnesses and for areal results, and the meaning of the
   face tag (Proofs/Planar_slab_dim.v: witness_tag - a D2 witness is on no segment and is no
   vertex) for the face witnesses that boundary_exact skips when the result has no areal part. *)
From Coq Require Import QArith Qreduction List Bool ZArith Lia Arith.
From SF Require Import Base.GeomAST Base.QKernel Base.Planar Proofs.Planar_proofs Proofs.Planar_slab_base
  Proofs.Planar_slab Proofs.Planar_slab_dim Model.Boundary Proofs.Boundary_proofs Model.BoundaryExact.
Import ListNotations.
Open Scope Q_scope.


(* ================================================================ the arrangement contains both geometries *)
Lemma dedup_sorted_in {A} (key : A -> list Z) (key_inj : forall x y, key x = key y -> x = y) l x :
  In x l -> In x (dedup_sorted key l).
Proof.
  revert x. induction l as [|a l IH]; intros x Hx; [destruct Hx|].
  destruct l as [|b r]; [exact Hx|].
  change (dedup_sorted key (a :: b :: r)) with
    (if lex_leb (key a) (key b) && lex_leb (key b) (key a) then dedup_sorted key (b :: r) else a :: dedup_sorted key (b :: r)).
  destruct (lex_leb (key a) (key b) && lex_leb (key b) (key a)) eqn:E.
  - apply andb_prop in E. destruct E as [E1 E2]. pose proof (key_inj _ _ (lex_leb_antisym _ _ E1 E2)) as ->.
    apply IH. destruct Hx as [<-|Hx]; [left; reflexivity|exact Hx].
  - destruct Hx as [<-|Hx]; [left; reflexivity|right; apply IH; exact Hx].
Qed.

Lemma arr_segments_leaf (g l : geom) : In l (leaves g) -> incl (arr_segments l) (arr_segments g).
Proof.
  induction g using geomT_ind'; cbn [leaves]; intros Hl; try (destruct Hl as [<-|[]]; apply incl_refl).
  apply in_flat_map in Hl. destruct Hl as [x [Hx Hl]]. rewrite Forall_forall in H.
  intros s Hs. specialize (H x Hx Hl s Hs). unfold arr_segments in *. cbn [g_polys g_lines].
  apply in_app_or in H. apply in_or_app. destruct H as [H|H]; [left|right].
  - apply in_flat_map in H. destruct H as [y [Hy Hs']]. apply in_flat_map. exists y. split; [|exact Hs'].
    apply in_flat_map. exists x. auto.
  - apply in_flat_map in H. destruct H as [ln [Hln Hs']]. apply in_flat_map. exists ln. split; [|exact Hs'].
    apply in_flat_map. exists x. auto.
Qed.
Lemma arr_points_leaf (g l : geom) : In l (leaves g) -> incl (arr_points l) (arr_points g).
Proof.
  induction g using geomT_ind'; cbn [leaves]; intros Hl; try (destruct Hl as [<-|[]]; apply incl_refl).
  apply in_flat_map in Hl. destruct Hl as [x [Hx Hl]]. rewrite Forall_forall in H.
  intros s Hs. specialize (H x Hx Hl s Hs). unfold arr_points in *. cbn [g_points]. apply in_flat_map. exists x. auto.
Qed.
Lemma g_polys_leaf' (g l : geom) y : In l (leaves g) -> In y (g_polys l) -> In y (g_polys g).
Proof.
  induction g using geomT_ind'; cbn [leaves]; intros Hl Hy; try (destruct Hl as [<-|[]]; exact Hy).
  apply in_flat_map in Hl. destruct Hl as [x [Hx Hl]]. rewrite Forall_forall in H.
  cbn [g_polys]. apply in_flat_map. exists x. split; [exact Hx|apply (H x Hx Hl Hy)].
Qed.

Lemma rings_closedb_prop g : rings_closedb g = true -> rings_closed g.
Proof.
  unfold rings_closedb, rings_closed. rewrite forallb_forall. intros H y Hy r Hr.
  specialize (H y Hy). rewrite forallb_forall in H. apply H. exact Hr.
Qed.

(* ================================================================ a face witness is in no boundary *)
Lemma on_edges_some_seg es L w : incl es L -> on_edges es w = true -> on_some_seg L w = true.
Proof.
  intros Hi H. unfold on_edges in H. apply existsb_exists in H. destruct H as [e [He Hon]].
  unfold on_some_seg. apply existsb_exists. exists e. split; [apply Hi; exact He|exact Hon].
Qed.

Lemma locate_boundary_on_seg (g : geom) w : locate g w = Boundary -> on_some_seg (arr_segments g) w = true.
Proof.
  unfold locate, locate_p, prep. cbn [pg_polys pg_lines pg_ends pg_points].
  destruct (existsb (fun rs => rings_interior rs w) (map poly_ring_segs (g_polys g))); [discriminate|].
  destruct (existsb (fun rs => rings_boundary rs w) (map poly_ring_segs (g_polys g))) eqn:Eb.
  - intros _. rewrite existsb_map in Eb. apply existsb_exists in Eb. destruct Eb as [y [Hy Hb]].
    unfold rings_boundary in Hb. apply existsb_exists in Hb. destruct Hb as [r [Hr Hon]].
    apply (on_edges_some_seg r); [|exact Hon]. intros s Hs. unfold arr_segments. apply in_or_app. left.
    apply in_flat_map. exists y. split; [exact Hy|]. apply in_concat. exists r. auto.
  - destruct (existsb (fun es => on_edges es w) (map line_segs (g_lines g))) eqn:El.
    + intros _. rewrite existsb_map in El. apply existsb_exists in El. destruct El as [ln [Hln Hon]].
      apply (on_edges_some_seg (line_segs ln)); [|exact Hon]. intros s Hs. unfold arr_segments. apply in_or_app. right.
      apply in_flat_map. exists ln. auto.
    + destruct (existsb (pt_eqb w) (g_points g)); discriminate.
Qed.

Lemma low_dim_no_polys (g : geom) : (dimension g <= 1)%nat -> g_polys g = [].
Proof.
  induction g using geomT_ind'; cbn [dimension g_polys]; intros Hd; try reflexivity; try lia.
  rewrite Forall_forall in H.
  assert (G : forall x, In x gs -> g_polys x = []).
  { intros x Hx. apply H; [exact Hx|]. pose proof (fold_max_ge _ dimension gs 0%nat x Hx). lia. }
  clear Hd H. induction gs as [|a gs IH]; [reflexivity|]. cbn [flat_map]. rewrite (G a (or_introl eq_refl)).
  apply IH. intros; apply G; right; assumption.
Qed.

Lemma on_some_seg_incl A B w : incl A B -> on_some_seg A w = true -> on_some_seg B w = true.
Proof.
  intros Hi H. unfold on_some_seg in *. apply existsb_exists in H. destruct H as [e [He Hon]].
  apply existsb_exists. exists e. split; [apply Hi; exact He|exact Hon].
Qed.

(* ================================================================ boundary_exact decides the statement for ALL points *)
Theorem boundary_exact_everywhere_lemma (g b : geom) :
  boundary_exact_ok g b = true ->
  forall p, inG b p = on_leaf_boundary (leaf_preps g) p.
Proof.
  unfold boundary_exact_ok. intros H p. apply andb_prop in H. destruct H as [H Hex]. apply andb_prop in H.
  destruct H as [Hg Hb]. apply rings_closedb_prop in Hg, Hb.
  unfold boundary_exact in Hex.
  set (L := dedup_sorted seg_key (canon_segs (arr_segments g ++ arr_segments b))) in *.
  set (P := dedup_sorted pt_key (canon_pts (arr_points g ++ arr_points b))) in *.
  rewrite forallb_forall in Hex.
  assert (InL : incl (arr_segments g ++ arr_segments b) L).
  { intros s Hs. apply (dedup_sorted_in seg_key seg_key_inj). apply (ksort_in _ seg_key). exact Hs. }
  assert (InP : incl (arr_points g ++ arr_points b) P).
  { intros s Hs. apply (dedup_sorted_in pt_key pt_key_inj). apply (ksort_in _ pt_key). exact Hs. }
  assert (Cb : covers_geom L P b).
  { split; intros x Hx; [apply InL|apply InP]; apply in_or_app; right; exact Hx. }
  assert (Cl : forall l, In l (leaves g) -> covers_geom L P l /\ rings_closed l).
  { intros l Hl. split; [split|].
    - intros x Hx. apply InL. apply in_or_app. left. apply (arr_segments_leaf g l Hl). exact Hx.
    - intros x Hx. apply InP. apply in_or_app. left. apply (arr_points_leaf g l Hl). exact Hx.
    - intros y Hy. apply Hg. apply (g_polys_leaf' g l y Hl Hy). }
  destruct (witnesses_sufficient L P p) as [w [d [Hin Hs]]].
  assert (Eb : inG b p = inG b w) by (apply inG_of_locate; apply Hs; assumption).
  assert (El : on_leaf_boundary (leaf_preps g) p = on_leaf_boundary (leaf_preps g) w).
  { unfold on_leaf_boundary, leaf_preps. rewrite !existsb_map. apply existsb_ext_in. intros l Hl.
    destruct (Cl l Hl) as [C R]. change (locate_p (prep l) p) with (locate l p). change (locate_p (prep l) w) with (locate l w).
    rewrite (Hs l C R). reflexivity. }
  rewrite Eb, El. specialize (Hex (w, d) Hin). cbn [fst snd] in Hex.
  assert (Hface : d = D2 -> Nat.ltb 1 (dimension b) = false ->
                  inG b w = on_leaf_boundary (leaf_preps g) w).
  { intros -> Hdim. apply Nat.ltb_ge in Hdim.
    destruct (witness_tag L P w D2 Hin) as [T _]. destruct (T eq_refl) as [Tseg Tvtx].
    assert (E1 : inG b w = false).
    { rewrite inG_flat, (low_dim_no_polys b Hdim). cbn [existsb orb]. apply orb_false_iff. split.
      - apply existsb_false_in. intros ln Hln. destruct (on_line ln w) eqn:E; [|reflexivity]. exfalso.
        assert (K : on_some_seg L w = true).
        { apply (on_edges_some_seg (line_segs ln)); [|exact E]. intros s Hs'. apply InL. apply in_or_app. right.
          unfold arr_segments. apply in_or_app. right. apply in_flat_map. exists ln. auto. }
        congruence.
      - apply existsb_false_in. intros q Hq. destruct (pt_eqb w q) eqn:E; [|reflexivity]. exfalso.
        assert (K : is_vertex (vertex_set L P) w = true).
        { unfold is_vertex. apply existsb_exists. exists q. split; [|exact E].
          unfold vertex_set. apply in_or_app. right. apply in_or_app. right. apply InP. apply in_or_app. right. exact Hq. }
        congruence. }
    assert (E2 : on_leaf_boundary (leaf_preps g) w = false).
    { unfold on_leaf_boundary, leaf_preps. rewrite existsb_map. apply existsb_false_in. intros l Hl.
      change (locate_p (prep l) w) with (locate l w).
      destruct (locate l w) eqn:E; try reflexivity. exfalso.
      pose proof (locate_boundary_on_seg l w E) as K.
      destruct (Cl l Hl) as [[C _] _]. rewrite (on_some_seg_incl _ L w C K) in Tseg. discriminate. }
    rewrite E1, E2. reflexivity. }
  destruct d; try (apply eqb_prop; exact Hex).
  destruct (Nat.ltb 1 (dimension b)) eqn:Ef; [apply eqb_prop; exact Hex|apply Hface; reflexivity].
Qed.
