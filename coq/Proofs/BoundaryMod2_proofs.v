(* Property C15 - lemmas about Model/BoundaryMod2.v: the model's boundary satisfies the executable
   mod-2 statements, and agreement at the finitely many candidates decides it for every point. *)
From Coq Require Import QArith List Bool Lia PeanoNat.
From SF Require Import Base.GeomAST Base.QKernel Base.Planar Model.Boundary Model.BoundaryMod2
  Proofs.Boundary_proofs.
Import ListNotations.

(* ---------------------------------------------------------------- both sides respect pt_eqb *)
Lemma odd_open_ends_cnt ls p : odd_open_ends ls p = Nat.odd (cnt p (mod2_ends ls)).
Proof. unfold odd_open_ends, mod2_ends. rewrite ends_cnt. reflexivity. Qed.

Lemma odd_open_ends_proper ls p q : pt_eqb p q = true -> odd_open_ends ls p = odd_open_ends ls q.
Proof. intros H. rewrite !odd_open_ends_cnt, (cnt_eq p q _ H). reflexivity. Qed.

Lemma existsb_pt_proper l p q : pt_eqb p q = true -> existsb (pt_eqb p) l = existsb (pt_eqb q) l.
Proof.
  intros H. induction l as [|a l IH]; [reflexivity|]. simpl. rewrite IH, (pt_eqb_trans_l p q a H). reflexivity.
Qed.

Lemma existsb_flat_map {A B} (f : A -> list B) (h : B -> bool) l :
  existsb h (flat_map f l) = existsb (fun x => existsb h (f x)) l.
Proof. induction l as [|a l IH]; [reflexivity|]. simpl. rewrite existsb_app, IH. reflexivity. Qed.

Lemma flat_map_nil_all {A B} (f : A -> list B) l : flat_map f l = [] -> forall x, In x l -> f x = [].
Proof.
  induction l as [|a l IH]; simpl; intros H x Hx; [destruct Hx|].
  apply app_eq_nil in H. destruct H as [Ha Hl]. destruct Hx as [<-|Hx]; [exact Ha|exact (IH Hl x Hx)].
Qed.

(* a geometry without lineal and areal parts is the set of its points *)
Lemma inG_puntal (b : geom) p : g_lines b = [] -> g_polys b = [] -> inG b p = existsb (pt_eqb p) (g_points b).
Proof.
  induction b using geomT_ind'; cbn [inG g_lines g_polys g_points]; intros Hl Hp; try discriminate.
  - reflexivity.
  - rewrite existsb_flat_map. reflexivity.
  - subst. reflexivity.
  - subst. reflexivity.
  - rewrite existsb_flat_map. rewrite Forall_forall in H. apply existsb_ext_in. intros x Hx.
    apply H; [exact Hx|exact (flat_map_nil_all _ _ Hl x Hx)|exact (flat_map_nil_all _ _ Hp x Hx)].
Qed.

Lemma puntalb_spec b : puntalb b = true -> g_lines b = [] /\ g_polys b = [].
Proof. unfold puntalb. destruct (g_lines b); [|discriminate]. destruct (g_polys b); [auto|discriminate]. Qed.

(* ---------------------------------------------------------------- agreement at the candidates decides all of Q^2 *)
Theorem mod2_exact_everywhere_lemma (g b : geom) :
  (exists l, g = GLine l) \/ (exists ct ls, g = GMLine ct ls) ->
  puntalb b = true -> mod2_exact g b = true ->
  forall p, inG b p = odd_open_ends (lineal_members g) p.
Proof.
  intros Hg Hb He p.
  assert (Hall : forall c, In c (mod2_ends (lineal_members g) ++ g_points b) ->
                           inG b c = odd_open_ends (lineal_members g) c).
  { destruct Hg as [[l ->]|[ct [ls ->]]]; cbn [mod2_exact] in He; unfold mod2_agree_at in He;
      rewrite forallb_forall in He; intros c Hc; apply eqb_prop; apply He; exact Hc. }
  destruct (puntalb_spec b Hb) as [Hl Hp].
  set (ls := lineal_members g) in *.
  destruct (inG b p) eqn:Ein.
  - (* p is (equal to) a point c of b; the check at c *)
    rewrite (inG_puntal b p Hl Hp) in Ein. apply existsb_exists in Ein. destruct Ein as [c [Hc Epc]].
    rewrite (odd_open_ends_proper ls p c Epc). rewrite <- (Hall c (in_or_app _ _ _ (or_intror Hc))).
    rewrite (inG_puntal b c Hl Hp). symmetry. apply existsb_exists. exists c. split; [exact Hc|apply pt_eqb_refl].
  - (* otherwise: were p an odd end point, it would equal an end point e of a member, and the check
       at e puts e (hence p) in b *)
    destruct (odd_open_ends ls p) eqn:Eo; [|reflexivity]. exfalso.
    pose proof Eo as Eo2. rewrite odd_open_ends_cnt in Eo2. apply odd_pos in Eo2. apply cnt_pos_iff in Eo2.
    apply existsb_exists in Eo2. destruct Eo2 as [e [He1 Epe]].
    pose proof (Hall e (in_or_app _ _ _ (or_introl He1))) as Hc.
    rewrite <- (odd_open_ends_proper ls p e Epe), Eo in Hc.
    rewrite (inG_puntal b e Hl Hp) in Hc.
    rewrite (inG_puntal b p Hl Hp), (existsb_pt_proper _ p e Epe), Hc in Ein. discriminate.
Qed.

(* ---------------------------------------------------------------- the model satisfies both statements *)
Lemma inG_boundary_lineal (l : geom) p :
  inG (boundary l) p = match l with
                       | GLine _ | GMLine _ _ => odd_open_ends (lineal_members l) p
                       | _ => inG (boundary l) p
                       end.
Proof.
  destruct l; try reflexivity; cbn [boundary lineal_members].
  - rewrite inG_line_boundary. unfold odd_open_ends. cbn [filter]. destruct (open_end_of l p); reflexivity.
  - apply boundary_mod2_spec_lemma.
Qed.

Theorem mod2_exact_model_lemma (g : geom) : mod2_exact g (boundary g) = true.
Proof.
  destruct g; try reflexivity; cbn [mod2_exact]; unfold mod2_agree_at; apply forallb_forall; intros p _;
    rewrite inG_boundary_lineal; apply eqb_reflx.
Qed.

(* the boundary of a geometry contains the boundary of each of its leaves *)
Lemma inG_boundary_leaf (g : geom) p l : In l (leaves g) -> inG (boundary l) p = true -> inG (boundary g) p = true.
Proof.
  induction g using geomT_ind'; cbn [leaves]; intros Hin Hb;
    try (destruct Hin as [<-|[]]; exact Hb).
  rewrite boundary_collection_lemma. apply in_flat_map in Hin. destruct Hin as [x [Hx Hl]].
  apply existsb_exists. exists x. split; [exact Hx|]. rewrite Forall_forall in H. exact (H x Hx Hl Hb).
Qed.

Theorem mod2_complete_model_lemma (g : geom) : mod2_complete g (boundary g) = true.
Proof.
  unfold mod2_complete. apply forallb_forall. intros l Hl. unfold mod2_leaf_complete.
  apply forallb_forall. intros p _.
  destruct (odd_open_ends (lineal_members l) p) eqn:Eo; [|reflexivity]. cbn [implb].
  apply (inG_boundary_leaf g p l Hl).
  destruct l; cbn [lineal_members] in Eo; try (unfold odd_open_ends in Eo; discriminate Eo);
    rewrite inG_boundary_lineal; exact Eo.
Qed.
