(* Property C15 - lemmas about Model/Boundary.v.
   Point sets and locations are the definitions of Base/Planar.v (inG, locate). *)
From Coq Require Import QArith Qreduction List Bool ZArith Lia Arith.
From SF Require Import Base.GeomAST Base.QKernel Base.Planar Proofs.Planar_proofs Model.Boundary.
Import ListNotations.
Open Scope Q_scope.

(* ================================================================ small facts *)
Lemma pt_eqb_refl p : pt_eqb p p = true.
Proof. apply pt_eqb_iff. reflexivity. Qed.
Lemma pt_eqb_sym p q : pt_eqb p q = pt_eqb q p.
Proof.
  destruct (pt_eqb p q) eqn:E; symmetry.
  - apply pt_eqb_iff. symmetry. apply pt_eqb_iff. exact E.
  - apply pt_eqb_false_iff. intro H. apply pt_eqb_false_iff in E. apply E. symmetry. exact H.
Qed.
Lemma pt_eqb_trans_l p q r : pt_eqb p q = true -> pt_eqb p r = pt_eqb q r.
Proof.
  intros H. apply pt_eqb_iff in H.
  destruct (pt_eqb q r) eqn:E.
  - apply pt_eqb_iff. apply pt_eqb_iff in E. etransitivity; eauto.
  - apply pt_eqb_false_iff. apply pt_eqb_false_iff in E. intro H'. apply E. etransitivity; [symmetry|]; eauto.
Qed.
Lemma pt_eqb_trans_r p q r : pt_eqb q r = true -> pt_eqb p q = pt_eqb p r.
Proof. intros H. rewrite (pt_eqb_sym p q), (pt_eqb_sym p r). apply pt_eqb_trans_l. exact H. Qed.

Lemma vpt_force old new v : vpt (force_vtx 0 old new v) = vpt v.
Proof. reflexivity. Qed.

Lemma last_map {A B} (f : A -> B) l d : last (map f l) (f d) = f (last l d).
Proof. induction l as [|a [|b l] IH]; simpl in *; auto. Qed.

Lemma fold_max_le (A : Type) (f : A -> nat) l d0 :
  (d0 <= fold_left (fun d x => Nat.max d (f x)) l d0)%nat.
Proof. revert d0. induction l as [|a l IH]; intros d0; simpl; [lia|]. specialize (IH (Nat.max d0 (f a))). lia. Qed.
Lemma fold_max_ge (A : Type) (f : A -> nat) l d0 x :
  In x l -> (f x <= fold_left (fun d x => Nat.max d (f x)) l d0)%nat.
Proof.
  revert d0. induction l as [|a l IH]; intros d0 Hin; simpl; [destruct Hin|].
  destruct Hin as [->|Hin]; [|apply IH; exact Hin].
  pose proof (fold_max_le A f l (Nat.max d0 (f x))). lia.
Qed.
Lemma fold_max_bound (A : Type) (f : A -> nat) l d0 b :
  (d0 <= b)%nat -> (forall x, In x l -> (f x <= b)%nat) ->
  (fold_left (fun d x => Nat.max d (f x)) l d0 <= b)%nat.
Proof.
  revert d0. induction l as [|a l IH]; intros d0 H0 H; simpl; [exact H0|].
  apply IH; [|intros; apply H; right; assumption].
  pose proof (H a (or_introl eq_refl)). lia.
Qed.
Lemma fold_max_ext (A : Type) (f g : A -> nat) l d0 :
  (forall x, In x l -> f x = g x) ->
  fold_left (fun d x => Nat.max d (f x)) l d0 = fold_left (fun d x => Nat.max d (g x)) l d0.
Proof.
  revert d0. induction l as [|a l IH]; intros d0 H; simpl; [reflexivity|].
  rewrite (H a (or_introl eq_refl)). apply IH. intros; apply H; right; assumption.
Qed.

(* ================================================================ Force2D keeps the point set *)
Lemma point_empty_force new (p : pointT Q) : point_empty (force_point 0 new p) = point_empty p.
Proof. destruct p as [ct [v|]]; reflexivity. Qed.
Lemma line_empty_force new (l : lineT Q) : line_empty (force_line 0 new l) = line_empty l.
Proof. destruct l as [ct [|v vs]]; reflexivity. Qed.
Lemma poly_empty_force new (y : polyT Q) : poly_empty (force_poly 0 new y) = poly_empty y.
Proof. destruct y as [ct [|r rs]]; reflexivity. Qed.

Lemma forallb_map {A B} (f : A -> B) (p : B -> bool) l : forallb p (map f l) = forallb (fun x => p (f x)) l.
Proof. induction l; simpl; congruence. Qed.
Lemma existsb_map {A B} (f : A -> B) (p : B -> bool) l : existsb p (map f l) = existsb (fun x => p (f x)) l.
Proof. induction l; simpl; congruence. Qed.
Lemma forallb_ext_in {A} (p q : A -> bool) l : (forall x, In x l -> p x = q x) -> forallb p l = forallb q l.
Proof. induction l; simpl; intros H; auto. rewrite (H a), IHl; auto. Qed.
Lemma existsb_ext_in {A} (p q : A -> bool) l : (forall x, In x l -> p x = q x) -> existsb p l = existsb q l.
Proof. induction l; simpl; intros H; auto. rewrite (H a), IHl; auto. Qed.

Lemma is_empty_force new (g : geom) : is_empty (force_geom 0 new g) = is_empty g.
Proof.
  induction g using geomT_ind'; simpl.
  - apply point_empty_force.
  - apply line_empty_force.
  - apply poly_empty_force.
  - rewrite forallb_map. apply forallb_ext_in. intros; apply point_empty_force.
  - rewrite forallb_map. apply forallb_ext_in. intros; apply line_empty_force.
  - rewrite forallb_map. apply forallb_ext_in. intros; apply poly_empty_force.
  - rewrite forallb_map. apply forallb_ext_in. intros x Hx. rewrite Forall_forall in H. apply H. exact Hx.
Qed.

Lemma line_pts_force new l : line_pts (force_line 0 new l) = line_pts l.
Proof. destruct l as [ct vs]. unfold line_pts; simpl. rewrite map_map. reflexivity. Qed.
Lemma on_line_force new l p : on_line (force_line 0 new l) p = on_line l p.
Proof. unfold on_line, line_segs. rewrite line_pts_force. reflexivity. Qed.
Lemma in_point_force new q p : in_point (force_point 0 new q) p = in_point q p.
Proof. destruct q as [ct [v|]]; reflexivity. Qed.
Lemma poly_ring_segs_force new y : poly_ring_segs (force_poly 0 new y) = poly_ring_segs y.
Proof.
  destruct y as [ct rs]. unfold poly_ring_segs; simpl. rewrite map_map.
  apply map_ext. intros l. unfold line_segs. rewrite line_pts_force. reflexivity.
Qed.
Lemma in_poly_force new y p : in_poly (force_poly 0 new y) p = in_poly y p.
Proof. unfold in_poly, poly_boundary, poly_interior. rewrite poly_ring_segs_force. reflexivity. Qed.

Lemma inG_force new (g : geom) p : inG (force_geom 0 new g) p = inG g p.
Proof.
  induction g using geomT_ind'; simpl.
  - apply in_point_force.
  - apply on_line_force.
  - apply in_poly_force.
  - rewrite existsb_map. apply existsb_ext_in. intros; apply in_point_force.
  - rewrite existsb_map. apply existsb_ext_in. intros; apply on_line_force.
  - rewrite existsb_map. apply existsb_ext_in. intros; apply in_poly_force.
  - rewrite existsb_map. apply existsb_ext_in. intros x Hx. rewrite Forall_forall in H. apply H. exact Hx.
Qed.

Lemma dimension_force new (g : geom) : dimension (force_geom 0 new g) = dimension g.
Proof.
  induction g using geomT_ind'; simpl; try reflexivity.
  rewrite Forall_forall in H.
  assert (E : forall l d0, (forall x, In x l -> dimension (force_geom 0 new x) = dimension x) ->
            fold_left (fun d g' => Nat.max d (dimension g')) (map (force_geom 0 new) l) d0 =
            fold_left (fun d g' => Nat.max d (dimension g')) l d0).
  { induction l as [|a l IH]; intros d0 Hl; simpl; [reflexivity|].
    rewrite (Hl a (or_introl eq_refl)). apply IH. intros; apply Hl; right; assumption. }
  apply E. exact H.
Qed.

Lemma dim_ie_force new (g : geom) : dim_ie (force_geom 0 new g) = dim_ie g.
Proof.
  induction g using geomT_ind'.
  - destruct p as [ct [v|]]; reflexivity.
  - destruct l as [ct [|v vs]]; reflexivity.
  - destruct p as [ct [|r rs]]; reflexivity.
  - change (dim_ie (GMPoint new (map (force_point 0 new) ps)) = dim_ie (GMPoint ct ps)).
    unfold dim_ie. destruct (is_empty _), (is_empty _); reflexivity.
  - change (dim_ie (GMLine new (map (force_line 0 new) ls)) = dim_ie (GMLine ct ls)).
    unfold dim_ie. rewrite <- (is_empty_force new (GMLine ct ls)). simpl. destruct (forallb _ _); reflexivity.
  - change (dim_ie (GMPoly new (map (force_poly 0 new) ps)) = dim_ie (GMPoly ct ps)).
    unfold dim_ie. rewrite <- (is_empty_force new (GMPoly ct ps)). simpl. destruct (forallb _ _); reflexivity.
  - rewrite Forall_forall in H.
    change (force_geom 0 new (GColl ct gs)) with (GColl new (map (force_geom 0 new) gs)).
    cbn [dim_ie]. rewrite <- (is_empty_force new (GColl ct gs)).
    change (force_geom 0 new (GColl ct gs)) with (GColl new (map (force_geom 0 new) gs)).
    destruct (is_empty (GColl new (map (force_geom 0 new) gs))); [reflexivity|].
    assert (E : forall l d0, (forall x, In x l -> dim_ie (force_geom 0 new x) = dim_ie x) ->
              fold_left (fun d g' => Nat.max d (dim_ie g')) (map (force_geom 0 new) l) d0 =
              fold_left (fun d g' => Nat.max d (dim_ie g')) l d0).
    { induction l as [|a l IH]; intros d0 Hl; simpl; [reflexivity|].
      rewrite (Hl a (or_introl eq_refl)). apply IH. intros; apply Hl; right; assumption. }
    apply E. exact H.
Qed.

(* ================================================================ constructors *)
Lemma new_multipoint_shape ps : exists ct, new_multipoint 0 ps = GMPoint ct (map (force_point 0 ct) ps).
Proof. destruct ps as [|p ps]; [exists XY; reflexivity|]. eexists. reflexivity. Qed.
Lemma new_multiline_shape ls : exists ct, new_multiline 0 ls = GMLine ct (map (force_line 0 ct) ls).
Proof. destruct ls as [|l ls]; [exists XY; reflexivity|]. eexists. reflexivity. Qed.

Lemma is_empty_new_multipoint ps : is_empty (new_multipoint 0 ps) = forallb (@point_empty Q) ps.
Proof.
  destruct (new_multipoint_shape ps) as [ct ->]. simpl. rewrite forallb_map.
  apply forallb_ext_in. intros; apply point_empty_force.
Qed.
Lemma inG_new_multipoint ps p : inG (new_multipoint 0 ps) p = existsb (fun q => in_point q p) ps.
Proof.
  destruct (new_multipoint_shape ps) as [ct ->]. simpl. rewrite existsb_map.
  apply existsb_ext_in. intros; apply in_point_force.
Qed.
Lemma is_empty_new_multiline ls : is_empty (new_multiline 0 ls) = forallb (@line_empty Q) ls.
Proof.
  destruct (new_multiline_shape ls) as [ct ->]. simpl. rewrite forallb_map.
  apply forallb_ext_in. intros; apply line_empty_force.
Qed.
Lemma inG_new_multiline ls p : inG (new_multiline 0 ls) p = existsb (fun l => on_line l p) ls.
Proof.
  destruct (new_multiline_shape ls) as [ct ->]. simpl. rewrite existsb_map.
  apply existsb_ext_in. intros; apply on_line_force.
Qed.

(* Force2D after the constructor's own forcing is Force2D *)
Lemma force_line_twice ct (l : lineT Q) :
  force_line 0 XY (force_line 0 ct l) = force_line 0 XY l.
Proof.
  destruct l as [old vs]. simpl. f_equal. rewrite map_map. apply map_ext. intros v. reflexivity.
Qed.
Lemma poly_boundary_mls_eq y : poly_boundary_mls y = GMLine XY (map line2d (poly_rings y)).
Proof.
  unfold poly_boundary_mls, force2d. destruct (poly_rings y) as [|r rs]; [reflexivity|].
  unfold new_multiline. cbn [force_geom]. f_equal. rewrite map_map. apply map_ext.
  intros l. apply force_line_twice.
Qed.

Lemma line_is_closed_force new (l : lineT Q) : line_is_closed (force_line 0 new l) = line_is_closed l.
Proof.
  destruct l as [old vs]. unfold line_is_closed; simpl. destruct vs as [|a r]; [reflexivity|]. simpl map.
  cbn [line_vs]. rewrite (last_map (force_vtx 0 old new)). reflexivity.
Qed.

(* ================================================================ empty geometries *)
Lemma on_line_empty l p : line_empty l = true -> on_line l p = false.
Proof. destruct l as [ct [|v vs]]; [reflexivity|discriminate]. Qed.
Lemma in_poly_empty y p : poly_empty y = true -> in_poly y p = false.
Proof. destruct y as [ct [|r rs]]; [reflexivity|discriminate]. Qed.
Lemma in_point_empty q p : point_empty q = true -> in_point q p = false.
Proof. destruct q as [ct [v|]]; [discriminate|reflexivity]. Qed.

Lemma existsb_false_in {A} (f : A -> bool) l : (forall x, In x l -> f x = false) -> existsb f l = false.
Proof. induction l; simpl; intros H; auto. rewrite (H a), IHl; auto. Qed.

Lemma inG_empty (g : geom) p : is_empty g = true -> inG g p = false.
Proof.
  induction g using geomT_ind'; simpl; intros He.
  - apply in_point_empty; exact He.
  - apply on_line_empty; exact He.
  - apply in_poly_empty; exact He.
  - rewrite forallb_forall in He. apply existsb_false_in. intros; apply in_point_empty; auto.
  - rewrite forallb_forall in He. apply existsb_false_in. intros; apply on_line_empty; auto.
  - rewrite forallb_forall in He. apply existsb_false_in. intros; apply in_poly_empty; auto.
  - rewrite forallb_forall in He. rewrite Forall_forall in H. apply existsb_false_in. intros; apply H; auto.
Qed.

Lemma mline_endpoints_all_skipped ls :
  (forall l, In l ls -> line_empty l = true \/ line_is_closed l = true) -> mline_endpoints ls = [].
Proof.
  unfold mline_endpoints. induction ls as [|l ls IH]; intros H; [reflexivity|].
  simpl. rewrite filter_app. rewrite IH by (intros; apply H; right; assumption). rewrite app_nil_r.
  destruct (H l (or_introl eq_refl)) as [He|Hc].
  - destruct l as [ct [|v vs]]; [|discriminate]. reflexivity.
  - rewrite Hc. reflexivity.
Qed.

Lemma boundary_of_empty (g : geom) : is_empty g = true -> is_empty (boundary g) = true.
Proof.
  destruct g; cbn [boundary]; intros He; cbn [is_empty] in He; try reflexivity.
  - unfold line_boundary. rewrite He. reflexivity.
  - destruct p as [ct [|r rs]]; [reflexivity|discriminate].
  - unfold mline_boundary, mod2_points. rewrite mline_endpoints_all_skipped; [reflexivity|].
    rewrite forallb_forall in He. intros; left; auto.
  - unfold mpoly_boundary. rewrite is_empty_new_multiline. rewrite forallb_forall in *.
    intros l Hl. apply in_flat_map in Hl. destruct Hl as [y [Hy Hl]]. apply He in Hy.
    destruct y as [c [|r rs]]; [destruct Hl|discriminate].
  - rewrite He. exact He.
Qed.

(* ================================================================ collections *)
Lemma boundary_collection_structure_lemma ct gs :
  boundary (GColl ct gs) =
  if forallb (@is_empty Q) gs then GColl ct gs
  else GColl XY (filter (fun b => negb (is_empty b)) (map (fun g' => force2d (boundary g')) gs)).
Proof. reflexivity. Qed.

Lemma existsb_filter_nonempty (bs : list geom) p :
  existsb (fun b => inG b p) (filter (fun b => negb (is_empty b)) bs) = existsb (fun b => inG b p) bs.
Proof.
  induction bs as [|b bs IH]; [reflexivity|]. simpl. destruct (is_empty b) eqn:E; simpl.
  - rewrite (inG_empty b p E). exact IH.
  - rewrite IH. reflexivity.
Qed.

Lemma boundary_collection_lemma ct gs p :
  inG (boundary (GColl ct gs)) p = existsb (fun g' => inG (boundary g') p) gs.
Proof.
  rewrite boundary_collection_structure_lemma. destruct (forallb (@is_empty Q) gs) eqn:E.
  - rewrite (inG_empty (GColl ct gs) p E). symmetry. apply existsb_false_in.
    rewrite forallb_forall in E. intros x Hx. apply inG_empty. apply boundary_of_empty. auto.
  - cbn [inG]. rewrite existsb_filter_nonempty, existsb_map. apply existsb_ext_in.
    intros x _. apply inG_force.
Qed.

(* ================================================================ the boundary of a boundary *)
(* the shape of every Boundary result: empty, or points, closed (or empty) lines, collections of those *)
Definition closed_or_empty (l : lineT Q) : bool := line_empty l || line_is_closed l.
Fixpoint bshape (b : geom) : bool :=
  is_empty b ||
  match b with
  | GPoint _ | GMPoint _ _ => true
  | GLine l => closed_or_empty l
  | GMLine _ ls => forallb closed_or_empty ls
  | GPoly _ | GMPoly _ _ => false
  | GColl _ bs => forallb bshape bs
  end.

Definition bshape_body (b : geom) : bool :=
  match b with
  | GPoint _ | GMPoint _ _ => true
  | GLine l => closed_or_empty l
  | GMLine _ ls => forallb closed_or_empty ls
  | GPoly _ | GMPoly _ _ => false
  | GColl _ bs => forallb bshape bs
  end.
Lemma bshape_eq b : bshape b = is_empty b || bshape_body b.
Proof. destruct b; reflexivity. Qed.

Lemma closed_or_empty_force new l : closed_or_empty (force_line 0 new l) = closed_or_empty l.
Proof. unfold closed_or_empty. rewrite line_empty_force, line_is_closed_force. reflexivity. Qed.

Lemma bshape_force new (b : geom) : bshape (force_geom 0 new b) = bshape b.
Proof.
  induction b using geomT_ind'; rewrite !bshape_eq, is_empty_force; f_equal; cbn [force_geom bshape_body]; try reflexivity.
  - apply closed_or_empty_force.
  - rewrite forallb_map. apply forallb_ext_in. intros; apply closed_or_empty_force.
  - rewrite forallb_map. apply forallb_ext_in. rewrite Forall_forall in H. exact H.
Qed.

Lemma ring_ok_closed l : ring_ok l = true -> closed_or_empty l = true.
Proof. unfold ring_ok, closed_or_empty. intros H. apply andb_prop in H. destruct H as [_ ->]. apply orb_true_r. Qed.

Lemma bshape_new_multipoint ps : bshape (new_multipoint 0 ps) = true.
Proof. destruct (new_multipoint_shape ps) as [ct ->]. rewrite bshape_eq. apply orb_true_r. Qed.

Lemma bshape_boundary (g : geom) : geom_wf g = true -> bshape (boundary g) = true.
Proof.
  induction g using geomT_ind'; cbn [boundary geom_wf]; intros Hwf; try reflexivity.
  - unfold line_boundary. destruct (line_empty l || line_is_closed l); [reflexivity|apply bshape_new_multipoint].
  - unfold poly_boundary_geom. rewrite poly_boundary_mls_eq.
    assert (Hall : forallb closed_or_empty (map line2d (poly_rings p)) = true).
    { rewrite forallb_map. unfold poly_wf in Hwf. rewrite forallb_forall in *. intros l Hl.
      unfold line2d. rewrite closed_or_empty_force. apply ring_ok_closed. auto. }
    destruct (map line2d (poly_rings p)) as [|l [|l2 rest]]; rewrite bshape_eq; cbn [bshape_body]; rewrite ?Hall; try apply orb_true_r.
    simpl in Hall. rewrite andb_true_r in Hall. rewrite Hall. apply orb_true_r.
  - apply bshape_new_multipoint.
  - unfold mpoly_boundary. destruct (new_multiline_shape (flat_map (fun y => map line2d (poly_rings y)) ps)) as [c ->].
    rewrite bshape_eq. cbn [bshape_body]. apply orb_true_iff. right. rewrite forallb_map. rewrite forallb_forall in *. intros l Hl.
    rewrite closed_or_empty_force. apply in_flat_map in Hl. destruct Hl as [y [Hy Hl]].
    apply in_map_iff in Hl. destruct Hl as [r [<- Hr]]. unfold line2d. rewrite closed_or_empty_force.
    apply ring_ok_closed. specialize (Hwf y Hy). unfold poly_wf in Hwf. rewrite forallb_forall in Hwf. auto.
  - destruct (forallb (@is_empty Q) gs) eqn:E.
    + rewrite bshape_eq. cbn [is_empty]. rewrite E. reflexivity.
    + rewrite bshape_eq. cbn [bshape_body]. apply orb_true_iff. right. rewrite forallb_forall. intros b Hb.
      apply filter_In in Hb. destruct Hb as [Hb _].
      apply in_map_iff in Hb. destruct Hb as [x [<- Hx]]. unfold force2d. rewrite bshape_force.
      rewrite Forall_forall in H. apply H; auto. rewrite forallb_forall in Hwf. auto.
Qed.

Lemma bshape_boundary_empty (b : geom) : bshape b = true -> is_empty (boundary b) = true.
Proof.
  induction b using geomT_ind'; rewrite bshape_eq; intros Hs;
    apply orb_true_iff in Hs; destruct Hs as [He|Hs]; try (apply boundary_of_empty; exact He);
    cbn [boundary bshape_body] in *; try reflexivity; try discriminate.
  - unfold line_boundary. unfold closed_or_empty in Hs. rewrite Hs. reflexivity.
  - unfold mline_boundary, mod2_points. rewrite mline_endpoints_all_skipped; [reflexivity|].
    rewrite forallb_forall in Hs. intros l Hl. apply Hs in Hl. unfold closed_or_empty in Hl.
    apply orb_true_iff in Hl. exact Hl.
  - destruct (forallb (@is_empty Q) gs) eqn:E; [exact E|].
    cbn [is_empty]. rewrite forallb_forall. intros b Hb. apply filter_In in Hb. destruct Hb as [Hb Hne].
    apply in_map_iff in Hb. destruct Hb as [x [<- Hx]]. unfold force2d in *. rewrite is_empty_force in *.
    rewrite Forall_forall in H. rewrite forallb_forall in Hs. rewrite (H x Hx (Hs x Hx)) in Hne. discriminate.
Qed.

Theorem boundary_of_boundary_empty_lemma (g : geom) :
  geom_wf g = true -> is_empty (boundary (boundary g)) = true.
Proof. intros H. apply bshape_boundary_empty, bshape_boundary, H. Qed.

(* points and closed lines have an empty boundary *)
Lemma boundary_puntal_empty_lemma (g : geom) :
  (forall ct gs, g <> GColl ct gs) -> dimension g = 0%nat -> is_empty (boundary g) = true.
Proof. destruct g; simpl; intros Hn Hd; try discriminate; try reflexivity. exfalso; eapply Hn; reflexivity. Qed.
Lemma boundary_closed_line_empty_lemma (l : lineT Q) :
  line_is_closed l = true -> is_empty (boundary (GLine l)) = true.
Proof. intros H. cbn [boundary]. unfold line_boundary. rewrite H, orb_true_r. reflexivity. Qed.

(* ================================================================ dimension of the boundary *)
Definition dim_body (g : geom) : nat :=
  match g with
  | GPoint _ | GMPoint _ _ => 0%nat
  | GLine _ | GMLine _ _ => 1%nat
  | GPoly _ | GMPoly _ _ => 2%nat
  | GColl _ gs => fold_left (fun d g' => Nat.max d (dim_ie g')) gs 0%nat
  end.
Lemma dim_ie_eq g : dim_ie g = if is_empty g then 0%nat else dim_body g.
Proof. destruct g; reflexivity. Qed.

Lemma dim_ie_le2 (g : geom) : (dim_ie g <= 2)%nat.
Proof.
  induction g using geomT_ind'; rewrite dim_ie_eq; destruct (is_empty _); cbn [dim_body]; try lia.
  apply fold_max_bound; [lia|]. rewrite Forall_forall in H. exact H.
Qed.

Lemma fold_max_attained (A : Type) (f : A -> nat) l :
  (0 < fold_left (fun d x => Nat.max d (f x)) l 0)%nat ->
  exists x, In x l /\ f x = fold_left (fun d x => Nat.max d (f x)) l 0%nat.
Proof.
  assert (G : forall l d0, fold_left (fun d x => Nat.max d (f x)) l d0 = d0 \/
                           exists x, In x l /\ f x = fold_left (fun d x => Nat.max d (f x)) l d0).
  { induction l0 as [|a l0 IH]; intros d0; simpl; [left; reflexivity|].
    destruct (IH (Nat.max d0 (f a))) as [E|[x [Hx E]]].
    - destruct (Nat.max_spec d0 (f a)) as [[_ M]|[_ M]].
      + right. exists a. split; [left; reflexivity|]. rewrite E. symmetry. exact M.
      + left. rewrite E. exact M.
    - right. exists x. split; [right; exact Hx|exact E]. }
  intros Hpos. destruct (G l 0%nat) as [E|E]; [lia|exact E].
Qed.

Lemma dimension_new_multipoint ps : dimension (new_multipoint 0 ps) = 0%nat.
Proof. destruct (new_multipoint_shape ps) as [ct ->]. reflexivity. Qed.
Lemma dimension_new_multiline ls : dimension (new_multiline 0 ls) = 1%nat.
Proof. destruct (new_multiline_shape ls) as [ct ->]. reflexivity. Qed.

(* with Go's Dimension(), for the six non-collection types and without any hypothesis *)
Lemma boundary_dim_go_lemma (g : geom) :
  (forall ct gs, g <> GColl ct gs) ->
  match dimension g with
  | O => is_empty (boundary g) = true
  | S d => dimension (boundary g) = d
  end.
Proof.
  destruct g; cbn [dimension boundary]; intros Hn; try reflexivity.
  - unfold line_boundary. destruct (_ || _); [reflexivity|apply dimension_new_multipoint].
  - unfold poly_boundary_geom. rewrite poly_boundary_mls_eq.
    destruct (map line2d (poly_rings p)) as [|l [|l2 r]]; reflexivity.
  - apply dimension_new_multipoint.
  - apply dimension_new_multiline.
  - exfalso. eapply Hn. reflexivity.
Qed.

Lemma dim_ie_nonempty_mpoint ct ps : dim_ie (GMPoint ct ps) = 0%nat.
Proof. rewrite dim_ie_eq. destruct (is_empty _); reflexivity. Qed.

(* the boundary of a well-formed geometry of dimension 2 is not empty *)
Lemma ring_ok_nonempty l : ring_ok l = true -> line_empty l = false.
Proof. unfold ring_ok. intros H. apply andb_prop in H. destruct H as [H _]. apply negb_true_iff in H. exact H. Qed.

Lemma dim2_boundary_nonempty (g : geom) :
  geom_wf g = true -> dim_ie g = 2%nat -> is_empty (boundary g) = false.
Proof.
  induction g using geomT_ind'; rewrite dim_ie_eq; cbn [geom_wf boundary dim_body]; intros Hwf;
    destruct (is_empty _) eqn:He; try discriminate; intros Hd; try discriminate.
  - (* polygon *)
    unfold poly_boundary_geom. rewrite poly_boundary_mls_eq. destruct p as [ct rs]. cbn [poly_rings is_empty] in *.
    destruct rs as [|r rs]; [discriminate|]. unfold poly_wf in Hwf. cbn [poly_rings forallb] in Hwf.
    apply andb_prop in Hwf. destruct Hwf as [Hr _]. apply ring_ok_nonempty in Hr.
    destruct rs as [|r2 rs]; cbn [map is_empty forallb]; unfold line2d; rewrite line_empty_force, Hr; reflexivity.
  - (* multipolygon *)
    unfold mpoly_boundary. rewrite is_empty_new_multiline. cbn [is_empty] in He.
    apply not_true_iff_false. intro Hall. apply not_true_iff_false in He. apply He.
    rewrite forallb_forall in *. intros y Hy. specialize (Hwf y Hy).
    destruct y as [c [|r rs]]; [reflexivity|]. exfalso.
    unfold poly_wf in Hwf. cbn [poly_rings forallb] in Hwf. apply andb_prop in Hwf. destruct Hwf as [Hr _].
    apply ring_ok_nonempty in Hr.
    assert (Hin : In (line2d r) (flat_map (fun y => map line2d (poly_rings y)) ps)).
    { apply in_flat_map. exists (MkPoly c (r :: rs)). split; [exact Hy|left; reflexivity]. }
    specialize (Hall _ Hin). unfold line2d in Hall. rewrite line_empty_force in Hall. congruence.
  - (* collection *)
    cbn [is_empty] in He. rewrite He.
    destruct (fold_max_attained _ dim_ie gs) as [x [Hx Ex]]; [lia|]. rewrite Hd in Ex.
    rewrite Forall_forall in H. rewrite forallb_forall in Hwf.
    specialize (H x Hx (Hwf x Hx) Ex).
    cbn [is_empty]. apply not_true_iff_false. intro Hall. rewrite forallb_forall in Hall.
    assert (Hin : In (force2d (boundary x)) (filter (fun b => negb (is_empty b)) (map (fun g' => force2d (boundary g')) gs))).
    { apply filter_In. split; [apply in_map_iff; exists x; auto|]. unfold force2d. rewrite is_empty_force, H. reflexivity. }
    specialize (Hall _ Hin). unfold force2d in Hall. rewrite is_empty_force in Hall. congruence.
Qed.

Theorem boundary_dim_lemma (g : geom) :
  geom_wf g = true -> is_empty (boundary g) = true \/ S (dim_ie (boundary g)) = dim_ie g.
Proof.
  induction g using geomT_ind'; intros Hwf.
  - left; reflexivity.
  - destruct (is_empty (boundary (GLine l))) eqn:Eb; [left; reflexivity|right].
    assert (Hg : is_empty (GLine l) = false).
    { destruct (is_empty (GLine l)) eqn:E; [|reflexivity]. rewrite (boundary_of_empty _ E) in Eb. discriminate. }
    rewrite (dim_ie_eq (GLine l)), Hg. cbn [dim_body boundary] in *. unfold line_boundary in *.
    destruct (_ || _); [discriminate|]. destruct (new_multipoint_shape [start_point l; end_point l]) as [c ->].
    rewrite dim_ie_nonempty_mpoint. reflexivity.
  - destruct (is_empty (boundary (GPoly p))) eqn:Eb; [left; reflexivity|right].
    assert (Hg : is_empty (GPoly p) = false).
    { destruct (is_empty (GPoly p)) eqn:E; [|reflexivity]. rewrite (boundary_of_empty _ E) in Eb. discriminate. }
    rewrite (dim_ie_eq (GPoly p)), Hg. cbn [dim_body]. rewrite dim_ie_eq, Eb.
    cbn [boundary]. unfold poly_boundary_geom. rewrite poly_boundary_mls_eq.
    destruct (map line2d (poly_rings p)) as [|a [|b r]]; reflexivity.
  - left; reflexivity.
  - destruct (is_empty (boundary (GMLine ct ls))) eqn:Eb; [left; reflexivity|right].
    assert (Hg : is_empty (GMLine ct ls) = false).
    { destruct (is_empty (GMLine ct ls)) eqn:E; [|reflexivity]. rewrite (boundary_of_empty _ E) in Eb. discriminate. }
    rewrite (dim_ie_eq (GMLine ct ls)), Hg. cbn [dim_body boundary]. unfold mline_boundary.
    destruct (new_multipoint_shape (mod2_points ls)) as [c ->]. rewrite dim_ie_nonempty_mpoint. reflexivity.
  - destruct (is_empty (boundary (GMPoly ct ps))) eqn:Eb; [left; reflexivity|right].
    assert (Hg : is_empty (GMPoly ct ps) = false).
    { destruct (is_empty (GMPoly ct ps)) eqn:E; [|reflexivity]. rewrite (boundary_of_empty _ E) in Eb. discriminate. }
    rewrite (dim_ie_eq (GMPoly ct ps)), Hg. cbn [dim_body]. rewrite dim_ie_eq, Eb.
    cbn [boundary]. unfold mpoly_boundary.
    destruct (new_multiline_shape (flat_map (fun y => map line2d (poly_rings y)) ps)) as [c ->]. reflexivity.
  - (* collection *)
    destruct (is_empty (boundary (GColl ct gs))) eqn:Eb; [left; reflexivity|right].
    assert (Hg : is_empty (GColl ct gs) = false).
    { destruct (is_empty (GColl ct gs)) eqn:E; [|reflexivity]. rewrite (boundary_of_empty _ E) in Eb. discriminate. }
    rewrite (dim_ie_eq (GColl ct gs)), Hg. rewrite dim_ie_eq, Eb. cbn [dim_body].
    rewrite boundary_collection_structure_lemma in *. cbn [is_empty] in Hg. rewrite Hg in *.
    cbn [dim_body]. set (bs := filter (fun b => negb (is_empty b)) (map (fun g' => force2d (boundary g')) gs)) in *.
    set (D := fold_left (fun d g' => Nat.max d (dim_ie g')) gs 0%nat).
    set (B := fold_left (fun d g' => Nat.max d (dim_ie g')) bs 0%nat).
    rewrite Forall_forall in H. cbn [geom_wf] in Hwf. rewrite forallb_forall in Hwf.
    (* every member of bs is the non-empty boundary of a member: one dimension lower *)
    assert (Hb : forall b, In b bs -> exists x, In x gs /\ S (dim_ie b) = dim_ie x).
    { intros b Hb. apply filter_In in Hb. destruct Hb as [Hb Hne]. apply in_map_iff in Hb.
      destruct Hb as [x [<- Hx]]. exists x. split; [exact Hx|]. unfold force2d in *.
      rewrite is_empty_force in Hne. rewrite dim_ie_force.
      destruct (H x Hx (Hwf x Hx)) as [E|E]; [rewrite E in Hne; discriminate|exact E]. }
    assert (Hle : (S B <= D)%nat).
    { assert (Hne : bs <> []).
      { intro E0. cbn [is_empty] in Eb. rewrite E0 in Eb. discriminate. }
      destruct bs as [|b0 bs0] eqn:Ebs; [congruence|].
      assert (HB : forall b, In b (b0 :: bs0) -> (S (dim_ie b) <= D)%nat).
      { intros b Hin. destruct (Hb b Hin) as [x [Hx E]]. rewrite E. apply fold_max_ge. exact Hx. }
      assert (HB' : forall l d0, (S d0 <= D)%nat -> (forall b, In b l -> (S (dim_ie b) <= D)%nat) ->
                    (S (fold_left (fun d g' => Nat.max d (dim_ie g')) l d0) <= D)%nat).
      { induction l as [|a l IH]; intros d0 H0 Hl; simpl; [exact H0|].
        apply IH; [|intros; apply Hl; right; assumption].
        pose proof (Hl a (or_introl eq_refl)). lia. }
      unfold B. simpl. apply HB'; [|intros; apply HB; right; assumption].
      pose proof (HB b0 (or_introl eq_refl)). lia. }
    assert (Hge : (D <= S B)%nat).
    { pose proof (dim_ie_le2 (GColl ct gs)) as H2. rewrite dim_ie_eq in H2. cbn [is_empty] in H2. rewrite Hg in H2.
      cbn [dim_body] in H2. fold D in H2.
      destruct (Nat.eq_dec D 2) as [E2|N2]; [|lia].
      (* a member of dimension 2 has a non-empty boundary of dimension 1 *)
      destruct (fold_max_attained _ dim_ie gs) as [x [Hx Ex]]; [fold D; lia|]. fold D in Ex. rewrite E2 in Ex.
      pose proof (dim2_boundary_nonempty x (Hwf x Hx) Ex) as Hne.
      assert (Hin : In (force2d (boundary x)) bs).
      { apply filter_In. split; [apply in_map_iff; exists x; auto|]. unfold force2d. rewrite is_empty_force, Hne. reflexivity. }
      pose proof (fold_max_ge _ dim_ie bs 0%nat _ Hin) as Hm. fold B in Hm.
      unfold force2d in Hm. rewrite dim_ie_force in Hm.
      destruct (H x Hx (Hwf x Hx)) as [E|E]; [congruence|]. lia. }
    fold B. fold D. lia.
Qed.

(* ================================================================ the mod-2 rule *)
(* ordinates of the non-empty points of a list, in order *)
Definition xys (ps : list (pointT Q)) : list pt :=
  flat_map (fun q => match point_xy q with Some c => [c] | None => [] end) ps.
Definition cnt (p : pt) (l : list pt) : nat := length (filter (pt_eqb p) l).

Lemma cnt_app p a b : cnt p (a ++ b) = (cnt p a + cnt p b)%nat.
Proof. unfold cnt. rewrite filter_app, app_length. reflexivity. Qed.
Lemma cnt_eq p q l : pt_eqb p q = true -> cnt p l = cnt q l.
Proof.
  intros H. unfold cnt. induction l as [|a l IH]; [reflexivity|]. simpl.
  rewrite (pt_eqb_trans_l p q a H). destruct (pt_eqb q a); simpl; congruence.
Qed.
Lemma cnt_pos_iff p l : (0 < cnt p l)%nat <-> existsb (pt_eqb p) l = true.
Proof.
  unfold cnt. induction l as [|a l IH]; simpl; [split; [lia|discriminate]|].
  destruct (pt_eqb p a); simpl; [split; [reflexivity|lia]|exact IH].
Qed.

Lemma count_xy_cnt ps p : count_xy ps p = cnt p (xys ps).
Proof.
  unfold count_xy, cnt, xys. induction ps as [|q ps IH]; [reflexivity|]. simpl.
  destruct (point_xy q) as [c|]; simpl; [|exact IH]. destruct (pt_eqb p c); simpl; rewrite IH; reflexivity.
Qed.

Lemma in_point_xy q p : in_point q p = match point_xy q with Some c => pt_eqb p c | None => false end.
Proof. destruct q as [ct [v|]]; simpl; [apply orb_false_r|reflexivity]. Qed.

(* first occurrences: one representative of every ordinate pair not yet seen *)
Lemma first_occurrences_exists seen ps p :
  existsb (fun q => in_point q p) (first_occurrences seen ps) =
  negb (existsb (pt_eqb p) seen) && existsb (pt_eqb p) (xys ps).
Proof.
  revert seen. induction ps as [|q ps IH]; intros seen; [simpl; rewrite andb_false_r; reflexivity|].
  change (xys (q :: ps)) with ((match point_xy q with Some c => [c] | None => [] end) ++ xys ps).
  cbn [first_occurrences]. destruct (point_xy q) as [c|] eqn:Ec; cbn [app existsb].
  - destruct (existsb (pt_eqb c) seen) eqn:Es.
    + rewrite IH. destruct (pt_eqb p c) eqn:Epc; cbn [orb]; [|reflexivity].
      (* p == c and c was seen: p was seen *)
      assert (Hs : existsb (pt_eqb p) seen = true).
      { apply existsb_exists in Es. destruct Es as [s [Hs1 Hs2]]. apply existsb_exists. exists s.
        split; [exact Hs1|]. rewrite (pt_eqb_trans_l p c s Epc). exact Hs2. }
      rewrite Hs. reflexivity.
    + cbn [existsb]. rewrite in_point_xy, Ec, IH. cbn [existsb].
      destruct (pt_eqb p c) eqn:Epc; cbn [orb negb andb].
      * assert (Hs : existsb (pt_eqb p) seen = false).
        { apply not_true_iff_false. intro Hs. apply not_true_iff_false in Es. apply Es.
          apply existsb_exists in Hs. destruct Hs as [s [Hs1 Hs2]]. apply existsb_exists. exists s.
          split; [exact Hs1|]. rewrite <- (pt_eqb_trans_l p c s Epc). exact Hs2. }
        rewrite Hs. reflexivity.
      * reflexivity.
  - apply IH.
Qed.

Lemma existsb_filter {A} (f g : A -> bool) l : existsb f (filter g l) = existsb (fun x => g x && f x) l.
Proof. induction l as [|a l IH]; [reflexivity|]. simpl. destruct (g a); simpl; rewrite IH; reflexivity. Qed.

Lemma odd_pos n : Nat.odd n = true -> (0 < n)%nat.
Proof. destruct n; [discriminate|lia]. Qed.

Lemma mod2_points_spec ls p :
  existsb (fun q => in_point q p) (mod2_points ls) = Nat.odd (cnt p (xys (mline_endpoints ls))).
Proof.
  unfold mod2_points. set (eps := mline_endpoints ls). rewrite existsb_filter.
  transitivity (Nat.odd (cnt p (xys eps)) && existsb (fun q => in_point q p) (first_occurrences [] eps)).
  - induction (first_occurrences [] eps) as [|q l IH]; simpl; [rewrite andb_false_r; reflexivity|].
    rewrite IH. rewrite in_point_xy. destruct (point_xy q) as [c|]; simpl.
    + destruct (pt_eqb p c) eqn:E; simpl.
      * rewrite count_xy_cnt, <- (cnt_eq p c _ E). rewrite andb_true_r.
        destruct (Nat.odd (cnt p (xys eps))); reflexivity.
      * rewrite andb_false_r. reflexivity.
    + reflexivity.
  - rewrite first_occurrences_exists. simpl.
    destruct (Nat.odd (cnt p (xys eps))) eqn:Eo; [|reflexivity]. simpl.
    apply cnt_pos_iff. apply odd_pos. exact Eo.
Qed.

(* per member: the end points the loop emits are Planar.line_ends *)
Lemma pts_closed_line l : line_empty l = false -> pts_closed (line_pts l) = line_is_closed l.
Proof.
  destruct l as [ct [|a r]]; [discriminate|]. intros _. unfold line_pts, line_is_closed, pts_closed. cbn [line_vs map].
  rewrite (last_map vpt). reflexivity.
Qed.

Lemma member_endpoints l :
  xys (filter (fun p => negb (point_empty p)) (if line_is_closed l then [] else [start_point l; end_point l]))
  = line_ends l.
Proof.
  destruct l as [ct [|a r]]; [reflexivity|].
  unfold line_ends. rewrite pts_closed_line by reflexivity.
  destruct (line_is_closed (MkLine ct (a :: r))); [reflexivity|].
  unfold line_pts. cbn [line_vs map start_point end_point hd_error filter point_empty point_c negb xys flat_map point_xy option_map app].
  rewrite (last_map vpt). reflexivity.
Qed.

Lemma xys_app a b : xys (a ++ b) = xys a ++ xys b.
Proof. unfold xys. apply flat_map_app. Qed.

Lemma mline_endpoints_ends ls : xys (mline_endpoints ls) = flat_map line_ends ls.
Proof.
  unfold mline_endpoints. induction ls as [|l ls IH]; [reflexivity|].
  simpl. rewrite filter_app, xys_app, IH, member_endpoints. reflexivity.
Qed.

Lemma line_ends_cnt l p : cnt p (line_ends l) = if open_end_of l p then 1%nat else 0%nat.
Proof.
  destruct l as [ct [|a r]]; [reflexivity|].
  unfold line_ends, open_end_of. rewrite pts_closed_line by reflexivity.
  destruct (line_is_closed (MkLine ct (a :: r))) eqn:Ec; [reflexivity|].
  unfold line_pts. cbn [line_vs map negb andb]. rewrite (last_map vpt). unfold cnt. cbn [filter].
  unfold line_is_closed in Ec. cbn [line_vs] in Ec.
  destruct (pt_eqb p (vpt a)) eqn:E1; destruct (pt_eqb p (vpt (last r a))) eqn:E2; try reflexivity.
  (* both: a == last, contradiction with not closed *)
  exfalso. rewrite (pt_eqb_sym p (vpt a)) in E1. rewrite (pt_eqb_trans_l _ _ _ E1) in Ec. congruence.
Qed.

Lemma ends_cnt ls p : cnt p (flat_map line_ends ls) = length (filter (fun l => open_end_of l p) ls).
Proof.
  induction ls as [|l ls IH]; [reflexivity|]. simpl. rewrite cnt_app, IH, line_ends_cnt.
  destruct (open_end_of l p); reflexivity.
Qed.

Theorem boundary_mod2_spec_lemma ls p : inG (mline_boundary ls) p = odd_open_ends ls p.
Proof.
  unfold mline_boundary, odd_open_ends. rewrite inG_new_multipoint, mod2_points_spec, mline_endpoints_ends, ends_cnt.
  reflexivity.
Qed.

(* ================================================================ Boundary(g) against locate *)
Lemma odd_ends_cnt ends p : odd_ends ends p = Nat.odd (cnt p ends).
Proof.
  unfold odd_ends, cnt.
  assert (G : forall acc, fold_left (fun acc e => xorb acc (pt_eqb p e)) ends acc
                          = xorb acc (Nat.odd (length (filter (pt_eqb p) ends)))).
  { induction ends as [|e ends IH]; intros acc; simpl; [rewrite xorb_false_r; reflexivity|].
    rewrite IH. destruct (pt_eqb p e); simpl.
    - rewrite Nat.odd_succ, <- Nat.negb_odd. destruct acc, (Nat.odd _); reflexivity.
    - rewrite xorb_false_r. reflexivity. }
  rewrite G. apply xorb_false_l.
Qed.

(* every control point of a line string is on it *)
Lemma ring_edges_vertex ps q : (2 <= length ps)%nat -> In q ps ->
  exists e, In e (ring_edges ps) /\ (fst e = q \/ snd e = q).
Proof.
  induction ps as [|a [|b r] IH]; simpl; intros Hl Hin; try lia.
  destruct Hin as [<-|Hin].
  - exists (a, b). split; [left; reflexivity|left; reflexivity].
  - destruct r as [|c r].
    + destruct Hin as [<-|[]]. exists (a, b). split; [left; reflexivity|right; reflexivity].
    + destruct IH as [e [He Hq]]; [simpl; lia|exact Hin|]. exists e. split; [right; exact He|exact Hq].
Qed.

Lemma vertex_on_line l v : In v (line_vs l) -> on_line l (vpt v) = true.
Proof.
  intros Hin. unfold on_line, line_segs, on_edges. apply existsb_exists.
  assert (Hq : In (vpt v) (line_pts l)) by (unfold line_pts; apply in_map; exact Hin).
  destruct (line_pts l) as [|a [|b r]] eqn:E.
  - destruct Hq.
  - destruct Hq as [<-|[]]. exists (a, a). split; [left; reflexivity|apply on_seg_left].
  - unfold segs_of_pts. destruct (ring_edges_vertex (a :: b :: r) (vpt v)) as [e [He Hq']]; [simpl; lia|exact Hq|].
    exists e. split; [exact He|]. destruct e as [e1 e2]. cbn [fst snd] in Hq'.
    destruct Hq' as [<-|<-]; [apply on_seg_left|apply on_seg_right].
Qed.

Lemma on_line_proper l p q : pt_eqb p q = true -> on_line l p = on_line l q.
Proof.
  intros H. apply pt_eqb_iff in H. unfold on_line, on_edges. apply existsb_ext_in. intros [a b] _.
  apply on_seg_proper; [reflexivity|reflexivity|exact H].
Qed.

Lemma last_in {A} (r : list A) a : In (last r a) (a :: r).
Proof.
  revert a. induction r as [|b r IH]; intros a; [left; reflexivity|].
  destruct r as [|c r]; [right; left; reflexivity|].
  change (last (b :: c :: r) a) with (last (c :: r) a).
  destruct (IH a) as [E|E]; [left; exact E|right; right; exact E].
Qed.

Lemma open_end_on_line l p : open_end_of l p = true -> on_line l p = true.
Proof.
  unfold open_end_of. destruct l as [ct [|a r]]; cbn [line_vs]; intros H; apply andb_prop in H; destruct H as [_ H]; [discriminate|].
  apply orb_true_iff in H. destruct H as [H|H]; rewrite (on_line_proper _ _ _ H); apply vertex_on_line; cbn [line_vs].
  - left; reflexivity.
  - apply last_in.
Qed.

Lemma odd_length_filter_exists {A} (f : A -> bool) l : Nat.odd (length (filter f l)) = true -> exists x, In x l /\ f x = true.
Proof.
  intros H. apply odd_pos in H. destruct (filter f l) as [|x r] eqn:E; [simpl in H; lia|].
  assert (Hin : In x (filter f l)) by (rewrite E; left; reflexivity). apply filter_In in Hin. exists x. exact Hin.
Qed.

(* lineal: membership in Boundary(g) is exactly "locates as Boundary" *)
Lemma locate_mline ct ls p :
  locate (GMLine ct ls) p = Boundary <-> odd_open_ends ls p = true.
Proof.
  unfold locate, prep, locate_p. cbn [g_polys g_lines g_points map existsb pg_polys pg_lines pg_ends pg_points].
  rewrite odd_ends_cnt, ends_cnt. fold (odd_open_ends ls p).
  destruct (odd_open_ends ls p) eqn:Eo.
  - assert (Hon : existsb (fun es => on_edges es p) (map line_segs ls) = true).
    { unfold odd_open_ends in Eo. apply odd_length_filter_exists in Eo. destruct Eo as [l [Hl He]].
      rewrite existsb_map. apply existsb_exists. exists l. split; [exact Hl|]. apply open_end_on_line in He. exact He. }
    rewrite Hon. split; reflexivity.
  - destruct (existsb _ (map line_segs ls)); split; intros; discriminate.
Qed.

Lemma locate_line_mline l p : locate (GLine l) p = locate (GMLine XY [l]) p.
Proof. reflexivity. Qed.

Lemma inG_line_boundary l p : inG (line_boundary l) p = open_end_of l p.
Proof.
  unfold line_boundary, open_end_of. destruct l as [ct [|a r]]; [reflexivity|].
  cbn [line_empty line_vs orb]. destruct (line_is_closed (MkLine ct (a :: r))); [reflexivity|].
  rewrite inG_new_multipoint. cbn [existsb negb andb]. rewrite !in_point_xy.
  cbn [start_point end_point line_vs hd_error point_xy point_c option_map line_ct]. rewrite orb_false_r. reflexivity.
Qed.

Theorem boundary_locate_lineal_lemma (g : geom) p :
  (exists l, g = GLine l) \/ (exists ct ls, g = GMLine ct ls) ->
  (inG (boundary g) p = true <-> locate g p = Boundary).
Proof.
  intros [[l ->]|[ct [ls ->]]]; cbn [boundary].
  - rewrite inG_line_boundary, locate_line_mline, locate_mline. unfold odd_open_ends. cbn [filter].
    destruct (open_end_of l p); simpl; split; auto.
  - rewrite boundary_mod2_spec_lemma, locate_mline. reflexivity.
Qed.

(* areal *)
Lemma rings_boundary_not_interior rs p : rings_boundary rs p = true -> rings_interior rs p = false.
Proof.
  destruct rs as [|sh hs]; [reflexivity|]. cbn [rings_boundary existsb rings_interior]. intros H.
  apply orb_true_iff in H. destruct H as [H|H].
  - unfold ring_strict_in. rewrite H. reflexivity.
  - apply andb_false_iff. right. apply existsb_exists in H. destruct H as [h [Hh Hon]].
    apply not_true_iff_false. intro Hall. rewrite forallb_forall in Hall. specialize (Hall h Hh).
    unfold ring_strict_out in Hall. rewrite Hon in Hall. discriminate.
Qed.

Lemma inG_poly_boundary y p : inG (boundary (GPoly y)) p = poly_boundary y p.
Proof.
  cbn [boundary]. unfold poly_boundary_geom. rewrite poly_boundary_mls_eq.
  unfold poly_boundary, rings_boundary, poly_ring_segs. rewrite existsb_map.
  assert (E : inG (GMLine XY (map line2d (poly_rings y))) p = existsb (fun l => on_edges (line_segs l) p) (poly_rings y)).
  { cbn [inG]. rewrite existsb_map. apply existsb_ext_in. intros l _. unfold line2d. apply on_line_force. }
  rewrite <- E. destruct (map line2d (poly_rings y)) as [|l [|l2 r]]; cbn [inG existsb]; rewrite ?orb_false_r; reflexivity.
Qed.

Theorem boundary_locate_polygon_lemma y p :
  inG (boundary (GPoly y)) p = true <-> locate (GPoly y) p = Boundary.
Proof.
  rewrite inG_poly_boundary. unfold locate, prep, locate_p, poly_boundary.
  cbn [g_polys g_lines g_points map existsb pg_polys pg_lines pg_ends pg_points]. rewrite !orb_false_r.
  destruct (rings_boundary (poly_ring_segs y) p) eqn:Eb.
  - rewrite (rings_boundary_not_interior _ _ Eb). split; reflexivity.
  - destruct (rings_interior (poly_ring_segs y) p); split; intros; discriminate.
Qed.

Lemma inG_mpoly_boundary ct ys p :
  inG (boundary (GMPoly ct ys)) p = existsb (fun y => poly_boundary y p) ys.
Proof.
  cbn [boundary]. unfold mpoly_boundary. rewrite inG_new_multiline.
  induction ys as [|y ys IH]; [reflexivity|]. cbn [flat_map existsb]. rewrite existsb_app, IH. f_equal.
  unfold poly_boundary, rings_boundary, poly_ring_segs. rewrite !existsb_map.
  apply existsb_ext_in. intros l _. unfold line2d. apply on_line_force.
Qed.

(* MultiPolygon: a point of Boundary(g) locates as Boundary unless it is strictly inside another
   member (excluded for valid input: members have disjoint interiors and touch at points only) *)
Theorem boundary_locate_multipolygon_lemma ct ys p :
  locate (GMPoly ct ys) p = Boundary <->
  inG (boundary (GMPoly ct ys)) p = true /\ existsb (fun y => poly_interior y p) ys = false.
Proof.
  rewrite inG_mpoly_boundary. unfold locate, prep, locate_p.
  cbn [g_polys g_lines g_points map existsb pg_polys pg_lines pg_ends pg_points]. rewrite !existsb_map.
  change (existsb (fun x => rings_interior (poly_ring_segs x) p) ys) with (existsb (fun y => poly_interior y p) ys).
  change (existsb (fun x => rings_boundary (poly_ring_segs x) p) ys) with (existsb (fun y => poly_boundary y p) ys).
  destruct (existsb (fun y => poly_interior y p) ys); [split; [discriminate|intros [_ H]; discriminate]|].
  destruct (existsb (fun y => poly_boundary y p) ys); split; try reflexivity; try discriminate; auto.
  intros [H _]. discriminate.
Qed.
